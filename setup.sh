#!/bin/sh
# Offline setup: build the translator, generate the tables, build the Lean project (all proofs),
# the model driver and the Rust harness. Everything comes from files on disk.
set -e
cd "$(dirname "$0")"
export CARGO_NET_OFFLINE=true
mkdir -p .build/gen
cp /repo/Cargo.lock extract/Cargo.lock
(cd extract && cargo build --release --offline)
./extract/target/release/extract /repo lean/ZvtVerif/Generated.lean .build/gen/schema.json harness/src/gen_dispatch.rs
(cd lean && lake build ZvtVerif driver)
cp /repo/Cargo.lock harness/Cargo.lock
(cd harness && cargo build --offline && cargo build --release --offline)
(cd lean && lake build labdriver)
echo setup-ok
