import ZvtVerif.Basic
import ZvtVerif.Length
import ZvtVerif.Encoding
import ZvtVerif.Schema
import ZvtVerif.Derive
