/-
  Transport.lean — mirror of zvt/src/io.rs: `PacketTransport::read_packet` over a byte stream that
  arrives in chunks (one chunk per `poll_read` result), and of the scripted terminal the harness uses
  for the sequence checks.
-/
import ZvtVerif.Derive
namespace Zvt

/-- `read_exact(n)` over a chunked stream that ends after the last chunk: `n` bytes and the remaining
chunks, or `none` (UnexpectedEof) if the stream ends first. -/
def readExactChunks : Nat → List Bytes → Option (Bytes × List Bytes)
  | 0, cs => some ([], cs)
  | _ + 1, [] => none
  | n + 1, [] :: cs => readExactChunks (n + 1) cs
  | n + 1, (b :: c) :: cs =>
    match readExactChunks n (c :: cs) with
    | none => none
    | some (bs, rest) => some (b :: bs, rest)

/-- the same on the concatenated stream. -/
def readExactFlat (n : Nat) (s : Bytes) : Option (Bytes × Bytes) :=
  if s.length < n then none else some (s.take n, s.drop n)

inductive ReadRes where
  | packet (bytes : Bytes) (rest : Bytes)     -- one complete APDU and what follows it
  | eof (consumed : Nat)                      -- the stream ended inside the header / length / body
  deriving Repr

/-- the framing part of `read_packet` on a flat stream: 3 header bytes, if the third is FF two more
(little endian), then exactly `len` body bytes. -/
def readFrame (s : Bytes) : ReadRes :=
  match s with
  | a :: b :: l :: rest =>
    if l = 0xff then
      match rest with
      | lo :: hi :: rest' =>
        let n := lo.toNat + 256 * hi.toNat
        if rest'.length < n then .eof s.length
        else .packet (a :: b :: l :: lo :: hi :: rest'.take n) (rest'.drop n)
      | _ => .eof s.length
    else
      let n := l.toNat
      if rest.length < n then .eof s.length
      else .packet (a :: b :: l :: rest.take n) (rest.drop n)
  | _ => .eof s.length

/-- outcome of one `read_packet::<T>()` call -/
inductive PktOutcome where
  | ok (idx : Nat) (v : Val) (consumed : Nat)
  | zvtErr (e : Err) (consumed : Nat)
  | eof (consumed : Nat)

/-- read packets until the stream ends (the harness loop): a parse error does not stop the transport. -/
def readPackets (e : EnumDef) : Nat → Bytes → List PktOutcome
  | 0, _ => []
  | fuel + 1, s =>
    match readFrame s with
    | .eof n => [.eof n]
    | .packet p rest =>
      (match parseEnum e p with
        | .ok (i, v) => PktOutcome.ok i v p.length
        | .error er => PktOutcome.zvtErr er p.length) :: readPackets e fuel rest

end Zvt
