import ZvtVerif.Length
import ZvtVerif.Proofs.BytesLemmas
namespace Zvt

/-! ### LLVAR / LLLVAR -/

theorem llvSerRev_length (n k : Nat) : (llvSerRev n k).length = n := by
  induction n generalizing k with
  | zero => simp [llvSerRev]
  | succ n ih => simp [llvSerRev, ih]

/-- the decoder applied to the (MSD-first) digits: generalised accumulator form. -/
theorem llvDe_ser (n : Nat) : ∀ (k acc : Nat) (d : Bytes), k < 10 ^ n →
    llvDe n acc ((llvSerRev n k).reverse ++ d) = .ok (acc * 10 ^ n + k, d) := by
  induction n with
  | zero => intro k acc d h; simp at h; simp [llvSerRev, llvDe, h]
  | succ n ih =>
    intro k acc d h
    -- peel the *last* serialised digit (least significant) … work on the reversed list instead:
    -- (llvSerRev (n+1) k).reverse = (llvSerRev n (k/10)).reverse ++ [byte (0xf0 + k%10)]
    have hk : k / 10 < 10 ^ n := by
      rw [Nat.pow_succ] at h; omega
    simp only [llvSerRev, List.reverse_cons, List.append_assoc, List.singleton_append]
    -- general lemma: decoding n digits then one more
    have key : ∀ (m : Nat) (xs : Bytes) (a : Nat) (x : UInt8) (d : Bytes), xs.length = m →
        llvDe (m + 1) a (xs ++ x :: d) =
          match llvDe m a (xs ++ x :: d) with
          | .ok (v, _) => .ok (v * 10 + x.toNat % 16, d)
          | .error e => .error e := by
      intro m
      induction m with
      | zero => intro xs a x d hl; have : xs = [] := List.length_eq_zero_iff.mp hl; subst this; simp [llvDe]
      | succ m ihm =>
        intro xs a x d hl
        match xs, hl with
        | y :: ys, hl =>
          simp only [List.cons_append, llvDe]
          have := ihm ys (a * 10 + y.toNat % 16) x d (by simpa using hl)
          simpa [llvDe] using this
    rw [key n _ acc _ d (by simp [llvSerRev_length])]
    rw [ih (k / 10) acc _ hk]
    simp only [byte_toNat]
    have : (240 + k % 10) % 256 % 16 = k % 10 := by omega
    rw [this, Nat.pow_succ]
    congr 2
    have := Nat.div_add_mod k 10
    rw [Nat.add_mul, Nat.mul_assoc]
    omega

theorem llvDe_short (n : Nat) : ∀ (acc : Nat) (p : Bytes), p.length < n → llvDe n acc p = .error .incomplete := by
  induction n with
  | zero => intro acc p h; omega
  | succ n ih =>
    intro acc p h
    match p with
    | [] => simp [llvDe]
    | x :: xs => simp only [llvDe]; exact ih _ xs (by simpa using h)

theorem llvDe_append (n : Nat) : ∀ (acc : Nat) (b x : Bytes) (v : Nat) (r : Bytes),
    llvDe n acc b = .ok (v, r) → llvDe n acc (b ++ x) = .ok (v, r ++ x) := by
  induction n with
  | zero => intro acc b x v r h; simp [llvDe] at h ⊢; obtain ⟨rfl, rfl⟩ := h; simp
  | succ n ih =>
    intro acc b x v r h
    match b with
    | [] => simp [llvDe] at h
    | y :: ys => simp only [llvDe, List.cons_append] at h ⊢; exact ih _ ys x v r h

end Zvt
