/-
  NoPanic.lean — totality of the decoders: no Rust panic (index / slice / arithmetic / unwrap), no
  non-termination (`outOfFuel`), and the remainder handed back is never longer than the input.
-/
import ZvtVerif.Derive
import ZvtVerif.Proofs.EncodingLemmas
import ZvtVerif.Proofs.LengthLemmas
import ZvtVerif.Properties.C16
namespace Zvt

/-- "no panic, and the remainder is not longer than the input" -/
def NP {α : Type} (r : Res (α × Bytes)) (b : Bytes) : Prop :=
  r.isPanic = false ∧ ∀ v rem, r = .ok (v, rem) → rem.length ≤ b.length

theorem NP_error {α : Type} (e : Err) (b : Bytes) (h : e.isPanic = false) : NP (.error e : Res (α × Bytes)) b :=
  ⟨by simp [Res.isPanic, h], by intro v rem hh; cases hh⟩

theorem NP_ok {α : Type} (v : α) (r b : Bytes) (h : r.length ≤ b.length) : NP (.ok (v, r) : Res (α × Bytes)) b :=
  ⟨by simp [Res.isPanic], by intro v' rem hh; cases hh; exact h⟩

theorem NP_mono {α : Type} (r : Res (α × Bytes)) (b b' : Bytes) (h : NP r b) (hl : b.length ≤ b'.length) : NP r b' :=
  ⟨h.1, fun v rem hh => Nat.le_trans (h.2 v rem hh) hl⟩

theorem intDecode_np (be : Bool) (w : Nat) (b : Bytes) : NP (intDecode be w b) b := by
  unfold intDecode
  split
  · exact NP_error _ _ rfl
  · exact NP_ok _ _ _ (by simp)

theorem tagDecDefault_np (b : Bytes) : NP (tagDecDefault b) b := by
  unfold tagDecDefault
  match b with
  | [] => exact NP_error _ _ rfl
  | t :: rest =>
    simp only
    split
    · match rest with
      | [] => exact NP_error _ _ rfl
      | l :: rest' => exact NP_ok _ _ _ (by simp; omega)
    · exact NP_ok _ _ _ (by simp)

/-- a decoded tag always consumes at least one byte. -/
theorem tagDecDefault_lt (b : Bytes) (t : Nat) (r : Bytes) (h : tagDecDefault b = .ok (t, r)) : r.length < b.length := by
  unfold tagDecDefault at h
  match b, h with
  | t0 :: rest, h =>
    simp only at h
    split at h
    · match rest, h with
      | l :: rest', h => simp at h; rw [← h.2]; simp; omega
    · simp at h; rw [← h.2]; simp

theorem llvDe_np (n : Nat) : ∀ (acc : Nat) (b : Bytes), NP (llvDe n acc b) b := by
  induction n with
  | zero => intro acc b; exact NP_ok _ _ _ (Nat.le_refl _)
  | succ n ih =>
    intro acc b
    match b with
    | [] => exact NP_error _ _ rfl
    | d :: rest =>
      simp only [llvDe]
      exact NP_mono _ _ _ (ih _ rest) (by simp)

theorem lenDe_np (L : LenKind) (hL : ∀ s, L ≠ .unknown s) (b : Bytes) : NP (L.de b) b := by
  refine ⟨C16.de_no_panic L b hL, ?_⟩
  intro n p h
  cases L with
  | empty => simp [LenKind.de] at h; rw [← h.2]; exact Nat.le_refl _
  | fixed k =>
    simp only [LenKind.de] at h
    split at h
    · simp at h
    · simp at h; rw [← h.2]; exact Nat.le_refl _
  | tlv =>
    simp only [LenKind.de] at h
    match b, h with
    | d :: rest, h =>
      simp only at h
      split at h
      · simp at h; rw [← h.2]; simp
      · split at h
        · match rest, h with
          | l :: rest', h => simp at h; rw [← h.2]; simp; omega
        · split at h
          · match rest, h with
            | hh :: l :: rest', h => simp at h; rw [← h.2]; simp; omega
          · simp at h
  | llv k => exact (llvDe_np k 0 b).2 n p h
  | adpu =>
    simp only [LenKind.de] at h
    match b, h with
    | d :: rest, h =>
      simp only at h
      split at h
      · have := (intDecode_np false 2 rest).2 n p h
        simp; omega
      · simp at h; rw [← h.2]; simp
  | temperature =>
    simp only [LenKind.de] at h
    split at h
    · simp at h
    · simp at h; rw [← h.2]; exact Nat.le_refl _
  | unknown s => exact absurd rfl (hL s)

theorem stripTag_np (tagDec : Bytes → Res (Nat × Bytes)) (htd : ∀ x, NP (tagDec x) x) (tag : Option Nat) (b : Bytes) :
    (∀ e, stripTag tagDec tag b = .error e → e.isPanic = false) ∧
    (∀ r, stripTag tagDec tag b = .ok r → r.length ≤ b.length) := by
  unfold stripTag
  cases tag with
  | none => simp
  | some t =>
    simp only
    have hnp := htd b
    cases hd : tagDec b with
    | error e =>
      simp only
      refine ⟨?_, by intro r h; cases h⟩
      intro e' h; cases h
      have := hnp.1; rw [hd] at this; simpa [Res.isPanic] using this
    | ok p =>
      obtain ⟨a, r⟩ := p
      simp only
      split
      · refine ⟨?_, ?_⟩
        · intro e h; cases h; rfl
        · intro r' h; cases h
      · refine ⟨?_, ?_⟩
        · intro e h; cases h
        · intro r' h; cases h
          exact hnp.2 a r hd

/-- **the generic `<TAG><LENGTH><DATA>` decoder is total** if the payload decoder is: the length check
in front of the slice and the (never negative) remainder computation make every shim failure unreachable. -/
theorem deserTagged_np' {α : Type} (tagDec : Bytes → Res (Nat × Bytes)) (htd : ∀ x, NP (tagDec x) x)
    (L : LenKind) (hL : ∀ s, L ≠ .unknown s) (dec : Bytes → Res (α × Bytes))
    (hdec : ∀ x, NP (dec x) x) (tag : Option Nat) (b : Bytes) : NP (deserTagged tagDec L dec tag b) b := by
  unfold deserTagged
  have hs := stripTag_np tagDec htd tag b
  cases hst : stripTag tagDec tag b with
  | error e => exact NP_error _ _ (hs.1 e hst)
  | ok b1 =>
    have hb1 := hs.2 b1 hst
    simp only
    have hl := lenDe_np L hL b1
    cases hld : L.de b1 with
    | error e => simp only; exact NP_error _ _ (by have := hl.1; rw [hld] at this; simpa [Res.isPanic] using this)
    | ok q =>
      obtain ⟨n, p⟩ := q
      have hp := hl.2 n p hld
      simp only
      split
      · exact NP_error _ _ rfl
      · rename_i hle
        have hd := hdec (p.take n)
        cases hdd : dec (p.take n) with
        | error e => simp only; exact NP_error _ _ (by have := hd.1; rw [hdd] at this; simpa [Res.isPanic] using this)
        | ok w =>
          obtain ⟨v, rem⟩ := w
          have hr := hd.2 v rem hdd
          simp only
          have : ¬ (rem.length > n) := by simp at hr; omega
          simp only [this, if_false]
          exact NP_ok _ _ _ (by simp; omega)

theorem deserTagged_np {α : Type} (L : LenKind) (hL : ∀ s, L ≠ .unknown s) (dec : Bytes → Res (α × Bytes))
    (hdec : ∀ x, NP (dec x) x) (tag : Option Nat) (b : Bytes) : NP (deserTagged tagDecDefault L dec tag b) b :=
  deserTagged_np' tagDecDefault tagDecDefault_np L hL dec hdec tag b

theorem NP_err_of {α : Type} {r : Res (α × Bytes)} {b : Bytes} (h : NP r b) {e : Err} (he : r = .error e) : e.isPanic = false := by
  have := h.1; rw [he] at this; simpa [Res.isPanic] using this

/-- with an expected tag, a successful decode consumes at least the tag. -/
theorem deserTagged_some_lt {α : Type} (L : LenKind) (hL : ∀ s, L ≠ .unknown s) (dec : Bytes → Res (α × Bytes))
    (hdec : ∀ x, NP (dec x) x) (t : Nat) (b : Bytes) (v : α) (r : Bytes)
    (h : deserTagged tagDecDefault L dec (some t) b = .ok (v, r)) : r.length < b.length := by
  unfold deserTagged stripTag at h
  cases htd : tagDecDefault b with
  | error e => simp [htd] at h
  | ok p =>
    obtain ⟨a, r0⟩ := p
    have h1 := tagDecDefault_lt b a r0 htd
    simp only [htd] at h
    split at h
    · simp at h
    · rename_i b1 hb1
      split at hb1
      · simp at hb1
      · simp at hb1
        subst hb1
        have hl := lenDe_np L hL r0
        cases hld : L.de r0 with
        | error e => simp [hld] at h
        | ok q2 =>
          obtain ⟨n, p⟩ := q2
          have hp := hl.2 n p hld
          simp only [hld] at h
          split at h
          · simp at h
          · cases hbd : dec (p.take n) with
            | error e => simp [hbd] at h
            | ok q3 =>
              obtain ⟨v', rem⟩ := q3
              simp only [hbd] at h
              split at h
              · simp at h
              · simp at h
                rw [← h.2]; simp; omega

/-! ### leaf decoders -/

theorem bcdStep_np (w rv : Nat) (d : UInt8) (e : Err) (h : bcdStep w rv d = .error e) : e.isPanic = false := by
  unfold bcdStep at h
  simp only at h
  split at h <;> (split at h <;> first | (simp at h; done) | (simp at h; subst h; rfl))

theorem bcdDecFrom_np (w : Nat) : ∀ (ds : Bytes) (rv : Nat), ∀ e, bcdDecFrom w rv ds = .error e → e.isPanic = false := by
  intro ds
  induction ds with
  | nil => intro rv e h; simp [bcdDecFrom] at h
  | cons d ds ih =>
    intro rv e h
    simp only [bcdDecFrom] at h
    cases hs : bcdStep w rv d with
    | error e' => simp only [hs] at h; cases h; exact bcdStep_np w rv d e hs
    | ok nx => simp only [hs] at h; exact ih _ e h

theorem bcdDec_np (w : Nat) (b : Bytes) : NP (bcdDec w b) b := by
  unfold bcdDec
  cases h : bcdDecFrom w 0 b with
  | error e => exact NP_error _ _ (bcdDecFrom_np w b 0 e h)
  | ok n => exact NP_ok _ _ _ (by simp)

theorem prrnDec_np (w : Nat) (b : Bytes) : NP (prrnDec w b) b := by
  unfold prrnDec
  match b with
  | [] => exact NP_error _ _ rfl
  | [_] => exact NP_error _ _ rfl
  | b0 :: b1 :: rest =>
    simp only
    split
    · exact NP_ok _ _ _ (by simp; omega)
    · have := bcdDec_np w [b0, b1]
      cases h : bcdDec w [b0, b1] with
      | error e => simp only; exact NP_error _ _ (NP_err_of this h)
      | ok p => obtain ⟨n, r⟩ := p; simp only; exact NP_ok _ _ _ (by simp; omega)

/-- the date-time loop: each round consumes at least the tag, so `length + 1` rounds of fuel suffice. -/
theorem dtLoop_np : ∀ (fuel : Nat) (data : Bytes) (acc : DtAcc), data.length < fuel → NP (dtLoop fuel data acc) data := by
  intro fuel
  induction fuel with
  | zero => intro data acc h; omega
  | succ fuel ih =>
    intro data acc hf
    simp only [dtLoop]
    split
    · exact NP_ok _ _ _ (Nat.le_refl _)
    · have htag := tagDecDefault_np data
      cases htd : tagDecDefault data with
      | error e => simp only; exact NP_error _ _ (NP_err_of htag htd)
      | ok p =>
        obtain ⟨t, r0⟩ := p
        simp only
        have sub : ∀ (w : Nat) (tg : Nat) (acc' : Nat → DtAcc),
            NP (match deserTagged tagDecDefault .tlv (bcdDec w) (some tg) data with
                    | .error e => (.error e : Res (DtAcc × Bytes))
                    | .ok (d, rest) => dtLoop fuel rest (acc' d)) data := by
          intro w tg acc'
          have hd := deserTagged_np .tlv (by intro s h; cases h) (bcdDec w) (bcdDec_np w) (some tg) data
          cases hdd : deserTagged tagDecDefault .tlv (bcdDec w) (some tg) data with
          | error e => simp only; exact NP_error _ _ (NP_err_of hd hdd)
          | ok q =>
            obtain ⟨d, rest⟩ := q
            simp only
            have hlt := deserTagged_some_lt .tlv (by intro s h; cases h) (bcdDec w) (bcdDec_np w) tg data d rest hdd
            exact NP_mono _ _ _ (ih rest (acc' d) (by omega)) (Nat.le_of_lt hlt)
        split
        · split
          · exact NP_error _ _ rfl
          · exact sub 8 0x1f0e (fun d => { acc with date := some d })
        · split
          · split
            · exact NP_error _ _ rfl
            · exact sub 4 0x1f0f (fun d => { acc with time := some d })
          · exact NP_ok _ _ _ (Nat.le_refl _)

theorem dtDecode_np (b : Bytes) : NP (dtDecode b) b := by
  unfold dtDecode
  have h := dtLoop_np (b.length + 1) b {} (by omega)
  cases hd : dtLoop (b.length + 1) b {} with
  | error e => simp only; exact NP_error _ _ (NP_err_of h hd)
  | ok p =>
    obtain ⟨acc, rest⟩ := p
    have hr := h.2 acc rest hd
    simp only
    split
    · split
      · exact NP_ok _ _ _ hr
      · exact NP_error _ _ rfl
    · exact NP_error _ _ rfl

/-- the (encoding, type) combinations the builder implements. -/
def leafTyped : Enc → Ty → Bool
  | .dflt, .int _ => true | .bigEndian, .int _ => true | .bcd, .int _ => true | .prrn, .int _ => true
  | .dflt, .str => true | .hex, .str => true | .utf8, .str => true
  | .custom, .bytes => true
  | .dflt, .dateTime => true
  | _, _ => false

theorem NP_map {α β : Type} (f : α → β) (r : Res (α × Bytes)) (b : Bytes) (h : NP r b) :
    NP (r.map fun (n, x) => (f n, x)) b := by
  cases hr : r with
  | error e => exact NP_error _ _ (NP_err_of h hr)
  | ok p => obtain ⟨n, x⟩ := p; exact NP_ok _ _ _ (h.2 n x hr)

theorem leafDec_np (E : Enc) (t : Ty) (h : leafTyped E t = true) (b : Bytes) : NP (leafDec E t b) b := by
  cases E <;> cases t <;> simp [leafTyped] at h <;> simp only [leafDec]
  · exact NP_map _ _ _ (intDecode_np false _ b)
  · exact NP_ok _ _ _ (by simp)
  · exact dtDecode_np b
  · exact NP_map _ _ _ (intDecode_np true _ b)
  · exact NP_map _ _ _ (bcdDec_np _ b)
  · exact NP_ok _ _ _ (by simp)
  · split
    · exact NP_ok _ _ _ (by simp)
    · exact NP_error _ _ rfl
  · exact NP_ok _ _ _ (by simp)
  · exact NP_map _ _ _ (prrnDec_np _ b)

/-! ### the loops of the generic layer -/

/-- `Vec<T>`: with the progress guard every round strictly shortens the input, so `length + 1` rounds suffice. -/
theorem vecLoop_np (elem : Bytes → Res (Val × Bytes)) (helem : ∀ x, NP (elem x) x) :
    ∀ (fuel : Nat) (bytes : Bytes) (items : List Val), bytes.length < fuel → NP (vecLoop elem fuel bytes items) bytes := by
  intro fuel
  induction fuel with
  | zero => intro bytes items h; omega
  | succ fuel ih =>
    intro bytes items hf
    simp only [vecLoop]
    have he := helem bytes
    cases hd : elem bytes with
    | error e =>
      simp only
      have : e.isPanic = false := NP_err_of he hd
      simp only [this]
      exact NP_ok _ _ _ (Nat.le_refl _)
    | ok p =>
      obtain ⟨item, rest⟩ := p
      have hr := he.2 item rest hd
      simp only
      split
      · exact NP_ok _ _ _ (Nat.le_refl _)
      · rename_i hne
        exact NP_mono _ _ _ (ih rest (item :: items) (by omega)) hr

/-- outcome of the tag loop: no panic, no fuel exhaustion, remainder not longer than the input. -/
def TLok (r : Res (List (Nat × Val) × List Nat × Bytes)) (b : Bytes) : Prop :=
  (∀ e, r = .error e → e.isPanic = false) ∧ (∀ acc seen rest, r = .ok (acc, seen, rest) → rest.length ≤ b.length)

theorem TLok_ok (acc : List (Nat × Val)) (seen : List Nat) (rest b : Bytes) (h : rest.length ≤ b.length) :
    TLok (.ok (acc, seen, rest)) b := by
  constructor
  · intro e he; cases he
  · intro a s r he; cases he; exact h

theorem TLok_err (e : Err) (b : Bytes) (h : e.isPanic = false) : TLok (.error e) b := by
  constructor
  · intro e' he; cases he; exact h
  · intro a s r he; cases he

theorem tagLoop_np (arm : Nat → Bytes → Option (Nat × Res (Val × Bytes)))
    (harm : ∀ t x idx r, arm t x = some (idx, r) → NP r x) :
    ∀ (fuel currLen : Nat) (bytes : Bytes) (acc : List (Nat × Val)) (seen : List Nat),
      (currLen = bytes.length → 1 ≤ fuel) → (currLen ≠ bytes.length → bytes.length + 2 ≤ fuel) →
      TLok (tagLoop arm fuel currLen bytes acc seen) bytes := by
  intro fuel
  induction fuel with
  | zero =>
    intro currLen bytes acc seen h1 h2
    by_cases h : currLen = bytes.length
    · have := h1 h; omega
    · have := h2 h; omega
  | succ fuel ih =>
    intro currLen bytes acc seen h1 h2
    simp only [tagLoop]
    have stop : TLok (.ok (acc, seen, bytes)) bytes := TLok_ok _ _ _ _ (Nat.le_refl _)
    split
    · exact stop
    · rename_i hcont
      have hne : currLen ≠ bytes.length := by
        intro hc; apply hcont; right; exact hc
      have hfuel := h2 hne
      cases htd : tagDecDefault bytes with
      | error e => simp only; exact stop
      | ok p =>
        obtain ⟨t, r0⟩ := p
        simp only
        cases ha : arm t bytes with
        | none => simp only; exact stop
        | some q =>
          obtain ⟨idx, r⟩ := q
          simp only
          split
          · exact TLok_err _ _ rfl
          · have hr := harm t bytes idx r ha
            cases hrr : r with
            | error e => simp only; exact TLok_err _ _ (NP_err_of hr hrr)
            | ok w =>
              obtain ⟨v, rest⟩ := w
              have hle := hr.2 v rest hrr
              simp only
              have := ih bytes.length rest ((idx, v) :: acc) (t :: seen) (by intro _; omega) (by intro hn; omega)
              exact ⟨this.1, fun a s r' h => Nat.le_trans (this.2 a s r' h) hle⟩

/-- the generated `decode` is total if the positional prefix and the tagged arms are. -/
theorem decStructWith_np (decPosF : Bytes → Res (List Val × Bytes)) (arm : Nat → Bytes → Option (Nat × Res (Val × Bytes)))
    (hpos : ∀ x, NP (decPosF x) x) (harm : ∀ t x idx r, arm t x = some (idx, r) → NP r x)
    (fs : List Field) (b : Bytes) : NP (decStructWith decPosF arm fs b) b := by
  unfold decStructWith
  have hp := hpos b
  cases hd : decPosF b with
  | error e => simp only; exact NP_error _ _ (NP_err_of hp hd)
  | ok p =>
    obtain ⟨pvals, rest⟩ := p
    have hr := hp.2 pvals rest hd
    simp only
    have ht := tagLoop_np arm harm (rest.length + 2) (rest.length + 1) rest [] [] (by intro _; omega) (by intro _; omega)
    cases hl : tagLoop arm (rest.length + 2) (rest.length + 1) rest [] [] with
    | error e => simp only; exact NP_error _ _ (ht.1 e hl)
    | ok q =>
      obtain ⟨acc, seen, rest'⟩ := q
      have hr' := ht.2 acc seen rest' hl
      simp only
      split
      · exact NP_ok _ _ _ (by omega)
      · exact NP_error _ _ rfl

/-! ### all schemas -/

def LenKind.known : LenKind → Bool
  | .unknown _ => false
  | _ => true

theorem known_ne (L : LenKind) (h : L.known = true) : ∀ s, L ≠ .unknown s := by
  intro s hs; subst hs; simp [LenKind.known] at h

mutual
/-- every (length, encoding, type) triple in the schema is one the builder implements. -/
def Ty.typed : Ty → LenKind → Enc → Bool
  | .int w, L, E => L.known && leafTyped E (.int w)
  | .str, L, E => L.known && leafTyped E .str
  | .bytes, L, E => L.known && leafTyped E .bytes
  | .dateTime, L, E => L.known && leafTyped E .dateTime
  | .struct fs, L, _ => L.known && fieldsTyped fs
  | .opt t, L, E => Ty.typed t L E
  | .vec t, L, E => Ty.typed t L E
def fieldsTyped : List Field → Bool
  | [] => true
  | .mk _ _ L E ty :: fs => Ty.typed ty L E && fieldsTyped fs
end

mutual
/-- **Totality of every field decoder, for every schema**: any (nesting of) Option / Vec / struct / leaf,
any length style and tag, any input bytes. -/
theorem Ty.de_np : ∀ (t : Ty) (L : LenKind) (E : Enc) (tag : Option Nat) (b : Bytes),
    Ty.typed t L E = true → NP (Ty.de t L E tag b) b
  | .int w, L, E, tag, b, h => by
    simp only [Ty.typed, Bool.and_eq_true] at h
    simp only [Ty.de]
    exact deserTagged_np L (known_ne L h.1) _ (leafDec_np E (.int w) h.2) tag b
  | .str, L, E, tag, b, h => by
    simp only [Ty.typed, Bool.and_eq_true] at h
    simp only [Ty.de]
    exact deserTagged_np L (known_ne L h.1) _ (leafDec_np E .str h.2) tag b
  | .bytes, L, E, tag, b, h => by
    simp only [Ty.typed, Bool.and_eq_true] at h
    simp only [Ty.de]
    exact deserTagged_np L (known_ne L h.1) _ (leafDec_np E .bytes h.2) tag b
  | .dateTime, L, E, tag, b, h => by
    simp only [Ty.typed, Bool.and_eq_true] at h
    simp only [Ty.de]
    exact deserTagged_np L (known_ne L h.1) _ (leafDec_np E .dateTime h.2) tag b
  | .struct fs, L, E, tag, b, h => by
    simp only [Ty.typed, Bool.and_eq_true] at h
    simp only [Ty.de]
    exact deserTagged_np L (known_ne L h.1) _
      (fun x => decStructWith_np _ _ (fun y => decPos_np fs y h.2) (fun t y idx r ha => armFind_np fs t 0 y idx r h.2 ha) fs x) tag b
  | .opt t, L, E, tag, b, h => by
    simp only [Ty.typed] at h
    simp only [Ty.de]
    cases tag with
    | some tg =>
      simp only
      have := Ty.de_np t L E (some tg) b h
      cases hd : Ty.de t L E (some tg) b with
      | error e => simp only; exact NP_error _ _ (NP_err_of this hd)
      | ok p => obtain ⟨v, r⟩ := p; simp only; exact NP_ok _ _ _ (this.2 v r hd)
    | none =>
      simp only
      have := Ty.de_np t L E none b h
      cases hd : Ty.de t L E none b with
      | error e =>
        simp only
        have : e.isPanic = false := NP_err_of this hd
        simp only [this]
        exact NP_ok _ _ _ (Nat.le_refl _)
      | ok p => obtain ⟨v, r⟩ := p; simp only; exact NP_ok _ _ _ (this.2 v r hd)
  | .vec t, L, E, tag, b, h => by
    simp only [Ty.typed] at h
    simp only [Ty.de]
    exact vecLoop_np _ (fun x => Ty.de_np t L E tag x h) (b.length + 1) b [] (by omega)
theorem decPos_np : ∀ (fs : List Field) (b : Bytes), fieldsTyped fs = true → NP (decPos fs b) b
  | [], b, _ => by simp only [decPos]; exact NP_ok _ _ _ (Nat.le_refl _)
  | .mk n tag L E ty :: fs, b, h => by
    simp only [fieldsTyped, Bool.and_eq_true] at h
    simp only [decPos]
    cases tag with
    | some tg => simp only; exact decPos_np fs b h.2
    | none =>
      simp only
      have h1 := Ty.de_np ty L E none b h.1
      cases hd : Ty.de ty L E none b with
      | error e => simp only; exact NP_error _ _ (NP_err_of h1 hd)
      | ok p =>
        obtain ⟨v, r⟩ := p
        have hr := h1.2 v r hd
        simp only
        have h2 := decPos_np fs r h.2
        cases hd2 : decPos fs r with
        | error e => simp only; exact NP_error _ _ (NP_err_of h2 hd2)
        | ok q =>
          obtain ⟨vs, r'⟩ := q
          simp only
          exact NP_ok _ _ _ (Nat.le_trans (h2.2 vs r' hd2) hr)
theorem armFind_np : ∀ (fs : List Field) (t i : Nat) (b : Bytes) (idx : Nat) (r : Res (Val × Bytes)),
    fieldsTyped fs = true → armFind fs t i b = some (idx, r) → NP r b
  | [], t, i, b, idx, r, _, ha => by simp [armFind] at ha
  | .mk n tag L E ty :: fs, t, i, b, idx, r, h, ha => by
    simp only [fieldsTyped, Bool.and_eq_true] at h
    simp only [armFind] at ha
    split at ha
    · simp at ha
      rw [← ha.2]
      exact Ty.de_np ty L E (some t) b h.1
    · exact armFind_np fs t (i + 1) b idx r h.2 ha
end

/-- the generated `decode` of any struct. -/
theorem decStruct_np (fs : List Field) (h : fieldsTyped fs = true) (b : Bytes) : NP (decStruct fs b) b :=
  decStructWith_np _ _ (fun y => decPos_np fs y h) (fun t y idx r ha => armFind_np fs t 0 y idx r h ha) fs b

end Zvt
