/-
  ClientWrites.lean — EVERYTHING the client writes, on every connection, over whole operations.

  `Wrote P w w'`: going from world `w` to world `w'` the client appended packets to the per-connection traffic
  (`World.sentOn`), and every packet it appended — on whatever connection, old or newly opened — satisfies `P`;
  nothing that was sent before is changed or removed. Lifted from one attempt (`C06C.attempt_writes`: the command,
  then acknowledgements) and one handshake (`connect_traffic`: registration, identity request, acknowledgements) over
  the retry loop with its reconnects to every operation of the client.
-/
import ZvtVerif.Properties.C06C
namespace Zvt

/-- the live connection (if any) is one of the slots of the world. -/
def ConnOK (w : World) : Prop := ∀ c, w.conn = some c → c.id < w.logs.length

/-- between `w` and `w'` only packets satisfying `P` were written (on any connection); earlier traffic is a prefix. -/
def WroteOnly (P : Bytes → Prop) (w w' : World) : Prop :=
  ∀ k, ∃ e, w'.sentOn k = w.sentOn k ++ e ∧ ∀ p ∈ e, P p

/-- well-formedness is kept and only `P`-packets are written. -/
structure Wrote (P : Bytes → Prop) (w w' : World) : Prop where
  ok : ConnOK w'
  only : WroteOnly P w w'

theorem WroteOnly.refl (P : Bytes → Prop) (w : World) : WroteOnly P w w :=
  fun _ => ⟨[], by simp, by simp⟩

theorem WroteOnly.trans {P : Bytes → Prop} {a b c : World} (h1 : WroteOnly P a b) (h2 : WroteOnly P b c) : WroteOnly P a c := by
  intro k
  obtain ⟨e1, he1, hp1⟩ := h1 k
  obtain ⟨e2, he2, hp2⟩ := h2 k
  refine ⟨e1 ++ e2, by rw [he2, he1, List.append_assoc], ?_⟩
  intro p hp
  rcases List.mem_append.mp hp with h | h
  · exact hp1 p h
  · exact hp2 p h

theorem WroteOnly.mono {P Q : Bytes → Prop} {a b : World} (h : WroteOnly P a b) (hpq : ∀ p, P p → Q p) : WroteOnly Q a b := by
  intro k
  obtain ⟨e, he, hp⟩ := h k
  exact ⟨e, he, fun p hm => hpq p (hp p hm)⟩

theorem WroteOnly.of_logs {P : Bytes → Prop} {a b : World} (h : ∀ k : Nat, b.logs[k]? = a.logs[k]?) : WroteOnly P a b :=
  fun k => ⟨[], by rw [sentOn_of_logs_eq a b k (h k)]; simp, by simp⟩

theorem Wrote.trans {P : Bytes → Prop} {a b c : World} (h1 : Wrote P a b) (h2 : Wrote P b c) : Wrote P a c :=
  ⟨h2.ok, h1.only.trans h2.only⟩

theorem Wrote.mono {P Q : Bytes → Prop} {a b : World} (h : Wrote P a b) (hpq : ∀ p, P p → Q p) : Wrote Q a b :=
  ⟨h.ok, h.only.mono hpq⟩

theorem Wrote.refl (P : Bytes → Prop) (w : World) (h : ConnOK w) : Wrote P w w := ⟨h, WroteOnly.refl P w⟩

/-- a change of the clock only. -/
theorem Wrote.of_clock (P : Bytes → Prop) (w : World) (t : Nat) (h : ConnOK w) : Wrote P w { w with now := t } :=
  ⟨h, WroteOnly.of_logs (fun _ => rfl)⟩

theorem sentOn_beyond (w : World) (k : Nat) (h : w.logs.length ≤ k) : w.sentOn k = [] := by
  simp [World.sentOn, List.getElem?_eq_none h, sent]

/-- **one attempt** on the live connection `c`: the command (at most once) and acknowledgements, on `c` only. -/
theorem wrote_runItems {σ ρ : Type} (d : SeqDesc) (timeout : Nat) (step : σ → Item → Step σ ρ)
    (fuel : Nat) (w : World) (c : ConnSt) (s : σ) (hl : c.id < w.logs.length) :
    Wrote (fun p => p = d.cmd ∨ p = ackBytes) w (runItems d timeout step fuel w c .start s).2.1 := by
  constructor
  · intro c' hc'
    have hid := (runItems_conn d timeout step fuel w c .start s).2.2 c' hc'
    rw [runItems_nlogs, hid]; exact hl
  · intro k
    by_cases hk : k = c.id
    · subst hk
      rcases C06C.attempt_writes d timeout step fuel w c s hl with h | ⟨n, h⟩
      · exact ⟨[], by rw [h]; simp, by simp⟩
      · refine ⟨d.cmd :: List.replicate n ackBytes, h, ?_⟩
        intro p hp
        rcases List.mem_cons.mp hp with h1 | h1
        · exact Or.inl h1
        · exact Or.inr (List.eq_of_mem_replicate h1)
    · exact ⟨[], by rw [sentOn_of_logs_eq w _ k (runItems_others d timeout step fuel w c .start s k hk)]; simp, by simp⟩

/-- **one handshake**: only handshake packets, only on the slot it opens. -/
theorem wrote_connect (cfg : Cfg) (w : World) (hnone : w.conn = none) :
    Wrote (fun p => p ∈ handshakePackets cfg) w (connect cfg w).1 := by
  have hn := connect_nlogs cfg w
  constructor
  · intro c' hc'
    cases hb : (connect cfg w).2 with
    | true =>
      obtain ⟨c, h1, h2⟩ := (connect_outcome cfg w).1 hb
      rw [h1] at hc'; cases hc'
      rw [hn, h2]; exact Nat.lt_succ_self _
    | false =>
      rcases (connect_outcome cfg w).2 hb with h1 | h1
      · rw [h1] at hc'; cases hc'
      · rw [h1, hnone] at hc'; cases hc'
  · intro k
    rcases Nat.lt_trichotomy k w.logs.length with hk | hk | hk
    · exact ⟨[], by rw [sentOn_of_logs_eq w _ k (connect_old_slots cfg w k hk)]; simp, by simp⟩
    · subst hk
      refine ⟨(connect cfg w).1.sentOn w.logs.length, by rw [sentOn_beyond w _ (Nat.le_refl _)]; simp, ?_⟩
      intro p hp
      exact (connect_traffic cfg w).1.subset hp
    · refine ⟨[], ?_, by simp⟩
      rw [sentOn_beyond w k (Nat.le_of_lt hk), sentOn_beyond _ k (by rw [hn]; omega)]; simp

theorem wrote_ensureConn (cfg : Cfg) (w : World) (h : ConnOK w) :
    Wrote (fun p => p ∈ handshakePackets cfg) w (ensureConn cfg w).1 := by
  unfold ensureConn
  cases hc : w.conn with
  | some c => exact Wrote.refl _ w h
  | none => exact wrote_connect cfg w hc

/-- what an exchange with all its retries may write: its command, acknowledgements, handshakes. -/
def ExchangeP (cfg : Cfg) (cmd : Bytes) (p : Bytes) : Prop := p = cmd ∨ p = ackBytes ∨ p ∈ handshakePackets cfg

/-- **the retry loop** with all its attempts and reconnects. -/
theorem wrote_retryLoop {σ ρ : Type} (cfg : Cfg) (d : SeqDesc) (timeout : Nat) (step : σ → Item → Step σ ρ) :
    ∀ (n : Nat) (prev : Option Nat) (w : World) (s : σ), ConnOK w →
      Wrote (ExchangeP cfg d.cmd) w (retryLoop cfg d timeout step n prev w s).2 := by
  intro n
  induction n with
  | zero => intro prev w s h; simpa [retryLoop] using Wrote.refl _ w h
  | succ n ih =>
    intro prev w s h
    simp only [retryLoop]
    have ht : Wrote (ExchangeP cfg d.cmd) w { w with now := throttleStart prev w.now } := Wrote.of_clock _ w _ h
    have he := ht.trans ((wrote_ensureConn cfg { w with now := throttleStart prev w.now } h).mono
      (fun p hp => Or.inr (Or.inr hp)))
    generalize ensureConn cfg { w with now := throttleStart prev w.now } = q at he ⊢
    obtain ⟨w1, live⟩ := q
    simp only at he
    cases live with
    | false =>
      simp only
      cases step s .err with
      | ret r => exact he
      | cont s' => exact he.trans (ih _ w1 s' he.ok)
    | true =>
      simp only
      cases hc1 : w1.conn with
      | none => exact he
      | some c =>
        simp only
        have hr := he.trans ((wrote_runItems d timeout step ITEM_FUEL w1 c s (he.ok c hc1)).mono
          (fun p hp => by rcases hp with h1 | h1; exact Or.inl h1; exact Or.inr (Or.inl h1)))
        generalize runItems d timeout step ITEM_FUEL w1 c .start s = q2 at hr ⊢
        obtain ⟨o, w2, e⟩ := q2
        simp only at hr
        cases o with
        | ret r => exact hr
        | cont s' =>
          cases e with
          | false => exact hr
          | true => exact hr.trans (ih _ w2 s' hr.ok)

theorem seqDesc_cmd (name : String) (cmd : Bytes) : (seqDesc name cmd).cmd = cmd := by
  unfold seqDesc
  split <;> rfl

/-- **one exchange of the client**, with all its retries: the command, acknowledgements, and the handshake packets of
the connections it had to open — nothing else, on no connection. -/
theorem wrote_runOp {σ ρ : Type} (cfg : Cfg) (seqName : String) (cmd : Bytes) (timeout : Nat)
    (step : σ → Item → Step σ ρ) (w : World) (s : σ) (h : ConnOK w) :
    Wrote (ExchangeP cfg cmd) w (runOp cfg seqName cmd timeout step w s).2 := by
  have := wrote_retryLoop cfg (seqDesc seqName cmd) timeout step ATTEMPTS none w s h
  rw [seqDesc_cmd] at this
  exact this

/-! ### every operation of the client -/

/-- command packets `C`, acknowledgements, handshake packets. -/
def Allowed (cfg : Cfg) (C : Bytes → Prop) (p : Bytes) : Prop := C p ∨ p = ackBytes ∨ p ∈ handshakePackets cfg

theorem Allowed.of_exchange {cfg : Cfg} {C : Bytes → Prop} {cmd : Bytes} (hc : C cmd) :
    ∀ p, ExchangeP cfg cmd p → Allowed cfg C p := by
  intro p hp
  rcases hp with h | h | h
  · exact Or.inl (h ▸ hc)
  · exact Or.inr (Or.inl h)
  · exact Or.inr (Or.inr h)

theorem Allowed.mono {cfg : Cfg} {C D : Bytes → Prop} (h : ∀ p, C p → D p) : ∀ p, Allowed cfg C p → Allowed cfg D p := by
  intro p hp
  rcases hp with h1 | h1 | h1
  · exact Or.inl (h p h1)
  · exact Or.inr (Or.inl h1)
  · exact Or.inr (Or.inr h1)

def reversalCmd (cfg : Cfg) (receipt : Nat) : Bytes :=
  encodeReq "packets::PreAuthReversal" (.struct [.some (.num 0x40), .some (.num cfg.currency), .some (.num receipt)])
def eodCmd (cfg : Cfg) : Bytes := encodeReq "packets::EndOfDay" (.struct [.num cfg.password])
def initCmd (cfg : Cfg) : Bytes := encodeReq "packets::Initialization" (.struct [.num cfg.password])
def setTidCmd (cfg : Cfg) : Bytes :=
  encodeReq "packets::SetTerminalId" (.struct [.num cfg.password, .some (.num (digitsVal cfg.terminalId))])

theorem wrote_simpleOp (cfg : Cfg) (seqName : String) (cmd : Bytes) (w : World)
    (onOk : EnumDef → Nat → Val → Step Unit (CRes Unit)) (h : ConnOK w) :
    Wrote (ExchangeP cfg cmd) w (simpleOp cfg seqName cmd w onOk).2 := by
  unfold simpleOp
  have hh := wrote_runOp cfg seqName cmd TIMEOUT (liftStep (onOk (seqDesc seqName cmd).enum)) w () h
  generalize runOp cfg seqName cmd TIMEOUT (liftStep (onOk (seqDesc seqName cmd).enum)) w () = q at hh ⊢
  obtain ⟨o, w1⟩ := q
  cases o <;> exact hh

theorem wrote_getSystemInfo (cfg : Cfg) (w : World) (h : ConnOK w) :
    Wrote (ExchangeP cfg sysInfoCmd) w (getSystemInfo cfg w).2 := by
  unfold getSystemInfo
  have hh := wrote_runOp cfg "feig::sequences::GetSystemInfo" sysInfoCmd TIMEOUT
    (sysInfoStep (findEnumG "feig::sequences::GetSystemInfoResponse")) w () h
  generalize runOp cfg "feig::sequences::GetSystemInfo" sysInfoCmd TIMEOUT
    (sysInfoStep (findEnumG "feig::sequences::GetSystemInfoResponse")) w () = q at hh ⊢
  obtain ⟨o, w1⟩ := q
  cases o <;> exact hh

/-- `set_terminal_id`: the identity request and, if the id differs, the one 06 1B command. -/
theorem wrote_setTerminalId (cfg : Cfg) (w : World) (h : ConnOK w) :
    Wrote (Allowed cfg (fun p => p = sysInfoCmd ∨ p = setTidCmd cfg)) w (setTerminalId cfg w).2 := by
  unfold setTerminalId
  have hh := (wrote_getSystemInfo cfg w h).mono (Allowed.of_exchange (C := fun p => p = sysInfoCmd ∨ p = setTidCmd cfg) (Or.inl rfl))
  generalize getSystemInfo cfg w = q at hh ⊢
  obtain ⟨r, w1⟩ := q
  cases r with
  | error e => exact hh
  | ok info =>
    simp only
    split
    · exact hh
    · split
      · exact hh
      · exact hh.trans ((wrote_simpleOp cfg _ _ w1 _ hh.ok).mono
          (Allowed.of_exchange (C := fun p => p = sysInfoCmd ∨ p = setTidCmd cfg) (Or.inr rfl)))

theorem wrote_initializeT (cfg : Cfg) (w : World) (h : ConnOK w) :
    Wrote (ExchangeP cfg (initCmd cfg)) w (initializeT cfg w).2 := wrote_simpleOp cfg _ _ w _ h

theorem wrote_cancelByReceipt (cfg : Cfg) (r : Nat) (w : World) (h : ConnOK w) :
    Wrote (ExchangeP cfg (reversalCmd cfg r)) w (cancelByReceipt cfg r w).2 := wrote_simpleOp cfg _ _ w _ h

theorem wrote_getPending (cfg : Cfg) (w : World) (h : ConnOK w) :
    Wrote (ExchangeP cfg pendingCmd) w (getPending cfg w).2 := by
  unfold getPending
  have hh := wrote_runOp cfg "sequences::PartialReversal" pendingCmd TIMEOUT
    (pendingStep (findEnumG "sequences::PartialReversalResponse")) w () h
  generalize runOp cfg "sequences::PartialReversal" pendingCmd TIMEOUT
    (pendingStep (findEnumG "sequences::PartialReversalResponse")) w () = q at hh ⊢
  obtain ⟨o, w1⟩ := q
  cases o <;> exact hh

/-- the receipts `get_pending` reports: the one the terminal named in its abort, never FFFF. -/
theorem wrote_cancelAll (cfg : Cfg) : ∀ (rs : List Nat) (w : World), ConnOK w →
    Wrote (Allowed cfg (fun p => ∃ r ∈ rs, p = reversalCmd cfg r)) w (cancelAll cfg rs w).2 := by
  intro rs
  induction rs with
  | nil => intro w h; exact Wrote.refl _ w h
  | cons r rs ih =>
    intro w h
    simp only [cancelAll]
    have hh := (wrote_cancelByReceipt cfg r w h).mono
      (Allowed.of_exchange (C := fun p => ∃ r' ∈ r :: rs, p = reversalCmd cfg r') ⟨r, List.mem_cons_self, rfl⟩)
    generalize cancelByReceipt cfg r w = q at hh ⊢
    obtain ⟨o, w1⟩ := q
    cases o with
    | error e => exact hh
    | ok u =>
      exact hh.trans ((ih w1 hh.ok).mono (Allowed.mono (fun p ⟨r', hr', hp⟩ => ⟨r', List.mem_cons_of_mem _ hr', hp⟩)))

/-- the commands of the idle clean-up: pending query, reversal of a reported receipt, end-of-day. -/
def CleanupCmd (cfg : Cfg) (p : Bytes) : Prop := p = pendingCmd ∨ (∃ r, p = reversalCmd cfg r) ∨ p = eodCmd cfg

theorem wrote_endOfDay (cfg : Cfg) (cl : Client) (w : World) (h : ConnOK w) :
    Wrote (Allowed cfg (CleanupCmd cfg)) w (endOfDay cfg cl w).2.2 := by
  unfold endOfDay
  simp only
  have hh := (wrote_getPending cfg w h).mono (Allowed.of_exchange (C := CleanupCmd cfg) (Or.inl rfl))
  generalize getPending cfg w = q at hh ⊢
  obtain ⟨o, w1⟩ := q
  cases o with
  | error e => exact hh
  | ok pend =>
    simp only
    have h2 := hh.trans ((wrote_cancelAll cfg pend w1 hh.ok).mono
      (Allowed.mono (fun p ⟨r, _, hp⟩ => Or.inr (Or.inl ⟨r, hp⟩))))
    generalize cancelAll cfg pend w1 = q2 at h2 ⊢
    obtain ⟨o2, w2⟩ := q2
    cases o2 with
    | error e => exact h2
    | ok u => exact h2.trans ((wrote_simpleOp cfg _ _ w2 _ h2.ok).mono (Allowed.of_exchange (C := CleanupCmd cfg) (Or.inr (Or.inr rfl))))

theorem wrote_idleCleanup (cfg : Cfg) (cl : Client) (w : World) (h : ConnOK w) :
    Wrote (Allowed cfg (fun p => cl.txs = [] ∧ CleanupCmd cfg p)) w (idleCleanup cfg cl w).2.2 := by
  unfold idleCleanup
  split
  · next he =>
    have : cl.txs = [] := by simpa using he
    exact (wrote_endOfDay cfg cl w h).mono (Allowed.mono (fun p hp => ⟨this, hp⟩))
  · exact Wrote.refl _ w h

/-- `configure`: identity request, set-terminal-id, initialisation, then the clean-up commands. -/
theorem wrote_configure (cfg : Cfg) (cl : Client) (w : World) (h : ConnOK w) :
    Wrote (Allowed cfg (fun p => p = sysInfoCmd ∨ p = setTidCmd cfg ∨ p = initCmd cfg ∨ CleanupCmd cfg p)) w (configure cfg cl w).2.2 := by
  unfold configure
  have hh := (wrote_setTerminalId cfg w h).mono
    (Allowed.mono (D := fun p => p = sysInfoCmd ∨ p = setTidCmd cfg ∨ p = initCmd cfg ∨ CleanupCmd cfg p)
      (fun p hp => by rcases hp with h1 | h1; exact Or.inl h1; exact Or.inr (Or.inl h1)))
  generalize setTerminalId cfg w = q at hh ⊢
  obtain ⟨o, w1⟩ := q
  cases o with
  | error e => exact hh
  | ok u =>
    simp only
    have h2 := hh.trans ((wrote_initializeT cfg w1 hh.ok).mono
      (Allowed.of_exchange (C := fun p => p = sysInfoCmd ∨ p = setTidCmd cfg ∨ p = initCmd cfg ∨ CleanupCmd cfg p) (Or.inr (Or.inr (Or.inl rfl)))))
    generalize initializeT cfg w1 = q2 at h2 ⊢
    obtain ⟨o2, w2⟩ := q2
    cases o2 with
    | error e => exact h2
    | ok u2 => exact h2.trans ((wrote_endOfDay cfg cl w2 h2.ok).mono (Allowed.mono (fun p hp => Or.inr (Or.inr (Or.inr hp)))))

theorem wrote_readCard (cfg : Cfg) (w : World) (h : ConnOK w) :
    Wrote (ExchangeP cfg (readCardCmd cfg)) w (readCard cfg w).2 := by
  unfold readCard
  have hh := wrote_runOp cfg "sequences::ReadCard" (readCardCmd cfg) (readCardTimeoutOf cfg.readCardTimeout)
    (readCardStep (findEnumG "sequences::ReadCardResponse")) w none h
  generalize runOp cfg "sequences::ReadCard" (readCardCmd cfg) (readCardTimeoutOf cfg.readCardTimeout)
    (readCardStep (findEnumG "sequences::ReadCardResponse")) w none = q at hh ⊢
  obtain ⟨o, w1⟩ := q
  cases o with
  | ret r => exact hh
  | cont st => cases st <;> exact hh

/-- **begin** writes the one reservation request for ITS token (configured amount and currency) — or nothing. -/
theorem wrote_beginTx (cfg : Cfg) (cl : Client) (t : List Nat) (w : World) (h : ConnOK w) :
    Wrote (ExchangeP cfg (reservationCmd cfg t)) w (beginTx cfg cl t w).2.2 := by
  unfold beginTx
  split
  · exact Wrote.refl _ w h
  · split
    · exact Wrote.refl _ w h
    · have hh := wrote_runOp cfg "sequences::Reservation" (reservationCmd cfg t) TIMEOUT
        (beginStep (findEnumG "sequences::AuthorizationResponse")) w none h
      generalize runOp cfg "sequences::Reservation" (reservationCmd cfg t) TIMEOUT
        (beginStep (findEnumG "sequences::AuthorizationResponse")) w none = q at hh ⊢
      obtain ⟨o, w1⟩ := q
      unfold beginFold
      cases o with
      | ret r => exact hh
      | cont st => cases st <;> exact hh

/-- **cancel** writes the reversal of the receipt recorded for ITS token and — only if no token remains open — the
clean-up commands. -/
theorem wrote_cancelTx (cfg : Cfg) (cl : Client) (t : List Nat) (w : World) (h : ConnOK w) :
    Wrote (Allowed cfg (fun p => (∃ r, cl.txs.find? (·.1 = t) = some (t, r) ∧ p = reversalCmd cfg r) ∨
      (cl.txs.filter (·.1 ≠ t) = [] ∧ CleanupCmd cfg p))) w (cancelTx cfg cl t w).2.2 := by
  unfold cancelTx
  split
  · exact Wrote.refl _ w h
  · next t' r hf =>
    have ht : t' = t := by have := List.find?_some hf; simpa using this
    subst ht
    have hh := (wrote_cancelByReceipt cfg r w h).mono
      (Allowed.of_exchange (C := fun p => (∃ r, cl.txs.find? (·.1 = t') = some (t', r) ∧ p = reversalCmd cfg r) ∨
        (cl.txs.filter (·.1 ≠ t') = [] ∧ CleanupCmd cfg p)) (Or.inl ⟨r, hf, rfl⟩))
    generalize cancelByReceipt cfg r w = q at hh ⊢
    obtain ⟨o, w1⟩ := q
    unfold cancelFold
    cases o with
    | error e => exact hh
    | ok u => exact hh.trans ((wrote_idleCleanup cfg _ w1 hh.ok).mono (Allowed.mono (fun p hp => Or.inr hp)))

/-- **commit** writes the partial reversal carrying the receipt recorded for ITS token and the unused amount, and — only
if no token remains open — the clean-up commands. -/
theorem wrote_commitTx (cfg : Cfg) (cl : Client) (t : List Nat) (f : Nat) (w : World) (h : ConnOK w) :
    Wrote (Allowed cfg (fun p => (∃ r, cl.txs.find? (·.1 = t) = some (t, r) ∧ p = commitCmd cfg t r f) ∨
      (cl.txs.filter (·.1 ≠ t) = [] ∧ CleanupCmd cfg p))) w (commitTx cfg cl t f w).2.2 := by
  unfold commitTx
  split
  · exact Wrote.refl _ w h
  · next t' r hf =>
    have ht : t' = t := by have := List.find?_some hf; simpa using this
    subst ht
    have hh := (wrote_runOp cfg "sequences::PartialReversal" (commitCmd cfg t' r f) TIMEOUT
      (commitStep (findEnumG "sequences::PartialReversalResponse")) w none h).mono
      (Allowed.of_exchange (C := fun p => (∃ r, cl.txs.find? (·.1 = t') = some (t', r) ∧ p = commitCmd cfg t' r f) ∨
        (cl.txs.filter (·.1 ≠ t') = [] ∧ CleanupCmd cfg p)) (Or.inl ⟨r, hf, rfl⟩))
    generalize runOp cfg "sequences::PartialReversal" (commitCmd cfg t' r f) TIMEOUT
      (commitStep (findEnumG "sequences::PartialReversalResponse")) w none = q at hh ⊢
    obtain ⟨o, w1⟩ := q
    unfold commitFold
    cases o with
    | ret r => exact hh
    | cont st =>
      simp only
      have h2 := hh.trans ((wrote_idleCleanup cfg { txs := cl.txs.filter (·.1 ≠ t') } w1 hh.ok).mono (Allowed.mono (fun p hp => Or.inr hp)))
      generalize idleCleanup cfg { txs := cl.txs.filter (·.1 ≠ t') } w1 = q2 at h2 ⊢
      obtain ⟨o2, cl2, w2⟩ := q2
      cases o2 with
      | error e => exact h2
      | ok u => cases st <;> exact h2

end Zvt
