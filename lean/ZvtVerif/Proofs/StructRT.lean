/-
  StructRT.lean — compositional round trip of the generated `encode` / `decode` (C01, struct level):
  if every field of a struct round-trips with arbitrary trailing bytes, so does the struct.
  Positional fields first (the macro decodes them first), tagged fields with pairwise distinct numbers.
-/
import ZvtVerif.Proofs.TagLoop
import ZvtVerif.Proofs.RoundTrip
import ZvtVerif.Properties.C13
namespace Zvt

/-- a positional field instance: field, value, and the bytes `serialize_tagged(None)` writes for it. -/
structure PF where
  f : Field
  v : Val
  bytes : Bytes

/-- the positional field round-trips whatever follows it. -/
def PF.OK (p : PF) : Prop :=
  p.f.tag = none ∧ Ty.ser p.f.ty p.f.len p.f.enc none p.v = .ok p.bytes ∧
  ∀ x, Ty.de p.f.ty p.f.len p.f.enc none (p.bytes ++ x) = .ok (p.v, x)

/-- the part of `PF.OK` that does not depend on what follows: positional, and these are the bytes written. -/
def PF.OK0 (p : PF) : Prop :=
  p.f.tag = none ∧ Ty.ser p.f.ty p.f.len p.f.enc none p.v = .ok p.bytes

theorem PF.OK.ok0 {p : PF} (h : p.OK) : p.OK0 := ⟨h.1, h.2.1⟩

/-- a tagged field instance: `present = false` is an absent `Option` (nothing is written). -/
structure TF where
  f : Field
  t : Nat
  v : Val
  bytes : Bytes
  present : Bool
  /-- `false` for a `Vec` field: its elements are read back only if what follows does not begin with the
  field's own number. -/
  strict : Bool := true

def TF.OK (q : TF) : Prop :=
  q.f.tag = some q.t ∧ Ty.ser q.f.ty q.f.len q.f.enc (some q.t) q.v = .ok q.bytes ∧
  (if q.present then
      q.bytes ≠ [] ∧ (∀ x, ∃ r, tagDecDefault (q.bytes ++ x) = .ok (q.t, r)) ∧
        ∀ x, (q.strict = true ∨ NoStart q.t x) → Ty.de q.f.ty q.f.len q.f.enc (some q.t) (q.bytes ++ x) = .ok (q.v, x)
   else q.bytes = [] ∧ q.f.ty.isOptional = true ∧ q.v = q.f.ty.dflt)

theorem field_eta (f : Field) : f = .mk f.name f.tag f.len f.enc f.ty := by cases f; rfl

/-! ### encode -/

theorem encFields_pos : ∀ (ps : List PF) (fs : List Field) (vs : List Val) (rest : Bytes),
    (∀ p ∈ ps, p.OK0) → encFields fs vs = .ok rest →
    encFields (ps.map (·.f) ++ fs) (ps.map (·.v) ++ vs) = .ok ((ps.flatMap (·.bytes)) ++ rest) := by
  intro ps
  induction ps with
  | nil => intro fs vs rest _ h; simpa using h
  | cons p ps ih =>
    intro fs vs rest hok h
    have hp := hok p (by simp)
    simp only [List.map_cons, List.cons_append, List.flatMap_cons, List.append_assoc]
    rw [field_eta p.f]
    simp only [encFields]
    rw [hp.1] at *
    have := ih fs vs rest (fun q hq => hok q (by simp [hq])) h
    have hs := hp.2
    simp only [Field.ty, Field.len, Field.enc] at hs ⊢
    rw [hs, this]

theorem encFields_tagged : ∀ (qs : List TF), (∀ q ∈ qs, q.OK) →
    encFields (qs.map (·.f)) (qs.map (·.v)) = .ok (qs.flatMap (·.bytes)) := by
  intro qs
  induction qs with
  | nil => intro _; simp [encFields]
  | cons q qs ih =>
    intro hok
    have hq := hok q (by simp)
    simp only [List.map_cons, List.flatMap_cons]
    rw [field_eta q.f]
    simp only [encFields]
    have hs := hq.2.1
    rw [hq.1]
    simp only [Field.ty, Field.len, Field.enc] at hs ⊢
    rw [hs, ih (fun r hr => hok r (by simp [hr]))]

/-! ### decode: positional prefix -/

theorem decPos_tagged_only : ∀ (qs : List TF) (b : Bytes), (∀ q ∈ qs, q.OK) → decPos (qs.map (·.f)) b = .ok ([], b) := by
  intro qs
  induction qs with
  | nil => intro b _; simp [decPos]
  | cons q qs ih =>
    intro b hok
    have hq := hok q (by simp)
    simp only [List.map_cons]
    rw [field_eta q.f, hq.1]
    simp only [decPos]
    exact ih b (fun r hr => hok r (by simp [hr]))

theorem decPos_pos : ∀ (ps : List PF) (qs : List TF) (x : Bytes), (∀ p ∈ ps, p.OK) → (∀ q ∈ qs, q.OK) →
    decPos (ps.map (·.f) ++ qs.map (·.f)) (ps.flatMap (·.bytes) ++ x) = .ok (ps.map (·.v), x) := by
  intro ps
  induction ps with
  | nil => intro qs x _ hq; simpa using decPos_tagged_only qs x hq
  | cons p ps ih =>
    intro qs x hok hq
    have hp := hok p (by simp)
    simp only [List.map_cons, List.cons_append, List.flatMap_cons, List.append_assoc]
    rw [field_eta p.f, hp.1]
    simp only [decPos]
    have hd := hp.2.2 (ps.flatMap (·.bytes) ++ x)
    simp only [Field.ty, Field.len, Field.enc] at hd ⊢
    rw [hd]
    simp only
    rw [ih qs x (fun r hr => hok r (by simp [hr])) hq]

/-! ### decode: the arms -/

theorem armFind_skip_pos : ∀ (ps : List PF) (fs : List Field) (t i : Nat) (b : Bytes), (∀ p ∈ ps, p.OK0) →
    armFind (ps.map (·.f) ++ fs) t i b = armFind fs t (i + ps.length) b := by
  intro ps
  induction ps with
  | nil => intro fs t i b _; simp
  | cons p ps ih =>
    intro fs t i b hok
    have hp := hok p (by simp)
    simp only [List.map_cons, List.cons_append]
    rw [field_eta p.f, hp.1]
    simp only [armFind]
    simp only [reduceCtorEq, if_false]
    rw [ih fs t (i + 1) b (fun r hr => hok r (by simp [hr]))]
    simp only [List.length_cons]
    congr 1; omega

/-- the arm of tag `q.t` among tagged fields with pairwise distinct numbers is `q`'s own decoder, at `q`'s index. -/
theorem armFind_tagged : ∀ (pre : List TF) (q : TF) (post : List TF) (i : Nat) (b : Bytes),
    (∀ r ∈ pre, r.OK) → q.OK → (∀ r ∈ pre, r.t ≠ q.t) →
    armFind ((pre ++ q :: post).map (·.f)) q.t i b =
      some (i + pre.length, Ty.de q.f.ty q.f.len q.f.enc (some q.t) b) := by
  intro pre
  induction pre with
  | nil =>
    intro q post i b _ hq _
    simp only [List.nil_append, List.map_cons, List.length_nil, Nat.add_zero]
    rw [field_eta q.f, hq.1]
    simp [armFind, Field.ty, Field.len, Field.enc]
  | cons r pre ih =>
    intro q post i b hok hq hne
    have hr := hok r (by simp)
    simp only [List.cons_append, List.map_cons]
    rw [field_eta r.f, hr.1]
    simp only [armFind]
    have : ¬ (some r.t = some q.t) := by
      intro h; exact hne r (by simp) (by simpa using h)
    simp only [this, if_false]
    rw [ih q post (i + 1) b (fun s hs => hok s (by simp [hs])) hq (fun s hs => hne s (by simp [hs]))]
    simp only [List.length_cons]
    congr 2; omega

/-! ### the groups of the present tagged fields -/

def groupsFrom : Nat → List TF → List Group
  | _, [] => []
  | base, q :: qs => (if q.present then [⟨q.t, base, q.v, q.bytes, q.strict⟩] else []) ++ groupsFrom (base + 1) qs

theorem flat_groupsFrom : ∀ (qs : List TF) (base : Nat), (∀ q ∈ qs, q.OK) → flat (groupsFrom base qs) = qs.flatMap (·.bytes) := by
  intro qs
  induction qs with
  | nil => intro _ _; rfl
  | cons q qs ih =>
    intro base hok
    have hq := hok q (by simp)
    have ih' := ih (base + 1) (fun r hr => hok r (by simp [hr]))
    simp only [groupsFrom, List.flatMap_cons]
    cases hp : q.present with
    | true => simp only [if_true, List.singleton_append, flat_cons, ih']
    | false =>
      have := hq.2.2
      simp only [hp, Bool.false_eq_true, if_false] at this
      simp only [Bool.false_eq_true, if_false, List.nil_append, ih', this.1]

theorem groupsFrom_mem : ∀ (qs : List TF) (base : Nat) (g : Group), g ∈ groupsFrom base qs →
    ∃ j q, qs[j]? = some q ∧ q.present = true ∧ g = ⟨q.t, base + j, q.v, q.bytes, q.strict⟩ := by
  intro qs
  induction qs with
  | nil => intro base g h; simp [groupsFrom] at h
  | cons q qs ih =>
    intro base g h
    simp only [groupsFrom, List.mem_append] at h
    rcases h with h | h
    · cases hp : q.present with
      | true => simp only [hp, if_true, List.mem_singleton] at h; exact ⟨0, q, by simp, hp, by simpa using h⟩
      | false => simp [hp] at h
    · obtain ⟨j, q', hj, hp, hg⟩ := ih (base + 1) g h
      exact ⟨j + 1, q', by simpa using hj, hp, by rw [hg]; congr 1; omega⟩

theorem groupsFrom_tags_sublist : ∀ (qs : List TF) (base : Nat), ((groupsFrom base qs).map (·.t)).Sublist (qs.map (·.t)) := by
  intro qs
  induction qs with
  | nil => intro _; simp [groupsFrom]
  | cons q qs ih =>
    intro base
    simp only [groupsFrom, List.map_append, List.map_cons]
    cases q.present with
    | true => simpa using (ih (base + 1)).cons₂ q.t
    | false => simpa using (ih (base + 1)).cons q.t

theorem groupsFrom_idx_ge : ∀ (qs : List TF) (base : Nat) (g : Group), g ∈ groupsFrom base qs → base ≤ g.idx := by
  intro qs base g h
  obtain ⟨j, q, _, _, hg⟩ := groupsFrom_mem qs base g h
  rw [hg]; simp

theorem groupsFrom_idx_nodup : ∀ (qs : List TF) (base : Nat), ((groupsFrom base qs).map (·.idx)).Nodup := by
  intro qs
  induction qs with
  | nil => intro _; simp [groupsFrom]
  | cons q qs ih =>
    intro base
    simp only [groupsFrom, List.map_append]
    cases q.present with
    | false => simpa using ih (base + 1)
    | true =>
      simp only [if_true, List.map_cons, List.map_nil, List.singleton_append, List.nodup_cons]
      refine ⟨?_, ih (base + 1)⟩
      intro hm
      simp only [List.mem_map] at hm
      obtain ⟨g, hg, hi⟩ := hm
      have := groupsFrom_idx_ge qs (base + 1) g hg
      omega

/-- what the loop's accumulator holds for field index `k`. -/
theorem lookup_groups : ∀ (qs : List TF) (base j : Nat),
    lookupIdx (base + j) ((groupsFrom base qs).map fun g => (g.idx, g.v)) =
      match qs[j]? with
      | some q => if q.present then some q.v else none
      | none => none := by
  intro qs
  induction qs with
  | nil => intro base j; simp [groupsFrom, lookupIdx]
  | cons q qs ih =>
    intro base j
    simp only [groupsFrom, List.map_append]
    cases j with
    | zero =>
      cases hp : q.present with
      | true => simp [lookupIdx, hp]
      | false =>
        simp only [hp, Bool.false_eq_true, if_false, List.map_nil, List.nil_append, Nat.add_zero, List.getElem?_cons_zero]
        -- nothing behind has index `base`
        have : ∀ (l : List Group), (∀ g ∈ l, base + 1 ≤ g.idx) → lookupIdx base (l.map fun g => (g.idx, g.v)) = none := by
          intro l
          induction l with
          | nil => intro _; rfl
          | cons g l ihl =>
            intro h
            have hg := h g (by simp)
            simp only [List.map_cons, lookupIdx]
            have : ¬ (base = g.idx) := by omega
            simp only [this, if_false]
            exact ihl (fun x hx => h x (by simp [hx]))
        exact this _ (fun g hg => groupsFrom_idx_ge qs (base + 1) g hg)
    | succ j =>
      have ih' := ih (base + 1) j
      have e : base + (j + 1) = base + 1 + j := by omega
      cases hp : q.present with
      | true =>
        simp only [if_true, List.map_cons, List.map_nil, List.singleton_append, lookupIdx]
        have : ¬ (base + (j + 1) = base) := by omega
        simp only [this, if_false, List.getElem?_cons_succ]
        rw [e]; exact ih'
      | false =>
        simp only [Bool.false_eq_true, if_false, List.map_nil, List.nil_append, List.getElem?_cons_succ]
        rw [e]; exact ih'

/-! ### assembling the struct value -/

theorem assemble_pos : ∀ (ps : List PF) (fs : List Field) (more : List Val) (acc : List (Nat × Val)) (i : Nat),
    (∀ p ∈ ps, p.OK0) →
    assemble (ps.map (·.f) ++ fs) (ps.map (·.v) ++ more) acc i = ps.map (·.v) ++ assemble fs more acc (i + ps.length) := by
  intro ps
  induction ps with
  | nil => intro fs more acc i _; simp
  | cons p ps ih =>
    intro fs more acc i hok
    have hp := hok p (by simp)
    simp only [List.map_cons, List.cons_append, assemble, hp.1]
    rw [ih fs more acc (i + 1) (fun r hr => hok r (by simp [hr]))]
    simp only [List.length_cons]
    rw [show i + 1 + ps.length = i + (ps.length + 1) from by omega]

theorem assemble_tagged : ∀ (qs : List TF) (acc : List (Nat × Val)) (i : Nat), (∀ q ∈ qs, q.OK) →
    (∀ j, lookupIdx (i + j) acc = match qs[j]? with
        | some q => if q.present then some q.v else none
        | none => none) →
    assemble (qs.map (·.f)) [] acc i = qs.map (·.v) := by
  intro qs
  induction qs with
  | nil => intro _ _ _ _; rfl
  | cons q qs ih =>
    intro acc i hok hl
    have hq := hok q (by simp)
    simp only [List.map_cons, assemble, hq.1]
    have h0 := hl 0
    simp only [Nat.add_zero, List.getElem?_cons_zero] at h0
    have hv : (lookupIdx i acc).getD q.f.ty.dflt = q.v := by
      rw [h0]
      cases hp : q.present with
      | true => simp
      | false =>
        have := hq.2.2
        simp only [hp, Bool.false_eq_true, if_false] at this
        simp [this.2.2]
    rw [hv]
    congr 1
    apply ih acc (i + 1) (fun r hr => hok r (by simp [hr]))
    intro j
    have := hl (j + 1)
    simp only [List.getElem?_cons_succ] at this
    rw [← this]; congr 1; omega

/-! ### the struct theorem -/

theorem getElem?_split {α : Type} (l : List α) (j : Nat) (a : α) (h : l[j]? = some a) :
    ∃ pre post, l = pre ++ a :: post ∧ pre.length = j := by
  induction l generalizing j with
  | nil => simp at h
  | cons x xs ih =>
    cases j with
    | zero => simp at h; subst h; exact ⟨[], xs, rfl, rfl⟩
    | succ j =>
      simp at h
      obtain ⟨pre, post, he, hl⟩ := ih j h
      exact ⟨x :: pre, post, by rw [he]; rfl, by simp [hl]⟩

theorem groupOK_of_fields (ps : List PF) (qs : List TF) (hps : ∀ p ∈ ps, p.OK0) (hqs : ∀ q ∈ qs, q.OK)
    (hnd : (qs.map (·.t)).Nodup) (g : Group) (hg : g ∈ groupsFrom ps.length qs) :
    GroupOK (fun t x => armFind (ps.map (·.f) ++ qs.map (·.f)) t 0 x) g := by
  obtain ⟨j, q, hj, hp, rfl⟩ := groupsFrom_mem qs ps.length g hg
  obtain ⟨pre, post, hsplit, hlen⟩ := getElem?_split qs j q hj
  have hq : q.OK := hqs q (by rw [hsplit]; simp)
  have hq2 := hq.2.2
  simp only [hp, if_true] at hq2
  refine ⟨hq2.1, hq2.2.1, fun tail hfo => ?_⟩
  simp only
  rw [armFind_skip_pos ps _ q.t 0 _ hps, hsplit]
  have hne : ∀ r ∈ pre, r.t ≠ q.t := by
    intro r hr heq
    rw [hsplit] at hnd
    simp only [List.map_append, List.map_cons] at hnd
    have := (List.nodup_append.mp hnd).2.2 r.t (List.mem_map_of_mem hr) q.t (by simp)
    exact this heq
  rw [armFind_tagged pre q post (0 + ps.length) _ (fun r hr => hqs r (by rw [hsplit]; simp [hr])) hq hne]
  rw [hq2.2.2 tail hfo, hlen]
  simp

theorem mem_requiredTags (fs : List Field) (t : Nat) : t ∈ requiredTags fs ↔ ∃ f ∈ fs, f.ty.isOptional = false ∧ f.tag = some t := by
  unfold requiredTags
  simp only [List.mem_filterMap]
  constructor
  · rintro ⟨f, hf, h⟩
    refine ⟨f, hf, ?_⟩
    split at h
    · simp at h
    · rename_i hno; exact ⟨by simpa using hno, h⟩
  · rintro ⟨f, hf, hno, ht⟩
    exact ⟨f, hf, by simp [hno, ht]⟩

/-- the positional fields are read back in front of the particular continuation `T` (for a field that decodes
whatever follows it this holds for every `T`; an absent positional optional is read back as absent only in front
of bytes its own decoder fails on). -/
def PosOn : List PF → Bytes → Prop
  | [], _ => True
  | p :: ps, T =>
    p.OK0 ∧ Ty.de p.f.ty p.f.len p.f.enc none (p.bytes ++ (ps.flatMap (·.bytes) ++ T)) = .ok (p.v, ps.flatMap (·.bytes) ++ T) ∧
    PosOn ps T

theorem posOn_of_ok : ∀ (ps : List PF) (T : Bytes), (∀ p ∈ ps, p.OK) → PosOn ps T := by
  intro ps
  induction ps with
  | nil => intro _ _; trivial
  | cons p ps ih =>
    intro T h
    exact ⟨(h p (by simp)).ok0, (h p (by simp)).2.2 _, ih T (fun q hq => h q (by simp [hq]))⟩

theorem posOn_ok0 : ∀ (ps : List PF) (T : Bytes), PosOn ps T → ∀ p ∈ ps, p.OK0 := by
  intro ps
  induction ps with
  | nil => intro _ _ p hp; simp at hp
  | cons q ps ih =>
    intro T h p hp
    simp only [List.mem_cons] at hp
    rcases hp with rfl | hp
    · exact h.1
    · exact ih T h.2.2 p hp

theorem decPos_on : ∀ (ps : List PF) (fs : List Field) (T : Bytes), PosOn ps T →
    decPos (ps.map (·.f) ++ fs) (ps.flatMap (·.bytes) ++ T) =
      match decPos fs T with
      | .error e => .error e
      | .ok (vs, r) => .ok (ps.map (·.v) ++ vs, r) := by
  intro ps
  induction ps with
  | nil =>
    intro fs T _
    simp only [List.map_nil, List.nil_append, List.flatMap_nil]
    cases decPos fs T with
    | error e => rfl
    | ok p => rfl
  | cons p ps ih =>
    intro fs T h
    obtain ⟨h0, hd, hrest⟩ := h
    simp only [List.map_cons, List.cons_append, List.flatMap_cons, List.append_assoc]
    rw [field_eta p.f, h0.1]
    simp only [decPos]
    simp only [Field.ty, Field.len, Field.enc] at hd ⊢
    rw [hd]
    simp only
    rw [ih fs T hrest]
    cases decPos fs T with
    | error e => rfl
    | ok q => rfl

/-- **Struct round trip, compositional.** Positional fields (each round-tripping whatever follows it)
followed by tagged fields with pairwise distinct numbers (present ones decoding exactly whatever follows
them, absent optional ones writing nothing): the generated `encode` writes the concatenation of the
field encodings, and the generated `decode` reads it back as exactly the field values, nothing left. -/
theorem struct_payload_roundtrip_at (ps : List PF) (qs : List TF) (hps : PosOn ps (qs.flatMap (·.bytes))) (hqs : ∀ q ∈ qs, q.OK)
    (hnd : (qs.map (·.t)).Nodup) :
    encFields (ps.map (·.f) ++ qs.map (·.f)) (ps.map (·.v) ++ qs.map (·.v)) =
        .ok (ps.flatMap (·.bytes) ++ qs.flatMap (·.bytes)) ∧
    decStruct (ps.map (·.f) ++ qs.map (·.f)) (ps.flatMap (·.bytes) ++ qs.flatMap (·.bytes)) =
        .ok (.struct (ps.map (·.v) ++ qs.map (·.v)), []) := by
  have hps0 := posOn_ok0 ps _ hps
  constructor
  · exact encFields_pos ps _ _ _ hps0 (encFields_tagged qs hqs)
  · let fs := ps.map (·.f) ++ qs.map (·.f)
    let gs := groupsFrom ps.length qs
    have hflat : qs.flatMap (·.bytes) = flat gs := (flat_groupsFrom qs ps.length hqs).symm
    have hgnd : (gs.map (·.t)).Nodup := List.Nodup.sublist (groupsFrom_tags_sublist qs ps.length) hnd
    have hgok : ∀ g ∈ gs, GroupOK (fun t x => armFind fs t 0 x) g := fun g hg => groupOK_of_fields ps qs hps0 hqs hnd g hg
    unfold decStruct
    have hposAt : decPos fs (ps.flatMap (·.bytes) ++ flat gs) = .ok (ps.map (·.v), flat gs) := by
      rw [← hflat]
      have := decPos_on ps (qs.map (·.f)) (qs.flatMap (·.bytes)) hps
      rw [decPos_tagged_only qs _ hqs] at this
      simpa using this
    rw [hflat, C13.decode_groups_at (fun x => decPos fs x) (fun t x => armFind fs t 0 x) fs (ps.flatMap (·.bytes)) (ps.map (·.v))
      gs hposAt hgok hgnd]
    -- nothing is missing
    have hall : ∀ t ∈ requiredTags fs, t ∈ tagsOf gs [] := by
      intro t ht
      obtain ⟨f, hf, hno, htag⟩ := (mem_requiredTags fs t).mp ht
      simp only [fs, List.mem_append, List.mem_map] at hf
      rcases hf with ⟨p, hp, rfl⟩ | ⟨q, hq, rfl⟩
      · rw [(hps0 p hp).1] at htag; cases htag
      · have hqo := hqs q hq
        have hpres : q.present = true := by
          cases hpp : q.present with
          | true => rfl
          | false =>
            have := hqo.2.2
            simp only [hpp, Bool.false_eq_true, if_false] at this
            rw [this.2.1] at hno; cases hno
        have htq : q.t = t := by rw [hqo.1] at htag; simpa using htag
        obtain ⟨j, hj⟩ := List.getElem?_of_mem hq
        -- the group of q is among gs
        have : ∃ g ∈ gs, g.t = t := by
          clear hgok hgnd hflat
          have key : ∀ (l : List TF) (base : Nat), q ∈ l → ∃ g ∈ groupsFrom base l, g.t = q.t := by
            intro l
            induction l with
            | nil => intro _ h; simp at h
            | cons r l ih =>
              intro base h
              simp only [List.mem_cons] at h
              rcases h with h | h
              · subst h
                exact ⟨⟨q.t, base, q.v, q.bytes, q.strict⟩, by simp [groupsFrom, hpres], rfl⟩
              · obtain ⟨g, hg, hgt⟩ := ih (base + 1) h
                exact ⟨g, by simp [groupsFrom, hg], hgt⟩
          obtain ⟨g, hg, hgt⟩ := key qs ps.length hq
          exact ⟨g, hg, by rw [hgt, htq]⟩
        obtain ⟨g, hg, hgt⟩ := this
        simp only [tagsOf, List.append_nil, List.mem_reverse, List.mem_map]
        exact ⟨g, hg, hgt⟩
    rw [C13.none_missing_accepted fs _ _ _ _ hall]
    -- the assembled value
    have hlook : ∀ j, lookupIdx (ps.length + j) (results gs []) = match qs[j]? with
        | some q => if q.present then some q.v else none
        | none => none := by
      intro j
      have hperm : (results gs []).Perm (gs.map fun g => (g.idx, g.v)) := by
        simp only [results, List.append_nil]; exact List.reverse_perm _
      have hkeys : ((results gs []).map (·.1)).Nodup := by
        simp only [results, List.append_nil, List.map_reverse, List.map_map]
        exact (List.reverse_perm _).nodup_iff.mpr (by simpa [Function.comp_def] using groupsFrom_idx_nodup qs ps.length)
      rw [C13.lookupIdx_perm _ hperm hkeys]
      exact lookup_groups qs ps.length j
    have hasm : assemble fs (ps.map (·.v)) (results gs []) 0 = ps.map (·.v) ++ qs.map (·.v) := by
      have h1 := assemble_pos ps (qs.map (·.f)) [] (results gs []) 0 hps0
      simp only [List.append_nil, Nat.zero_add] at h1
      rw [h1, assemble_tagged qs (results gs []) ps.length hqs hlook]
    rw [hasm]

/-- the same when every positional field decodes whatever follows it. -/
theorem struct_payload_roundtrip (ps : List PF) (qs : List TF) (hps : ∀ p ∈ ps, p.OK) (hqs : ∀ q ∈ qs, q.OK)
    (hnd : (qs.map (·.t)).Nodup) :
    encFields (ps.map (·.f) ++ qs.map (·.f)) (ps.map (·.v) ++ qs.map (·.v)) =
        .ok (ps.flatMap (·.bytes) ++ qs.flatMap (·.bytes)) ∧
    decStruct (ps.map (·.f) ++ qs.map (·.f)) (ps.flatMap (·.bytes) ++ qs.flatMap (·.bytes)) =
        .ok (.struct (ps.map (·.v) ++ qs.map (·.v)), []) :=
  struct_payload_roundtrip_at ps qs (posOn_of_ok ps _ hps) hqs hnd

/-- structs without tagged fields (usable without length prefix) hand back whatever follows them. -/
theorem struct_positional_suffix (ps : List PF) (hps : ∀ p ∈ ps, p.OK) (x : Bytes) :
    decStruct (ps.map (·.f)) (ps.flatMap (·.bytes) ++ x) = .ok (.struct (ps.map (·.v)), x) := by
  unfold decStruct decStructWith
  have hpos := decPos_pos ps [] x hps (by simp)
  simp only [List.map_nil, List.append_nil] at hpos
  simp only [hpos]
  have harm : ∀ t b, armFind (ps.map (·.f)) t 0 b = none := by
    intro t b
    have := armFind_skip_pos ps [] t 0 b (fun p hp => (hps p hp).ok0)
    simp only [List.append_nil] at this
    rw [this]; rfl
  have hloop : tagLoop (fun t b => armFind (ps.map (·.f)) t 0 b) (x.length + 2) (x.length + 1) x [] [] = .ok ([], [], x) := by
    simp only [tagLoop]
    split
    · rfl
    · cases tagDecDefault x with
      | error e => rfl
      | ok p => obtain ⟨t, r⟩ := p; simp only [harm]
  rw [hloop]
  simp only
  have hreq : requiredTags (ps.map (·.f)) = [] := by
    apply List.eq_nil_iff_forall_not_mem.mpr
    intro t ht
    obtain ⟨f, hf, _, htag⟩ := (mem_requiredTags _ t).mp ht
    simp only [List.mem_map] at hf
    obtain ⟨p, hp, rfl⟩ := hf
    rw [(hps p hp).1] at htag; cases htag
  have hasm := assemble_pos ps [] [] [] 0 (fun p hp => (hps p hp).ok0)
  simp only [List.append_nil, assemble] at hasm
  simp [hreq, sortDedup, hasm]

/-- **A nested struct is a field like any other**: under a delimiting length style (with or without tag) it
round-trips whatever follows it — so the struct theorem applies recursively at any nesting depth. -/
theorem struct_field_roundtrip (ps : List PF) (qs : List TF) (hps : ∀ p ∈ ps, p.OK) (hqs : ∀ q ∈ qs, q.OK)
    (hnd : (qs.map (·.t)).Nodup) (L : LenKind) (E : Enc) (tag : Option Nat)
    (htag : ∀ tg, tag = some tg → tagRepresentable tg)
    (hL : ∀ N, L ≠ .fixed N) (hfit : LenFits L (ps.flatMap (·.bytes) ++ qs.flatMap (·.bytes)).length) (x : Bytes) :
    ∃ bytes, Ty.ser (.struct (ps.map (·.f) ++ qs.map (·.f))) L E tag (.struct (ps.map (·.v) ++ qs.map (·.v))) = .ok bytes ∧
      Ty.de (.struct (ps.map (·.f) ++ qs.map (·.f))) L E tag (bytes ++ x) = .ok (.struct (ps.map (·.v) ++ qs.map (·.v)), x) := by
  obtain ⟨henc, hdec⟩ := struct_payload_roundtrip ps qs hps hqs hnd
  have hseen : seenPayload L (ps.flatMap (·.bytes) ++ qs.flatMap (·.bytes)) = ps.flatMap (·.bytes) ++ qs.flatMap (·.bytes) := by
    cases L <;> simp [seenPayload]
    rename_i N; exact absurd rfl (hL N)
  obtain ⟨bytes, hs, hd, _⟩ := deserTagged_serTagged L tag htag _ x hfit
    (fun p => decStruct (ps.map (·.f) ++ qs.map (·.f)) p) _ (by rw [hseen]; exact hdec)
  refine ⟨bytes, ?_, ?_⟩
  · simp only [Ty.ser, henc]; exact hs
  · simp only [Ty.de]; exact hd

/-- **Commands**: class and instruction (big endian) as the tag, APDU length, body. -/
theorem command_roundtrip (s : StructDef) (c0 c1 : Nat) (hc : s.ctrl = some (c0, c1)) (h0 : c0 < 256) (h1 : c1 < 256)
    (ps : List PF) (qs : List TF) (hfs : s.fields = ps.map (·.f) ++ qs.map (·.f))
    (hps : ∀ p ∈ ps, p.OK) (hqs : ∀ q ∈ qs, q.OK) (hnd : (qs.map (·.t)).Nodup)
    (hfit : (ps.flatMap (·.bytes) ++ qs.flatMap (·.bytes)).length ≤ 65535) (x : Bytes) :
    ∃ bytes, encodeCmd s (.struct (ps.map (·.v) ++ qs.map (·.v))) = .ok bytes ∧
      decodeCmd s (bytes ++ x) = .ok (.struct (ps.map (·.v) ++ qs.map (·.v)), x) := by
  obtain ⟨henc, hdec⟩ := struct_payload_roundtrip ps qs hps hqs hnd
  have hstrip : ∀ rest, stripTag tagDecBE (some (ctrlTag (c0, c1))) (tagPrefix tagEncBE (some (ctrlTag (c0, c1))) ++ rest) = .ok rest := by
    intro rest
    simp only [stripTag, tagPrefix]
    rw [tagDecBE_tagEncBE _ (by simp only [ctrlTag]; omega) rest]
    simp
  obtain ⟨bytes, hs, hd, _⟩ := deserTagged_serTagged' tagEncBE tagDecBE .adpu (some (ctrlTag (c0, c1))) hstrip _ x
    (show LenFits .adpu _ from hfit) (fun p => decStruct s.fields p) (.struct (ps.map (·.v) ++ qs.map (·.v)))
    (by simp only [seenPayload]; rw [hfs]; exact hdec)
  refine ⟨bytes, ?_, ?_⟩
  · simp only [encodeCmd, hc]; rw [hfs, henc]; exact hs
  · simp only [decodeCmd, hc]; exact hd

end Zvt
