/-
  RoundTrip.lean — serialise → deserialise, layer by layer (C01): length prefix, generic
  `<TAG><LENGTH><DATA>` triple, leaf encodings; always with arbitrary bytes `x` following the encoding.
-/
import ZvtVerif.Derive
import ZvtVerif.Proofs.EncodingLemmas
import ZvtVerif.Proofs.LengthLemmas
import ZvtVerif.Properties.C16
import ZvtVerif.Properties.C17
namespace Zvt

/-- what the payload decoder gets to see behind a prefix of style `L` for payload `p`: the payload itself,
for `Fixed<N>` preceded by the zero padding. -/
def seenPayload (L : LenKind) (p : Bytes) : Bytes :=
  match L with
  | .fixed n => List.replicate (n - p.length) 0 ++ p
  | _ => p

/-- the payload length is representable in the style (the styles that delimit their payload). -/
def LenFits : LenKind → Nat → Prop
  | .tlv, n => n ≤ 65535
  | .llv k, n => n < 10 ^ k
  | .adpu, n => n ≤ 65535
  | .fixed N, n => n ≤ N
  | _, _ => False

/-- **Length prefix round trip with payload and trailing bytes**: the parser announces a length `n` such
that the first `n` bytes behind the prefix are exactly what the payload decoder must see and the rest is
exactly `x`. -/
theorem len_roundtrip (L : LenKind) (p x : Bytes) (h : LenFits L p.length) :
    ∃ pre, L.ser p.length = .ok pre ∧ ∃ n rest, L.de (pre ++ (p ++ x)) = .ok (n, rest) ∧ n ≤ rest.length ∧
      rest.take n = seenPayload L p ∧ rest.drop n = x := by
  cases L with
  | empty => exact absurd h (by simp [LenFits])
  | temperature => exact absurd h (by simp [LenFits])
  | unknown s => exact absurd h (by simp [LenFits])
  | tlv =>
    obtain ⟨pre, hs, hd⟩ := C16.tlv_ser_de p.length h (p ++ x)
    exact ⟨pre, hs, p.length, p ++ x, hd, by simp, by simp [seenPayload], by simp⟩
  | adpu =>
    obtain ⟨pre, hs, hd⟩ := C16.adpu_ser_de p.length h (p ++ x)
    exact ⟨pre, hs, p.length, p ++ x, hd, by simp, by simp [seenPayload], by simp⟩
  | llv k =>
    obtain ⟨pre, hs, _, hd⟩ := C16.llv_ser_de k p.length h (p ++ x)
    exact ⟨pre, hs, p.length, p ++ x, hd, by simp, by simp [seenPayload], by simp⟩
  | fixed N =>
    have hN : p.length ≤ N := h
    refine ⟨List.replicate (N - p.length) 0, C16.fixed_pad N p.length hN, N, List.replicate (N - p.length) 0 ++ (p ++ x), ?_, ?_, ?_, ?_⟩
    · rw [C16.fixed_de]
      have : ¬ ((List.replicate (N - p.length) 0 ++ (p ++ x)).length < N) := by simp; omega
      simp only [this, if_false]
    · simp; omega
    · simp only [seenPayload]
      rw [← List.append_assoc, List.take_left' (by simp; omega)]
    · rw [← List.append_assoc, List.drop_left' (by simp; omega)]

theorem stripTag_tagEnc (tag : Option Nat) (htag : ∀ t, tag = some t → tagRepresentable t) (rest : Bytes) :
    stripTag tagDecDefault tag (tagPrefix tagEncDefault tag ++ rest) = .ok rest := by
  cases tag with
  | none => simp [stripTag, tagPrefix]
  | some t =>
    simp only [stripTag, tagPrefix]
    rw [tagDec_tagEnc t (htag t rfl) rest]
    simp

/-- **`deserialize_tagged ∘ serialize_tagged`** under a delimiting length style: tag (if any), length
prefix and payload are written; reading them back with ANY bytes `x` behind yields the value the payload
decoder makes of exactly the payload, and hands back exactly `x`. -/
theorem deserTagged_serTagged' {α : Type} (tagEnc : Nat → Bytes) (tagDec : Bytes → Res (Nat × Bytes))
    (L : LenKind) (tag : Option Nat)
    (hstrip : ∀ rest, stripTag tagDec tag (tagPrefix tagEnc tag ++ rest) = .ok rest)
    (p x : Bytes) (hfit : LenFits L p.length) (dec : Bytes → Res (α × Bytes)) (v : α)
    (hdec : dec (seenPayload L p) = .ok (v, [])) :
    ∃ bytes, serTagged tagEnc L tag (.ok p) = .ok bytes ∧
      deserTagged tagDec L dec tag (bytes ++ x) = .ok (v, x) ∧ ∃ r, bytes = tagPrefix tagEnc tag ++ r := by
  obtain ⟨pre, hs, n, rest, hd, hle, htake, hdrop⟩ := len_roundtrip L p x hfit
  refine ⟨tagPrefix tagEnc tag ++ pre ++ p, ?_, ?_, ⟨pre ++ p, by simp⟩⟩
  · simp [serTagged, hs]
  · unfold deserTagged
    have e1 : tagPrefix tagEnc tag ++ pre ++ p ++ x =
        tagPrefix tagEnc tag ++ (pre ++ (p ++ x)) := by simp
    rw [e1, hstrip]
    simp only [hd]
    have : ¬ (n > rest.length) := by omega
    simp only [this, if_false, htake, hdec]
    simp [hdrop]

theorem deserTagged_serTagged {α : Type} (L : LenKind) (tag : Option Nat) (htag : ∀ t, tag = some t → tagRepresentable t)
    (p x : Bytes) (hfit : LenFits L p.length) (dec : Bytes → Res (α × Bytes)) (v : α)
    (hdec : dec (seenPayload L p) = .ok (v, [])) :
    ∃ bytes, serTagged tagEncDefault L tag (.ok p) = .ok bytes ∧
      deserTagged tagDecDefault L dec tag (bytes ++ x) = .ok (v, x) ∧
      ∃ pre, L.ser p.length = .ok pre ∧ bytes = tagPrefix tagEncDefault tag ++ (pre ++ p) := by
  obtain ⟨pre, hs, n, rest, hd, hle, htake, hdrop⟩ := len_roundtrip L p x hfit
  refine ⟨tagPrefix tagEncDefault tag ++ pre ++ p, ?_, ?_, ⟨pre, hs, by simp⟩⟩
  · simp [serTagged, hs]
  · unfold deserTagged
    have e1 : tagPrefix tagEncDefault tag ++ pre ++ p ++ x =
        tagPrefix tagEncDefault tag ++ (pre ++ (p ++ x)) := by simp
    rw [e1, stripTag_tagEnc tag htag]
    simp only [hd]
    have : ¬ (n > rest.length) := by omega
    simp only [this, if_false, htake, hdec]
    simp [hdrop]

/-- the same without length prefix (`Empty`), for decoders that find the end of their value themselves. -/
theorem deserTagged_serTagged_empty {α : Type} (tag : Option Nat) (htag : ∀ t, tag = some t → tagRepresentable t)
    (p x : Bytes) (dec : Bytes → Res (α × Bytes)) (v : α) (hdec : dec (p ++ x) = .ok (v, x)) :
    ∃ bytes, serTagged tagEncDefault .empty tag (.ok p) = .ok bytes ∧
      deserTagged tagDecDefault .empty dec tag (bytes ++ x) = .ok (v, x) ∧ bytes = tagPrefix tagEncDefault tag ++ p := by
  refine ⟨tagPrefix tagEncDefault tag ++ p, ?_, ?_, rfl⟩
  · simp [serTagged, LenKind.ser]
  · unfold deserTagged
    rw [List.append_assoc, stripTag_tagEnc tag htag]
    simp only [LenKind.de]
    simp only [gt_iff_lt, Nat.lt_irrefl, if_false, List.take_length, hdec]
    have : ¬ (x.length > (p ++ x).length) := by simp
    simp only [this, if_false]
    simp

/-! ### leaf encodings -/

theorem idxIn_spec (c : Nat) : ∀ (l : List Nat) (i j : Nat), idxIn c l i = some j → i ≤ j ∧ l[j - i]? = some c := by
  intro l
  induction l with
  | nil => intro i j h; simp [idxIn] at h
  | cons x xs ih =>
    intro i j h
    simp only [idxIn] at h
    split at h
    · rename_i hx; simp at h; subst h; simp [hx]
    · obtain ⟨h1, h2⟩ := ih (i + 1) j h
      refine ⟨by omega, ?_⟩
      have : j - i = (j - (i + 1)) + 1 := by omega
      rw [this]; simpa using h2

theorem cp437High_length : cp437High.length = 128 := by decide +kernel

/-- decode ∘ encode on the CP437 repertoire. -/
theorem cpDecode_cpEncode (c : Nat) (b : UInt8) (h : cpEncode c = some b) : cpDecode b = c := by
  unfold cpEncode at h
  split at h
  · rename_i hc
    simp at h; subst h
    unfold cpDecode
    have : (byte c).toNat = c := byte_toNat_lt (by omega)
    simp [this, hc]
  · cases hi : idxIn c cp437High 0 with
    | none => simp [hi] at h
    | some i =>
      simp only [hi] at h
      simp at h; subst h
      obtain ⟨_, hget⟩ := idxIn_spec c cp437High 0 i hi
      simp only [Nat.sub_zero] at hget
      have hlt : i < 128 := by
        have := (List.getElem?_eq_some_iff.mp hget).1
        rw [cp437High_length] at this; exact this
      unfold cpDecode
      have : (byte (128 + i)).toNat = 128 + i := byte_toNat_lt (by omega)
      rw [this]
      have h2 : ¬ (128 + i < 128) := by omega
      simp only [h2, if_false]
      have : 128 + i - 128 = i := by omega
      rw [this, List.getD_eq_getElem?_getD, hget]; rfl

theorem map_cpDecode_of_encode : ∀ (cs : List Nat) (b : Bytes), cpEncodeStr cs = .ok b → b.map cpDecode = cs
  | [], b, h => by simp [cpEncodeStr] at h; subst h; rfl
  | c :: cs, b, h => by
    simp only [cpEncodeStr] at h
    cases hc : cpEncode c with
    | none => simp [hc] at h
    | some x =>
      simp only [hc] at h
      cases hr : cpEncodeStr cs with
      | error e => simp [hr] at h
      | ok bs =>
        simp only [hr] at h
        simp at h; subst h
        simp [cpDecode_cpEncode c x hc, map_cpDecode_of_encode cs bs hr]

theorem cpEncodeStr_length : ∀ (cs : List Nat) (b : Bytes), cpEncodeStr cs = .ok b → b.length = cs.length
  | [], b, h => by simp [cpEncodeStr] at h; subst h; rfl
  | c :: cs, b, h => by
    simp only [cpEncodeStr] at h
    cases hc : cpEncode c with
    | none => simp [hc] at h
    | some x =>
      simp only [hc] at h
      cases hr : cpEncodeStr cs with
      | error e => simp [hr] at h
      | ok bs => simp only [hr] at h; simp at h; subst h; simp [cpEncodeStr_length cs bs hr]

/-- text that does not end in NUL is not touched by `trim_end_matches('\0')`. -/
theorem trimNul_id (cs : List Nat) (h : cs.getLast? ≠ some 0) : trimNul cs = cs := by
  unfold trimNul
  cases hr : cs.reverse with
  | nil => have : cs = [] := by simpa using hr
           subst this; rfl
  | cons a r =>
    have hl : cs.getLast? = some a := by
      have : cs = (a :: r).reverse := by rw [← hr]; simp
      rw [this]; simp
    have ha : a ≠ 0 := by intro h0; apply h; rw [hl, h0]
    simp only [List.dropWhile_cons, ha, decide_false]
    have : cs = (a :: r).reverse := by rw [← hr]; simp
    rw [this]; simp

/-- **CP437 text** survives encode → decode iff it is in the repertoire and does not end in NUL. -/
theorem cp437_text_roundtrip (cs : List Nat) (b : Bytes) (h : cpEncodeStr cs = .ok b) (hn : cs.getLast? ≠ some 0) :
    cpDecodeStr b = cs := by
  unfold cpDecodeStr
  rw [map_cpDecode_of_encode cs b h, trimNul_id cs hn]

/-- canonical leaf values (DESIGN.md §5.1) of leaf type `t` under length style `L` and encoding `E`,
together with their payload `p`. (UTF-8 text and date-time are not covered by this predicate yet.) -/
def LeafCanon (L : LenKind) (E : Enc) (t : Ty) (v : Val) (p : Bytes) : Prop :=
  leafEnc E t v = .ok p ∧
  match E, t, v with
  | .dflt, .int w, .num n => n < 256 ^ w ∧ (∀ N, L = .fixed N → N = w)
  | .bigEndian, .int w, .num n => n < 256 ^ w ∧ (∀ N, L = .fixed N → N = w)
  | .bcd, .int w, .num n => n < 256 ^ w
  | .prrn, .int w, .num n => (n = 0xffff ∨ n ≤ 9999) ∧ w = 8 ∧ L = .fixed 2
  | .dflt, .str, .str cs => cs.getLast? ≠ some 0 ∧ (∀ N, L = .fixed N → p.length = N)
  | .hex, .str, .str cs => (∀ c ∈ cs, isLowerHex c = true) ∧ (∀ N, L = .fixed N → p.length = N)
  | .custom, .bytes, .raw _ => (∀ N, L = .fixed N → p.length = N)
  | _, _, _ => False

theorem seen_eq_of_exact (L : LenKind) (p : Bytes) (h : ∀ N, L = .fixed N → p.length = N) : seenPayload L p = p := by
  cases L <;> simp [seenPayload]
  rename_i N
  rw [h N rfl]; simp

/-- **Leaf payload round trip**: what the value decoder makes of the bytes it is shown behind the length
prefix is exactly the value, with nothing left. -/
theorem leaf_seen_roundtrip (L : LenKind) (E : Enc) (t : Ty) (v : Val) (p : Bytes)
    (hc : LeafCanon L E t v p) : leafDec E t (seenPayload L p) = .ok (v, []) := by
  obtain ⟨henc, hcan⟩ := hc
  cases E <;> cases t <;> cases v <;> simp only [LeafCanon] at hcan <;> try (exact False.elim hcan)
  · -- dflt int
    rename_i w n
    simp only [leafEnc] at henc; simp at henc; subst henc
    have hs : seenPayload L (leBytes w n) = leBytes w n :=
      seen_eq_of_exact L _ (fun N hN => by rw [leBytes_length]; exact (hcan.2 N hN).symm)
    rw [hs]; simp only [leafDec]
    have : intDecode false w (leBytes w n) = .ok (n, []) := by
      simpa [intEncode] using intDecode_intEncode false w n hcan.1 []
    rw [this]; rfl
  · -- dflt str
    rename_i cs
    simp only [leafEnc] at henc
    rw [seen_eq_of_exact L p hcan.2]
    simp only [leafDec, cp437_text_roundtrip cs p henc hcan.1]
  · -- be int
    rename_i w n
    simp only [leafEnc] at henc; simp at henc; subst henc
    have hs : seenPayload L (beBytes w n) = beBytes w n :=
      seen_eq_of_exact L _ (fun N hN => by rw [beBytes_length]; exact (hcan.2 N hN).symm)
    rw [hs]; simp only [leafDec]
    have : intDecode true w (beBytes w n) = .ok (n, []) := by
      simpa [intEncode] using intDecode_intEncode true w n hcan.1 []
    rw [this]; rfl
  · -- bcd int
    rename_i w n
    simp only [leafEnc] at henc; simp at henc; subst henc
    simp only [leafDec]
    have hb : bcdDec w (seenPayload L (bcdEncK n)) = .ok (n, []) := by
      cases L <;> simp only [seenPayload] <;> try (rw [bcdEncK_eq]; exact bcdDec_bcdEnc w n hcan)
      rw [C17.bcd_leading_zeros, bcdEncK_eq]; exact bcdDec_bcdEnc w n hcan
    rw [hb]; rfl
  · -- hex str
    rename_i cs
    simp only [leafEnc] at henc
    rw [seen_eq_of_exact L p hcan.2]
    simp only [leafDec, hexDecode_hexEncode cs p hcan.1 henc]
  · -- custom bytes
    rename_i b
    simp only [leafEnc] at henc; simp at henc; subst henc
    rw [seen_eq_of_exact L _ hcan]
    simp [leafDec]
  · -- prrn
    rename_i w n
    obtain ⟨hn, hw, hL⟩ := hcan
    subst hw; subst hL
    simp only [leafEnc] at henc; simp at henc; subst henc
    simp only [leafDec, seenPayload]
    rcases hn with hn | hn
    · subst hn
      have := C17.receiptNo_sentinel 8 []
      simp only [List.append_nil] at this
      have hl : (prrnEnc 65535).length = 2 := by decide +kernel
      simp only [hl, Nat.sub_self, List.replicate_zero, List.nil_append, this]; rfl
    · have := C17.receiptNo_roundtrip n hn []
      simp only [List.append_nil, padLeft] at this
      rw [this]; rfl

/-! ### fields of leaf type -/

def IsLeaf : Ty → Prop
  | .int _ => True
  | .str => True
  | _ => False

/-- **Field round trip (numbers and text, delimiting length style)**: the bytes `serialize_tagged` writes for a
canonical value — tag if any, length prefix, payload — are read back by `deserialize_tagged` as exactly that
value, and whatever follows (`x`) is handed back untouched. -/
theorem leaf_field_roundtrip (t : Ty) (ht : IsLeaf t) (L : LenKind) (E : Enc) (tag : Option Nat)
    (htag : ∀ tg, tag = some tg → tagRepresentable tg) (v : Val) (p : Bytes)
    (hc : LeafCanon L E t v p) (hfit : LenFits L p.length) (x : Bytes) :
    ∃ bytes, Ty.ser t L E tag v = .ok bytes ∧ Ty.de t L E tag (bytes ++ x) = .ok (v, x) ∧
      ∃ pre, L.ser p.length = .ok pre ∧ bytes = tagPrefix tagEncDefault tag ++ (pre ++ p) := by
  have hdec := leaf_seen_roundtrip L E t v p hc
  obtain ⟨bytes, hs, hd, hpre⟩ := deserTagged_serTagged L tag htag p x hfit (leafDec E t) v hdec
  cases t with
  | int w => exact ⟨bytes, by simp only [Ty.ser]; rw [hc.1]; exact hs, by simp only [Ty.de]; exact hd, hpre⟩
  | str => exact ⟨bytes, by simp only [Ty.ser]; rw [hc.1]; exact hs, by simp only [Ty.de]; exact hd, hpre⟩
  | bytes => exact absurd ht (by simp [IsLeaf])
  | dateTime => exact absurd ht (by simp [IsLeaf])
  | struct fs => exact absurd ht (by simp [IsLeaf])
  | opt t => exact absurd ht (by simp [IsLeaf])
  | vec t => exact absurd ht (by simp [IsLeaf])

/-- binary payload (`Vec<u8>` under `Custom`): non-empty payloads round-trip; the empty payload is omitted
together with its tag (outside the canonical domain). -/
theorem bytes_field_roundtrip (L : LenKind) (tag : Option Nat) (htag : ∀ tg, tag = some tg → tagRepresentable tg)
    (b : Bytes) (hne : b ≠ []) (hc : LeafCanon L .custom .bytes (.raw b) b) (hfit : LenFits L b.length) (x : Bytes) :
    ∃ bytes, Ty.ser .bytes L .custom tag (.raw b) = .ok bytes ∧ Ty.de .bytes L .custom tag (bytes ++ x) = .ok (.raw b, x) ∧
      ∃ pre, L.ser b.length = .ok pre ∧ bytes = tagPrefix tagEncDefault tag ++ (pre ++ b) := by
  have hdec := leaf_seen_roundtrip L .custom .bytes (.raw b) b hc
  obtain ⟨bytes, hs, hd, hpre⟩ := deserTagged_serTagged L tag htag b x hfit (leafDec .custom .bytes) (.raw b) hdec
  refine ⟨bytes, ?_, by simp only [Ty.de]; exact hd, hpre⟩
  have : b.isEmpty = false := by cases b <;> simp_all
  simp only [Ty.ser, this]
  simpa [leafEnc] using hs

/-- fixed-width integers without length prefix (`Empty`): the decoder takes exactly `w` bytes. -/
theorem int_field_roundtrip_empty (w n : Nat) (be : Bool) (hn : n < 256 ^ w) (tag : Option Nat)
    (htag : ∀ tg, tag = some tg → tagRepresentable tg) (x : Bytes) :
    ∃ bytes, Ty.ser (.int w) .empty (if be then .bigEndian else .dflt) tag (.num n) = .ok bytes ∧
      Ty.de (.int w) .empty (if be then .bigEndian else .dflt) tag (bytes ++ x) = .ok (.num n, x) ∧
      bytes = tagPrefix tagEncDefault tag ++ intEncode be w n := by
  have hdec : leafDec (if be then .bigEndian else .dflt) (.int w) (intEncode be w n ++ x) = .ok (.num n, x) := by
    cases be <;> simp only [leafDec, Bool.false_eq_true, if_false, if_true] <;>
      (rw [intDecode_intEncode _ w n hn x]; rfl)
  obtain ⟨bytes, hs, hd, hpre⟩ := deserTagged_serTagged_empty tag htag (intEncode be w n) x (leafDec (if be then .bigEndian else .dflt) (.int w)) (.num n) hdec
  refine ⟨bytes, ?_, by simp only [Ty.de]; exact hd, hpre⟩
  simp only [Ty.ser]
  cases be <;> simpa [leafEnc, intEncode] using hs

/-- **Optional fields.** A present value of a tagged `Option<T>` field is written and read exactly like a
`T`; an absent one writes nothing at all (no tag, no length). -/
theorem opt_some_roundtrip (t : Ty) (L : LenKind) (E : Enc) (tg : Nat) (v : Val) (bytes x : Bytes)
    (hs : Ty.ser t L E (some tg) v = .ok bytes) (hd : Ty.de t L E (some tg) (bytes ++ x) = .ok (v, x)) :
    Ty.ser (.opt t) L E (some tg) (.some v) = .ok bytes ∧ Ty.de (.opt t) L E (some tg) (bytes ++ x) = .ok (.some v, x) := by
  constructor
  · simp only [Ty.ser]; exact hs
  · simp only [Ty.de, hd]

theorem opt_none_writes_nothing (t : Ty) (L : LenKind) (E : Enc) (tag : Option Nat) :
    Ty.ser (.opt t) L E tag .none = .ok [] := by simp [Ty.ser]

/-- a positional `Option<T>` that is present decodes as present (its absence is not representable unless the
decoder of `T` fails on what follows — DESIGN.md §5.1). -/
theorem opt_positional_some (t : Ty) (L : LenKind) (E : Enc) (v : Val) (bytes x : Bytes)
    (hd : Ty.de t L E none (bytes ++ x) = .ok (v, x)) :
    Ty.de (.opt t) L E none (bytes ++ x) = .ok (.some v, x) := by
  simp only [Ty.de, hd]

end Zvt
