/-
  ClientFrame.lean — traffic on abandoned connections: whatever the client does, the per-connection log of every
  slot that is not the live connection stays exactly as it is (nothing is sent, received or closed on it), no slot
  disappears, and the live connection afterwards is the old live one or one opened since (`Quiet`). Lifted from one
  `stream.next()` (`seqNext_frame`) over attempts, reconnects, the retry loop and every operation of the client.
-/
import ZvtVerif.Proofs.ClientLemmas
namespace Zvt

theorem onceExchange_others (d : SeqDesc) (dl : Nat) (w : World) (c : ConnSt) (j : Nat) (hj : j ≠ c.id) :
    (onceExchange d dl w c).2.1.logs[j]? = w.logs[j]? := by
  have h := (seqNext_frame d dl w c .start).others j hj
  unfold onceExchange
  generalize seqNext d dl w c .start = q at h ⊢
  obtain ⟨o, w1, c1, st⟩ := q
  cases o <;> exact h

theorem runItems_others {σ ρ : Type} (d : SeqDesc) (timeout : Nat) (step : σ → Item → Step σ ρ) :
    ∀ (fuel : Nat) (w : World) (c : ConnSt) (st : SeqSt) (s : σ) (j : Nat), j ≠ c.id →
      (runItems d timeout step fuel w c st s).2.1.logs[j]? = w.logs[j]? := by
  intro fuel
  induction fuel with
  | zero => intro w c st s j _; simp [runItems]
  | succ fuel ih =>
    intro w c st s j hj
    simp only [runItems]
    have hf := seqNext_frame d (w.now + timeout) w c st
    generalize seqNext d (w.now + timeout) w c st = q at hf ⊢
    obtain ⟨o, w1, c1, st1⟩ := q
    simp only at hf
    have hn := hf.others j hj
    have hj1 : j ≠ c1.id := by rw [hf.id]; exact hj
    cases o with
    | ended => simp only; exact hn
    | hang => simp only; rw [dropConn_others _ _ j hj1]; exact hn
    | item it =>
      cases it with
      | err =>
        simp only
        cases step s .err with
        | ret r => simp only; exact hn
        | cont s' => simp only; rw [dropConn_others _ _ j hj1]; exact hn
      | ok i v =>
        simp only
        cases step s (.ok i v) with
        | ret r => simp only; exact hn
        | cont s' =>
          simp only
          rw [ih w1 c1 st1 s' j hj1]; exact hn

/-- the handshake touches no slot that existed before it. -/
theorem connect_old_slots (cfg : Cfg) (w : World) (j : Nat) (hj : j < w.logs.length) :
    (connect cfg w).1.logs[j]? = w.logs[j]? := by
  have happ : ∀ (x : List LogE), (w.logs ++ [x])[j]? = w.logs[j]? := fun x => List.getElem?_append_left hj
  unfold connect
  simp only
  split
  · simp only; exact happ _
  · split
    · simp only; exact happ _
    · generalize hw0 : ({ w with logs := w.logs ++ [[.opened w.now]] } : World) = w0
      have hl0 : w0.logs[j]? = w.logs[j]? := by rw [← hw0]; exact happ _
      have hne : j ≠ ({ id := w.logs.length } : ConnSt).id := Nat.ne_of_lt hj
      have h1 := onceExchange_others (seqDesc "sequences::Registration" (registrationCmd cfg)) (w.now + TIMEOUT) w0 { id := w.logs.length } j hne
      have hid1 := onceExchange_id (seqDesc "sequences::Registration" (registrationCmd cfg)) (w.now + TIMEOUT) w0 { id := w.logs.length }
      generalize onceExchange (seqDesc "sequences::Registration" (registrationCmd cfg)) (w.now + TIMEOUT) w0 { id := w.logs.length } = q1 at h1 hid1 ⊢
      obtain ⟨o, w1, c1⟩ := q1
      simp only at h1 hid1
      have hne1 : j ≠ c1.id := by rw [hid1]; exact hne
      cases o with
      | none => simp only; rw [dropConn_others _ _ j hne1]; simp only; rw [h1, hl0]
      | some it =>
        cases it with
        | err => simp only; rw [dropConn_others _ _ j hne1, h1, hl0]
        | ok i v =>
          simp only
          have h2 := onceExchange_others (seqDesc "feig::sequences::GetSystemInfo" sysInfoCmd) (w.now + TIMEOUT) w1 c1 j hne1
          have hid2 := onceExchange_id (seqDesc "feig::sequences::GetSystemInfo" sysInfoCmd) (w.now + TIMEOUT) w1 c1
          generalize onceExchange (seqDesc "feig::sequences::GetSystemInfo" sysInfoCmd) (w.now + TIMEOUT) w1 c1 = q2 at h2 hid2 ⊢
          obtain ⟨o2, w2, c2⟩ := q2
          simp only at h2 hid2
          have hne2 : j ≠ c2.id := by rw [hid2]; exact hne1
          cases o2 with
          | none => simp only; rw [dropConn_others _ _ j hne2]; simp only; rw [h2, h1, hl0]
          | some it2 =>
            cases it2 with
            | err => simp only; rw [dropConn_others _ _ j hne2, h2, h1, hl0]
            | ok i2 v2 =>
              simp only
              split
              · split
                · simp only; rw [h2, h1, hl0]
                · rw [dropConn_others _ _ j hne2, h2, h1, hl0]
              · rw [dropConn_others _ _ j hne2, h2, h1, hl0]

/-- **`w'` is a quiet continuation of `w`**: no slot disappeared, the live connection is the one of `w` or a newer
one, and the log of every slot of `w` that was not its live connection is unchanged. -/
structure Quiet (w w' : World) : Prop where
  fresh : FreshRel w w'
  frozen : ∀ j, j < w.logs.length → (∀ c, w.conn = some c → c.id ≠ j) → w'.logs[j]? = w.logs[j]?

theorem Quiet.refl (w : World) : Quiet w w := ⟨FreshRel.refl w, fun _ _ _ => rfl⟩

theorem Quiet.trans {a b c : World} (h1 : Quiet a b) (h2 : Quiet b c) : Quiet a c := by
  refine ⟨⟨Nat.le_trans h1.fresh.1 h2.fresh.1, ?_⟩, ?_⟩
  · intro c' hc'
    rcases h2.fresh.2 c' hc' with ⟨cb, hb, hid⟩ | hge
    · rcases h1.fresh.2 cb hb with ⟨ca, ha, hid2⟩ | hge2
      · exact Or.inl ⟨ca, ha, hid.trans hid2⟩
      · right; rw [hid]; exact hge2
    · right; exact Nat.le_trans h1.fresh.1 hge
  · intro j hj hdead
    have hjb : j < b.logs.length := Nat.lt_of_lt_of_le hj h1.fresh.1
    have hdeadb : ∀ cb, b.conn = some cb → cb.id ≠ j := by
      intro cb hb
      rcases h1.fresh.2 cb hb with ⟨ca, ha, hid⟩ | hge
      · rw [hid]; exact hdead ca ha
      · omega
    rw [h2.frozen j hjb hdeadb, h1.frozen j hj hdead]

/-- a change of the clock only. -/
theorem Quiet.of_clock (w : World) (t : Nat) : Quiet w { w with now := t } := ⟨⟨Nat.le_refl _, fun c' h => Or.inl ⟨c', h, rfl⟩⟩, fun _ _ _ => rfl⟩

theorem quiet_ensureConn (cfg : Cfg) (w : World) : Quiet w (ensureConn cfg w).1 := by
  refine ⟨freshRel_ensureConn cfg w w (FreshRel.refl w), ?_⟩
  intro j hj _
  unfold ensureConn
  cases w.conn with
  | some c => rfl
  | none => exact connect_old_slots cfg w j hj

theorem quiet_runItems {σ ρ : Type} (d : SeqDesc) (timeout : Nat) (step : σ → Item → Step σ ρ) (fuel : Nat)
    (w : World) (c : ConnSt) (st : SeqSt) (s : σ) (hc : w.conn = some c) :
    Quiet w (runItems d timeout step fuel w c st s).2.1 := by
  refine ⟨freshRel_runItems d timeout step fuel w w c st s (FreshRel.refl w) hc, ?_⟩
  intro j _ hdead
  exact runItems_others d timeout step fuel w c st s j (fun e => hdead c hc e.symm)

/-- the retry loop with all its attempts and reconnects. -/
theorem quiet_retryLoop {σ ρ : Type} (cfg : Cfg) (d : SeqDesc) (timeout : Nat) (step : σ → Item → Step σ ρ) :
    ∀ (n : Nat) (prev : Option Nat) (w : World) (s : σ), Quiet w (retryLoop cfg d timeout step n prev w s).2 := by
  intro n
  induction n with
  | zero => intro prev w s; simpa [retryLoop] using Quiet.refl w
  | succ n ih =>
    intro prev w s
    simp only [retryLoop]
    have ht : Quiet w { w with now := throttleStart prev w.now } := Quiet.of_clock w _
    have he := ht.trans (quiet_ensureConn cfg { w with now := throttleStart prev w.now })
    generalize ensureConn cfg { w with now := throttleStart prev w.now } = q at he ⊢
    obtain ⟨w1, live⟩ := q
    simp only at he
    cases live with
    | false =>
      simp only
      cases step s .err with
      | ret r => exact he
      | cont s' => exact he.trans (ih _ w1 s')
    | true =>
      simp only
      cases hc1 : w1.conn with
      | none => exact he
      | some c =>
        simp only
        have hr := he.trans (quiet_runItems d timeout step ITEM_FUEL w1 c .start s hc1)
        generalize runItems d timeout step ITEM_FUEL w1 c .start s = q2 at hr ⊢
        obtain ⟨o, w2, e⟩ := q2
        simp only at hr
        cases o with
        | ret r => exact hr
        | cont s' =>
          cases e with
          | false => exact hr
          | true => exact hr.trans (ih _ w2 s')

/-- one exchange of the client, with all its retries. -/
theorem quiet_runOp {σ ρ : Type} (cfg : Cfg) (seqName : String) (cmd : Bytes) (timeout : Nat)
    (step : σ → Item → Step σ ρ) (w : World) (s : σ) : Quiet w (runOp cfg seqName cmd timeout step w s).2 :=
  quiet_retryLoop cfg (seqDesc seqName cmd) timeout step ATTEMPTS none w s


/-! ### every operation of the client -/

theorem quiet_getSystemInfo (cfg : Cfg) (w : World) : Quiet w (getSystemInfo cfg w).2 := by
  unfold getSystemInfo
  have h := quiet_runOp cfg "feig::sequences::GetSystemInfo" sysInfoCmd TIMEOUT
    (sysInfoStep (findEnumG "feig::sequences::GetSystemInfoResponse")) w ()
  generalize runOp cfg "feig::sequences::GetSystemInfo" sysInfoCmd TIMEOUT
    (sysInfoStep (findEnumG "feig::sequences::GetSystemInfoResponse")) w () = q at h ⊢
  obtain ⟨o, w1⟩ := q
  cases o <;> exact h

theorem quiet_simpleOp (cfg : Cfg) (seqName : String) (cmd : Bytes) (w : World)
    (onOk : EnumDef → Nat → Val → Step Unit (CRes Unit)) : Quiet w (simpleOp cfg seqName cmd w onOk).2 := by
  unfold simpleOp
  have h := quiet_runOp cfg seqName cmd TIMEOUT (liftStep (onOk (seqDesc seqName cmd).enum)) w ()
  generalize runOp cfg seqName cmd TIMEOUT (liftStep (onOk (seqDesc seqName cmd).enum)) w () = q at h ⊢
  obtain ⟨o, w1⟩ := q
  cases o <;> exact h

theorem quiet_setTerminalId (cfg : Cfg) (w : World) : Quiet w (setTerminalId cfg w).2 := by
  unfold setTerminalId
  have h := quiet_getSystemInfo cfg w
  generalize getSystemInfo cfg w = q at h ⊢
  obtain ⟨r, w1⟩ := q
  cases r with
  | error e => exact h
  | ok info =>
    simp only
    split
    · exact h
    · split
      · exact h
      · exact h.trans (quiet_simpleOp cfg _ _ w1 _)

theorem quiet_initializeT (cfg : Cfg) (w : World) : Quiet w (initializeT cfg w).2 := quiet_simpleOp cfg _ _ w _

theorem quiet_cancelByReceipt (cfg : Cfg) (r : Nat) (w : World) : Quiet w (cancelByReceipt cfg r w).2 :=
  quiet_simpleOp cfg _ _ w _

theorem quiet_getPending (cfg : Cfg) (w : World) : Quiet w (getPending cfg w).2 := by
  unfold getPending
  have h := quiet_runOp cfg "sequences::PartialReversal" pendingCmd TIMEOUT
    (pendingStep (findEnumG "sequences::PartialReversalResponse")) w ()
  generalize runOp cfg "sequences::PartialReversal" pendingCmd TIMEOUT
    (pendingStep (findEnumG "sequences::PartialReversalResponse")) w () = q at h ⊢
  obtain ⟨o, w1⟩ := q
  cases o <;> exact h

theorem quiet_cancelAll (cfg : Cfg) : ∀ (rs : List Nat) (w : World), Quiet w (cancelAll cfg rs w).2 := by
  intro rs
  induction rs with
  | nil => intro w; exact Quiet.refl w
  | cons r rs ih =>
    intro w
    simp only [cancelAll]
    have h := quiet_cancelByReceipt cfg r w
    generalize cancelByReceipt cfg r w = q at h ⊢
    obtain ⟨o, w1⟩ := q
    cases o with
    | error e => exact h
    | ok u => exact h.trans (ih w1)

theorem quiet_endOfDay (cfg : Cfg) (cl : Client) (w : World) : Quiet w (endOfDay cfg cl w).2.2 := by
  unfold endOfDay
  simp only
  have h := quiet_getPending cfg w
  generalize getPending cfg w = q at h ⊢
  obtain ⟨o, w1⟩ := q
  cases o with
  | error e => exact h
  | ok pend =>
    simp only
    have h2 := h.trans (quiet_cancelAll cfg pend w1)
    generalize cancelAll cfg pend w1 = q2 at h2 ⊢
    obtain ⟨o2, w2⟩ := q2
    cases o2 with
    | error e => exact h2
    | ok u => exact h2.trans (quiet_simpleOp cfg _ _ w2 _)

theorem quiet_configure (cfg : Cfg) (cl : Client) (w : World) : Quiet w (configure cfg cl w).2.2 := by
  unfold configure
  have h := quiet_setTerminalId cfg w
  generalize setTerminalId cfg w = q at h ⊢
  obtain ⟨o, w1⟩ := q
  cases o with
  | error e => exact h
  | ok u =>
    simp only
    have h2 := h.trans (quiet_initializeT cfg w1)
    generalize initializeT cfg w1 = q2 at h2 ⊢
    obtain ⟨o2, w2⟩ := q2
    cases o2 with
    | error e => exact h2
    | ok u2 => exact h2.trans (quiet_endOfDay cfg cl w2)

theorem quiet_readCard (cfg : Cfg) (w : World) : Quiet w (readCard cfg w).2 := by
  unfold readCard
  have h := quiet_runOp cfg "sequences::ReadCard" (readCardCmd cfg) (readCardTimeoutOf cfg.readCardTimeout)
    (readCardStep (findEnumG "sequences::ReadCardResponse")) w none
  generalize runOp cfg "sequences::ReadCard" (readCardCmd cfg) (readCardTimeoutOf cfg.readCardTimeout)
    (readCardStep (findEnumG "sequences::ReadCardResponse")) w none = q at h ⊢
  obtain ⟨o, w1⟩ := q
  cases o with
  | ret r => exact h
  | cont st => cases st <;> exact h

theorem quiet_beginTx (cfg : Cfg) (cl : Client) (t : List Nat) (w : World) : Quiet w (beginTx cfg cl t w).2.2 := by
  unfold beginTx
  split
  · exact Quiet.refl w
  · split
    · exact Quiet.refl w
    · have h := quiet_runOp cfg "sequences::Reservation" (reservationCmd cfg t) TIMEOUT
        (beginStep (findEnumG "sequences::AuthorizationResponse")) w none
      generalize runOp cfg "sequences::Reservation" (reservationCmd cfg t) TIMEOUT
        (beginStep (findEnumG "sequences::AuthorizationResponse")) w none = q at h ⊢
      obtain ⟨o, w1⟩ := q
      unfold beginFold
      cases o with
      | ret r => exact h
      | cont st => cases st <;> exact h

theorem quiet_idleCleanup (cfg : Cfg) (cl : Client) (w : World) : Quiet w (idleCleanup cfg cl w).2.2 := by
  unfold idleCleanup
  split
  · exact quiet_endOfDay cfg cl w
  · exact Quiet.refl w

theorem quiet_cancelTx (cfg : Cfg) (cl : Client) (t : List Nat) (w : World) : Quiet w (cancelTx cfg cl t w).2.2 := by
  unfold cancelTx
  split
  · exact Quiet.refl w
  · next r _ =>
    have h := quiet_cancelByReceipt cfg r w
    generalize cancelByReceipt cfg r w = q at h ⊢
    obtain ⟨o, w1⟩ := q
    unfold cancelFold
    cases o with
    | error e => exact h
    | ok u => exact h.trans (quiet_idleCleanup cfg _ w1)

theorem quiet_commitTx (cfg : Cfg) (cl : Client) (t : List Nat) (f : Nat) (w : World) :
    Quiet w (commitTx cfg cl t f w).2.2 := by
  unfold commitTx
  split
  · exact Quiet.refl w
  · next r _ =>
    have h := quiet_runOp cfg "sequences::PartialReversal" (commitCmd cfg t r f) TIMEOUT
      (commitStep (findEnumG "sequences::PartialReversalResponse")) w none
    generalize runOp cfg "sequences::PartialReversal" (commitCmd cfg t r f) TIMEOUT
      (commitStep (findEnumG "sequences::PartialReversalResponse")) w none = q at h ⊢
    obtain ⟨o, w1⟩ := q
    unfold commitFold
    cases o with
    | ret r => exact h
    | cont st =>
      simp only
      have h2 := h.trans (quiet_idleCleanup cfg { txs := cl.txs.filter (·.1 ≠ t) } w1)
      generalize idleCleanup cfg { txs := cl.txs.filter (·.1 ≠ t) } w1 = q2 at h2 ⊢
      obtain ⟨o2, cl2, w2⟩ := q2
      cases o2 with
      | error e => exact h2
      | ok u => cases st <;> exact h2

/-! ### call histories -/

/-- the public operations of `Feig`. -/
inductive ClientCall where
  | configure
  | readCard
  | begin (token : List Nat)
  | commit (token : List Nat) (final : Nat)
  | cancel (token : List Nat)

def runClientCall (cfg : Cfg) (s : Client × World) : ClientCall → Client × World
  | .configure => ((configure cfg s.1 s.2).2.1, (configure cfg s.1 s.2).2.2)
  | .readCard => (s.1, (readCard cfg s.2).2)
  | .begin t => ((beginTx cfg s.1 t s.2).2.1, (beginTx cfg s.1 t s.2).2.2)
  | .commit t f => ((commitTx cfg s.1 t f s.2).2.1, (commitTx cfg s.1 t f s.2).2.2)
  | .cancel t => ((cancelTx cfg s.1 t s.2).2.1, (cancelTx cfg s.1 t s.2).2.2)

def runClientCalls (cfg : Cfg) (s : Client × World) (calls : List ClientCall) : Client × World :=
  calls.foldl (runClientCall cfg) s

theorem quiet_call (cfg : Cfg) (s : Client × World) (c : ClientCall) : Quiet s.2 (runClientCall cfg s c).2 := by
  cases c with
  | configure => exact quiet_configure cfg s.1 s.2
  | readCard => exact quiet_readCard cfg s.2
  | begin t => exact quiet_beginTx cfg s.1 t s.2
  | commit t f => exact quiet_commitTx cfg s.1 t f s.2
  | cancel t => exact quiet_cancelTx cfg s.1 t s.2

theorem quiet_calls (cfg : Cfg) : ∀ (calls : List ClientCall) (s : Client × World),
    Quiet s.2 (runClientCalls cfg s calls).2 := by
  intro calls
  induction calls with
  | nil => intro s; exact Quiet.refl s.2
  | cons c cs ih => intro s; exact (quiet_call cfg s c).trans (ih (runClientCall cfg s c))

end Zvt
