/-
  SizeBound.lean — the decoded value is never larger than a schema constant times the input consumed (C02:
  "never allocates beyond a small multiple of the input"), for every schema and every byte string.
-/
import ZvtVerif.Proofs.NoPanic
namespace Zvt

mutual
/-- number of nodes, characters and payload bytes of a value (what a decoder has to allocate for it). -/
def Val.size : Val → Nat
  | .num _ => 1
  | .str cs => 1 + cs.length
  | .raw b => 1 + b.length
  | .dt _ _ => 1
  | .none => 1
  | .some v => 1 + v.size
  | .vec vs => 1 + Val.sizeList vs
  | .struct vs => 1 + Val.sizeList vs
def Val.sizeList : List Val → Nat
  | [] => 0
  | v :: vs => v.size + Val.sizeList vs
end

theorem sizeList_append (a b : List Val) : Val.sizeList (a ++ b) = Val.sizeList a + Val.sizeList b := by
  induction a with
  | nil => simp [Val.sizeList]
  | cons x xs ih => simp [Val.sizeList, ih]; omega

theorem sizeList_reverse (a : List Val) : Val.sizeList a.reverse = Val.sizeList a := by
  induction a with
  | nil => rfl
  | cons x xs ih => simp [sizeList_append, Val.sizeList, ih]; omega

/-- "the remainder is not longer than the input and the value is at most `W × (1 + bytes consumed)`". -/
def SB (W : Nat) (r : Res (Val × Bytes)) (b : Bytes) : Prop :=
  ∀ v rem, r = .ok (v, rem) → rem.length ≤ b.length ∧ v.size ≤ W * (1 + (b.length - rem.length))

theorem SB_error (W : Nat) (e : Err) (b : Bytes) : SB W (.error e) b := by
  intro v rem h; cases h

theorem SB_ok (W : Nat) (v : Val) (r b : Bytes) (h1 : r.length ≤ b.length) (h2 : v.size ≤ W * (1 + (b.length - r.length))) :
    SB W (.ok (v, r)) b := by
  intro v' rem h; cases h; exact ⟨h1, h2⟩

theorem mul_mono {W W' c c' : Nat} (hW : W ≤ W') (hc : c ≤ c') : W * (1 + c) ≤ W' * (1 + c') :=
  Nat.mul_le_mul hW (by omega)

/-- a longer enclosing input only increases the consumption. -/
theorem SB_mono (W : Nat) (r : Res (Val × Bytes)) (b b' : Bytes) (h : SB W r b) (hl : b.length ≤ b'.length) : SB W r b' := by
  intro v rem hr
  obtain ⟨h1, h2⟩ := h v rem hr
  exact ⟨by omega, Nat.le_trans h2 (mul_mono (Nat.le_refl W) (by omega))⟩

theorem SB_weight (W W' : Nat) (hW : W ≤ W') (r : Res (Val × Bytes)) (b : Bytes) (h : SB W r b) : SB W' r b := by
  intro v rem hr
  obtain ⟨h1, h2⟩ := h v rem hr
  exact ⟨h1, Nat.le_trans h2 (mul_mono hW (Nat.le_refl _))⟩

/-! ### leaves -/

theorem dropWhile_length_le {α : Type} (p : α → Bool) (l : List α) : (l.dropWhile p).length ≤ l.length := by
  induction l with
  | nil => simp
  | cons x xs ih =>
    simp only [List.dropWhile]
    split
    · simp; omega
    · simp

theorem trimNul_length (cs : List Nat) : (trimNul cs).length ≤ cs.length := by
  unfold trimNul
  rw [List.length_reverse]
  have := dropWhile_length_le (fun x : Nat => decide (x = 0)) cs.reverse
  simpa using this

theorem hexDecodeStr_length (b : Bytes) : (hexDecodeStr b).length = 2 * b.length := by
  induction b with
  | nil => rfl
  | cons x xs ih => simp [hexDecodeStr, ih]; omega

theorem utf8DecodeFuel_length : ∀ (f : Nat) (b : Bytes) (cs : List Nat), utf8DecodeFuel f b = some cs → cs.length ≤ b.length := by
  intro f
  induction f with
  | zero => intro b cs h; simp [utf8DecodeFuel] at h
  | succ f ih =>
    intro b cs h
    cases b with
    | nil => simp [utf8DecodeFuel] at h; subst h; simp
    | cons b0 rest =>
      simp only [utf8DecodeFuel] at h
      -- every branch that succeeds prepends one character to the decoding of a strict suffix
      have key : ∀ (r : Bytes) (c : Nat), r.length ≤ rest.length → (utf8DecodeFuel f r).map (c :: ·) = some cs → cs.length ≤ (b0 :: rest).length := by
        intro r c hr hm
        cases hd : utf8DecodeFuel f r with
        | none => simp [hd] at hm
        | some cs' =>
          simp [hd] at hm
          subst hm
          have := ih r cs' hd
          simp; omega
      split at h
      · exact key rest _ (Nat.le_refl _) h
      · split at h
        · match rest, h with
          | b1 :: r, h =>
            simp only at h
            split at h
            · exact key r _ (by simp) h
            · simp at h
          | [], h => simp at h
        · split at h
          · match rest, h with
            | b1 :: b2 :: r, h =>
              simp only at h
              split at h
              · exact key r _ (by simp; omega) h
              · simp at h
            | [_], h => simp at h
            | [], h => simp at h
          · split at h
            · match rest, h with
              | b1 :: b2 :: b3 :: r, h =>
                simp only at h
                split at h
                · exact key r _ (by simp; omega) h
                · simp at h
              | [_, _], h => simp at h
              | [_], h => simp at h
              | [], h => simp at h
            · simp at h

theorem SB_map_num (r : Res (Nat × Bytes)) (b : Bytes) (h : NP r b) :
    SB 2 (r.map fun (n, x) => (Val.num n, x)) b := by
  intro v rem hr
  cases hrr : r with
  | error e => rw [hrr] at hr; simp [Except.map] at hr
  | ok p =>
    obtain ⟨n, x⟩ := p
    rw [hrr] at hr
    have he : (Val.num n, x) = (v, rem) := by simpa [Except.map] using hr
    have h1 := (Prod.mk.inj he).1
    have h2 := (Prod.mk.inj he).2
    rw [← h1, ← h2]
    exact ⟨h.2 n x hrr, by simp [Val.size]; omega⟩

theorem leafDec_sb (E : Enc) (t : Ty) (h : leafTyped E t = true) (b : Bytes) : SB 2 (leafDec E t b) b := by
  cases E <;> cases t <;> simp [leafTyped] at h <;> simp only [leafDec]
  · exact SB_map_num _ _ (intDecode_np false _ b)
  · refine SB_ok _ _ _ _ (by simp) ?_
    simp only [Val.size, cpDecodeStr, List.length_nil, Nat.sub_zero]
    have := trimNul_length (b.map cpDecode)
    simp at this; omega
  · -- date-time
    intro v rem hr
    have hlen := (dtDecode_np b).2 v rem hr
    have hsz : v.size = 1 := by
      unfold dtDecode at hr
      split at hr
      · cases hr
      · split at hr
        · split at hr
          · cases hr; rfl
          · cases hr
        · cases hr
    exact ⟨hlen, by rw [hsz]; omega⟩
  · exact SB_map_num _ _ (intDecode_np true _ b)
  · exact SB_map_num _ _ (bcdDec_np _ b)
  · refine SB_ok _ _ _ _ (by simp) ?_
    simp only [Val.size, hexDecodeStr_length, List.length_nil, Nat.sub_zero]; omega
  · split
    · rename_i cs hcs
      refine SB_ok _ _ _ _ (by simp) ?_
      have := utf8DecodeFuel_length _ b cs hcs
      simp only [Val.size, List.length_nil, Nat.sub_zero]; omega
    · exact SB_error _ _ _
  · refine SB_ok _ _ _ _ (by simp) ?_
    simp only [Val.size, List.length_nil, Nat.sub_zero]; omega
  · exact SB_map_num _ _ (prrnDec_np _ b)

/-! ### the generic layer -/

theorem deserTagged_sb' (W : Nat) (tagDec : Bytes → Res (Nat × Bytes)) (htd : ∀ x, NP (tagDec x) x)
    (L : LenKind) (hL : ∀ s, L ≠ .unknown s) (dec : Bytes → Res (Val × Bytes))
    (hdec : ∀ x, NP (dec x) x) (hsb : ∀ x, SB W (dec x) x) (tag : Option Nat) (b : Bytes) :
    SB W (deserTagged tagDec L dec tag b) b := by
  intro v0 rem0 h0
  unfold deserTagged at h0
  have hs := stripTag_np tagDec htd tag b
  cases hst : stripTag tagDec tag b with
  | error e => simp [hst] at h0
  | ok b1 =>
    have hb1 := hs.2 b1 hst
    simp only [hst] at h0
    have hl := lenDe_np L hL b1
    cases hld : L.de b1 with
    | error e => simp [hld] at h0
    | ok q =>
      obtain ⟨n, p⟩ := q
      have hp := hl.2 n p hld
      simp only [hld] at h0
      split at h0
      · cases h0
      · rename_i hle
        have hd := hdec (p.take n)
        cases hdd : dec (p.take n) with
        | error e => simp [hdd] at h0
        | ok w =>
          obtain ⟨v, rem⟩ := w
          have hr := hd.2 v rem hdd
          obtain ⟨_, hsz⟩ := hsb (p.take n) v rem hdd
          simp only [hdd] at h0
          have hnr : ¬ (rem.length > n) := by simp at hr; omega
          simp only [hnr, if_false] at h0
          have he := Except.ok.inj h0
          have h1 := (Prod.mk.inj he).1
          have h2 := (Prod.mk.inj he).2
          rw [← h1, ← h2]
          simp only [List.length_take] at hsz hr
          have hmin : min n p.length = n := by omega
          rw [hmin] at hsz
          refine ⟨by simp; omega, Nat.le_trans hsz (mul_mono (Nat.le_refl W) (by simp; omega))⟩

theorem deserTagged_sb (W : Nat) (L : LenKind) (hL : ∀ s, L ≠ .unknown s) (dec : Bytes → Res (Val × Bytes))
    (hdec : ∀ x, NP (dec x) x) (hsb : ∀ x, SB W (dec x) x) (tag : Option Nat) (b : Bytes) :
    SB W (deserTagged tagDecDefault L dec tag b) b :=
  deserTagged_sb' W tagDecDefault tagDecDefault_np L hL dec hdec hsb tag b

/-- `Vec<T>`: every element consumes at least one byte (progress guard), so `k` elements of weight `W` decoded
from `c` bytes are at most `2·W·c` large. -/
theorem vecLoop_sb (W : Nat) (elem : Bytes → Res (Val × Bytes)) (helem : ∀ x, NP (elem x) x) (hsb : ∀ x, SB W (elem x) x) :
    ∀ (fuel : Nat) (bytes : Bytes) (items : List Val) (v : Val) (rem : Bytes),
      vecLoop elem fuel bytes items = .ok (v, rem) →
      rem.length ≤ bytes.length ∧ v.size ≤ 1 + Val.sizeList items + 2 * W * (bytes.length - rem.length) := by
  intro fuel
  induction fuel with
  | zero => intro bytes items v rem h; simp [vecLoop] at h
  | succ fuel ih =>
    intro bytes items v rem h
    simp only [vecLoop] at h
    have stop : ∀ (v : Val) (rem : Bytes), (Except.ok (Val.vec items.reverse, bytes) : Res (Val × Bytes)) = .ok (v, rem) →
        rem.length ≤ bytes.length ∧ v.size ≤ 1 + Val.sizeList items + 2 * W * (bytes.length - rem.length) := by
      intro v rem he
      have he' := Except.ok.inj he
      rw [← (Prod.mk.inj he').1, ← (Prod.mk.inj he').2]
      simp [Val.size, sizeList_reverse]
    cases hd : elem bytes with
    | error e =>
      simp only [hd] at h
      split at h
      · cases h
      · exact stop v rem h
    | ok p =>
      obtain ⟨item, rest⟩ := p
      have hr := (helem bytes).2 item rest hd
      obtain ⟨_, hsz⟩ := hsb bytes item rest hd
      simp only [hd] at h
      split at h
      · exact stop v rem h
      · rename_i hne
        obtain ⟨h1, h2⟩ := ih rest (item :: items) v rem h
        refine ⟨by omega, ?_⟩
        simp only [Val.sizeList] at h2
        -- item.size ≤ W·(1 + c1) ≤ 2·W·c1 since c1 ≥ 1
        have hc1 : 1 ≤ bytes.length - rest.length := by omega
        have hitem : item.size ≤ 2 * W * (bytes.length - rest.length) := by
          refine Nat.le_trans hsz ?_
          have : 2 * W * (bytes.length - rest.length) = W * (2 * (bytes.length - rest.length)) := by
            rw [Nat.mul_comm 2 W, Nat.mul_assoc]
          rw [this]
          exact Nat.mul_le_mul_left W (by omega)
        have hsplit : 2 * W * (bytes.length - rest.length) + 2 * W * (rest.length - rem.length) = 2 * W * (bytes.length - rem.length) := by
          rw [← Nat.mul_add]; congr 1; omega
        omega

/-! ### the tag loop and the assembled struct -/

def accSize : List (Nat × Val) → Nat
  | [] => 0
  | (_, v) :: r => v.size + accSize r

/-- the tag loop: `k` entries decoded from `c` bytes with `k ≤ c + 1` (only the last round can be without
progress), each at most `Wf·(1 + its bytes)`. -/
theorem tagLoop_sb (Wf : Nat) (arm : Nat → Bytes → Option (Nat × Res (Val × Bytes)))
    (harmNP : ∀ t x idx r, arm t x = some (idx, r) → NP r x) (harm : ∀ t x idx r, arm t x = some (idx, r) → SB Wf r x) :
    ∀ (fuel currLen : Nat) (bytes : Bytes) (acc : List (Nat × Val)) (seen : List Nat)
      (acc' : List (Nat × Val)) (seen' : List Nat) (rest' : Bytes),
      tagLoop arm fuel currLen bytes acc seen = .ok (acc', seen', rest') →
      rest'.length ≤ bytes.length ∧
        accSize acc' ≤ accSize acc + Wf * (2 * (bytes.length - rest'.length) + (if currLen = bytes.length then 0 else 1)) := by
  intro fuel
  induction fuel with
  | zero => intro currLen bytes acc seen acc' seen' rest' h; simp [tagLoop] at h
  | succ fuel ih =>
    intro currLen bytes acc seen acc' seen' rest' h
    simp only [tagLoop] at h
    have stop : (Except.ok (acc, seen, bytes) : Res (List (Nat × Val) × List Nat × Bytes)) = .ok (acc', seen', rest') →
        rest'.length ≤ bytes.length ∧
        accSize acc' ≤ accSize acc + Wf * (2 * (bytes.length - rest'.length) + (if currLen = bytes.length then 0 else 1)) := by
      intro he
      have he' := Except.ok.inj he
      have e1 := (Prod.mk.inj he').1
      have e2 := (Prod.mk.inj (Prod.mk.inj he').2).2
      rw [← e1, ← e2]
      exact ⟨Nat.le_refl _, Nat.le_add_right _ _⟩
    split at h
    · exact stop h
    · rename_i hcont
      have hne : currLen ≠ bytes.length := by
        intro hc; apply hcont; right; exact hc
      cases htd : tagDecDefault bytes with
      | error e => simp only [htd] at h; exact stop h
      | ok p =>
        obtain ⟨t, r0⟩ := p
        simp only [htd] at h
        cases ha : arm t bytes with
        | none => simp only [ha] at h; exact stop h
        | some q =>
          obtain ⟨idx, r⟩ := q
          simp only [ha] at h
          split at h
          · cases h
          · cases hrr : r with
            | error e => simp [hrr] at h
            | ok w =>
              obtain ⟨v, rest⟩ := w
              have hle := (harmNP t bytes idx r ha).2 v rest hrr
              obtain ⟨_, hsz⟩ := harm t bytes idx r ha v rest hrr
              simp only [hrr] at h
              obtain ⟨h1, h2⟩ := ih bytes.length rest ((idx, v) :: acc) (t :: seen) acc' seen' rest' h
              refine ⟨by omega, ?_⟩
              simp only [accSize] at h2
              simp only [hne, if_false]
              have key : (1 + (bytes.length - rest.length)) + (2 * (rest.length - rest'.length) + (if bytes.length = rest.length then 0 else 1))
                  ≤ 2 * (bytes.length - rest'.length) + 1 := by
                split <;> omega
              have hm := Nat.mul_le_mul_left Wf key
              rw [Nat.mul_add] at hm
              omega

def accSizeFrom (i : Nat) : List (Nat × Val) → Nat
  | [] => 0
  | (j, v) :: r => (if i ≤ j then v.size else 0) + accSizeFrom i r

theorem accSizeFrom_mono (i : Nat) : ∀ acc, accSizeFrom (i + 1) acc ≤ accSizeFrom i acc := by
  intro acc
  induction acc with
  | nil => simp [accSizeFrom]
  | cons a r ih =>
    obtain ⟨j, v⟩ := a
    simp only [accSizeFrom]
    split <;> split <;> omega

theorem accSizeFrom_zero : ∀ acc, accSizeFrom 0 acc = accSize acc := by
  intro acc
  induction acc with
  | nil => rfl
  | cons a r ih => obtain ⟨j, v⟩ := a; simp [accSizeFrom, accSize, ih]

def optSize : Option Val → Nat
  | none => 0
  | some v => v.size

theorem lookup_size (i : Nat) : ∀ acc, optSize (lookupIdx i acc) + accSizeFrom (i + 1) acc ≤ accSizeFrom i acc := by
  intro acc
  induction acc with
  | nil => simp [lookupIdx, optSize, accSizeFrom]
  | cons a r ih =>
    obtain ⟨j, v⟩ := a
    simp only [lookupIdx, accSizeFrom]
    by_cases hij : i = j
    · subst hij
      have := accSizeFrom_mono i r
      have hn : ¬ (i + 1 ≤ i) := by omega
      simp only [if_true, Nat.le_refl, hn, if_false, optSize]; omega
    · simp only [hij, if_false]
      split <;> split <;> omega

theorem dflt_size (t : Ty) : t.dflt.size = 1 := by
  cases t <;> simp [Ty.dflt, Val.size, Val.sizeList]

theorem assemble_size : ∀ (fs : List Field) (pvals : List Val) (acc : List (Nat × Val)) (i : Nat),
    Val.sizeList (assemble fs pvals acc i) ≤ fs.length + Val.sizeList pvals + accSizeFrom i acc := by
  intro fs
  induction fs with
  | nil => intro pvals acc i; simp [assemble, Val.sizeList]
  | cons f fs ih =>
    intro pvals acc i
    simp only [assemble]
    have hm := accSizeFrom_mono i acc
    cases f.tag with
    | none =>
      cases pvals with
      | cons p ps =>
        have := ih ps acc (i + 1)
        simp only [Val.sizeList, List.length_cons]; omega
      | nil =>
        have := ih [] acc (i + 1)
        simp only [Val.sizeList, List.length_cons, dflt_size] at *; omega
    | some t =>
      have := ih pvals acc (i + 1)
      have hl := lookup_size i acc
      simp only [Val.sizeList, List.length_cons]
      cases hlk : lookupIdx i acc with
      | none => simp only [Option.getD, dflt_size]; omega
      | some v => rw [hlk] at hl; simp only [Option.getD, optSize] at hl ⊢; omega

theorem final_bound (X n sp sa cp ct c : Nat) (hn : n ≤ X) (hsp : sp ≤ X * (1 + cp)) (hsa : sa ≤ X * (2 * ct + 1))
    (hc : cp + ct ≤ c) : 1 + (n + sp + sa) ≤ (1 + 3 * X) * (1 + c) := by
  have hsum : X * 1 + X * (1 + cp) + X * (2 * ct + 1) = X * (1 + (1 + cp) + (2 * ct + 1)) := by
    rw [Nat.mul_add X (1 + (1 + cp)) (2 * ct + 1), Nat.mul_add X 1 (1 + cp)]
  have hle : X * (1 + (1 + cp) + (2 * ct + 1)) ≤ X * (3 * (1 + c)) := Nat.mul_le_mul_left X (by omega)
  have h3 : X * (3 * (1 + c)) = 3 * (X * (1 + c)) := Nat.mul_left_comm X 3 (1 + c)
  have h4 : (1 + 3 * X) * (1 + c) = (1 + c) + 3 * (X * (1 + c)) := by
    rw [Nat.add_mul, Nat.one_mul, Nat.mul_assoc]
  have h1 : X * 1 = X := Nat.mul_one X
  rw [h4]
  rw [h3] at hle
  rw [← hsum, h1] at hle
  generalize X * (1 + c) = Y at hle ⊢
  generalize X * (1 + cp) = A at hsp hle
  generalize X * (2 * ct + 1) = B at hsa hle
  omega

/-- the generated `decode` of a struct with field weights summing to `Wf` (and at most `Wf` fields). -/
theorem decStructWith_sb (Wf : Nat) (decPosF : Bytes → Res (List Val × Bytes)) (arm : Nat → Bytes → Option (Nat × Res (Val × Bytes)))
    (hpos : ∀ x vs r, decPosF x = .ok (vs, r) → r.length ≤ x.length ∧ Val.sizeList vs ≤ Wf * (1 + (x.length - r.length)))
    (harmNP : ∀ t x idx r, arm t x = some (idx, r) → NP r x) (harm : ∀ t x idx r, arm t x = some (idx, r) → SB Wf r x)
    (fs : List Field) (hn : fs.length ≤ Wf) (b : Bytes) : SB (1 + 3 * Wf) (decStructWith decPosF arm fs b) b := by
  intro v rem h
  unfold decStructWith at h
  cases hd : decPosF b with
  | error e => simp [hd] at h
  | ok p =>
    obtain ⟨pvals, rest⟩ := p
    obtain ⟨hr, hps⟩ := hpos b pvals rest hd
    simp only [hd] at h
    cases hl : tagLoop arm (rest.length + 2) (rest.length + 1) rest [] [] with
    | error e => simp [hl] at h
    | ok q =>
      obtain ⟨acc, seen, rest'⟩ := q
      obtain ⟨hr', hacc⟩ := tagLoop_sb Wf arm harmNP harm _ _ _ _ _ _ _ _ hl
      simp only [hl] at h
      split at h
      · have he := Except.ok.inj h
        rw [← (Prod.mk.inj he).1, ← (Prod.mk.inj he).2]
        refine ⟨by omega, ?_⟩
        simp only [Val.size]
        have hasm := assemble_size fs pvals acc 0
        rw [accSizeFrom_zero] at hasm
        have hne : ¬ (rest.length + 1 = rest.length) := by omega
        simp only [accSize, hne, if_false, Nat.zero_add] at hacc
        have := final_bound Wf fs.length (Val.sizeList pvals) (accSize acc) (b.length - rest.length) (rest.length - rest'.length)
          (b.length - rest'.length) hn hps hacc (by omega)
        omega
      · cases h

/-! ### all schemas -/

mutual
/-- the schema constant: how many value cells one consumed byte can cost at most. -/
def Ty.weight : Ty → Nat
  | .int _ => 2
  | .str => 2
  | .bytes => 2
  | .dateTime => 2
  | .opt t => Ty.weight t + 1
  | .vec t => 2 * Ty.weight t + 1
  | .struct fs => 1 + 3 * fieldsWeight fs
def fieldsWeight : List Field → Nat
  | [] => 0
  | .mk _ _ _ _ ty :: fs => Ty.weight ty + fieldsWeight fs
end

theorem weight_pos (t : Ty) : 1 ≤ Ty.weight t := by
  cases t <;> simp [Ty.weight] <;> omega

theorem length_le_weight : ∀ fs : List Field, fs.length ≤ fieldsWeight fs := by
  intro fs
  induction fs with
  | nil => simp [fieldsWeight]
  | cons f fs ih =>
    obtain ⟨n, tg, L, E, ty⟩ := f
    simp only [List.length_cons, fieldsWeight]
    have := weight_pos ty
    omega

theorem combine_le (a b c d : Nat) : a * (1 + c) + b * (1 + d) ≤ (a + b) * (1 + (c + d)) := by
  rw [Nat.add_mul]
  exact Nat.add_le_add (Nat.mul_le_mul_left a (by omega)) (Nat.mul_le_mul_left b (by omega))

theorem succ_weight (s W c : Nat) (h : s ≤ W * (1 + c)) : 1 + s ≤ (W + 1) * (1 + c) := by
  rw [Nat.add_mul, Nat.one_mul]; omega

theorem vec_weight (s W c : Nat) (h : s ≤ 1 + 2 * W * c) : s ≤ (2 * W + 1) * (1 + c) := by
  rw [Nat.add_mul, Nat.one_mul, Nat.mul_add, Nat.mul_one]
  have : 2 * W * c ≤ 2 * W + 2 * W * c := Nat.le_add_left _ _
  omega

mutual
/-- **Size of every decoded value, for every schema**: at most `weight × (1 + bytes consumed)`. -/
theorem Ty.de_sb : ∀ (t : Ty) (L : LenKind) (E : Enc) (tag : Option Nat) (b : Bytes),
    Ty.typed t L E = true → SB (Ty.weight t) (Ty.de t L E tag b) b
  | .int w, L, E, tag, b, h => by
    simp only [Ty.typed, Bool.and_eq_true] at h
    simp only [Ty.de, Ty.weight]
    exact deserTagged_sb 2 L (known_ne L h.1) _ (leafDec_np E (.int w) h.2) (leafDec_sb E (.int w) h.2) tag b
  | .str, L, E, tag, b, h => by
    simp only [Ty.typed, Bool.and_eq_true] at h
    simp only [Ty.de, Ty.weight]
    exact deserTagged_sb 2 L (known_ne L h.1) _ (leafDec_np E .str h.2) (leafDec_sb E .str h.2) tag b
  | .bytes, L, E, tag, b, h => by
    simp only [Ty.typed, Bool.and_eq_true] at h
    simp only [Ty.de, Ty.weight]
    exact deserTagged_sb 2 L (known_ne L h.1) _ (leafDec_np E .bytes h.2) (leafDec_sb E .bytes h.2) tag b
  | .dateTime, L, E, tag, b, h => by
    simp only [Ty.typed, Bool.and_eq_true] at h
    simp only [Ty.de, Ty.weight]
    exact deserTagged_sb 2 L (known_ne L h.1) _ (leafDec_np E .dateTime h.2) (leafDec_sb E .dateTime h.2) tag b
  | .struct fs, L, E, tag, b, h => by
    simp only [Ty.typed, Bool.and_eq_true] at h
    simp only [Ty.de, Ty.weight]
    exact deserTagged_sb _ L (known_ne L h.1) _
      (fun x => decStructWith_np _ _ (fun y => decPos_np fs y h.2) (fun t y idx r ha => armFind_np fs t 0 y idx r h.2 ha) fs x)
      (fun x => decStructWith_sb (fieldsWeight fs) _ _ (fun y vs r hd => decPos_sb fs y vs r h.2 hd)
        (fun t y idx r ha => armFind_np fs t 0 y idx r h.2 ha) (fun t y idx r ha => armFind_sb fs t 0 y idx r h.2 ha)
        fs (length_le_weight fs) x) tag b
  | .opt t, L, E, tag, b, h => by
    simp only [Ty.typed] at h
    simp only [Ty.weight]
    intro v rem hr
    simp only [Ty.de] at hr
    cases tag with
    | some tg =>
      simp only at hr
      cases hd : Ty.de t L E (some tg) b with
      | error e => simp [hd] at hr
      | ok p =>
        obtain ⟨v', r⟩ := p
        obtain ⟨h1, h2⟩ := Ty.de_sb t L E (some tg) b h v' r hd
        simp only [hd] at hr
        have he := Except.ok.inj hr
        rw [← (Prod.mk.inj he).1, ← (Prod.mk.inj he).2]
        exact ⟨h1, by simp only [Val.size]; exact succ_weight _ _ _ h2⟩
    | none =>
      simp only at hr
      cases hd : Ty.de t L E none b with
      | error e =>
        simp only [hd] at hr
        split at hr
        · cases hr
        · have he := Except.ok.inj hr
          rw [← (Prod.mk.inj he).1, ← (Prod.mk.inj he).2]
          refine ⟨Nat.le_refl _, ?_⟩
          simp only [Val.size, Nat.sub_self, Nat.add_zero, Nat.mul_one]
          omega
      | ok p =>
        obtain ⟨v', r⟩ := p
        obtain ⟨h1, h2⟩ := Ty.de_sb t L E none b h v' r hd
        simp only [hd] at hr
        have he := Except.ok.inj hr
        rw [← (Prod.mk.inj he).1, ← (Prod.mk.inj he).2]
        exact ⟨h1, by simp only [Val.size]; exact succ_weight _ _ _ h2⟩
  | .vec t, L, E, tag, b, h => by
    simp only [Ty.typed] at h
    simp only [Ty.weight]
    intro v rem hr
    simp only [Ty.de] at hr
    obtain ⟨h1, h2⟩ := vecLoop_sb (Ty.weight t) (fun x => Ty.de t L E tag x) (fun x => Ty.de_np t L E tag x h)
      (fun x => Ty.de_sb t L E tag x h) _ _ _ v rem hr
    refine ⟨h1, ?_⟩
    simp only [Val.sizeList, Nat.add_zero] at h2
    exact vec_weight _ _ _ h2
theorem decPos_sb : ∀ (fs : List Field) (b : Bytes) (vs : List Val) (r : Bytes), fieldsTyped fs = true →
    decPos fs b = .ok (vs, r) → r.length ≤ b.length ∧ Val.sizeList vs ≤ fieldsWeight fs * (1 + (b.length - r.length))
  | [], b, vs, r, _, hd => by
    simp only [decPos] at hd
    have he := Except.ok.inj hd
    rw [← (Prod.mk.inj he).1, ← (Prod.mk.inj he).2]
    simp [Val.sizeList]
  | .mk _ tag L E ty :: fs, b, vs, r, h, hd => by
    simp only [fieldsTyped, Bool.and_eq_true] at h
    simp only [decPos] at hd
    simp only [fieldsWeight]
    cases tag with
    | some tg =>
      simp only at hd
      obtain ⟨h1, h2⟩ := decPos_sb fs b vs r h.2 hd
      exact ⟨h1, Nat.le_trans h2 (mul_mono (Nat.le_add_left _ _) (Nat.le_refl _))⟩
    | none =>
      simp only at hd
      cases hde : Ty.de ty L E none b with
      | error e => simp [hde] at hd
      | ok p =>
        obtain ⟨v, r1⟩ := p
        obtain ⟨a1, a2⟩ := Ty.de_sb ty L E none b h.1 v r1 hde
        simp only [hde] at hd
        cases hdp : decPos fs r1 with
        | error e => simp [hdp] at hd
        | ok q =>
          obtain ⟨vs', r'⟩ := q
          obtain ⟨b1, b2⟩ := decPos_sb fs r1 vs' r' h.2 hdp
          simp only [hdp] at hd
          have he := Except.ok.inj hd
          rw [← (Prod.mk.inj he).1, ← (Prod.mk.inj he).2]
          refine ⟨by omega, ?_⟩
          simp only [Val.sizeList]
          have := combine_le (Ty.weight ty) (fieldsWeight fs) (b.length - r1.length) (r1.length - r'.length)
          have hc : (b.length - r1.length) + (r1.length - r'.length) = b.length - r'.length := by omega
          rw [hc] at this
          omega
theorem armFind_sb : ∀ (fs : List Field) (t i : Nat) (x : Bytes) (idx : Nat) (r : Res (Val × Bytes)), fieldsTyped fs = true →
    armFind fs t i x = some (idx, r) → SB (fieldsWeight fs) r x
  | [], t, i, x, idx, r, _, ha => by simp [armFind] at ha
  | .mk _ tag L E ty :: fs, t, i, x, idx, r, h, ha => by
    simp only [fieldsTyped, Bool.and_eq_true] at h
    simp only [armFind] at ha
    simp only [fieldsWeight]
    split at ha
    · have he := Option.some.inj ha
      rw [← (Prod.mk.inj he).2]
      exact SB_weight _ _ (Nat.le_add_right _ _) _ _ (Ty.de_sb ty L E (some t) x h.1)
    · exact SB_weight _ _ (Nat.le_add_left _ _) _ _ (armFind_sb fs t (i + 1) x idx r h.2 ha)
end

end Zvt
