/-
  RefEq.lean — the model of the Rust encoder (`Ty.ser`, `encFields`, `encodeCmd`: one definition per Rust
  function) produces, for every well-formed layout and every canonical value, exactly the bytes the
  reference encoder of the format description (`Spec/RefCodec.lean`) assembles from the layout table.
-/
import ZvtVerif.Spec.RefCodec
import ZvtVerif.Proofs.Canon
namespace Zvt
open Zvt

/-! ### decimal digits -/

theorem Ref.digitsFuel_eq : ∀ (f g n : Nat), n ≤ f → n ≤ g → Ref.digitsFuel f n = Ref.digitsFuel g n := by
  intro f
  induction f with
  | zero =>
    intro g n hf _
    have : n = 0 := by omega
    subst this
    cases g <;> simp [Ref.digitsFuel]
  | succ f ih =>
    intro g n hf hg
    cases g with
    | zero =>
      have : n = 0 := by omega
      subst this; simp [Ref.digitsFuel]
    | succ g =>
      simp only [Ref.digitsFuel]
      split
      · rfl
      · rw [ih g (n / 10) (by omega) (by omega)]

theorem Ref.digits_zero : Ref.digits 0 = [] := by simp [Ref.digits, Ref.digitsFuel]

theorem Ref.digits_pos (n : Nat) (h : n ≠ 0) : Ref.digits n = Ref.digits (n / 10) ++ [n % 10] := by
  unfold Ref.digits
  obtain ⟨m, rfl⟩ : ∃ m, n = m + 1 := ⟨n - 1, by omega⟩
  simp only [Ref.digitsFuel, h, if_false]
  rw [Ref.digitsFuel_eq m ((m + 1) / 10) ((m + 1) / 10) (by omega) (Nat.le_refl _)]

theorem Ref.pairs_append_even : ∀ (xs : List Nat) (a b : Nat), xs.length % 2 = 0 →
    Ref.pairs (xs ++ [a, b]) = Ref.pairs xs ++ [byte (a * 16 + b)]
  | [], a, b, _ => by simp [Ref.pairs]
  | [x], a, b, h => by simp at h
  | x :: y :: r, a, b, h => by
    simp only [List.cons_append, Ref.pairs]
    rw [Ref.pairs_append_even r a b (by simp at h; omega)]

theorem Ref.evenPad_even (d : List Nat) : (Ref.evenPad d).length % 2 = 0 := by
  unfold Ref.evenPad
  split
  · simp only [List.length_cons]; omega
  · omega

theorem Ref.evenPad_append2 (d : List Nat) (a b : Nat) : Ref.evenPad (d ++ [a, b]) = Ref.evenPad d ++ [a, b] := by
  unfold Ref.evenPad
  have : (d ++ [a, b]).length % 2 = d.length % 2 := by
    simp only [List.length_append, List.length_cons, List.length_nil]; omega
  rw [this]; split
  · simp
  · rfl

/-- the reference BCD (decimal digit string, two digits per byte) is the `bcd_integrals!` encoder. -/
theorem Ref.bcd_eq (n : Nat) : Ref.bcd n = bcdEnc n := by
  induction n using Nat.strongRecOn with
  | _ n ih =>
    by_cases h0 : n = 0
    · subst h0; simp [Ref.bcd, Ref.digits_zero, Ref.evenPad, Ref.pairs, bcdEnc_zero]
    · rw [bcdEnc_pos n h0]
      by_cases h10 : n / 10 = 0
      · have h100 : n / 100 = 0 := by omega
        rw [h100, bcdEnc_zero]
        unfold Ref.bcd
        rw [Ref.digits_pos n h0, h10, Ref.digits_zero]
        simp [Ref.evenPad, Ref.pairs]
      · have := ih (n / 100) (by omega)
        unfold Ref.bcd at this ⊢
        rw [Ref.digits_pos n h0, Ref.digits_pos (n / 10) h10]
        have e : n / 10 / 10 = n / 100 := by omega
        rw [e, List.append_assoc]
        simp only [List.singleton_append]
        rw [Ref.evenPad_append2, Ref.pairs_append_even _ _ _ (Ref.evenPad_even _), this]

theorem Ref.bcd_eqK (n : Nat) : Ref.bcd n = bcdEncK n := by rw [bcdEncK_eq, Ref.bcd_eq]

/-! ### LLVAR digits -/

theorem Ref.rjust_snoc (k : Nat) (xs : List Nat) (d : Nat) : Ref.rjust (k + 1) (xs ++ [d]) = Ref.rjust k xs ++ [d] := by
  unfold Ref.rjust
  have : k + 1 - (xs ++ [d]).length = k - xs.length := by simp
  rw [this, List.append_assoc]

theorem Ref.llv_eq : ∀ (k n : Nat), n < 10 ^ k →
    (Ref.rjust k (Ref.digits n)).map (fun d => byte (0xf0 + d)) = (llvSerRev k n).reverse := by
  intro k
  induction k with
  | zero =>
    intro n hn
    have : n = 0 := by simpa using hn
    subst this
    simp [llvSerRev, Ref.digits_zero, Ref.rjust]
  | succ k ih =>
    intro n hn
    have hk : n / 10 < 10 ^ k := by rw [Nat.pow_succ] at hn; omega
    simp only [llvSerRev, List.reverse_cons]
    by_cases h0 : n = 0
    · subst h0
      have := ih 0 (by simpa using hk)
      simp only [Ref.digits_zero] at this ⊢
      rw [show (0 : Nat) / 10 = 0 from rfl, ← this]
      simp [Ref.rjust, List.replicate_succ']
    · rw [Ref.digits_pos n h0, Ref.rjust_snoc, List.map_append, ih (n / 10) hk]
      simp

/-! ### integers -/

theorem Ref.intLE_eq : ∀ (w n : Nat), Ref.intLE w n = leBytes w n := by
  intro w
  induction w with
  | zero => intro n; simp [Ref.intLE, leBytes]
  | succ w ih =>
    intro n
    have := ih (n / 256)
    unfold Ref.intLE at this ⊢
    rw [List.range_succ_eq_map, List.map_cons, List.map_map, leBytes, ← this]
    congr 1
    · simp
    · apply List.map_congr_left
      intro i _
      simp only [Function.comp, Nat.pow_succ]
      rw [Nat.div_div_eq_div_mul, Nat.mul_comm]

theorem Ref.intBE_eq (w n : Nat) : Ref.intBE w n = beBytes w n := by
  unfold Ref.intBE beBytes
  rw [List.map_reverse]
  have := Ref.intLE_eq w n
  unfold Ref.intLE at this
  rw [this]

/-! ### text -/

theorem Ref.idxIn_findIdx (c : Nat) : ∀ (l : List Nat) (i : Nat),
    idxIn c l i = (l.findIdx? (· == c)).map (· + i) := by
  intro l
  induction l with
  | nil => intro i; simp [idxIn]
  | cons x xs ih =>
    intro i
    simp only [idxIn, List.findIdx?_cons]
    by_cases h : x = c
    · simp [h]
    · simp only [h, if_false, beq_iff_eq, ih (i + 1)]
      cases xs.findIdx? (· == c) <;> simp; omega

theorem Ref.cpChar_eq (c : Nat) : Ref.cpChar c = cpEncode c := by
  unfold Ref.cpChar cpEncode
  split
  · rfl
  · rw [Ref.idxIn_findIdx]
    cases cp437High.findIdx? (· == c) <;> simp

theorem Ref.cpText_eq : ∀ (cs : List Nat) (b : Bytes), cpEncodeStr cs = .ok b → Ref.cpText cs = some b := by
  intro cs
  induction cs with
  | nil => intro b h; simp [cpEncodeStr] at h; simp [Ref.cpText, h]
  | cons c cs ih =>
    intro b h
    simp only [cpEncodeStr] at h
    simp only [Ref.cpText, Ref.cpChar_eq]
    cases hc : cpEncode c with
    | none => simp [hc] at h
    | some x =>
      simp only [hc] at h
      cases hr : cpEncodeStr cs with
      | error e => simp [hr] at h
      | ok bs =>
        simp only [hr, Except.ok.injEq] at h
        simp [ih bs hr, h]

theorem Ref.hexNibble_eq (c : Nat) (h : isLowerHex c = true) : Ref.hexNibble c = hexVal c := by
  simp only [isLowerHex, Bool.or_eq_true, Bool.and_eq_true, decide_eq_true_eq] at h
  unfold Ref.hexNibble hexVal
  rcases h with h | h
  · simp [h]
  · have : ¬ (48 ≤ c ∧ c ≤ 57) := by omega
    simp [this, h]

theorem Ref.hexText_eq : ∀ (cs : List Nat) (b : Bytes), (∀ c ∈ cs, isLowerHex c = true) →
    hexEncodeStr cs = .ok b → Ref.hexText cs = some b
  | [], b, _, h => by simp [hexEncodeStr] at h; simp [Ref.hexText, h]
  | [_], b, _, h => by simp [hexEncodeStr] at h
  | x :: y :: cs, b, hl, h => by
    have hx := Ref.hexNibble_eq x (hl x (by simp))
    have hy := Ref.hexNibble_eq y (hl y (by simp))
    simp only [hexEncodeStr] at h
    simp only [Ref.hexText, hx, hy]
    cases hvx : hexVal x with
    | none => simp [hvx] at h
    | some a =>
      cases hvy : hexVal y with
      | none => simp [hvx, hvy] at h
      | some c =>
        simp only [hvx, hvy] at h
        cases hr : hexEncodeStr cs with
        | error e => simp [hr] at h
        | ok bs =>
          simp only [hr, Except.ok.injEq] at h
          have := Ref.hexText_eq cs bs (fun c hc => hl c (by simp [hc])) hr
          simp [this, h]

/-! ### tag and length prefix -/

theorem Ref.tagBytes_eq (t : Nat) (h : tagRepresentable t) : Ref.tagBytes t = some (tagEncDefault t) := by
  unfold Ref.tagBytes tagEncDefault
  rcases h with ⟨h1, h2, h3⟩ | ⟨h1, h2⟩
  · have hh : ¬ (t / 256 = 0x1f ∨ t / 256 = 0xff) := by omega
    have h4 : ¬ (t = 0x1f ∨ t = 0xff) := by omega
    simp [h1, hh, h4]
  · have hge : ¬ t < 0x100 := by omega
    simp only [hge, if_false, h2, if_true, beBytes, leBytes, List.reverse_cons, List.reverse_nil, List.nil_append,
      List.cons_append]
    have e : t / 256 % 256 = t / 256 := by omega
    rw [e]

theorem Ref.lengthPrefix_eq (L : LenKind) (n : Nat) (l : Bytes) (hs : L.ser n = .ok l) (hfit : LenOK L n) :
    Ref.lengthPrefix L n = some l := by
  cases L with
  | empty => simp [LenKind.ser] at hs; simp [Ref.lengthPrefix, hs]
  | temperature => simp [LenKind.ser] at hs; simp [Ref.lengthPrefix, hs]
  | unknown s => simp [LenKind.ser] at hs
  | fixed N =>
    simp only [LenOK, LenFits] at hfit
    simp only [LenKind.ser, hfit, if_true, Except.ok.injEq] at hs
    simp [Ref.lengthPrefix, hfit, hs]
  | llv k =>
    simp only [LenOK, LenFits] at hfit
    simp only [LenKind.ser, Except.ok.injEq] at hs
    simp only [Ref.lengthPrefix, hfit, if_true, Ref.llv_eq k n hfit, hs]
  | tlv =>
    simp only [LenOK, LenFits] at hfit
    simp only [LenKind.ser] at hs
    unfold Ref.lengthPrefix Ref.berLen
    by_cases h1 : n ≤ 127
    · simp only [h1, if_true, Except.ok.injEq] at hs
      have : n < 128 := by omega
      simp [this, hs]
    · by_cases h2 : n ≤ 255
      · simp only [h1, h2, if_true, if_false, Except.ok.injEq] at hs
        have a : ¬ n < 128 := by omega
        have b : n < 256 := by omega
        simp [a, b, hs]
      · simp only [h1, h2, hfit, if_true, if_false, Except.ok.injEq] at hs
        have a : ¬ n < 128 := by omega
        have b : ¬ n < 256 := by omega
        have c : n < 65536 := by omega
        simp only [a, b, c, if_true, if_false, ← hs, beBytes, leBytes, List.reverse_cons, List.reverse_nil,
          List.nil_append, List.cons_append]
        have e : n / 256 % 256 = n / 256 := by omega
        rw [e]
  | adpu =>
    simp only [LenOK, LenFits] at hfit
    simp only [LenKind.ser] at hs
    unfold Ref.lengthPrefix
    by_cases h1 : n < 0xff
    · simp only [h1, if_true, Except.ok.injEq] at hs
      have : n < 255 := h1
      simp [this, hs]
    · simp only [h1, if_false, Except.ok.injEq] at hs
      have a : ¬ n < 255 := h1
      have c : n < 65536 := by omega
      simp only [a, c, if_true, if_false, ← hs, leBytes]
      have e1 : n % 65536 = n := by omega
      have e2 : n / 256 % 256 = n / 256 := by omega
      rw [e1, e2]

/-! ### leaves -/

theorem Ref.dt_eq (d t : Nat) (h : validDt d t) (p : Bytes) (hp : dtEncode d t = .ok p) :
    Ref.leaf .dflt .dateTime (.dt d t) = some p := by
  obtain ⟨hy, hdate, htime⟩ := h
  have hd8 : d < 100 ^ 4 := by
    simp only [validDate, decide_eq_true_eq] at hdate
    have := daysInMonth_le (d / 10000) (d % 10000 / 100)
    omega
  have ht6 : t < 100 ^ 3 := by
    simp only [validTime, decide_eq_true_eq] at htime
    omega
  have l1 : (bcdEncK d).length ≤ 4 := by rw [bcdEncK_eq]; exact bcdEnc_length_le 4 d hd8
  have l2 : (bcdEncK t).length ≤ 3 := by rw [bcdEncK_eq]; exact bcdEnc_length_le 3 t ht6
  have p1 := padLeft_length 4 _ l1
  have p2 := padLeft_length 3 _ l2
  simp only [dtEncode, serTagged, p1, p2, LenKind.ser, tagPrefix, tagEncDefault] at hp
  simp only [Ref.leaf, Ref.bcd_eqK, Ref.rjustBytes]
  simp only [padLeft] at hp
  rw [← Except.ok.inj hp]
  simp [beBytes, leBytes, byte]

/-- the data bytes of every canonical leaf value: model of the Rust encoder = reference encoder. -/
theorem Ref.leaf_eq (L : LenKind) (E : Enc) (t : Ty) (v : Val) (hw : leafLenOK L E t = true) (hc : leafCanon L E t v) (p : Bytes)
    (hp : leafEnc E t v = .ok p) : Ref.leaf E t v = some p := by
  obtain ⟨p', hp', _, hm⟩ := hc
  rw [hp] at hp'
  cases Except.ok.inj hp'
  cases E <;> cases t <;> cases v <;> simp only [] at hm <;> simp only [leafEnc] at hp
  case dflt.int.num w n =>
    simp only [Ref.leaf, hm, if_true, Ref.intLE_eq]; rw [← Except.ok.inj hp]
  case bigEndian.int.num w n =>
    simp only [Ref.leaf, hm, if_true, Ref.intBE_eq]; rw [← Except.ok.inj hp]
  case bcd.int.num w n =>
    simp only [Ref.leaf, hm, if_true, Ref.bcd_eqK]; rw [← Except.ok.inj hp]
  case prrn.int.num w n =>
    have hw8 : w = 8 := by
      cases L <;> simp [leafLenOK] at hw
      exact hw.2
    subst hw8
    have hlt : n < 256 ^ 8 := by rcases hm with h | h <;> omega
    simp only [Ref.leaf, hlt, if_true]
    rw [← Except.ok.inj hp]
    unfold prrnEnc
    split
    · next h => subst h; simp [leBytes, byte]
    · rw [Ref.bcd_eqK]
  case dflt.str.str cs => exact Ref.cpText_eq cs p hp
  case hex.str.str cs => exact Ref.hexText_eq cs p hm.1 hp
  case utf8.str.str cs => simp only [Ref.leaf]; rw [← Except.ok.inj hp]
  case custom.bytes.raw b => simp only [Ref.leaf]; rw [← Except.ok.inj hp]
  case dflt.dateTime.dt d t => exact Ref.dt_eq d t hm p hp


/-! ### `<TAG><LENGTH><DATA>`, fields, packets -/

theorem Ref.triple_eq (L : LenKind) (tag : Option Nat) (htag : tagOK tag = true) (p b : Bytes)
    (hlen : LenOK L p.length) (hs : serTagged tagEncDefault L tag (.ok p) = .ok b) :
    Ref.triple L tag (some p) = some b := by
  simp only [serTagged] at hs
  cases hl : L.ser p.length with
  | error e => simp [hl] at hs
  | ok l =>
    simp only [hl, Except.ok.injEq] at hs
    simp only [Ref.triple, Ref.lengthPrefix_eq L p.length l hl hlen]
    cases tag with
    | none => simp only [tagPrefix, List.nil_append] at hs; rw [hs]
    | some t =>
      have hrep : tagRepresentable t := by simpa [tagOK] using htag
      simp only [Ref.tagBytes_eq t hrep, tagPrefix] at hs ⊢
      rw [hs]

theorem Ref.triple_of_ser (L : LenKind) (tag : Option Nat) (r : Res Bytes) (b : Bytes)
    (hs : serTagged tagEncDefault L tag r = .ok b) : ∃ p, r = .ok p := by
  cases r with
  | error e => simp [serTagged] at hs
  | ok p => exact ⟨p, rfl⟩

theorem Ref.concatWith_eq (f : Val → Res Bytes) (g : Val → Option Bytes) : ∀ (vs : List Val) (b : Bytes),
    (∀ v ∈ vs, ∀ c, f v = .ok c → g v = some c) → serListWith f vs = .ok b → Ref.concatWith g vs = some b := by
  intro vs
  induction vs with
  | nil => intro b _ h; simp [serListWith] at h; simp [Ref.concatWith, h]
  | cons v vs ih =>
    intro b hv h
    simp only [serListWith] at h
    cases hf : f v with
    | error e => simp [hf] at h
    | ok a =>
      cases hr : serListWith f vs with
      | error e => simp [hf, hr] at h
      | ok c =>
        simp only [hf, hr, Except.ok.injEq] at h
        simp only [Ref.concatWith, hv v (by simp) a hf, ih c (fun x hx => hv x (by simp [hx])) hr, h]

theorem Ref.leaf_field_eq (t : Ty) (ht : IsLeafTy t) (L : LenKind) (E : Enc) (tag : Option Nat) (v : Val)
    (hwf : leafWf t L E tag = true) (hc : leafCanon L E t v) (b : Bytes)
    (hs : serTagged tagEncDefault L tag (leafEnc E t v) = .ok b) :
    Ref.triple L tag (Ref.leaf E t v) = some b := by
  simp only [leafWf, Bool.and_eq_true] at hwf
  obtain ⟨p, hp⟩ := Ref.triple_of_ser L tag _ b hs
  rw [Ref.leaf_eq L E t v hwf.2 hc p hp]
  rw [hp] at hs
  obtain ⟨p', hp', hlen, _⟩ := hc
  rw [hp] at hp'; cases Except.ok.inj hp'
  exact Ref.triple_eq L tag hwf.1.2 p b hlen hs

mutual
/-- **one field**: for every well-formed field shape and every canonical value, the model of the generated
serialiser writes exactly the bytes of the reference encoder. -/
theorem Ref.field_eq : ∀ (t : Ty) (L : LenKind) (E : Enc) (tag : Option Nat) (v : Val) (b : Bytes),
    Ty.wf t L E tag = true → Ty.canon t L E tag v → Ty.ser t L E tag v = .ok b → Ref.field t L E tag v = some b
  | .opt t, L, E, tag, v, b => by
    intro hwf hc hs
    simp only [Ty.wf, Bool.and_eq_true] at hwf
    cases v with
    | none => simp only [Ty.ser, Except.ok.injEq] at hs; simp [Ref.field, hs]
    | some x =>
      simp only [Ty.canon] at hc
      simp only [Ty.ser] at hs
      simp only [Ref.field]
      exact Ref.field_eq t L E tag x b hwf.2 hc hs
    | num _ => simp [Ty.canon] at hc
    | str _ => simp [Ty.canon] at hc
    | raw _ => simp [Ty.canon] at hc
    | dt _ _ => simp [Ty.canon] at hc
    | vec _ => simp [Ty.canon] at hc
    | struct _ => simp [Ty.canon] at hc
  | .vec t, L, E, tag, v, b => by
    intro hwf hc hs
    simp only [Ty.wf, Bool.and_eq_true] at hwf
    cases v with
    | vec xs =>
      simp only [Ty.canon] at hc
      simp only [Ty.ser] at hs
      simp only [Ref.field]
      exact Ref.concatWith_eq _ _ xs b (fun x hx c hcx => Ref.field_eq t L E tag x c hwf.1.2 (hc x hx) hcx) hs
    | none => simp [Ty.canon] at hc
    | some _ => simp [Ty.canon] at hc
    | num _ => simp [Ty.canon] at hc
    | str _ => simp [Ty.canon] at hc
    | raw _ => simp [Ty.canon] at hc
    | dt _ _ => simp [Ty.canon] at hc
    | struct _ => simp [Ty.canon] at hc
  | .struct fs, L, E, tag, v, b => by
    intro hwf hc hs
    simp only [Ty.wf, Bool.and_eq_true] at hwf
    cases v with
    | struct vs =>
      simp only [Ty.canon] at hc
      simp only [Ty.ser] at hs
      simp only [Ref.field]
      obtain ⟨p, hp⟩ := Ref.triple_of_ser L tag _ b hs
      rw [Ref.body_eq fs vs p hwf.2 hc.1 hp]
      rw [hp] at hs
      exact Ref.triple_eq L tag hwf.1.1 p b (hc.2 p hp) hs
    | none => simp [Ty.canon] at hc
    | some _ => simp [Ty.canon] at hc
    | num _ => simp [Ty.canon] at hc
    | str _ => simp [Ty.canon] at hc
    | raw _ => simp [Ty.canon] at hc
    | dt _ _ => simp [Ty.canon] at hc
    | vec _ => simp [Ty.canon] at hc
  | .int w, L, E, tag, v, b => by
    intro hwf hc hs
    simp only [Ty.wf] at hwf; simp only [Ty.canon] at hc; simp only [Ty.ser] at hs
    simp only [Ref.field]
    exact Ref.leaf_field_eq (.int w) trivial L E tag v hwf hc b hs
  | .str, L, E, tag, v, b => by
    intro hwf hc hs
    simp only [Ty.wf] at hwf; simp only [Ty.canon] at hc; simp only [Ty.ser] at hs
    simp only [Ref.field]
    exact Ref.leaf_field_eq .str trivial L E tag v hwf hc b hs
  | .dateTime, L, E, tag, v, b => by
    intro hwf hc hs
    simp only [Ty.wf] at hwf; simp only [Ty.canon] at hc; simp only [Ty.ser] at hs
    simp only [Ref.field]
    exact Ref.leaf_field_eq .dateTime trivial L E tag v hwf hc b hs
  | .bytes, L, E, tag, v, b => by
    intro hwf hc hs
    simp only [Ty.wf] at hwf; simp only [Ty.canon] at hc
    obtain ⟨p', hp', hlen', hm⟩ := id hc
    cases E <;> cases v <;> simp only [] at hm
    case custom.raw x =>
      have hx : x.isEmpty = false := by cases x <;> simp_all
      simp only [Ty.ser, hx, Bool.false_eq_true, if_false] at hs
      simp only [Ref.field, hm.1, if_false]
      exact Ref.leaf_field_eq .bytes trivial L .custom tag (.raw x) hwf hc b hs
/-- **the fields of a packet or container**, in declaration order. -/
theorem Ref.body_eq : ∀ (fs : List Field) (vs : List Val) (b : Bytes),
    fieldsWf fs = true → fieldsCanon fs vs → encFields fs vs = .ok b → Ref.body fs vs = some b
  | [], vs, b => by
    intro _ _ hs
    simp only [encFields, Except.ok.injEq] at hs
    simp [Ref.body, hs]
  | .mk n tag L E ty :: fs, vs, b => by
    intro hwf hc hs
    simp only [fieldsWf, Bool.and_eq_true] at hwf
    cases vs with
    | nil => simp [fieldsCanon] at hc
    | cons v vs =>
      simp only [fieldsCanon] at hc
      simp only [encFields] at hs
      cases h1 : Ty.ser ty L E tag v with
      | error e => simp [h1] at hs
      | ok a =>
        cases h2 : encFields fs vs with
        | error e => simp [h1, h2] at hs
        | ok c =>
          simp only [h1, h2, Except.ok.injEq] at hs
          simp only [Ref.body, Ref.field_eq ty L E tag v a hwf.1.1 hc.1 h1, Ref.body_eq fs vs c hwf.1.2 hc.2.1 h2, hs]
end


theorem Ref.ctrl_bytes (c0 c1 : Nat) (h0 : c0 < 256) (h1 : c1 < 256) : tagEncBE (c0 * 256 + c1) = [byte c0, byte c1] := by
  simp only [tagEncBE, beBytes, leBytes, List.reverse_cons, List.reverse_nil, List.nil_append, List.cons_append]
  have e1 : (c0 * 256 + c1) / 256 % 256 = c0 := by omega
  have e2 : (c0 * 256 + c1) % 256 = c1 := by omega
  rw [e1, e2]

/-- **a whole packet**: for every well-formed packet type and every canonical value the model of
`zvt_serialize` and the reference encoder produce the same bytes. -/
theorem Ref.encode_eq (s : StructDef) (hwf : structWf s = true) (v : Val) (hc : s.canon v) (b : Bytes)
    (hs : encodeCmd s v = .ok b) : Ref.encode s v = some b := by
  simp only [structWf, Bool.and_eq_true] at hwf
  obtain ⟨hfw, hctrl⟩ := hwf
  obtain ⟨vs, rfl, hfc, hlen⟩ := hc
  cases hcs : s.ctrl with
  | none =>
    simp only [encodeCmd, hcs, encodePlain, Ty.ser, serTagged] at hs
    cases hp : encFields s.fields vs with
    | error e => simp [hp] at hs
    | ok p =>
      simp only [hp, LenKind.ser, tagPrefix, List.nil_append, Except.ok.injEq] at hs
      simp only [Ref.encode, Ref.body_eq s.fields vs p hfw hfc hp, hcs, hs]
  | some c =>
    obtain ⟨c0, c1⟩ := c
    rw [hcs] at hctrl
    simp only [Bool.and_eq_true, decide_eq_true_eq] at hctrl
    simp only [encodeCmd, hcs, serTagged] at hs
    cases hp : encFields s.fields vs with
    | error e => simp [hp] at hs
    | ok p =>
      simp only [hp] at hs
      cases hl : LenKind.adpu.ser p.length with
      | error e => simp [hl] at hs
      | ok l =>
        simp only [hl, tagPrefix, ctrlTag, Except.ok.injEq, Ref.ctrl_bytes c0 c1 hctrl.1 hctrl.2] at hs
        have hfit : LenOK .adpu p.length := by simp only [LenOK, LenFits]; exact hlen p hp
        simp only [Ref.encode, Ref.body_eq s.fields vs p hfw hfc hp, hcs, hctrl.1, hctrl.2, and_self, if_true,
          Ref.lengthPrefix_eq .adpu p.length l hl hfit, hs]

end Zvt
