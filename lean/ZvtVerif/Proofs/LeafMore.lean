/-
  LeafMore.lean — the two remaining leaf encodings of C01: UTF-8 text and date-time.
-/
import ZvtVerif.Proofs.RoundTrip
namespace Zvt

/-! ### UTF-8 -/

/-- a Unicode scalar value (what a Rust `char` can hold). -/
def validScalar (c : Nat) : Prop := c < 0x110000 ∧ ¬ (0xd800 ≤ c ∧ c < 0xe000)

theorem utf8_step (c : Nat) (hv : validScalar c) (f : Nat) (rest : Bytes) :
    utf8DecodeFuel (f + 1) (utf8EncodeChar c ++ rest) = (utf8DecodeFuel f rest).map (c :: ·) := by
  obtain ⟨h1, h2⟩ := hv
  unfold utf8EncodeChar
  by_cases c1 : c < 0x80
  · simp only [c1, if_true, List.cons_append, List.nil_append, utf8DecodeFuel, byte_toNat]
    have : c % 256 = c := by omega
    simp [this, c1]
  · by_cases c2 : c < 0x800
    · simp only [c1, c2, if_true, if_false, List.cons_append, List.nil_append, utf8DecodeFuel, byte_toNat, isCont]
      have a0 : (0xc0 + c / 64) % 256 = 0xc0 + c / 64 := by omega
      have a1 : (0x80 + c % 64) % 256 = 0x80 + c % 64 := by omega
      rw [a0, a1]
      have n1 : ¬ (0xc0 + c / 64 < 0x80) := by omega
      have n2 : 0xc2 ≤ 0xc0 + c / 64 ∧ 0xc0 + c / 64 < 0xe0 := by omega
      have n3 : (decide (0x80 ≤ 0x80 + c % 64 ∧ 0x80 + c % 64 < 0xc0)) = true := by simp; omega
      simp only [n1, n2, n3, if_true, if_false, and_self]
      have : (0xc0 + c / 64 - 0xc0) * 64 + (0x80 + c % 64 - 0x80) = c := by omega
      rw [this]
    · by_cases c3 : c < 0x10000
      · simp only [c1, c2, c3, if_true, if_false, List.cons_append, List.nil_append, utf8DecodeFuel, byte_toNat, isCont]
        have a0 : (0xe0 + c / 4096) % 256 = 0xe0 + c / 4096 := by omega
        have a1 : (0x80 + c / 64 % 64) % 256 = 0x80 + c / 64 % 64 := by omega
        have a2 : (0x80 + c % 64) % 256 = 0x80 + c % 64 := by omega
        rw [a0, a1, a2]
        have n1 : ¬ (0xe0 + c / 4096 < 0x80) := by omega
        have n2 : ¬ (0xc2 ≤ 0xe0 + c / 4096 ∧ 0xe0 + c / 4096 < 0xe0) := by omega
        have n3 : 0xe0 ≤ 0xe0 + c / 4096 ∧ 0xe0 + c / 4096 < 0xf0 := by omega
        have hc : (0xe0 + c / 4096 - 0xe0) * 4096 + (0x80 + c / 64 % 64 - 0x80) * 64 + (0x80 + c % 64 - 0x80) = c := by omega
        simp only [n1, n2, n3, if_true, if_false, and_self, hc]
        have n4 : (decide (0x80 ≤ 0x80 + c / 64 % 64 ∧ 0x80 + c / 64 % 64 < 0xc0) = true ∧
            decide (0x80 ≤ 0x80 + c % 64 ∧ 0x80 + c % 64 < 0xc0) = true ∧ 0x800 ≤ c ∧ ¬ (0xd800 ≤ c ∧ c < 0xe000)) := by
          refine ⟨by simp; omega, by simp; omega, by omega, h2⟩
        split
        · rfl
        · rename_i h; exact absurd n4 h
      · simp only [c1, c2, c3, if_false, List.cons_append, List.nil_append, utf8DecodeFuel, byte_toNat, isCont]
        have a0 : (0xf0 + c / 262144) % 256 = 0xf0 + c / 262144 := by omega
        have a1 : (0x80 + c / 4096 % 64) % 256 = 0x80 + c / 4096 % 64 := by omega
        have a2 : (0x80 + c / 64 % 64) % 256 = 0x80 + c / 64 % 64 := by omega
        have a3 : (0x80 + c % 64) % 256 = 0x80 + c % 64 := by omega
        rw [a0, a1, a2, a3]
        have n1 : ¬ (0xf0 + c / 262144 < 0x80) := by omega
        have n2 : ¬ (0xc2 ≤ 0xf0 + c / 262144 ∧ 0xf0 + c / 262144 < 0xe0) := by omega
        have n3 : ¬ (0xe0 ≤ 0xf0 + c / 262144 ∧ 0xf0 + c / 262144 < 0xf0) := by omega
        have n4 : 0xf0 ≤ 0xf0 + c / 262144 ∧ 0xf0 + c / 262144 < 0xf5 := by omega
        have hc : (0xf0 + c / 262144 - 0xf0) * 262144 + (0x80 + c / 4096 % 64 - 0x80) * 4096 +
            (0x80 + c / 64 % 64 - 0x80) * 64 + (0x80 + c % 64 - 0x80) = c := by omega
        simp only [n1, n2, n3, n4, if_true, if_false, and_self, hc]
        have n5 : (decide (0x80 ≤ 0x80 + c / 4096 % 64 ∧ 0x80 + c / 4096 % 64 < 0xc0) = true ∧
            decide (0x80 ≤ 0x80 + c / 64 % 64 ∧ 0x80 + c / 64 % 64 < 0xc0) = true ∧
            decide (0x80 ≤ 0x80 + c % 64 ∧ 0x80 + c % 64 < 0xc0) = true ∧ 0x10000 ≤ c ∧ c < 0x110000) := by
          refine ⟨by simp; omega, by simp; omega, by simp; omega, by omega, h1⟩
        split
        · rfl
        · rename_i h; exact absurd n5 h

theorem utf8EncodeChar_ne_nil (c : Nat) : 1 ≤ (utf8EncodeChar c).length := by
  unfold utf8EncodeChar; split <;> (try split) <;> (try split) <;> simp

theorem utf8DecodeFuel_encode : ∀ (cs : List Nat) (f : Nat), (∀ c ∈ cs, validScalar c) → cs.length < f →
    utf8DecodeFuel f (utf8Encode cs) = some cs := by
  intro cs
  induction cs with
  | nil =>
    intro f _ hf
    cases f with
    | zero => omega
    | succ f => simp [utf8Encode, utf8DecodeFuel]
  | cons c cs ih =>
    intro f hv hf
    cases f with
    | zero => omega
    | succ f =>
      have : utf8Encode (c :: cs) = utf8EncodeChar c ++ utf8Encode cs := by simp [utf8Encode]
      rw [this, utf8_step c (hv c (by simp)) f, ih f (fun x hx => hv x (by simp [hx])) (by simp at hf; omega)]
      rfl

theorem utf8Encode_length_ge (cs : List Nat) : cs.length ≤ (utf8Encode cs).length := by
  induction cs with
  | nil => simp [utf8Encode]
  | cons c cs ih =>
    have : utf8Encode (c :: cs) = utf8EncodeChar c ++ utf8Encode cs := by simp [utf8Encode]
    rw [this, List.length_append, List.length_cons]
    have := utf8EncodeChar_ne_nil c
    omega

/-- **UTF-8 text round trip** for every string of Unicode scalar values. -/
theorem utf8_roundtrip (cs : List Nat) (hv : ∀ c ∈ cs, validScalar c) : utf8Decode (utf8Encode cs) = some cs := by
  unfold utf8Decode
  exact utf8DecodeFuel_encode cs _ hv (by have := utf8Encode_length_ge cs; omega)

/-! ### date-time -/

/-- a calendar date with a four-digit year and a time of day (`date = y·10000 + m·100 + d`, `time = h·10000 + mi·100 + s`). -/
def validDt (d t : Nat) : Prop :=
  d / 10000 ≤ 9999 ∧ validDate (d / 10000) (d % 10000 / 100) (d % 100) = true ∧
    validTime (t / 10000) (t % 10000 / 100) (t % 100) = true

theorem daysInMonth_le (y m : Nat) : daysInMonth y m ≤ 31 := by
  unfold daysInMonth; split
  · split <;> omega
  · split
    · omega
    · split <;> omega

theorem padLeft_length (n : Nat) (b : Bytes) (h : b.length ≤ n) : (padLeft n b).length = n := by
  simp [padLeft]; omega

theorem tagged_tlv_bcd (tg w N k : Nat) (hrep : tagRepresentable tg) (hk : k < 256 ^ w) (hN : k < 100 ^ N) (hN' : N ≤ 65535) (x : Bytes) :
    ∃ bytes, serTagged tagEncDefault .tlv (some tg) (.ok (padLeft N (bcdEncK k))) = .ok bytes ∧
      deserTagged tagDecDefault .tlv (bcdDec w) (some tg) (bytes ++ x) = .ok (k, x) ∧
      (∃ r, tagDecDefault (bytes ++ x) = .ok (tg, r)) ∧ bytes ≠ [] := by
  have hlen : (bcdEncK k).length ≤ N := by rw [bcdEncK_eq]; exact bcdEnc_length_le N k hN
  have hdec : bcdDec w (seenPayload .tlv (padLeft N (bcdEncK k))) = .ok (k, []) := by
    simp only [seenPayload, padLeft]
    rw [C17.bcd_leading_zeros, bcdEncK_eq]; exact bcdDec_bcdEnc w k hk
  obtain ⟨bytes, hs, hd, pre, _, hb⟩ := deserTagged_serTagged .tlv (some tg) (fun t ht => by cases ht; exact hrep)
    (padLeft N (bcdEncK k)) x (by simp only [LenFits]; rw [padLeft_length N _ hlen]; exact hN') (bcdDec w) k hdec
  refine ⟨bytes, hs, hd, ?_, ?_⟩
  · rw [hb]; simp only [tagPrefix, List.append_assoc]
    exact ⟨_, tagDec_tagEnc tg hrep _⟩
  · rw [hb]; simp only [tagPrefix]
    have := tagEnc_shape tg
    intro h
    have hl := congrArg List.length h
    simp only [List.length_append, List.length_nil] at hl
    split at this <;> omega

/-- **Date-time round trip**: `1F0E 04 YYYYMMDD 1F0F 03 HHMMSS` is read back as the same date and time. -/
theorem dt_roundtrip (d t : Nat) (h : validDt d t) :
    ∃ p, dtEncode d t = .ok p ∧ dtDecode p = .ok (.dt d t, []) := by
  obtain ⟨hy, hdate, htime⟩ := h
  have hd8 : d < 100 ^ 4 := by
    simp only [validDate, decide_eq_true_eq] at hdate
    have := daysInMonth_le (d / 10000) (d % 10000 / 100)
    omega
  have ht6 : t < 100 ^ 3 := by
    simp only [validTime, decide_eq_true_eq] at htime
    omega
  obtain ⟨b2, hs2, hd2, ⟨r2, htg2⟩, hne2⟩ := tagged_tlv_bcd 0x1f0f 4 3 t (by decide) (by omega) ht6 (by omega) []
  obtain ⟨b1, hs1, hd1, ⟨r1, htg1⟩, hne1⟩ := tagged_tlv_bcd 0x1f0e 8 4 d (by decide) (by omega) hd8 (by omega) b2
  refine ⟨b1 ++ b2, by simp only [dtEncode, hs1, hs2], ?_⟩
  simp only [List.append_nil] at hd2 htg2
  have hloop : ∀ f, dtLoop (f + 3) (b1 ++ b2) {} = .ok ({ date := some d, time := some t }, []) := by
    intro f
    have e1 : (b1 ++ b2).isEmpty = false := by cases b1 <;> simp_all
    have e2 : b2.isEmpty = false := by cases b2 <;> simp_all
    rw [show f + 3 = (f + 2) + 1 from rfl]
    unfold dtLoop
    simp only [e1, Bool.false_eq_true, if_false, htg1, if_true, Option.isSome_none, hd1]
    rw [show f + 2 = (f + 1) + 1 from rfl]
    unfold dtLoop
    simp only [e2, Bool.false_eq_true, if_false, htg2, Nat.reduceEqDiff, if_true, Option.isSome_none, hd2]
    unfold dtLoop
    simp
  have hl : 2 ≤ (b1 ++ b2).length := by
    cases b1 with
    | nil => exact absurd rfl hne1
    | cons a as => cases b2 with
      | nil => exact absurd rfl hne2
      | cons c cs => simp; omega
  unfold dtDecode
  rw [show (b1 ++ b2).length + 1 = ((b1 ++ b2).length - 2) + 3 from by omega, hloop]
  simp only
  have hy31 : d / 10000 < 2 ^ 31 := by omega
  simp [hy31, hdate, htime]

end Zvt
