import ZvtVerif.Basic
namespace Zvt

@[simp] theorem byte_toNat (n : Nat) : (byte n).toNat = n % 256 := by
  simp [byte, UInt8.toNat_ofNat']

theorem byte_toNat_lt {n : Nat} (h : n < 256) : (byte n).toNat = n := by
  simp [Nat.mod_eq_of_lt h]

theorem toNat_lt (b : UInt8) : b.toNat < 256 := by
  have := b.toNat_lt_size
  simpa [UInt8.size] using this

theorem byte_of_toNat (b : UInt8) : byte b.toNat = b := by
  apply UInt8.toNat_inj.mp
  simp [Nat.mod_eq_of_lt (toNat_lt b)]

theorem leBytes_length (w n : Nat) : (leBytes w n).length = w := by
  induction w generalizing n with
  | zero => simp [leBytes]
  | succ w ih => simp [leBytes, ih]

theorem beBytes_length (w n : Nat) : (beBytes w n).length = w := by
  simp [beBytes, leBytes_length]

theorem leVal_leBytes (w n : Nat) (h : n < 256 ^ w) : leVal (leBytes w n) = n := by
  induction w generalizing n with
  | zero => simp [leBytes, leVal] at *; omega
  | succ w ih =>
    simp only [leBytes, leVal, byte_toNat]
    have h2 : n / 256 < 256 ^ w := by
      rw [Nat.pow_succ] at h
      exact Nat.div_lt_of_lt_mul (by rw [Nat.mul_comm]; exact h)
    rw [ih _ h2]
    omega

theorem beVal_beBytes (w n : Nat) (h : n < 256 ^ w) : beVal (beBytes w n) = n := by
  simp [beVal, beBytes, leVal_leBytes w n h]

theorem leVal_lt (b : Bytes) : leVal b < 256 ^ b.length := by
  induction b with
  | nil => simp [leVal]
  | cons x xs ih =>
    simp only [leVal, List.length_cons, Nat.pow_succ]
    have := toNat_lt x
    omega

theorem leBytes_leVal (b : Bytes) : leBytes b.length (leVal b) = b := by
  induction b with
  | nil => simp [leBytes]
  | cons x xs ih =>
    simp only [List.length_cons, leBytes, leVal]
    have hx := toNat_lt x
    have h1 : (x.toNat + 256 * leVal xs) % 256 = x.toNat := by omega
    have h2 : (x.toNat + 256 * leVal xs) / 256 = leVal xs := by omega
    rw [h1, h2, ih, byte_of_toNat]

end Zvt
