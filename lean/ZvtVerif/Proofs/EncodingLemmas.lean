import ZvtVerif.Encoding
import ZvtVerif.Proofs.BytesLemmas
namespace Zvt

/-! ### integers -/

theorem intDecode_intEncode (be : Bool) (w n : Nat) (h : n < 256 ^ w) (d : Bytes) :
    intDecode be w (intEncode be w n ++ d) = .ok (n, d) := by
  unfold intDecode intEncode
  cases be
  · have hl := leBytes_length w n
    simp [hl, leVal_leBytes w n h]
  · have hl := beBytes_length w n
    simp [hl, beVal_beBytes w n h]

theorem intDecode_short (be : Bool) (w : Nat) (b : Bytes) (h : b.length < w) : intDecode be w b = .error .incomplete := by
  simp [intDecode, h]

/-! ### packed BCD -/

/-- unbounded value of a BCD digit string (the specification of the decoder). -/
def bcdValFrom : Nat → Bytes → Nat
  | rv, [] => rv
  | rv, d :: ds =>
    let high := d.toNat / 16
    let low := d.toNat % 16
    bcdValFrom (if low ≠ 15 then rv * 100 + high * 10 + low else rv * 10 + high) ds

def bcdNext (rv : Nat) (d : UInt8) : Nat :=
  if d.toNat % 16 ≠ 15 then rv * 100 + d.toNat / 16 * 10 + d.toNat % 16 else rv * 10 + d.toNat / 16

theorem bcdValFrom_cons (rv : Nat) (d : UInt8) (ds : Bytes) : bcdValFrom rv (d :: ds) = bcdValFrom (bcdNext rv d) ds := rfl

theorem bcdDecFrom_cons (w rv : Nat) (d : UInt8) (ds : Bytes) :
    bcdDecFrom w rv (d :: ds) = if bcdNext rv d < 256 ^ w then bcdDecFrom w (bcdNext rv d) ds else .error .incomplete := by
  simp only [bcdDecFrom, bcdStep]
  show (match (if bcdNext rv d < 256 ^ w then (Except.ok (bcdNext rv d) : Res Nat) else Except.error Err.incomplete) with
        | Except.error e => (Except.error e : Res Nat) | Except.ok nx => bcdDecFrom w nx ds) = _
  by_cases h : bcdNext rv d < 256 ^ w <;> simp [h]

theorem bcdValFrom_mono (ds : Bytes) : ∀ rv, rv ≤ bcdValFrom rv ds := by
  induction ds with
  | nil => intro rv; simp [bcdValFrom]
  | cons d ds ih =>
    intro rv
    simp only [bcdValFrom]
    split
    · exact Nat.le_trans (by omega) (ih _)
    · exact Nat.le_trans (by omega) (ih _)

/-- The decoder returns the unbounded value iff it fits `w` bytes, and an error otherwise:
no wrapped value can ever come out. -/
theorem bcdDecFrom_spec (w : Nat) (ds : Bytes) : ∀ rv, rv < 256 ^ w →
    bcdDecFrom w rv ds = if bcdValFrom rv ds < 256 ^ w then .ok (bcdValFrom rv ds) else .error .incomplete := by
  induction ds with
  | nil => intro rv h; simp [bcdDecFrom, bcdValFrom, h]
  | cons d ds ih =>
    intro rv h
    rw [bcdDecFrom_cons, bcdValFrom_cons]
    by_cases hfit : bcdNext rv d < 256 ^ w
    · simp only [hfit, if_true]
      exact ih _ hfit
    · simp only [hfit, if_false]
      have := bcdValFrom_mono ds (bcdNext rv d)
      have : ¬ bcdValFrom (bcdNext rv d) ds < 256 ^ w := by omega
      simp [this]

theorem bcdDecFrom_append (w : Nat) (xs ys : Bytes) : ∀ rv,
    bcdDecFrom w rv (xs ++ ys) = match bcdDecFrom w rv xs with
      | .ok v => bcdDecFrom w v ys
      | .error e => .error e := by
  induction xs with
  | nil => intro rv; simp [bcdDecFrom]
  | cons x xs ih =>
    intro rv
    simp only [List.cons_append, bcdDecFrom]
    cases bcdStep w rv x with
    | error e => simp
    | ok nx => simpa using ih nx

theorem bcdEnc_zero : bcdEnc 0 = [] := by
  rw [bcdEnc]; simp

theorem bcdEnc_pos (k : Nat) (h : k ≠ 0) : bcdEnc k = bcdEnc (k / 100) ++ [byte ((k / 10 % 10) * 16 + k % 10)] := by
  rw [bcdEnc]; simp [h]

theorem bcdEncFuel_eq : ∀ (fuel k : Nat), k ≤ fuel → bcdEncFuel fuel k = bcdEnc k := by
  intro fuel
  induction fuel with
  | zero => intro k h; have : k = 0 := by omega
            subst this; simp [bcdEncFuel, bcdEnc_zero]
  | succ fuel ih =>
    intro k h
    by_cases h0 : k = 0
    · subst h0; simp [bcdEncFuel, bcdEnc_zero]
    · rw [bcdEnc_pos k h0]
      simp only [bcdEncFuel, h0, if_false]
      rw [ih (k / 100) (by omega)]

/-- the kernel-evaluable encoder is the same function. -/
theorem bcdEncK_eq (k : Nat) : bcdEncK k = bcdEnc k := bcdEncFuel_eq k k (Nat.le_refl k)

/-- decode ∘ encode = id on every value that fits the integer width. -/
theorem bcdDecFrom_bcdEnc (w : Nat) : ∀ k, k < 256 ^ w → bcdDecFrom w 0 (bcdEnc k) = .ok k := by
  intro k
  induction k using Nat.strongRecOn with
  | _ k ih =>
    intro hk
    by_cases h0 : k = 0
    · subst h0; simp [bcdEnc_zero, bcdDecFrom]
    · rw [bcdEnc_pos k h0, bcdDecFrom_append]
      have hlt : k / 100 < k := by omega
      rw [ih (k / 100) hlt (by omega)]
      simp only [bcdDecFrom, bcdStep, byte_toNat]
      have e1 : (k / 10 % 10 * 16 + k % 10) % 256 / 16 = k / 10 % 10 := by omega
      have e2 : (k / 10 % 10 * 16 + k % 10) % 256 % 16 = k % 10 := by omega
      rw [e1, e2]
      have e3 : k % 10 ≠ 15 := by omega
      simp only [e3, ne_eq, not_false_eq_true, if_true]
      have e4 : k / 100 * 100 + k / 10 % 10 * 10 + k % 10 = k := by omega
      rw [e4]
      simp [hk]

theorem bcdDec_bcdEnc (w k : Nat) (hk : k < 256 ^ w) : bcdDec w (bcdEnc k) = .ok (k, []) := by
  simp [bcdDec, bcdDecFrom_bcdEnc w k hk]

/-- every nibble the encoder emits is a decimal digit (0–9). -/
theorem bcdEnc_digits : ∀ k, ∀ b ∈ bcdEnc k, b.toNat / 16 ≤ 9 ∧ b.toNat % 16 ≤ 9 := by
  intro k
  induction k using Nat.strongRecOn with
  | _ k ih =>
    intro b hb
    by_cases h0 : k = 0
    · subst h0; simp [bcdEnc_zero] at hb
    · rw [bcdEnc_pos k h0] at hb
      simp only [List.mem_append, List.mem_singleton] at hb
      rcases hb with hb | hb
      · exact ih (k / 100) (by omega) b hb
      · subst hb
        rw [byte_toNat]
        constructor <;> omega

/-- number of bytes: two digits per byte, no leading zero byte. -/
theorem bcdEnc_length_le (n : Nat) : ∀ k, k < 100 ^ n → (bcdEnc k).length ≤ n := by
  induction n with
  | zero => intro k h; simp at h; subst h; simp [bcdEnc_zero]
  | succ n ih =>
    intro k h
    by_cases h0 : k = 0
    · subst h0; simp [bcdEnc_zero]
    · rw [bcdEnc_pos k h0]
      have : k / 100 < 100 ^ n := by rw [Nat.pow_succ] at h; omega
      have := ih _ this
      simp; omega

/-- leading zero bytes (the padding `Fixed<N>` adds) do not change the decoded value. -/
theorem bcdDecFrom_zeros (w : Nat) (hw : 0 < 256 ^ w) (k : Nat) (xs : Bytes) :
    bcdDecFrom w 0 (List.replicate k 0 ++ xs) = bcdDecFrom w 0 xs := by
  induction k with
  | zero => simp
  | succ k ih =>
    simp only [List.replicate_succ, List.cons_append, bcdDecFrom, bcdStep]
    simpa [hw] using ih

/-- a trailing `hF` byte contributes the single digit `h` (odd number of digits). -/
theorem bcdStep_fpad (w rv h : Nat) (hh : h ≤ 9) (hfit : rv * 10 + h < 256 ^ w) :
    bcdStep w rv (byte (h * 16 + 15)) = .ok (rv * 10 + h) := by
  simp only [bcdStep, byte_toNat]
  have e1 : (h * 16 + 15) % 256 / 16 = h := by omega
  have e2 : (h * 16 + 15) % 256 % 16 = 15 := by omega
  simp [e1, e2, hfit]

/-! ### tags -/

def tagRepresentable (t : Nat) : Prop :=
  (t < 256 ∧ t ≠ 0x1f ∧ t ≠ 0xff) ∨ (t < 65536 ∧ (t / 256 = 0x1f ∨ t / 256 = 0xff))

instance (t : Nat) : Decidable (tagRepresentable t) := by unfold tagRepresentable; infer_instance

theorem tagDec_tagEnc (t : Nat) (h : tagRepresentable t) (d : Bytes) :
    tagDecDefault (tagEncDefault t ++ d) = .ok (t, d) := by
  unfold tagEncDefault
  rcases h with ⟨h1, h2, h3⟩ | ⟨h1, h2⟩
  · have hh : ¬ (t / 256 = 0x1f ∨ t / 256 = 0xff) := by omega
    simp only [hh, if_false]
    have : (byte t).toNat = t := byte_toNat_lt h1
    simp [tagDecDefault, this, h2, h3]
  · simp only [h2, if_true]
    have a : (byte (t / 256 % 256)).toNat = t / 256 := by rw [byte_toNat]; omega
    have b : (byte (t % 256)).toNat = t % 256 := by rw [byte_toNat]; omega
    simp only [beBytes, leBytes, List.reverse_cons, List.reverse_nil, List.nil_append, List.cons_append,
      tagDecDefault, a, b]
    simp only [h2, if_true]
    congr 2
    omega

theorem tagEnc_shape (t : Nat) : (tagEncDefault t).length = (if t / 256 = 0x1f ∨ t / 256 = 0xff then 2 else 1) := by
  by_cases h : t / 256 = 0x1f ∨ t / 256 = 0xff <;> simp [tagEncDefault, h, beBytes_length]

theorem tagDecBE_tagEncBE (t : Nat) (h : t < 65536) (d : Bytes) : tagDecBE (tagEncBE t ++ d) = .ok (t, d) := by
  have := intDecode_intEncode true 2 t (by simpa using h) d
  simpa [tagDecBE, tagEncBE, intEncode] using this

theorem tagDecDefault_no_panic (b : Bytes) : (tagDecDefault b).isPanic = false := by
  unfold tagDecDefault
  repeat (first | split | simp [Res.isPanic, Err.isPanic])

/-! ### hex text -/

theorem hexVal_hexDigit (n : Nat) (h : n < 16) : hexVal (hexDigit n) = some n := by
  unfold hexDigit hexVal
  by_cases h1 : n < 10
  · simp [h1]; omega
  · simp [h1]
    have : ¬ (48 ≤ 87 + n ∧ 87 + n ≤ 57) := by omega
    simp [this]; omega

/-- encode ∘ decode = id on every byte string. -/
theorem hexEncode_hexDecode (b : Bytes) : hexEncodeStr (hexDecodeStr b) = .ok b := by
  induction b with
  | nil => simp [hexDecodeStr, hexEncodeStr]
  | cons x xs ih =>
    simp only [hexDecodeStr, hexEncodeStr]
    have hx := toNat_lt x
    rw [hexVal_hexDigit _ (by omega), hexVal_hexDigit _ (by omega), ih]
    simp only
    have : x.toNat / 16 * 16 + x.toNat % 16 = x.toNat := by omega
    rw [this, byte_of_toNat]

def isLowerHex (c : Nat) : Bool := (48 ≤ c ∧ c ≤ 57) ∨ (97 ≤ c ∧ c ≤ 102)

theorem hexDigit_hexVal (c v : Nat) (hl : isLowerHex c = true) (h : hexVal c = some v) : hexDigit v = c ∧ v < 16 := by
  unfold hexVal at h
  unfold isLowerHex at hl
  unfold hexDigit
  simp at hl
  split at h
  · simp at h; subst h; constructor
    · have : c - 48 < 10 := by omega
      simp [this]; omega
    · omega
  · split at h
    · simp at h; subst h; constructor
      · have : ¬ (c - 87 < 10) := by omega
        simp [this]; omega
      · omega
    · omega

/-- decode ∘ encode = id on every even-length lower-case hex string. -/
theorem hexDecode_hexEncode : ∀ (cs : List Nat) (b : Bytes), (∀ c ∈ cs, isLowerHex c = true) →
    hexEncodeStr cs = .ok b → hexDecodeStr b = cs
  | [], b, _, h => by simp [hexEncodeStr] at h; subst h; simp [hexDecodeStr]
  | [_], b, _, h => by simp [hexEncodeStr] at h
  | hc :: lc :: cs, b, hl, h => by
    simp only [hexEncodeStr] at h
    cases hh : hexVal hc with
    | none => simp [hh] at h
    | some hv =>
      cases hlv : hexVal lc with
      | none => simp [hh, hlv] at h
      | some lv =>
        simp only [hh, hlv] at h
        cases hr : hexEncodeStr cs with
        | error e => simp [hr] at h
        | ok bs =>
          simp only [hr] at h
          injection h with h
          subst h
          have ⟨e1, l1⟩ := hexDigit_hexVal hc hv (hl hc (by simp)) hh
          have ⟨e2, l2⟩ := hexDigit_hexVal lc lv (hl lc (by simp)) hlv
          have ih := hexDecode_hexEncode cs bs (fun c hc' => hl c (by simp [hc'])) hr
          simp only [hexDecodeStr, byte_toNat]
          have a1 : (hv * 16 + lv) % 256 / 16 = hv := by omega
          have a2 : (hv * 16 + lv) % 256 % 16 = lv := by omega
          rw [a1, a2, e1, e2, ih]

/-! ### CP437 -/

theorem cpEncode_cpDecode_nat : ∀ n : Fin 256, cpEncode (cpDecode (byte n.val)) = some (byte n.val) := by
  decide +kernel

theorem cpEncode_cpDecode (b : UInt8) : cpEncode (cpDecode b) = some b := by
  have := cpEncode_cpDecode_nat ⟨b.toNat, toNat_lt b⟩
  simpa [byte_of_toNat] using this

theorem cpEncodeStr_map_cpDecode (b : Bytes) : cpEncodeStr (b.map cpDecode) = .ok b := by
  induction b with
  | nil => simp [cpEncodeStr]
  | cons x xs ih => simp [cpEncodeStr, cpEncode_cpDecode, ih]

theorem cp437High_nodup : cp437High.Nodup := by decide +kernel
theorem cp437High_ge : ∀ c ∈ cp437High, 128 ≤ c := by decide +kernel

end Zvt
