/-
  TagLoop.lean — the loop invariant behind C13 (and the struct case of C01): how the tag-dispatch loop of
  the generated `decode` consumes a sequence of encoded tagged-field groups.
-/
import ZvtVerif.Derive
namespace Zvt

/-- one encoded tagged-field group: the field's number, its index in the struct, the value its decoder
yields and the bytes of the group (a `Vec` field's consecutive elements form one group). -/
structure Group where
  t : Nat
  idx : Nat
  v : Val
  bytes : Bytes
  /-- `true`: the group decodes whatever follows it (a single field); `false`: only when what follows does
  not begin with the group's own tag (the consecutive elements of a `Vec` field: one more element with that
  tag would belong to the group). -/
  strict : Bool := true

/-- `x` does not begin with tag `t`. -/
def NoStart (t : Nat) (x : Bytes) : Prop := ∀ r, tagDecDefault x ≠ .ok (t, r)

theorem noStart_nil (t : Nat) : NoStart t [] := by
  intro r h; simp [tagDecDefault] at h

/-- what may follow the group. -/
def Group.Follows (g : Group) (tail : Bytes) : Prop := g.strict = true ∨ NoStart g.t tail

abbrev Arm := Nat → Bytes → Option (Nat × Res (Val × Bytes))

/-- the group decodes exactly, whatever follows it: the tag is recognised, the arm of that tag yields the
value and hands back precisely the bytes behind the group. -/
def GroupOK (arm : Arm) (g : Group) : Prop :=
  g.bytes ≠ [] ∧ (∀ tail, ∃ r, tagDecDefault (g.bytes ++ tail) = .ok (g.t, r)) ∧
    ∀ tail, g.Follows tail → arm g.t (g.bytes ++ tail) = some (g.idx, .ok (g.v, tail))

def flat (gs : List Group) : Bytes := gs.flatMap (·.bytes)

def results (gs : List Group) (acc : List (Nat × Val)) : List (Nat × Val) :=
  (gs.map fun g => (g.idx, g.v)).reverse ++ acc

def tagsOf (gs : List Group) (seen : List Nat) : List Nat := (gs.map (·.t)).reverse ++ seen

/-- the `curr_len` the loop holds after the groups were consumed. -/
def lastLen : List Group → Bytes → Nat → Nat
  | [], _, cl => cl
  | [g], tail, _ => (g.bytes ++ tail).length
  | _ :: g' :: gs, tail, cl => lastLen (g' :: gs) tail cl

theorem lastLen_indep : ∀ (gs : List Group) (tail : Bytes) (c1 c2 : Nat), gs ≠ [] → lastLen gs tail c1 = lastLen gs tail c2
  | [], _, _, _, h => absurd rfl h
  | [_], _, _, _, _ => rfl
  | _ :: g' :: gs, tail, c1, c2, _ => by simp only [lastLen]; exact lastLen_indep (g' :: gs) tail c1 c2 (by simp)

theorem flat_cons (g : Group) (gs : List Group) : flat (g :: gs) = g.bytes ++ flat gs := by
  simp [flat]

theorem contains_false_of_not_mem (l : List Nat) (t : Nat) (h : t ∉ l) : l.contains t = false := by
  simpa using h

/-- **One round**: a well-formed group at the head of the input whose tag was not seen yet is consumed,
its value recorded under its field index, its tag marked as seen. -/
theorem tagLoop_step (arm : Arm) (g : Group) (hg : GroupOK arm g) (fuel currLen : Nat) (tail : Bytes)
    (acc : List (Nat × Val)) (seen : List Nat) (hns : g.t ∉ seen) (hcl : currLen ≠ (g.bytes ++ tail).length)
    (hfo : g.Follows tail) :
    tagLoop arm (fuel + 1) currLen (g.bytes ++ tail) acc seen =
      tagLoop arm fuel (g.bytes ++ tail).length tail ((g.idx, g.v) :: acc) (g.t :: seen) := by
  obtain ⟨hne, htg, hok⟩ := hg
  obtain ⟨r, htd⟩ := htg tail
  have harm := hok tail hfo
  simp only [tagLoop]
  have h1 : ¬ ((g.bytes ++ tail).isEmpty = true ∨ currLen = (g.bytes ++ tail).length) := by
    intro h
    rcases h with h | h
    · cases hb : g.bytes with
      | nil => exact hne hb
      | cons x xs => simp [hb] at h
    · exact hcl h
  simp only [h1, if_false, htd, harm, contains_false_of_not_mem seen g.t hns]
  simp

/-- a group may be followed by further groups with other tags. -/
theorem follows_flat (arm : Arm) (g : Group) (gs : List Group) (tail : Bytes)
    (hok : ∀ g' ∈ gs, GroupOK arm g') (hnt : g.t ∉ gs.map (·.t))
    (hlast : gs = [] → g.Follows tail) : g.Follows (flat gs ++ tail) := by
  cases gs with
  | nil => simpa [flat] using hlast rfl
  | cons g' gs' =>
    right
    intro r h
    obtain ⟨r', hr'⟩ := (hok g' (by simp)).2.1 (flat gs' ++ tail)
    rw [flat_cons, List.append_assoc, hr'] at h
    simp only [Except.ok.injEq, Prod.mk.injEq] at h
    exact hnt (by simp [h.1])

/-- **Many rounds**: groups with pairwise distinct, not yet seen tags are consumed one after the other
(the last one must be allowed to be followed by `tail`). -/
theorem tagLoop_groups (arm : Arm) : ∀ (gs : List Group) (fuel currLen : Nat) (tail : Bytes)
    (acc : List (Nat × Val)) (seen : List Nat),
    (∀ g ∈ gs, GroupOK arm g) → (gs.map (·.t)).Nodup → (∀ g ∈ gs, g.t ∉ seen) →
    (gs ≠ [] → currLen ≠ (flat gs ++ tail).length) → (∀ g, gs.getLast? = some g → g.Follows tail) →
    tagLoop arm (gs.length + fuel) currLen (flat gs ++ tail) acc seen =
      tagLoop arm fuel (lastLen gs tail currLen) tail (results gs acc) (tagsOf gs seen) := by
  intro gs
  induction gs with
  | nil => intro fuel currLen tail acc seen _ _ _ _ _; simp [flat, results, tagsOf, lastLen]
  | cons g gs ih =>
    intro fuel currLen tail acc seen hok hnd hns hcl hlast
    have hg := hok g (by simp)
    have hcl' := hcl (by simp)
    rw [flat_cons, List.append_assoc] at hcl' ⊢
    have hlen : (g :: gs).length + fuel = (gs.length + fuel) + 1 := by simp; omega
    simp only [List.map_cons, List.nodup_cons] at hnd
    have hfo : g.Follows (flat gs ++ tail) :=
      follows_flat arm g gs tail (fun g' hg' => hok g' (by simp [hg'])) hnd.1
        (fun h => hlast g (by simp [h]))
    rw [hlen, tagLoop_step arm g hg _ currLen (flat gs ++ tail) acc seen (hns g (by simp)) hcl' hfo]
    have hns' : ∀ g' ∈ gs, g'.t ∉ g.t :: seen := by
      intro g' hg' hm
      simp only [List.mem_cons] at hm
      rcases hm with hm | hm
      · exact hnd.1 (by rw [← hm]; exact List.mem_map_of_mem hg')
      · exact hns g' (by simp [hg']) hm
    have hcl2 : gs ≠ [] → (g.bytes ++ (flat gs ++ tail)).length ≠ (flat gs ++ tail).length := by
      intro _
      have : g.bytes ≠ [] := hg.1
      cases hb : g.bytes with
      | nil => exact absurd hb this
      | cons x xs => simp; omega
    have hlast' : ∀ g', gs.getLast? = some g' → g'.Follows tail := by
      intro g' hg'
      apply hlast g'
      cases gs with
      | nil => simp at hg'
      | cons a as => simpa [List.getLast?_cons_cons] using hg'
    rw [ih fuel _ tail _ _ (fun g' hg' => hok g' (by simp [hg'])) hnd.2 hns' hcl2 hlast']
    congr 1
    · cases gs with
      | nil => simp [lastLen, flat]
      | cons g' gs' => simp only [lastLen]; exact lastLen_indep _ _ _ _ (by simp)
    · simp [results]
    · simp [tagsOf]

/-- after at least one group the loop's `curr_len` differs from what is left (progress was made). -/
theorem lastLen_ne (gs : List Group) (tail : Bytes) (cl : Nat) (hne : gs ≠ []) (hb : ∀ g ∈ gs, g.bytes ≠ []) :
    lastLen gs tail cl ≠ tail.length := by
  induction gs with
  | nil => exact absurd rfl hne
  | cons g gs ih =>
    cases gs with
    | nil =>
      simp only [lastLen]
      have := hb g (by simp)
      cases hbb : g.bytes with
      | nil => exact absurd hbb this
      | cons x xs => simp; omega
    | cons g' gs' =>
      simp only [lastLen]
      exact ih (by simp) (fun x hx => hb x (by simp [hx]))

end Zvt
