/-
  Pace.lean — bookkeeping of the terminal's pauses (DESIGN.md §6.3): the marks run parallel to the bytes on the wire,
  and every pause is sat out by the client exactly once.
-/
import ZvtVerif.Proofs.ClientLemmas
namespace Zvt

theorem sum_take_drop (l : List Nat) (n : Nat) : (l.take n).sum + (l.drop n).sum = l.sum := by
  induction l generalizing n with
  | nil => simp
  | cons x xs ih =>
    cases n with
    | zero => simp
    | succ n => simp only [List.take_succ_cons, List.drop_succ_cons, List.sum_cons]; have := ih n; omega

/-- what `readFrame` hands back is a suffix of what it was given. -/
theorem readFrame_rest_le (s p rest : Bytes) (h : readFrame s = .packet p rest) : rest.length ≤ s.length := by
  unfold readFrame at h
  split at h
  · rename_i a b l r
    split at h
    · split at h
      · rename_i lo hi r'
        simp only at h
        split at h
        · cases h
        · injection h with _ h2; rw [← h2]; simp only [List.length_drop, List.length_cons]; omega
      · cases h
    · simp only at h
      split at h
      · cases h
      · injection h with _ h2; rw [← h2]; simp only [List.length_drop, List.length_cons]; omega
  · cases h

/-- the marks run parallel to the bytes on the wire. -/
def ConnSt.WF (c : ConnSt) : Prop := c.marks.length = c.avail.length

theorem put_wf (c : ConnSt) (b : Bytes) (h : c.WF) : (c.put b).WF := by
  unfold ConnSt.put ConnSt.WF at *
  cases b with
  | nil => exact h
  | cons x tl => simp [h]

theorem connRead_wf (c : ConnSt) (h : c.WF) : (connRead c).2.2.WF := by
  unfold connRead
  split
  · rename_i p rest hf
    have hle := readFrame_rest_le c.avail p rest hf
    unfold ConnSt.WF at *
    simp only [List.length_drop]
    omega
  · split
    · unfold ConnSt.WF; rfl
    · exact h

/-- **every pause the terminal made is sat out exactly once**: what a read pays and what is still owed afterwards add
up to what was owed before — for a packet, for the end of the stream, and (nothing paid, nothing changed) for silence. -/
theorem connRead_conserves (c : ConnSt) :
    (connRead c).2.1 + ((connRead c).2.2.marks.sum + (connRead c).2.2.eofOwed) = c.marks.sum + c.eofOwed := by
  unfold connRead
  split
  · simp only; have := sum_take_drop c.marks (c.avail.length - (by assumption : Bytes).length); omega
  · split
    · simp
    · simp

/-- what one read pays never exceeds what is owed. -/
theorem connRead_paid_le (c : ConnSt) : (connRead c).2.1 ≤ c.marks.sum + c.eofOwed := by
  have := connRead_conserves c; omega

/-- **a packet is lost to the time-out only if the terminal's pauses do not fit**: when everything the terminal still
owes fits before the deadline, `readBy` answers `hang` only if the terminal really is silent. -/
theorem readBy_hang_is_silence (dl : Nat) (w : World) (c c' : ConnSt)
    (hfit : w.now + w.gap * (c.marks.sum + c.eofOwed) ≤ dl) (h : readBy dl w c = .hang c') :
    (connRead c).1 = .hang := by
  have hp := connRead_paid_le c
  unfold readBy at h
  generalize hq : connRead c = q at h hp
  obtain ⟨r, k, c2⟩ := q
  simp only at hp
  have hk : (w.waited k).now ≤ dl := by
    show w.now + w.gap * k ≤ dl
    have : w.gap * k ≤ w.gap * (c.marks.sum + c.eofOwed) := Nat.mul_le_mul_left _ hp
    omega
  cases r with
  | hang => rfl
  | eof => simp only at h; rw [if_neg (by omega)] at h; cases h
  | pkt p => simp only at h; rw [if_neg (by omega)] at h; cases h

/-- in the middle of an exchange (`looping`: one read per `next()`): with a terminal whose owed pauses fit into the
packet time-out, `next()` ends in `hang` only when the terminal is silent — a slow but talking terminal is never cut off. -/
theorem looping_hang_is_silence (d : SeqDesc) (dl : Nat) (w : World) (c : ConnSt)
    (hfit : w.now + w.gap * (c.marks.sum + c.eofOwed) ≤ dl)
    (h : (seqNext d dl w c .looping).1 = NextOut.hang) : (connRead c).1 = .hang := by
  unfold seqNext at h
  simp only at h
  cases hr : readBy dl w c with
  | hang c2 => exact readBy_hang_is_silence dl w c c2 hfit hr
  | eof w2 c2 => rw [hr] at h; cases h
  | pkt p w2 c2 =>
    rw [hr] at h
    simp only at h
    split at h
    · cases h
    · split at h <;> cases h

end Zvt
