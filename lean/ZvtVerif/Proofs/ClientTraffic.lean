/-
  ClientTraffic.lean — what the client WRITES on a connection, read off the terminal's per-connection log
  (`LogE.rx p` = the client sent packet `p`): one `stream.next()` writes the command (first call) and one
  acknowledgement per packet it yields, nothing else; the handshake writes registration, acknowledgement, identity
  request, acknowledgement — in this order, and nothing else.
-/
import ZvtVerif.Proofs.ClientFrame
namespace Zvt

/-- the packets the client sent, in order, according to a connection log. -/
def sent (l : List LogE) : List Bytes :=
  l.filterMap fun e => match e with
    | .rx p => some p
    | _ => none

/-- … on connection `k` of a world. -/
def World.sentOn (w : World) (k : Nat) : List Bytes := sent ((w.logs[k]?).getD [])

theorem sent_append (a b : List LogE) : sent (a ++ b) = sent a ++ sent b := by simp [sent, List.filterMap_append]

theorem sentOn_log (w : World) (k : Nat) (e : LogE) (hk : k < w.logs.length) :
    (w.log k e).sentOn k = w.sentOn k ++ sent [e] := by
  simp only [World.sentOn, World.log, List.getElem?_modify]
  rw [List.getElem?_eq_getElem hk]
  simp [sent_append]

theorem sentOn_of_logs_eq (w w' : World) (k : Nat) (h : w'.logs[k]? = w.logs[k]?) : w'.sentOn k = w.sentOn k := by
  simp [World.sentOn, h]

theorem releaseItems_sentOn : ∀ (n : Nat) (w : World) (c : ConnSt) (k : Nat),
    (releaseItems n w c).1.sentOn k = w.sentOn k := by
  intro n
  induction n with
  | zero => intro w c k; rfl
  | succ n ih =>
    intro w c k
    simp only [releaseItems]
    split
    · rfl
    · split
      · rfl
      · split
        · exact ih _ _ k
        · exact ih _ _ k
        · exact ih _ _ k
        · exact ih _ _ k
        · rfl
        · by_cases hk : k = c.id
          · subst hk
            by_cases hl : c.id < w.logs.length
            · rw [sentOn_log _ _ _ hl]; simp [sent]
            · simp only [World.sentOn, World.log, List.getElem?_modify]
              rw [List.getElem?_eq_none (by omega)]; rfl
          · exact sentOn_of_logs_eq _ _ k (log_other _ _ _ _ hk)

theorem termRx_sentOn (w : World) (c : ConnSt) (p : Bytes) (hl : c.id < w.logs.length) :
    (termRx w c p).1.sentOn c.id = w.sentOn c.id ++ [p] := by
  unfold termRx
  simp only
  split
  · rw [releaseItems_sentOn, sentOn_log _ _ _ hl]; simp [sent]
  · rw [releaseItems_sentOn]
    have := sentOn_log w c.id (.rx p) hl
    simp only [sent, List.filterMap_cons, List.filterMap_nil] at this
    exact this

theorem connWrite_sentOn (w : World) (c : ConnSt) (p : Bytes) (w' : World) (c' : ConnSt)
    (h : connWrite w c p = some (w', c')) (hl : c.id < w.logs.length) : w'.sentOn c.id = w.sentOn c.id ++ [p] := by
  unfold connWrite at h
  split at h
  · simp at h
  · simp at h
    have := termRx_sentOn w c p hl
    rw [h] at this; exact this

theorem dropConn_sentOn (w : World) (c : ConnSt) (k : Nat) : (dropConn w c).sentOn k = w.sentOn k := by
  unfold dropConn
  split
  · rfl
  · by_cases hk : k = c.id
    · subst hk
      by_cases hl : c.id < w.logs.length
      · simp only [World.sentOn]
        have := sentOn_log w c.id (.close w.now) hl
        simp only [World.sentOn] at this
        rw [this]; simp [sent]
      · simp only [World.sentOn, World.log, List.getElem?_modify]
        rw [List.getElem?_eq_none (by omega)]; rfl
    · exact sentOn_of_logs_eq _ _ k (log_other _ _ _ _ hk)

/-- what a read leaves behind: the world's log is untouched. -/
theorem readBy_logs (dl : Nat) (w : World) (c : ConnSt) :
    match readBy dl w c with
    | .pkt _ w' _ => w'.logs = w.logs
    | .eof w' _ => w'.logs = w.logs
    | .hang _ => True := by
  unfold readBy
  generalize connRead c = q
  obtain ⟨r, k, c2⟩ := q
  cases r with
  | hang => trivial
  | eof =>
    simp only
    by_cases h : dl < (w.waited k).now
    · rw [if_pos h]; trivial
    · rw [if_neg h]; rfl
  | pkt p =>
    simp only
    by_cases h : dl < (w.waited k).now
    · rw [if_pos h]; trivial
    · rw [if_neg h]; rfl

def NextOut.isOk : NextOut → Bool
  | .item (.ok _ _) => true
  | _ => false

theorem readBy_sentOn (dl : Nat) (w : World) (c : ConnSt) (k : Nat) :
    match readBy dl w c with
    | .pkt _ w' c' => w'.sentOn k = w.sentOn k ∧ FrameRel w w' c c'
    | .eof w' c' => w'.sentOn k = w.sentOn k ∧ FrameRel w w' c c'
    | .hang _ => True := by
  have h1 := readBy_logs dl w c
  have h2 := readBy_frame dl w c
  generalize readBy dl w c = q at h1 h2 ⊢
  cases q with
  | hang c2 => trivial
  | eof w2 c2 => exact ⟨by simp only [World.sentOn]; rw [show w2.logs = w.logs from h1], h2⟩
  | pkt p w2 c2 => exact ⟨by simp only [World.sentOn]; rw [show w2.logs = w.logs from h1], h2⟩

/-- the acknowledging half of a `next()`: read one reply, decode it, acknowledge it. -/
theorem replyStep_writes (d : SeqDesc) (dl : Nat) (w : World) (c : ConnSt) (hl : c.id < w.logs.length) :
    ((seqNext d dl w c .looping).1.isOk = true ∧ (seqNext d dl w c .looping).2.1.sentOn c.id = w.sentOn c.id ++ [ackBytes]) ∨
    ((seqNext d dl w c .looping).1.isOk = false ∧ (seqNext d dl w c .looping).2.1.sentOn c.id = w.sentOn c.id) := by
  unfold seqNext
  simp only
  have hr := readBy_sentOn dl w c c.id
  generalize readBy dl w c = q at hr ⊢
  cases q with
  | hang c2 => right; exact ⟨rfl, rfl⟩
  | eof w2 c2 => right; exact ⟨rfl, hr.1⟩
  | pkt p w2 c2 =>
    simp only at hr ⊢
    cases parseEnum d.enum p with
    | error e => right; exact ⟨rfl, hr.1⟩
    | ok iv =>
      obtain ⟨i, v⟩ := iv
      simp only
      cases hw : connWrite w2 c2 ackBytes with
      | none => right; exact ⟨rfl, hr.1⟩
      | some wc =>
        obtain ⟨w3, c3⟩ := wc
        left
        refine ⟨rfl, ?_⟩
        have := connWrite_sentOn w2 c2 ackBytes w3 c3 hw (by rw [hr.2.id, hr.2.nlogs]; exact hl)
        rw [hr.2.id] at this
        simp only
        rw [this, hr.1]

/-- **what one `stream.next()` writes**: in the first call the command and, iff it yields a packet, one
acknowledgement behind it; in later calls one acknowledgement iff it yields a packet; after the end nothing. An
error item or a time-out never comes with an acknowledgement. -/
theorem seqNext_writes (d : SeqDesc) (dl : Nat) (w : World) (c : ConnSt) (st : SeqSt) (hl : c.id < w.logs.length) :
    ∃ S, (seqNext d dl w c st).2.1.sentOn c.id = w.sentOn c.id ++ S ∧
      (match st with
       | .start => ((seqNext d dl w c st).1.isOk = true ∧ S = [d.cmd, ackBytes]) ∨
                   ((seqNext d dl w c st).1.isOk = false ∧ (S = [] ∨ S = [d.cmd]))
       | .looping => ((seqNext d dl w c st).1.isOk = true ∧ S = [ackBytes]) ∨
                     ((seqNext d dl w c st).1.isOk = false ∧ S = [])
       | .done => S = []) := by
  cases st with
  | done => exact ⟨[], by simp [seqNext], rfl⟩
  | looping =>
    rcases replyStep_writes d dl w c hl with ⟨h1, h2⟩ | ⟨h1, h2⟩
    · exact ⟨[ackBytes], h2, Or.inl ⟨h1, rfl⟩⟩
    · exact ⟨[], by simpa using h2, Or.inr ⟨h1, rfl⟩⟩
  | start =>
    unfold seqNext
    simp only
    cases hw : connWrite w c d.cmd with
    | none => exact ⟨[], by simp, Or.inr ⟨rfl, Or.inl rfl⟩⟩
    | some wc =>
      obtain ⟨w1, c1⟩ := wc
      have hf1 := FrameRel.write w c d.cmd w1 c1 hw
      have hs1 := connWrite_sentOn w c d.cmd w1 c1 hw hl
      simp only
      have hr := readBy_sentOn dl w1 c1 c.id
      generalize readBy dl w1 c1 = q at hr ⊢
      cases q with
      | hang c2 => exact ⟨[d.cmd], hs1, Or.inr ⟨rfl, Or.inr rfl⟩⟩
      | eof w2 c2 => exact ⟨[d.cmd], by simp only; rw [hr.1, hs1], Or.inr ⟨rfl, Or.inr rfl⟩⟩
      | pkt p w2 c2 =>
        simp only at hr ⊢
        cases parseEnum Generated.io_Ack p with
        | error e => exact ⟨[d.cmd], by simp only; rw [hr.1, hs1], Or.inr ⟨rfl, Or.inr rfl⟩⟩
        | ok a =>
          simp only
          have hf2 := hf1.trans hr.2
          have hl2 : c2.id < w2.logs.length := by rw [hf2.id, hf2.nlogs]; exact hl
          -- the rest is the acknowledging half, on (w2, c2)
          have hstep := replyStep_writes d dl w2 c2 hl2
          unfold seqNext at hstep
          simp only at hstep
          rw [hf2.id] at hstep
          generalize readBy dl w2 c2 = q2 at hstep ⊢
          cases q2 with
          | hang c3 => exact ⟨[d.cmd], by simp only; rw [hr.1, hs1], Or.inr ⟨rfl, Or.inr rfl⟩⟩
          | eof w3 c3 =>
            simp only at hstep ⊢
            rcases hstep with ⟨h1, _⟩ | ⟨_, h2⟩
            · simp [NextOut.isOk] at h1
            · exact ⟨[d.cmd], by rw [h2, hr.1, hs1], Or.inr ⟨rfl, Or.inr rfl⟩⟩
          | pkt p2 w3 c3 =>
            simp only at hstep ⊢
            generalize parseEnum d.enum p2 = pe at hstep ⊢
            cases pe with
            | error e =>
              simp only at hstep ⊢
              rcases hstep with ⟨h1, _⟩ | ⟨_, h2⟩
              · simp [NextOut.isOk] at h1
              · exact ⟨[d.cmd], by rw [h2, hr.1, hs1], Or.inr ⟨rfl, Or.inr rfl⟩⟩
            | ok iv =>
              obtain ⟨i, v⟩ := iv
              simp only at hstep ⊢
              generalize connWrite w3 c3 ackBytes = cw at hstep ⊢
              cases cw with
              | none =>
                simp only at hstep ⊢
                rcases hstep with ⟨h1, _⟩ | ⟨_, h2⟩
                · simp [NextOut.isOk] at h1
                · exact ⟨[d.cmd], by rw [h2, hr.1, hs1], Or.inr ⟨rfl, Or.inr rfl⟩⟩
              | some wc2 =>
                obtain ⟨w4, c4⟩ := wc2
                simp only at hstep ⊢
                rcases hstep with ⟨_, h2⟩ | ⟨h1, _⟩
                · exact ⟨[d.cmd, ackBytes], by rw [h2, hr.1, hs1]; simp, Or.inl ⟨rfl, rfl⟩⟩
                · simp [NextOut.isOk] at h1


/-- a one-reply exchange of the handshake: the command and, iff it was answered by a decodable reply, the
acknowledgement of that reply. -/
theorem onceExchange_writes (d : SeqDesc) (dl : Nat) (w : World) (c : ConnSt) (hl : c.id < w.logs.length) :
    ∃ S, (onceExchange d dl w c).2.1.sentOn c.id = w.sentOn c.id ++ S ∧
      (((∃ i v, (onceExchange d dl w c).1 = some (.ok i v)) ∧ S = [d.cmd, ackBytes]) ∨
       ((∀ i v, (onceExchange d dl w c).1 ≠ some (.ok i v)) ∧ (S = [] ∨ S = [d.cmd]))) := by
  obtain ⟨S, hs, hshape⟩ := seqNext_writes d dl w c .start hl
  simp only at hshape
  unfold onceExchange
  generalize seqNext d dl w c .start = q at hs hshape ⊢
  obtain ⟨o, w1, c1, st⟩ := q
  refine ⟨S, ?_, ?_⟩
  · cases o <;> exact hs
  · cases o with
    | hang =>
      rcases hshape with ⟨h, _⟩ | ⟨_, h⟩
      · simp [NextOut.isOk] at h
      · exact Or.inr ⟨(by intro i v hh; cases hh), h⟩
    | ended =>
      rcases hshape with ⟨h, _⟩ | ⟨_, h⟩
      · simp [NextOut.isOk] at h
      · exact Or.inr ⟨(by intro i v hh; cases hh), h⟩
    | item it =>
      cases it with
      | err =>
        rcases hshape with ⟨h, _⟩ | ⟨_, h⟩
        · simp [NextOut.isOk] at h
        · exact Or.inr ⟨(by intro i v hh; cases hh), h⟩
      | ok i v =>
        rcases hshape with ⟨_, h⟩ | ⟨h, _⟩
        · exact Or.inl ⟨⟨i, v, rfl⟩, h⟩
        · simp [NextOut.isOk] at h

/-- the four packets of a complete handshake: registration with the configured password and currency, the
acknowledgement of its completion, the identity request, the acknowledgement of the terminal's answer. -/
def handshakePackets (cfg : Cfg) : List Bytes := [registrationCmd cfg, ackBytes, sysInfoCmd, ackBytes]

/-- **what the handshake writes on the connection it opens**: a prefix of `handshakePackets` — never anything else,
never in another order — and all four of them when it succeeds. (A refused or stalled connect writes nothing.) -/
theorem connect_traffic (cfg : Cfg) (w : World) :
    (connect cfg w).1.sentOn w.logs.length <+: handshakePackets cfg ∧
    ((connect cfg w).2 = true → (connect cfg w).1.sentOn w.logs.length = handshakePackets cfg) := by
  have hnew : ∀ (x : List LogE), ({ w with logs := w.logs ++ [x] } : World).sentOn w.logs.length = sent x := by
    intro x; simp [World.sentOn]
  unfold connect
  simp only
  split
  · simp only; rw [hnew]; simp [sent]
  · split
    · simp only
      refine ⟨?_, by simp⟩
      have := hnew [.stall w.now]
      simp only [World.sentOn] at this ⊢
      rw [this]; simp [sent]
    · generalize hw0 : ({ w with logs := w.logs ++ [[.opened w.now]] } : World) = w0
      have hs0 : w0.sentOn w.logs.length = [] := by rw [← hw0, hnew]; simp [sent]
      have hl0 : w0.logs.length = w.logs.length + 1 := by rw [← hw0]; simp
      have hidc : ({ id := w.logs.length } : ConnSt).id = w.logs.length := rfl
      obtain ⟨S1, h1, sh1⟩ := onceExchange_writes (seqDesc "sequences::Registration" (registrationCmd cfg)) (w.now + TIMEOUT) w0
        { id := w.logs.length } (by rw [hidc, hl0]; omega)
      have hn1 := onceExchange_nlogs (seqDesc "sequences::Registration" (registrationCmd cfg)) (w.now + TIMEOUT) w0 { id := w.logs.length }
      have hid1 := onceExchange_id (seqDesc "sequences::Registration" (registrationCmd cfg)) (w.now + TIMEOUT) w0 { id := w.logs.length }
      have hcmd1 : (seqDesc "sequences::Registration" (registrationCmd cfg)).cmd = registrationCmd cfg := by
        unfold seqDesc; split <;> rfl
      rw [hidc, hs0, List.nil_append] at h1
      rw [hcmd1] at sh1
      generalize onceExchange (seqDesc "sequences::Registration" (registrationCmd cfg)) (w.now + TIMEOUT) w0 { id := w.logs.length } = q1 at h1 sh1 hn1 hid1 ⊢
      obtain ⟨o, w1, c1⟩ := q1
      simp only at h1 sh1 hn1 hid1
      have pre1 : S1 = [] ∨ S1 = [registrationCmd cfg] → S1 <+: handshakePackets cfg := by
        rintro (h | h) <;> subst h <;> simp [handshakePackets, List.prefix_iff_eq_take]
      cases o with
      | none =>
        simp only
        rw [dropConn_sentOn]
        refine ⟨?_, by simp⟩
        show w1.sentOn w.logs.length <+: _
        rw [h1]
        rcases sh1 with ⟨⟨i, v, hh⟩, _⟩ | ⟨_, h⟩
        · cases hh
        · exact pre1 h
      | some it =>
        cases it with
        | err =>
          simp only
          rw [dropConn_sentOn, h1]
          refine ⟨?_, by simp⟩
          rcases sh1 with ⟨⟨i, v, hh⟩, _⟩ | ⟨_, h⟩
          · cases hh
          · exact pre1 h
        | ok i v =>
          simp only
          have hS1 : S1 = [registrationCmd cfg, ackBytes] := by
            rcases sh1 with ⟨_, h⟩ | ⟨h, _⟩
            · exact h
            · exact absurd rfl (h i v)
          subst hS1
          have hl1 : c1.id < w1.logs.length := by rw [hid1, hn1, hl0]; exact Nat.lt_succ_self _
          obtain ⟨S2, h2, sh2⟩ := onceExchange_writes (seqDesc "feig::sequences::GetSystemInfo" sysInfoCmd) (w.now + TIMEOUT) w1 c1 hl1
          have hcmd2 : (seqDesc "feig::sequences::GetSystemInfo" sysInfoCmd).cmd = sysInfoCmd := by
            unfold seqDesc; split <;> rfl
          rw [hid1, h1] at h2
          rw [hcmd2] at sh2
          generalize onceExchange (seqDesc "feig::sequences::GetSystemInfo" sysInfoCmd) (w.now + TIMEOUT) w1 c1 = q2 at h2 sh2 ⊢
          obtain ⟨o2, w2, c2⟩ := q2
          simp only at h2 sh2
          have pre2 : S2 = [] ∨ S2 = [sysInfoCmd] → [registrationCmd cfg, ackBytes] ++ S2 <+: handshakePackets cfg := by
            rintro (h | h) <;> subst h <;> simp [handshakePackets, List.prefix_iff_eq_take]
          cases o2 with
          | none =>
            simp only
            rw [dropConn_sentOn]
            refine ⟨?_, by simp⟩
            show w2.sentOn w.logs.length <+: _
            rw [h2]
            rcases sh2 with ⟨⟨i2, v2, hh⟩, _⟩ | ⟨_, h⟩
            · cases hh
            · exact pre2 h
          | some it2 =>
            cases it2 with
            | err =>
              simp only
              rw [dropConn_sentOn, h2]
              refine ⟨?_, by simp⟩
              rcases sh2 with ⟨⟨i2, v2, hh⟩, _⟩ | ⟨_, h⟩
              · cases hh
              · exact pre2 h
            | ok i2 v2 =>
              simp only
              have hS2 : S2 = [sysInfoCmd, ackBytes] := by
                rcases sh2 with ⟨_, h⟩ | ⟨h, _⟩
                · exact h
                · exact absurd rfl (h i2 v2)
              subst hS2
              have hall : w2.sentOn w.logs.length = handshakePackets cfg := by rw [h2]; rfl
              split
              · split
                · exact ⟨by show w2.sentOn _ <+: _; rw [hall]; exact List.prefix_refl _, fun _ => hall⟩
                · rw [dropConn_sentOn, hall]; exact ⟨List.prefix_refl _, by simp⟩
              · rw [dropConn_sentOn, hall]; exact ⟨List.prefix_refl _, by simp⟩

end Zvt
