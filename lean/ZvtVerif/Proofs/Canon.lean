/-
  Canon.lean — the canonical value domain of DESIGN.md §5.1 as a definition over schemas (`Ty.canon`,
  `fieldsCanon`), the Boolean well-formedness check on schemas (`Ty.wf`, `fieldsWf`) and what may follow
  an encoded field for it to be read back (`Ty.follow`); the leaf level of the generic round trip.
-/
import ZvtVerif.Proofs.StructRT
import ZvtVerif.Proofs.LeafMore
namespace Zvt

/-! ### what may follow an encoded field -/

inductive Follow where
  | any                    -- self-delimiting: whatever follows is handed back
  | noStart (t : Nat)      -- a `Vec` field with number `t`: anything that does not begin with that number
  | endOnly                -- a field that takes all there is: only the end of the enclosing container
  deriving DecidableEq

def Follow.holds : Follow → Bytes → Prop
  | .any, _ => True
  | .noStart t, x => NoStart t x
  | .endOnly, x => x = []

/-- length styles that delimit their payload inside a struct. -/
def LenKind.delim : LenKind → Bool
  | .tlv => true
  | .llv _ => true
  | .fixed _ => true
  | _ => false

def tagOK : Option Nat → Bool
  | none => true
  | some t => decide (tagRepresentable t)

/-- the (encoding, type) pairs the builder implements for non-container types. -/
def leafShape : Enc → Ty → Bool
  | .dflt, .int _ => true
  | .bigEndian, .int _ => true
  | .bcd, .int _ => true
  | .prrn, .int _ => true
  | .dflt, .str => true
  | .hex, .str => true
  | .utf8, .str => true
  | .custom, .bytes => true
  | .dflt, .dateTime => true
  | _, _ => false

/-- fixed-width integers find their own end. -/
def selfEnding : Enc → Ty → Bool
  | .dflt, .int _ => true
  | .bigEndian, .int _ => true
  | _, _ => false

def leafFollow (t : Ty) (L : LenKind) (E : Enc) : Follow :=
  if L.delim then .any
  else if L = .empty ∧ selfEnding E t = true then .any
  else .endOnly

/-- which length styles go with which leaf. -/
def leafLenOK : LenKind → Enc → Ty → Bool
  | .tlv, E, _ => E != .prrn
  | .llv _, E, _ => E != .prrn
  | .empty, E, _ => E != .prrn
  | .fixed N, .dflt, .int w => N == w
  | .fixed N, .bigEndian, .int w => N == w
  | .fixed N, .prrn, .int w => N == 2 && w == 8
  | .fixed _, .bcd, .int _ => true
  | .fixed _, _, .str => true
  | .fixed _, _, .bytes => true
  | .temperature, .dflt, .str => true
  | _, _, _ => false

def leafWf (t : Ty) (L : LenKind) (E : Enc) (tag : Option Nat) : Bool :=
  leafShape E t && tagOK tag && leafLenOK L E t

/-- the encoded length is representable in the style. -/
def LenOK : LenKind → Nat → Prop
  | .empty, _ => True
  | .temperature, n => n = 3 ∨ n = 4
  | L, n => LenFits L n

/-- **Canonical leaf values** (DESIGN.md §5.1). -/
def leafCanon (L : LenKind) (E : Enc) (t : Ty) (v : Val) : Prop :=
  ∃ p, leafEnc E t v = .ok p ∧ LenOK L p.length ∧
  match E, t, v with
  | .dflt, .int w, .num n => n < 256 ^ w
  | .bigEndian, .int w, .num n => n < 256 ^ w
  | .bcd, .int w, .num n => n < 256 ^ w
  | .prrn, .int _, .num n => n = 0xffff ∨ n ≤ 9999
  | .dflt, .str, .str cs => cs.getLast? ≠ some 0 ∧ (∀ N, L = .fixed N → p.length = N)
  | .hex, .str, .str cs => (∀ c ∈ cs, isLowerHex c = true) ∧ (∀ N, L = .fixed N → p.length = N)
  | .utf8, .str, .str cs => (∀ c ∈ cs, validScalar c) ∧ (∀ N, L = .fixed N → p.length = N)
  | .custom, .bytes, .raw b => b ≠ [] ∧ (∀ N, L = .fixed N → p.length = N)
  | .dflt, .dateTime, .dt d t => validDt d t
  | _, _, _ => False

/-! ### the leaf level -/

def IsLeafTy : Ty → Prop
  | .int _ => True
  | .str => True
  | .bytes => True
  | .dateTime => True
  | _ => False

theorem leaf_ser_eq (t : Ty) (ht : IsLeafTy t) (L : LenKind) (E : Enc) (tag : Option Nat) (v : Val)
    (hb : ∀ b, t = .bytes → v = .raw b → b ≠ []) (hv : ∀ p, leafEnc E t v = .ok p → True) (hty : t = .bytes → ∃ b, v = .raw b) :
    Ty.ser t L E tag v = serTagged tagEncDefault L tag (leafEnc E t v) := by
  cases t with
  | int w => simp only [Ty.ser]
  | str => simp only [Ty.ser]
  | dateTime => simp only [Ty.ser]
  | bytes =>
    obtain ⟨b, rfl⟩ := hty rfl
    have : b.isEmpty = false := by
      have := hb b rfl rfl
      cases b <;> simp_all
    simp only [Ty.ser, this, Bool.false_eq_true, if_false]
  | struct fs => exact absurd ht (by simp [IsLeafTy])
  | opt t => exact absurd ht (by simp [IsLeafTy])
  | vec t => exact absurd ht (by simp [IsLeafTy])

theorem leaf_de_eq (t : Ty) (ht : IsLeafTy t) (L : LenKind) (E : Enc) (tag : Option Nat) (b : Bytes) :
    Ty.de t L E tag b = deserTagged tagDecDefault L (leafDec E t) tag b := by
  cases t with
  | int w => simp only [Ty.de]
  | str => simp only [Ty.de]
  | dateTime => simp only [Ty.de]
  | bytes => simp only [Ty.de]
  | struct fs => exact absurd ht (by simp [IsLeafTy])
  | opt t => exact absurd ht (by simp [IsLeafTy])
  | vec t => exact absurd ht (by simp [IsLeafTy])

theorem tagPrefix_facts (tg : Nat) (hrep : tagRepresentable tg) (r : Bytes) :
    tagPrefix tagEncDefault (some tg) ++ r ≠ [] ∧ ∀ x, ∃ r', tagDecDefault ((tagPrefix tagEncDefault (some tg) ++ r) ++ x) = .ok (tg, r') := by
  constructor
  · simp only [tagPrefix]
    have := tagEnc_shape tg
    intro h
    have hl := congrArg List.length h
    simp only [List.length_append, List.length_nil] at hl
    split at this <;> omega
  · intro x
    simp only [tagPrefix, List.append_assoc]
    exact ⟨_, tagDec_tagEnc tg hrep _⟩

/-- without a delimiting prefix (`Empty`, `Temperature`): the value decoder sees everything up to the end. -/
theorem deserTagged_serTagged_end {α : Type} (L : LenKind) (hL : L = .empty ∨ L = .temperature)
    (tag : Option Nat) (htag : ∀ t, tag = some t → tagRepresentable t)
    (p : Bytes) (hlen : LenOK L p.length) (dec : Bytes → Res (α × Bytes)) (v : α) (hdec : dec p = .ok (v, [])) :
    ∃ bytes, serTagged tagEncDefault L tag (.ok p) = .ok bytes ∧
      deserTagged tagDecDefault L dec tag (bytes ++ []) = .ok (v, []) ∧ bytes = tagPrefix tagEncDefault tag ++ p := by
  refine ⟨tagPrefix tagEncDefault tag ++ p, ?_, ?_, rfl⟩
  · rcases hL with rfl | rfl <;> simp [serTagged, LenKind.ser]
  · unfold deserTagged
    rw [List.append_nil, stripTag_tagEnc tag htag]
    rcases hL with rfl | rfl
    · simp only [LenKind.de, gt_iff_lt, Nat.lt_irrefl, if_false, List.take_length, hdec]
      simp
    · have hl : p.length = 3 ∨ p.length = 4 := hlen
      have h1 : ¬ (p.length < 3) := by omega
      have h2 : min p.length 4 = p.length := by omega
      simp only [LenKind.de, h1, if_false, h2, gt_iff_lt, Nat.lt_irrefl, List.take_length, hdec]
      simp

theorem fixed_eq_of_lenOK {N w : Nat} (h : (N == w) = true) : N = w := by simpa using h

/-- **Leaf payload**: what the value decoder makes of the bytes it is shown is exactly the canonical value. -/
theorem leaf_seen (L : LenKind) (E : Enc) (t : Ty) (v : Val) (hwf : leafLenOK L E t = true) (hc : leafCanon L E t v) :
    ∃ p, leafEnc E t v = .ok p ∧ LenOK L p.length ∧ leafDec E t (seenPayload L p) = .ok (v, []) := by
  obtain ⟨p, henc, hlen, hm⟩ := hc
  refine ⟨p, henc, hlen, ?_⟩
  cases E <;> cases t <;> cases v <;> simp only [] at hm <;> try (exact False.elim hm)
  · -- dflt int
    rename_i w n
    refine leaf_seen_roundtrip L _ _ _ p ⟨henc, hm, ?_⟩
    intro N hN; subst hN
    exact fixed_eq_of_lenOK (by simpa [leafLenOK] using hwf)
  · -- dflt str
    exact leaf_seen_roundtrip L _ _ _ p ⟨henc, hm⟩
  · -- dflt dateTime
    rename_i d tm
    obtain ⟨p', he, hd⟩ := dt_roundtrip d tm hm
    simp only [leafEnc] at henc
    have hpp : p' = p := Except.ok.inj (by rw [he] at henc; exact henc)
    rw [← hpp]
    have hs : seenPayload L p' = p' := by
      cases L <;> simp only [seenPayload]
      simp [leafLenOK] at hwf
    rw [hs]; simp only [leafDec]; exact hd
  · -- be int
    rename_i w n
    refine leaf_seen_roundtrip L _ _ _ p ⟨henc, hm, ?_⟩
    intro N hN; subst hN
    exact fixed_eq_of_lenOK (by simpa [leafLenOK] using hwf)
  · -- bcd int
    exact leaf_seen_roundtrip L _ _ _ p ⟨henc, hm⟩
  · -- hex str
    exact leaf_seen_roundtrip L _ _ _ p ⟨henc, hm⟩
  · -- utf8 str
    rename_i cs
    simp only [leafEnc] at henc; simp at henc; subst henc
    rw [seen_eq_of_exact L _ hm.2]
    simp only [leafDec, utf8_roundtrip cs hm.1]
  · -- custom bytes
    exact leaf_seen_roundtrip L _ _ _ p ⟨henc, hm.2⟩
  · -- prrn
    rename_i w n
    refine leaf_seen_roundtrip L _ _ _ p ⟨henc, hm, ?_⟩
    cases L <;> simp [leafLenOK] at hwf
    rename_i N
    obtain ⟨h1, h2⟩ := hwf
    subst h1; subst h2; exact ⟨rfl, rfl⟩

theorem lenOK_delim (L : LenKind) (n : Nat) (hd : L.delim = true) (h : LenOK L n) : LenFits L n := by
  cases L <;> simp [LenKind.delim] at hd <;> exact h

theorem leaf_ser_canon (t : Ty) (ht : IsLeafTy t) (L : LenKind) (E : Enc) (tag : Option Nat) (v : Val)
    (hc : leafCanon L E t v) : Ty.ser t L E tag v = serTagged tagEncDefault L tag (leafEnc E t v) := by
  cases t with
  | int w => simp only [Ty.ser]
  | str => simp only [Ty.ser]
  | dateTime => simp only [Ty.ser]
  | bytes =>
    obtain ⟨p, henc, _, hm⟩ := hc
    cases E <;> cases v <;> simp only [] at hm <;> try (exact False.elim hm)
    rename_i b
    have : b.isEmpty = false := by
      have := hm.1
      cases b <;> simp_all
    simp only [Ty.ser, this, Bool.false_eq_true, if_false]
  | struct fs => exact absurd ht (by simp [IsLeafTy])
  | opt t => exact absurd ht (by simp [IsLeafTy])
  | vec t => exact absurd ht (by simp [IsLeafTy])

/-- **Leaf fields, all shapes**: tag (if any), length prefix (if any) and payload of a canonical value are
read back as exactly that value; what follows is handed back untouched whenever the field delimits itself,
and a field that takes everything is read back at the end of its container. -/
theorem leaf_rt (t : Ty) (ht : IsLeafTy t) (L : LenKind) (E : Enc) (tag : Option Nat) (v : Val)
    (hwf : leafWf t L E tag = true) (hc : leafCanon L E t v) :
    ∃ bytes, Ty.ser t L E tag v = .ok bytes ∧
      (∀ x, (leafFollow t L E).holds x → Ty.de t L E tag (bytes ++ x) = .ok (v, x)) ∧
      ∃ r, bytes = tagPrefix tagEncDefault tag ++ r := by
  simp only [leafWf, Bool.and_eq_true] at hwf
  obtain ⟨⟨hshape, htg⟩, hlenok⟩ := hwf
  have htag : ∀ tg, tag = some tg → tagRepresentable tg := by
    intro tg h; subst h; simpa [tagOK] using htg
  have hser := leaf_ser_canon t ht L E tag v hc
  obtain ⟨p, henc, hlen, hseen⟩ := leaf_seen L E t v hlenok hc
  rw [henc] at hser
  by_cases hd : L.delim = true
  · have hfit := lenOK_delim L p.length hd hlen
    obtain ⟨bytes, hs, _, pre, _, hb⟩ := deserTagged_serTagged L tag htag p [] hfit (leafDec E t) v hseen
    refine ⟨bytes, by rw [hser]; exact hs, ?_, ⟨pre ++ p, hb⟩⟩
    intro x _
    obtain ⟨bytes', hs', hd', _⟩ := deserTagged_serTagged L tag htag p x hfit (leafDec E t) v hseen
    rw [hs] at hs'
    have : bytes = bytes' := Except.ok.inj hs'
    rw [leaf_de_eq t ht, this]; exact hd'
  · by_cases hse : L = .empty ∧ selfEnding E t = true
    · obtain ⟨hL, hself⟩ := hse
      subst hL
      -- fixed-width integers
      cases E <;> cases t <;> simp [selfEnding] at hself
      · rename_i w
        obtain ⟨p', hE', hl', hm⟩ := hc
        cases v <;> simp only [] at hm <;> try (exact False.elim hm)
        rename_i n
        obtain ⟨bytes, hs, _, hb⟩ := int_field_roundtrip_empty w n false hm tag htag []
        refine ⟨bytes, by simpa using hs, ?_, ⟨_, hb⟩⟩
        intro x _
        obtain ⟨bytes', hs', hd', _⟩ := int_field_roundtrip_empty w n false hm tag htag x
        rw [hs] at hs'
        have : bytes = bytes' := Except.ok.inj hs'
        rw [this]; simpa using hd'
      · rename_i w
        obtain ⟨p', hE', hl', hm⟩ := hc
        cases v <;> simp only [] at hm <;> try (exact False.elim hm)
        rename_i n
        obtain ⟨bytes, hs, _, hb⟩ := int_field_roundtrip_empty w n true hm tag htag []
        refine ⟨bytes, by simpa using hs, ?_, ⟨_, hb⟩⟩
        intro x _
        obtain ⟨bytes', hs', hd', _⟩ := int_field_roundtrip_empty w n true hm tag htag x
        rw [hs] at hs'
        have : bytes = bytes' := Except.ok.inj hs'
        rw [this]; simpa using hd'
    · have hL : L = .empty ∨ L = .temperature := by
        cases L <;> simp [LenKind.delim] at hd <;> simp [leafLenOK] at hlenok <;> simp
      have hsp : seenPayload L p = p := by rcases hL with rfl | rfl <;> rfl
      rw [hsp] at hseen
      obtain ⟨bytes, hs, hde, hb⟩ := deserTagged_serTagged_end L hL tag htag p hlen (leafDec E t) v hseen
      refine ⟨bytes, by rw [hser]; exact hs, ?_, ⟨p, hb⟩⟩
      intro x hx
      have hf : leafFollow t L E = .endOnly := by simp [leafFollow, hd, hse]
      rw [hf] at hx
      simp only [Follow.holds] at hx
      subst hx
      rw [leaf_de_eq t ht]; exact hde

end Zvt

namespace Zvt

/-! ### schemas: what may follow a field, well-formedness, canonical values -/

/-- not `Option`/`Vec` (what may stand inside an `Option` or a `Vec`). -/
def Ty.plain : Ty → Bool
  | .opt _ => false
  | .vec _ => false
  | _ => true

mutual
/-- what may follow the encoding of a field of this shape for the decoder to read it back. -/
def Ty.follow : Ty → LenKind → Enc → Option Nat → Follow
  | .opt t, L, E, tag => Ty.follow t L E tag
  | .vec _, _, _, tag =>
    match tag with
    | some tg => .noStart tg
    | none => .endOnly
  | .struct fs, L, _, _ => if L.delim then .any else if fieldsTransparent fs then .any else .endOnly
  | .int w, L, E, _ => leafFollow (.int w) L E
  | .str, L, E, _ => leafFollow .str L E
  | .bytes, L, E, _ => leafFollow .bytes L E
  | .dateTime, L, E, _ => leafFollow .dateTime L E
termination_by structural t => t
/-- a struct that can stand without a length prefix: only positional, self-delimiting, non-optional fields. -/
def fieldsTransparent : List Field → Bool
  | [] => true
  | .mk _ tag L E ty :: fs => tag.isNone && (Ty.follow ty L E none == .any) && ty.plain && fieldsTransparent fs
termination_by structural fs => fs
end

def structLenOK : LenKind → Bool
  | .tlv => true
  | .llv _ => true
  | .empty => true
  | _ => false

mutual
/-- **Well-formed field shapes** (Boolean, evaluated by the kernel on the shipped schema). -/
def Ty.wf : Ty → LenKind → Enc → Option Nat → Bool
  | .opt t, L, E, tag => t.plain && Ty.wf t L E tag
  | .vec t, L, E, tag => tag.isSome && t.plain && Ty.wf t L E tag && (Ty.follow t L E tag == .any)
  | .struct fs, L, _, tag => tagOK tag && structLenOK L && fieldsWf fs
  | .int w, L, E, tag => leafWf (.int w) L E tag
  | .str, L, E, tag => leafWf .str L E tag
  | .bytes, L, E, tag => leafWf .bytes L E tag
  | .dateTime, L, E, tag => leafWf .dateTime L E tag
termination_by structural t => t
/-- positional fields first, each self-delimiting unless it is the very last field; then tagged fields with
pairwise distinct numbers, none of which takes everything. -/
def fieldsWf : List Field → Bool
  | [] => true
  | .mk _ tag L E ty :: fs =>
    Ty.wf ty L E tag && fieldsWf fs &&
    (match tag with
     | none => (Ty.follow ty L E none == .any) || fs.isEmpty
     | some t => fs.all (fun f => f.tag.isSome && f.tag != some t) && (Ty.follow ty L E tag != .endOnly))
termination_by structural fs => fs
end

mutual
/-- **Canonical values** (DESIGN.md §5.1), by recursion on the schema. -/
def Ty.canon : Ty → LenKind → Enc → Option Nat → Val → Prop
  | .opt t, L, E, tag, v =>
    match v with
    | .none => True        -- for a positional field: only in front of bytes its decoder fails on (`fieldsCanon`)
    | .some v' => Ty.canon t L E tag v'
    | _ => False
  | .vec t, L, E, tag, v =>
    match v with
    | .vec vs => ∀ v' ∈ vs, Ty.canon t L E tag v'
    | _ => False
  | .struct fs, L, _, _, v =>
    match v with
    | .struct vs => fieldsCanon fs vs ∧ ∀ p, encFields fs vs = .ok p → LenOK L p.length
    | _ => False
  | .int w, L, E, _, v => leafCanon L E (.int w) v
  | .str, L, E, _, v => leafCanon L E .str v
  | .bytes, L, E, _, v => leafCanon L E .bytes v
  | .dateTime, L, E, _, v => leafCanon L E .dateTime v
termination_by structural t => t
def fieldsCanon : List Field → List Val → Prop
  | [], vs => vs = []
  | .mk _ tag L E ty :: fs, vs =>
    match vs with
    | v :: vs' =>
      Ty.canon ty L E tag v ∧ fieldsCanon fs vs' ∧
      -- an ABSENT POSITIONAL optional is canonical only if the field's own decoder reads what follows it in
      -- this very encoding as "absent" (i.e. the inner decoder fails on it) — DESIGN.md §5.1
      (tag = none → v = .none → ∀ p, encFields fs vs' = .ok p → Ty.de ty L E none p = .ok (.none, p))
    | [] => False
termination_by structural fs => fs
end

/-- the value writes bytes (an absent `Option` and an empty `Vec` write nothing). -/
def Present : Val → Prop
  | .none => False
  | .vec [] => False
  | _ => True

instance (v : Val) : Decidable (Present v) := by
  cases v with
  | none => exact isFalse (by simp [Present])
  | vec vs => cases vs with
    | nil => exact isFalse (by simp [Present])
    | cons a as => exact isTrue (by simp [Present])
  | num n => exact isTrue (by simp [Present])
  | str cs => exact isTrue (by simp [Present])
  | raw b => exact isTrue (by simp [Present])
  | dt d t => exact isTrue (by simp [Present])
  | some v => exact isTrue (by simp [Present])
  | struct vs => exact isTrue (by simp [Present])

/-- what the generic theorem says about one field. -/
structure FieldRT (t : Ty) (L : LenKind) (E : Enc) (tag : Option Nat) (v : Val) (bytes : Bytes) : Prop where
  ser : Ty.ser t L E tag v = .ok bytes
  de : Present v → ∀ x, (Ty.follow t L E tag).holds x → Ty.de t L E tag (bytes ++ x) = .ok (v, x)
  tagged : ∀ tg, tag = some tg → Present v → bytes ≠ [] ∧ ∀ x, ∃ r, tagDecDefault (bytes ++ x) = .ok (tg, r)
  absent : ¬ Present v → bytes = [] ∧ t.isOptional = true ∧ v = t.dflt

theorem follow_holds_nil (F : Follow) : F.holds [] := by
  cases F with
  | any => trivial
  | noStart t => exact noStart_nil t
  | endOnly => rfl

theorem leafCanon_present (L : LenKind) (E : Enc) (t : Ty) (v : Val) (h : leafCanon L E t v) : Present v := by
  obtain ⟨p, _, _, hm⟩ := h
  cases v with
  | none => cases E <;> cases t <;> exact False.elim hm
  | vec vs => cases E <;> cases t <;> exact False.elim hm
  | num n => simp [Present]
  | str cs => simp [Present]
  | raw b => simp [Present]
  | dt d t => simp [Present]
  | some v => simp [Present]
  | struct vs => simp [Present]

theorem leaf_fieldRT (t : Ty) (ht : IsLeafTy t) (L : LenKind) (E : Enc) (tag : Option Nat) (v : Val)
    (hfo : Ty.follow t L E tag = leafFollow t L E)
    (hwf : leafWf t L E tag = true) (hc : leafCanon L E t v) : ∃ bytes, FieldRT t L E tag v bytes := by
  obtain ⟨bytes, hs, hd, r, hb⟩ := leaf_rt t ht L E tag v hwf hc
  have hp := leafCanon_present L E t v hc
  refine ⟨bytes, ⟨hs, fun _ x hx => hd x (by rw [← hfo]; exact hx), ?_, fun h => absurd hp h⟩⟩
  intro tg htg _
  subst htg
  have hrep : tagRepresentable tg := by
    simp only [leafWf, Bool.and_eq_true] at hwf
    simpa [tagOK] using hwf.1.2
  rw [hb]
  exact tagPrefix_facts tg hrep r

end Zvt

namespace Zvt

/-! ### `Vec` fields -/

theorem serListWith_ok (f : Val → Res Bytes) : ∀ (es : List (Val × Bytes)), (∀ e ∈ es, f e.1 = .ok e.2) →
    serListWith f (es.map (·.1)) = .ok (es.flatMap (·.2)) := by
  intro es
  induction es with
  | nil => intro _; rfl
  | cons e es ih =>
    intro h
    simp only [List.map_cons, serListWith, List.flatMap_cons]
    rw [h e (by simp), ih (fun x hx => h x (by simp [hx]))]

/-- the element loop of `Vec<T>::deserialize_tagged` on the encodings of the elements followed by something
on which the element decoder fails (without panicking). -/
theorem vecLoop_elems (elem : Bytes → Res (Val × Bytes)) (x : Bytes)
    (hx : ∃ err, elem x = .error err ∧ err.isPanic = false) :
    ∀ (es : List (Val × Bytes)) (fuel : Nat) (acc : List Val),
      (∀ e ∈ es, e.2 ≠ [] ∧ ∀ y, elem (e.2 ++ y) = .ok (e.1, y)) → es.length < fuel →
      vecLoop elem fuel (es.flatMap (·.2) ++ x) acc = .ok (.vec (acc.reverse ++ es.map (·.1)), x) := by
  intro es
  induction es with
  | nil =>
    intro fuel acc _ hf
    obtain ⟨err, he, hp⟩ := hx
    cases fuel with
    | zero => omega
    | succ f => simp [vecLoop, he, hp]
  | cons e es ih =>
    intro fuel acc h hf
    cases fuel with
    | zero => omega
    | succ f =>
      obtain ⟨hne, hd⟩ := h e (by simp)
      simp only [List.flatMap_cons, List.append_assoc, vecLoop, hd]
      have hprog : ¬ ((es.flatMap (·.2) ++ x).length = (e.2 ++ (es.flatMap (·.2) ++ x)).length) := by
        cases hb : e.2 with
        | nil => exact absurd hb hne
        | cons a as => simp; omega
      simp only [hprog, if_false]
      rw [ih f (e.1 :: acc) (fun y hy => h y (by simp [hy])) (by simp at hf; omega)]
      simp

/-- an element decoder with tag `tg` fails (no panic) on input that does not begin with `tg`. -/
theorem plain_de_noStart (t : Ty) (hp : t.plain = true) (L : LenKind) (E : Enc) (tg : Nat) (x : Bytes) (hx : NoStart tg x) :
    ∃ err, Ty.de t L E (some tg) x = .error err ∧ err.isPanic = false := by
  have key : ∀ {α : Type} (dec : Bytes → Res (α × Bytes)),
      ∃ err, deserTagged tagDecDefault L dec (some tg) x = .error err ∧ err.isPanic = false := by
    intro α dec
    unfold deserTagged stripTag
    cases htd : tagDecDefault x with
    | error e =>
      refine ⟨e, rfl, ?_⟩
      have := tagDecDefault_no_panic x
      rw [htd] at this
      simpa [Res.isPanic] using this
    | ok p =>
      obtain ⟨a, r⟩ := p
      have hne : a ≠ tg := by
        intro h; subst h; exact hx r htd
      simp only [hne, ne_eq, not_false_eq_true, if_true]
      exact ⟨.wrongTag a, rfl, rfl⟩
  cases t with
  | int w => simp only [Ty.de]; exact key _
  | str => simp only [Ty.de]; exact key _
  | bytes => simp only [Ty.de]; exact key _
  | dateTime => simp only [Ty.de]; exact key _
  | struct fs => simp only [Ty.de]; exact key _
  | opt t => simp [Ty.plain] at hp
  | vec t => simp [Ty.plain] at hp

/-! ### a trailing field that takes everything -/

/-- positional field that is read back at the end of the container. -/
def PF.OKe (p : PF) : Prop :=
  p.f.tag = none ∧ Ty.ser p.f.ty p.f.len p.f.enc none p.v = .ok p.bytes ∧
  Ty.de p.f.ty p.f.len p.f.enc none p.bytes = .ok (p.v, [])

/-- **Struct with a trailing greedy field**: positional fields (each read back in front of what follows it here)
followed by one last positional field that takes all there is. -/
theorem struct_payload_roundtrip_greedy (ps : List PF) (g : PF) (hps : PosOn ps g.bytes) (hg : g.OKe) :
    encFields (ps.map (·.f) ++ [g.f]) (ps.map (·.v) ++ [g.v]) = .ok (ps.flatMap (·.bytes) ++ g.bytes) ∧
    decStruct (ps.map (·.f) ++ [g.f]) (ps.flatMap (·.bytes) ++ g.bytes) = .ok (.struct (ps.map (·.v) ++ [g.v]), []) := by
  have hps0 := posOn_ok0 ps _ hps
  constructor
  · apply encFields_pos ps _ _ _ hps0
    rw [field_eta g.f]
    simp only [encFields]
    have := hg.2.1
    rw [hg.1]
    simp only [Field.ty, Field.len, Field.enc] at this ⊢
    rw [this]; simp
  · unfold decStruct decStructWith
    have hpos : decPos (ps.map (·.f) ++ [g.f]) (ps.flatMap (·.bytes) ++ g.bytes) = .ok (ps.map (·.v) ++ [g.v], []) := by
      rw [decPos_on ps [g.f] g.bytes hps]
      rw [field_eta g.f, hg.1]
      simp only [decPos]
      have := hg.2.2
      simp only [Field.ty, Field.len, Field.enc] at this ⊢
      rw [this]
    simp only [hpos]
    have hloop : ∀ arm, tagLoop arm (([] : Bytes).length + 2) (([] : Bytes).length + 1) [] [] [] = .ok ([], [], []) := by
      intro arm; simp [tagLoop]
    rw [hloop]
    simp only
    have hreq : requiredTags (ps.map (·.f) ++ [g.f]) = [] := by
      apply List.eq_nil_iff_forall_not_mem.mpr
      intro t ht
      obtain ⟨f, hf, _, htag⟩ := (mem_requiredTags _ t).mp ht
      simp only [List.mem_append, List.mem_map, List.mem_singleton] at hf
      rcases hf with ⟨p, hp, rfl⟩ | rfl
      · rw [(hps0 p hp).1] at htag; cases htag
      · rw [hg.1] at htag; cases htag
    have hasm := assemble_pos ps [g.f] [g.v] [] 0 hps0
    have hlast : assemble [g.f] [g.v] [] (0 + ps.length) = [g.v] := by
      simp only [assemble, hg.1]
    rw [hlast] at hasm
    simp [hreq, sortDedup, hasm]

end Zvt

namespace Zvt

/-! ### decomposition of a field list into positional prefix, trailing greedy field, tagged fields -/

structure Decomp where
  ps : List PF
  g : Option PF
  qs : List TF

def Decomp.gl (D : Decomp) : List PF :=
  match D.g with
  | none => []
  | some p => [p]

def Decomp.fields (D : Decomp) : List Field := D.ps.map (·.f) ++ (D.gl.map (·.f) ++ D.qs.map (·.f))
def Decomp.vals (D : Decomp) : List Val := D.ps.map (·.v) ++ (D.gl.map (·.v) ++ D.qs.map (·.v))
def Decomp.bytes (D : Decomp) : Bytes := D.ps.flatMap (·.bytes) ++ (D.gl.flatMap (·.bytes) ++ D.qs.flatMap (·.bytes))

/-- what follows the positional prefix inside the struct body. -/
def Decomp.tail (D : Decomp) : Bytes := D.gl.flatMap (·.bytes) ++ D.qs.flatMap (·.bytes)

structure Decomp.OK (D : Decomp) : Prop where
  ps : PosOn D.ps D.tail
  g : ∀ p ∈ D.gl, p.OKe
  gq : D.g ≠ none → D.qs = []
  qs : ∀ q ∈ D.qs, q.OK
  nd : (D.qs.map (·.t)).Nodup

/-- **The struct body**, from a decomposition: `encode` writes the concatenation, `decode` reads it back with
nothing left; and a struct of positional fields only, each decoding whatever follows it, hands back whatever
follows the struct. -/
theorem decomp_rt (D : Decomp) (h : D.OK) :
    encFields D.fields D.vals = .ok D.bytes ∧ decStruct D.fields D.bytes = .ok (.struct D.vals, []) ∧
    (D.g = none → D.qs = [] → (∀ p ∈ D.ps, p.OK) → ∀ x, decStruct D.fields (D.bytes ++ x) = .ok (.struct D.vals, x)) := by
  obtain ⟨ps, g, qs⟩ := D
  cases g with
  | none =>
    have hps : PosOn ps (qs.flatMap (·.bytes)) := by simpa [Decomp.tail, Decomp.gl] using h.ps
    simp only [Decomp.fields, Decomp.vals, Decomp.bytes, Decomp.gl, List.map_nil, List.flatMap_nil, List.nil_append]
    obtain ⟨h1, h2⟩ := struct_payload_roundtrip_at ps qs hps h.qs h.nd
    refine ⟨h1, h2, ?_⟩
    intro _ hq hall x
    have hq' : qs = [] := hq
    subst hq'
    simpa using struct_positional_suffix ps hall x
  | some p =>
    have hq : qs = [] := h.gq (by simp)
    subst hq
    have hps : PosOn ps p.bytes := by simpa [Decomp.tail, Decomp.gl] using h.ps
    simp only [Decomp.fields, Decomp.vals, Decomp.bytes, Decomp.gl, List.map_cons, List.map_nil, List.flatMap_cons,
      List.flatMap_nil, List.append_nil]
    obtain ⟨h1, h2⟩ := struct_payload_roundtrip_greedy ps p hps (h.g p (by simp [Decomp.gl]))
    exact ⟨h1, h2, fun hn => by simp at hn⟩

theorem allTagged_decomp (D : Decomp) (h : D.OK) (ht : ∀ f ∈ D.fields, f.tag.isSome = true) : D.ps = [] ∧ D.g = none := by
  obtain ⟨ps, g, qs⟩ := D
  constructor
  · cases ps with
    | nil => rfl
    | cons p ps =>
      have := ht p.f (by simp [Decomp.fields])
      rw [(posOn_ok0 _ _ h.ps p (by simp)).1] at this
      simp at this
  · cases g with
    | none => rfl
    | some p =>
      have := ht p.f (by simp [Decomp.fields, Decomp.gl])
      rw [(h.g p (by simp [Decomp.gl])).1] at this
      simp at this

theorem follow_noStart : ∀ (ty : Ty) (L : LenKind) (E : Enc) (t t' : Nat), Ty.follow ty L E (some t) = .noStart t' → t' = t
  | .opt ty, L, E, t, t', h => by
    simp only [Ty.follow] at h
    exact follow_noStart ty L E t t' h
  | .vec _, _, _, t, t', h => by
    simp only [Ty.follow] at h
    cases h; rfl
  | .struct fs, L, _, t, t', h => by
    simp only [Ty.follow] at h
    split at h
    · cases h
    · split at h <;> cases h
  | .int w, L, E, t, t', h => by
    simp only [Ty.follow, leafFollow] at h
    split at h
    · cases h
    · split at h <;> cases h
  | .str, L, E, t, t', h => by
    simp only [Ty.follow, leafFollow] at h
    split at h
    · cases h
    · split at h <;> cases h
  | .bytes, L, E, t, t', h => by
    simp only [Ty.follow, leafFollow] at h
    split at h
    · cases h
    · split at h <;> cases h
  | .dateTime, L, E, t, t', h => by
    simp only [Ty.follow, leafFollow] at h
    split at h
    · cases h
    · split at h <;> cases h

/-- canonical values of types that are neither `Option` nor `Vec` always write bytes. -/
theorem plain_canon_present (t : Ty) (hp : t.plain = true) (L : LenKind) (E : Enc) (tag : Option Nat) (v : Val)
    (hc : Ty.canon t L E tag v) : Present v := by
  cases t with
  | int w => simp only [Ty.canon] at hc; exact leafCanon_present _ _ _ _ hc
  | str => simp only [Ty.canon] at hc; exact leafCanon_present _ _ _ _ hc
  | bytes => simp only [Ty.canon] at hc; exact leafCanon_present _ _ _ _ hc
  | dateTime => simp only [Ty.canon] at hc; exact leafCanon_present _ _ _ _ hc
  | struct fs =>
    simp only [Ty.canon] at hc
    cases v <;> simp only [] at hc <;> first | exact False.elim hc | simp [Present]
  | opt t => simp [Ty.plain] at hp
  | vec t => simp [Ty.plain] at hp

end Zvt

namespace Zvt

/-! ### the generic theorem -/

theorem length_le_flatMap (es : List (Val × Bytes)) (h : ∀ e ∈ es, e.2 ≠ []) : es.length ≤ (es.flatMap (·.2)).length := by
  induction es with
  | nil => simp
  | cons e es ih =>
    have := ih (fun x hx => h x (by simp [hx]))
    have hne := h e (by simp)
    rw [List.flatMap_cons, List.length_append, List.length_cons]
    have : 1 ≤ e.2.length := by
      cases hb : e.2 with
      | nil => exact absurd hb hne
      | cons a as => simp
    omega

/-- a nested struct as a field, from the round trip of its body. -/
theorem struct_field_of_payload (fs : List Field) (vs : List Val) (p : Bytes)
    (henc : encFields fs vs = .ok p) (hdec : decStruct fs p = .ok (.struct vs, []))
    (hsuf : fieldsTransparent fs = true → ∀ x, decStruct fs (p ++ x) = .ok (.struct vs, x))
    (L : LenKind) (E : Enc) (tag : Option Nat) (htg : tagOK tag = true) (hL : structLenOK L = true)
    (hlen : LenOK L p.length) : ∃ bytes, FieldRT (.struct fs) L E tag (.struct vs) bytes := by
  have htag : ∀ t, tag = some t → tagRepresentable t := by
    intro t h; subst h; simpa [tagOK] using htg
  have htagged : ∀ (bytes r : Bytes), bytes = tagPrefix tagEncDefault tag ++ r →
      ∀ tg, tag = some tg → Present (.struct vs) → bytes ≠ [] ∧ ∀ x, ∃ r', tagDecDefault (bytes ++ x) = .ok (tg, r') := by
    intro bytes r hb tg h _
    subst h; rw [hb]; exact tagPrefix_facts tg (htag tg rfl) r
  have hdelim : ∀ (L : LenKind), L.delim = true → (∀ N, L ≠ .fixed N) → LenOK L p.length →
      ∃ bytes, FieldRT (.struct fs) L E tag (.struct vs) bytes := by
    intro L hd hnf hlen
    have hfit := lenOK_delim L p.length hd hlen
    have hseen : seenPayload L p = p := by
      cases L <;> simp only [seenPayload]
      rename_i N; exact absurd rfl (hnf N)
    obtain ⟨bytes, hs, _, pre, _, hb⟩ := deserTagged_serTagged L tag htag p [] hfit (fun q => decStruct fs q) (.struct vs)
      (by rw [hseen]; exact hdec)
    refine ⟨bytes, ⟨by simp only [Ty.ser, henc]; exact hs, ?_, htagged bytes _ hb, fun h => absurd (by simp [Present]) h⟩⟩
    intro _ x _
    obtain ⟨bytes', hs', hd', _⟩ := deserTagged_serTagged L tag htag p x hfit (fun q => decStruct fs q) (.struct vs)
      (by rw [hseen]; exact hdec)
    rw [hs] at hs'
    have : bytes = bytes' := Except.ok.inj hs'
    rw [this]; simp only [Ty.de]; exact hd'
  cases L with
  | tlv => exact hdelim .tlv rfl (by intro N h; cases h) hlen
  | llv k => exact hdelim (.llv k) rfl (by intro N h; cases h) hlen
  | empty =>
    by_cases htr : fieldsTransparent fs = true
    · obtain ⟨bytes, hs, _, hb⟩ := deserTagged_serTagged_empty tag htag p [] (fun q => decStruct fs q) (.struct vs)
        (by simpa using hdec)
      refine ⟨bytes, ⟨by simp only [Ty.ser, henc]; exact hs, ?_, htagged bytes _ hb, fun h => absurd (by simp [Present]) h⟩⟩
      intro _ x _
      obtain ⟨bytes', hs', hd', _⟩ := deserTagged_serTagged_empty tag htag p x (fun q => decStruct fs q) (.struct vs) (hsuf htr x)
      rw [hs] at hs'
      have : bytes = bytes' := Except.ok.inj hs'
      rw [this]; simp only [Ty.de]; exact hd'
    · obtain ⟨bytes, hs, hd, hb⟩ := deserTagged_serTagged_end .empty (Or.inl rfl) tag htag p trivial (fun q => decStruct fs q) (.struct vs) hdec
      refine ⟨bytes, ⟨by simp only [Ty.ser, henc]; exact hs, ?_, htagged bytes _ hb, fun h => absurd (by simp [Present]) h⟩⟩
      intro _ x hx
      have hf : Ty.follow (.struct fs) .empty E tag = .endOnly := by simp [Ty.follow, LenKind.delim, htr]
      rw [hf] at hx
      simp only [Follow.holds] at hx
      subst hx
      simp only [Ty.de]; exact hd
  | fixed N => simp [structLenOK] at hL
  | adpu => simp [structLenOK] at hL
  | temperature => simp [structLenOK] at hL
  | unknown s => simp [structLenOK] at hL

/-- a canonical positional value that writes nothing is an absent `Option`. -/
theorem absent_pos_is_none (ty : Ty) (L : LenKind) (E : Enc) (v : Val) (hwf : Ty.wf ty L E none = true)
    (hc : Ty.canon ty L E none v) (hp : ¬ Present v) : v = .none := by
  cases v with
  | none => rfl
  | vec vs =>
    cases ty with
    | vec t => simp [Ty.wf] at hwf
    | opt t => simp only [Ty.canon] at hc
    | int w => exact absurd (leafCanon_present _ _ _ _ (by simpa only [Ty.canon] using hc)) hp
    | str => exact absurd (leafCanon_present _ _ _ _ (by simpa only [Ty.canon] using hc)) hp
    | bytes => exact absurd (leafCanon_present _ _ _ _ (by simpa only [Ty.canon] using hc)) hp
    | dateTime => exact absurd (leafCanon_present _ _ _ _ (by simpa only [Ty.canon] using hc)) hp
    | struct fs => simp only [Ty.canon] at hc
  | num n => exact absurd (by simp [Present]) hp
  | str cs => exact absurd (by simp [Present]) hp
  | raw b => exact absurd (by simp [Present]) hp
  | dt d t => exact absurd (by simp [Present]) hp
  | some v => exact absurd (by simp [Present]) hp
  | struct vs => exact absurd (by simp [Present]) hp

/-- every positional field holds a value that writes bytes (no absent positional optional). -/
def posPresent : List Field → List Val → Prop
  | [], _ => True
  | _ :: _, [] => True
  | .mk _ tag _ _ _ :: fs, v :: vs => (tag = none → Present v) ∧ posPresent fs vs

mutual
/-- **Every field of every well-formed schema round-trips on its canonical values.** -/
theorem Ty.rt : ∀ (t : Ty) (L : LenKind) (E : Enc) (tag : Option Nat) (v : Val),
    Ty.wf t L E tag = true → Ty.canon t L E tag v → ∃ bytes, FieldRT t L E tag v bytes
  | .int w, L, E, tag, v, hwf, hc => by
    simp only [Ty.wf] at hwf; simp only [Ty.canon] at hc
    exact leaf_fieldRT (.int w) trivial L E tag v (by simp only [Ty.follow]) hwf hc
  | .str, L, E, tag, v, hwf, hc => by
    simp only [Ty.wf] at hwf; simp only [Ty.canon] at hc
    exact leaf_fieldRT .str trivial L E tag v (by simp only [Ty.follow]) hwf hc
  | .bytes, L, E, tag, v, hwf, hc => by
    simp only [Ty.wf] at hwf; simp only [Ty.canon] at hc
    exact leaf_fieldRT .bytes trivial L E tag v (by simp only [Ty.follow]) hwf hc
  | .dateTime, L, E, tag, v, hwf, hc => by
    simp only [Ty.wf] at hwf; simp only [Ty.canon] at hc
    exact leaf_fieldRT .dateTime trivial L E tag v (by simp only [Ty.follow]) hwf hc
  | .opt t, L, E, tag, v, hwf, hc => by
    simp only [Ty.wf, Bool.and_eq_true] at hwf
    obtain ⟨hpl, hwf'⟩ := hwf
    simp only [Ty.canon] at hc
    cases v <;> simp only [] at hc <;> try (exact False.elim hc)
    · -- none
      exact ⟨[], ⟨by simp [Ty.ser], fun h => absurd h (by simp [Present]), fun _ _ h => absurd h (by simp [Present]),
        fun _ => ⟨rfl, rfl, rfl⟩⟩⟩
    · -- some
      rename_i v'
      obtain ⟨bytes, hrt⟩ := Ty.rt t L E tag v' hwf' hc
      have hp' := plain_canon_present t hpl L E tag v' hc
      refine ⟨bytes, ⟨by simp only [Ty.ser]; exact hrt.ser, ?_, fun tg htg _ => hrt.tagged tg htg hp',
        fun h => absurd (by simp [Present]) h⟩⟩
      intro _ x hx
      simp only [Ty.follow] at hx
      have := hrt.de hp' x hx
      cases tag with
      | some tg => simp only [Ty.de, this]
      | none => simp only [Ty.de, this]
  | .vec t, L, E, tag, v, hwf, hc => by
    simp only [Ty.wf, Bool.and_eq_true] at hwf
    obtain ⟨⟨⟨htg, hpl⟩, hwf'⟩, hfo⟩ := hwf
    have hfo' : Ty.follow t L E tag = .any := by simpa using hfo
    obtain ⟨tg, rfl⟩ : ∃ tg, tag = some tg := by
      cases tag with
      | none => simp at htg
      | some tg => exact ⟨tg, rfl⟩
    simp only [Ty.canon] at hc
    cases v <;> simp only [] at hc <;> try (exact False.elim hc)
    rename_i vs
    have helems : ∃ es : List (Val × Bytes), es.map (·.1) = vs ∧ ∀ e ∈ es, FieldRT t L E (some tg) e.1 e.2 := by
      induction vs with
      | nil => exact ⟨[], rfl, by simp⟩
      | cons a as ih =>
        obtain ⟨es, hm, he⟩ := ih (fun v' hv' => hc v' (by simp [hv']))
        obtain ⟨b, hb⟩ := Ty.rt t L E (some tg) a hwf' (hc a (by simp))
        refine ⟨(a, b) :: es, by simp [hm], ?_⟩
        intro e he'
        simp only [List.mem_cons] at he'
        rcases he' with rfl | h
        · exact hb
        · exact he e h
    obtain ⟨es, rfl, hes⟩ := helems
    have hpres : ∀ e ∈ es, Present e.1 := fun e he =>
      plain_canon_present t hpl L E (some tg) e.1 (hc e.1 (List.mem_map_of_mem he))
    have hne : ∀ e ∈ es, e.2 ≠ [] := fun e he => ((hes e he).tagged tg rfl (hpres e he)).1
    refine ⟨es.flatMap (·.2), ⟨?_, ?_, ?_, ?_⟩⟩
    · simp only [Ty.ser]; exact serListWith_ok _ es (fun e he => (hes e he).ser)
    · intro _ x hx
      simp only [Ty.follow] at hx
      have hx' : NoStart tg x := hx
      simp only [Ty.de]
      have := vecLoop_elems (fun y => Ty.de t L E (some tg) y) x (plain_de_noStart t hpl L E tg x hx') es
        ((es.flatMap (·.2) ++ x).length + 1) []
        (fun e he => ⟨hne e he, fun y => (hes e he).de (hpres e he) y (by rw [hfo']; trivial)⟩)
        (by have := length_le_flatMap es hne; simp only [List.length_append]; omega)
      simpa using this
    · intro tg' htg' hp
      cases htg'
      cases es with
      | nil => simp [Present] at hp
      | cons e es' =>
        obtain ⟨h1, h2⟩ := (hes e (by simp)).tagged tg rfl (hpres e (by simp))
        constructor
        · simp only [List.flatMap_cons]
          cases hb : e.2 with
          | nil => exact absurd hb h1
          | cons a as => simp
        · intro x
          simp only [List.flatMap_cons, List.append_assoc]
          exact h2 _
    · intro hp
      cases es with
      | nil => exact ⟨rfl, rfl, rfl⟩
      | cons e es' => exact absurd (by simp [Present]) hp
  | .struct fs, L, E, tag, v, hwf, hc => by
    simp only [Ty.wf, Bool.and_eq_true] at hwf
    obtain ⟨⟨htg, hL⟩, hfw⟩ := hwf
    simp only [Ty.canon] at hc
    cases v <;> simp only [] at hc <;> try (exact False.elim hc)
    rename_i vs
    obtain ⟨hfc, hlen⟩ := hc
    obtain ⟨D, hD, hDf, hDv, hDt, _⟩ := fields_rt fs vs hfw hfc
    obtain ⟨henc, hdec, hsuf⟩ := decomp_rt D hD
    rw [hDf, hDv] at henc hdec hsuf
    exact struct_field_of_payload fs vs D.bytes henc hdec
      (fun htr x => hsuf (hDt htr).1 (hDt htr).2.1 (hDt htr).2.2 x) L E tag htg hL (hlen D.bytes henc)
/-- **Every well-formed field list splits** into positional fields (each read back in front of what follows it
in this encoding), at most one trailing field that takes everything, and tagged fields with distinct numbers —
each of them round-tripping. -/
theorem fields_rt : ∀ (fs : List Field) (vs : List Val), fieldsWf fs = true → fieldsCanon fs vs →
    ∃ D : Decomp, D.OK ∧ D.fields = fs ∧ D.vals = vs ∧
      (fieldsTransparent fs = true → D.g = none ∧ D.qs = [] ∧ ∀ p ∈ D.ps, p.OK) ∧
      (posPresent fs vs → ∀ p ∈ D.ps, p.OK)
  | [], vs, _, hc => by
    simp only [fieldsCanon] at hc; subst hc
    exact ⟨⟨[], none, []⟩, ⟨trivial, by simp [Decomp.gl], fun _ => rfl, by simp, by simp⟩, rfl, rfl,
      fun _ => ⟨rfl, rfl, by simp⟩, fun _ => by simp⟩
  | .mk name tag L E ty :: fs, vs, hwf, hc => by
    simp only [fieldsWf, Bool.and_eq_true] at hwf
    obtain ⟨⟨hty, hfs⟩, hcond⟩ := hwf
    simp only [fieldsCanon] at hc
    cases vs with
    | nil => exact False.elim hc
    | cons v vs' =>
      simp only at hc
      obtain ⟨hcv, hcf, habs⟩ := hc
      obtain ⟨bytes, hrt⟩ := Ty.rt ty L E tag v hty hcv
      obtain ⟨D', hD', hf', hv', ht', hpp'⟩ := fields_rt fs vs' hfs hcf
      cases tag with
      | none =>
        simp only [Bool.or_eq_true, beq_iff_eq] at hcond
        by_cases hpres : Present v
        · by_cases hany : Ty.follow ty L E none = .any
          · have hpok : PF.OK ⟨.mk name none L E ty, v, bytes⟩ :=
              ⟨rfl, hrt.ser, fun x => hrt.de hpres x (by rw [hany]; trivial)⟩
            refine ⟨⟨⟨.mk name none L E ty, v, bytes⟩ :: D'.ps, D'.g, D'.qs⟩, ⟨?_, hD'.g, hD'.gq, hD'.qs, hD'.nd⟩, ?_, ?_, ?_, ?_⟩
            · exact ⟨hpok.ok0, hpok.2.2 _, hD'.ps⟩
            · rw [← hf']; rfl
            · rw [← hv']; rfl
            · intro htr
              simp only [fieldsTransparent, Bool.and_eq_true] at htr
              obtain ⟨h1, h2, h3⟩ := ht' htr.2
              refine ⟨h1, h2, ?_⟩
              intro p hp
              simp only [List.mem_cons] at hp
              rcases hp with rfl | hp
              · exact hpok
              · exact h3 p hp
            · intro hpp
              simp only [posPresent] at hpp
              intro p hp
              simp only [List.mem_cons] at hp
              rcases hp with rfl | hp
              · exact hpok
              · exact hpp' hpp.2 p hp
          · have hfs0 : fs = [] := by
              rcases hcond with h | h
              · exact absurd h hany
              · simpa using h
            subst hfs0
            simp only [fieldsCanon] at hcf
            subst hcf
            refine ⟨⟨[], some ⟨.mk name none L E ty, v, bytes⟩, []⟩, ⟨trivial, ?_, fun _ => rfl, by simp, by simp⟩, rfl, rfl, ?_, fun _ => by simp⟩
            · intro p hp
              simp only [Decomp.gl, List.mem_singleton] at hp
              subst hp
              have := hrt.de hpres [] (follow_holds_nil _)
              rw [List.append_nil] at this
              exact ⟨rfl, hrt.ser, this⟩
            · intro htr
              simp only [fieldsTransparent, Bool.and_eq_true, beq_iff_eq] at htr
              exact absurd htr.1.1.2 hany
        · -- an absent positional optional: nothing is written, and in front of what follows here it is read as absent
          have hvn : v = .none := absent_pos_is_none ty L E v hty hcv hpres
          obtain ⟨hb, _, _⟩ := hrt.absent hpres
          subst hb
          obtain ⟨henc', _, _⟩ := decomp_rt D' hD'
          rw [hf', hv'] at henc'
          have hde := habs rfl hvn D'.bytes henc'
          refine ⟨⟨⟨.mk name none L E ty, v, []⟩ :: D'.ps, D'.g, D'.qs⟩, ⟨?_, hD'.g, hD'.gq, hD'.qs, hD'.nd⟩, ?_, ?_, ?_, ?_⟩
          · refine ⟨⟨rfl, hrt.ser⟩, ?_, hD'.ps⟩
            simp only [Field.ty, Field.len, Field.enc, List.nil_append]
            rw [hvn]
            exact hde
          · rw [← hf']; rfl
          · rw [← hv']; rfl
          · intro htr
            simp only [fieldsTransparent, Bool.and_eq_true] at htr
            -- a transparent struct has no optional fields: its value would be present
            exfalso
            have hpl := htr.1.2
            cases ty with
            | opt t => simp [Ty.plain] at hpl
            | vec t => simp [Ty.plain] at hpl
            | int w => subst hvn; simp only [Ty.canon] at hcv; exact hpres (leafCanon_present _ _ _ _ hcv)
            | str => subst hvn; simp only [Ty.canon] at hcv; exact hpres (leafCanon_present _ _ _ _ hcv)
            | bytes => subst hvn; simp only [Ty.canon] at hcv; exact hpres (leafCanon_present _ _ _ _ hcv)
            | dateTime => subst hvn; simp only [Ty.canon] at hcv; exact hpres (leafCanon_present _ _ _ _ hcv)
            | struct fs' => subst hvn; simp only [Ty.canon] at hcv
          · intro hpp
            simp only [posPresent] at hpp
            exact absurd (hpp.1 trivial) hpres
      | some t =>
        simp only [Bool.and_eq_true, List.all_eq_true, bne_iff_ne, ne_eq] at hcond
        obtain ⟨hall, hne⟩ := hcond
        obtain ⟨hps0, hg0⟩ := allTagged_decomp D' hD' (by rw [hf']; intro f hf; exact (hall f hf).1)
        have hfsq : fs = D'.qs.map (·.f) := by
          rw [← hf']; simp [Decomp.fields, Decomp.gl, hps0, hg0]
        have hvsq : vs' = D'.qs.map (·.v) := by
          rw [← hv']; simp [Decomp.vals, Decomp.gl, hps0, hg0]
        let q : TF := { f := .mk name (some t) L E ty, t := t, v := v, bytes := bytes,
                        present := decide (Present v), strict := decide (Ty.follow ty L E (some t) = .any) }
        have hq : q.OK := by
          refine ⟨rfl, hrt.ser, ?_⟩
          by_cases hp : Present v
          · have hpd : q.present = true := by simp [q, hp]
            simp only [hpd, if_true]
            obtain ⟨h1, h2⟩ := hrt.tagged t rfl hp
            refine ⟨h1, h2, ?_⟩
            intro x hx
            apply hrt.de hp x
            cases hF : Ty.follow ty L E (some t) with
            | any => trivial
            | endOnly => exact absurd hF hne
            | noStart t' =>
              have := follow_noStart ty L E t t' hF
              subst this
              rcases hx with hx | hx
              · simp [q, hF] at hx
              · exact hx
          · have hpd : q.present = false := by simp [q, hp]
            simp only [hpd, Bool.false_eq_true, if_false]
            exact hrt.absent hp
        refine ⟨⟨[], none, q :: D'.qs⟩, ⟨trivial, by simp [Decomp.gl], fun h => absurd rfl h, ?_, ?_⟩, ?_, ?_, ?_, fun _ => by simp⟩
        · intro r hr
          simp only [List.mem_cons] at hr
          rcases hr with rfl | hr
          · exact hq
          · exact hD'.qs r hr
        · simp only [List.map_cons, List.nodup_cons]
          refine ⟨?_, hD'.nd⟩
          intro hm
          simp only [List.mem_map] at hm
          obtain ⟨r, hr, hrt'⟩ := hm
          have hrf : r.f ∈ fs := by rw [hfsq]; exact List.mem_map_of_mem hr
          have h1 := (hall r.f hrf).2
          rw [(hD'.qs r hr).1, hrt'] at h1
          exact h1 rfl
        · simp only [Decomp.fields, Decomp.gl, List.map_nil, List.nil_append, List.map_cons]
          rw [hfsq]
        · simp only [Decomp.vals, Decomp.gl, List.map_nil, List.nil_append, List.map_cons]
          rw [hvsq]
        · intro htr
          simp [fieldsTransparent] at htr
end

end Zvt

namespace Zvt

/-! ### packets -/

/-- well-formed packet type: well-formed fields, class and instruction are bytes. -/
def structWf (s : StructDef) : Bool :=
  fieldsWf s.fields &&
  (match s.ctrl with
   | none => true
   | some c => decide (c.1 < 256) && decide (c.2 < 256))

/-- **Canonical values of a packet type**: a struct value whose fields are canonical and whose body fits an APDU. -/
def StructDef.canon (s : StructDef) (v : Val) : Prop :=
  ∃ vs, v = .struct vs ∧ fieldsCanon s.fields vs ∧ ∀ p, encFields s.fields vs = .ok p → p.length ≤ 65535

theorem command_of_payload (s : StructDef) (c : Nat × Nat) (hc : s.ctrl = some c) (h0 : c.1 < 256) (h1 : c.2 < 256)
    (vs : List Val) (p : Bytes) (henc : encFields s.fields vs = .ok p)
    (hdec : decStruct s.fields p = .ok (.struct vs, [])) (hfit : p.length ≤ 65535) :
    ∃ bytes, encodeCmd s (.struct vs) = .ok bytes ∧ ∀ x, decodeCmd s (bytes ++ x) = .ok (.struct vs, x) := by
  have hstrip : ∀ rest, stripTag tagDecBE (some (ctrlTag c)) (tagPrefix tagEncBE (some (ctrlTag c)) ++ rest) = .ok rest := by
    intro rest
    simp only [stripTag, tagPrefix]
    rw [tagDecBE_tagEncBE _ (by simp only [ctrlTag]; omega) rest]
    simp
  obtain ⟨bytes, hs, _, _⟩ := deserTagged_serTagged' tagEncBE tagDecBE .adpu (some (ctrlTag c)) hstrip p []
    (show LenFits .adpu _ from hfit) (fun q => decStruct s.fields q) (.struct vs) (by simpa [seenPayload] using hdec)
  refine ⟨bytes, by simp only [encodeCmd, hc, henc]; exact hs, ?_⟩
  intro x
  obtain ⟨bytes', hs', hd', _⟩ := deserTagged_serTagged' tagEncBE tagDecBE .adpu (some (ctrlTag c)) hstrip p x
    (show LenFits .adpu _ from hfit) (fun q => decStruct s.fields q) (.struct vs) (by simpa [seenPayload] using hdec)
  rw [hs] at hs'
  have : bytes = bytes' := Except.ok.inj hs'
  rw [this]; simp only [decodeCmd, hc]; exact hd'

/-- **C01, generic**: for every well-formed packet type and every canonical value,
`zvt_deserialize (zvt_serialize v) = (v, [])`; for command types (with control field) whatever follows the
packet is handed back untouched. -/
theorem packet_roundtrip (s : StructDef) (hwf : structWf s = true) (v : Val) (hc : s.canon v) :
    ∃ bytes, encodeCmd s v = .ok bytes ∧ decodeCmd s bytes = .ok (v, []) ∧
      (s.ctrl.isSome = true → ∀ x, decodeCmd s (bytes ++ x) = .ok (v, x)) := by
  simp only [structWf, Bool.and_eq_true] at hwf
  obtain ⟨hfw, hctrl⟩ := hwf
  obtain ⟨vs, rfl, hfc, hlen⟩ := hc
  obtain ⟨D, hD, hDf, hDv, hDt, _⟩ := fields_rt s.fields vs hfw hfc
  obtain ⟨henc, hdec, hsuf⟩ := decomp_rt D hD
  rw [hDf, hDv] at henc hdec hsuf
  cases hcs : s.ctrl with
  | some c =>
    rw [hcs] at hctrl
    simp only [Bool.and_eq_true, decide_eq_true_eq] at hctrl
    obtain ⟨bytes, hs, hd⟩ := command_of_payload s c hcs hctrl.1 hctrl.2 vs D.bytes henc hdec (hlen _ henc)
    refine ⟨bytes, hs, by simpa using hd [], fun _ x => hd x⟩
  | none =>
    obtain ⟨bytes, hrt⟩ := struct_field_of_payload s.fields vs D.bytes henc hdec
      (fun htr x => hsuf (hDt htr).1 (hDt htr).2.1 (hDt htr).2.2 x) .empty .dflt none rfl rfl trivial
    refine ⟨bytes, by simp only [encodeCmd, hcs, encodePlain]; exact hrt.ser, ?_, fun h => by simp at h⟩
    have := hrt.de (by simp [Present]) [] (follow_holds_nil _)
    rw [List.append_nil] at this
    simp only [decodeCmd, hcs, decodePlain]; exact this

end Zvt
