/-
  Canon.lean — the canonical value domain of DESIGN.md §5.1 as a definition over schemas (`Ty.canon`,
  `fieldsCanon`), the Boolean well-formedness check on schemas (`Ty.wf`, `fieldsWf`) and what may follow
  an encoded field for it to be read back (`Ty.follow`); the leaf level of the generic round trip.
-/
import ZvtVerif.Proofs.StructRT
import ZvtVerif.Proofs.LeafMore
namespace Zvt

/-! ### what may follow an encoded field -/

inductive Follow where
  | any                    -- self-delimiting: whatever follows is handed back
  | noStart (t : Nat)      -- a `Vec` field with number `t`: anything that does not begin with that number
  | endOnly                -- a field that takes all there is: only the end of the enclosing container
  deriving DecidableEq

def Follow.holds : Follow → Bytes → Prop
  | .any, _ => True
  | .noStart t, x => NoStart t x
  | .endOnly, x => x = []

/-- length styles that delimit their payload inside a struct. -/
def LenKind.delim : LenKind → Bool
  | .tlv => true
  | .llv _ => true
  | .fixed _ => true
  | _ => false

def tagOK : Option Nat → Bool
  | none => true
  | some t => decide (tagRepresentable t)

/-- the (encoding, type) pairs the builder implements for non-container types. -/
def leafShape : Enc → Ty → Bool
  | .dflt, .int _ => true
  | .bigEndian, .int _ => true
  | .bcd, .int _ => true
  | .prrn, .int _ => true
  | .dflt, .str => true
  | .hex, .str => true
  | .utf8, .str => true
  | .custom, .bytes => true
  | .dflt, .dateTime => true
  | _, _ => false

/-- fixed-width integers find their own end. -/
def selfEnding : Enc → Ty → Bool
  | .dflt, .int _ => true
  | .bigEndian, .int _ => true
  | _, _ => false

def leafFollow (t : Ty) (L : LenKind) (E : Enc) : Follow :=
  if L.delim then .any
  else if L = .empty ∧ selfEnding E t = true then .any
  else .endOnly

/-- which length styles go with which leaf. -/
def leafLenOK : LenKind → Enc → Ty → Bool
  | .tlv, E, _ => E != .prrn
  | .llv _, E, _ => E != .prrn
  | .empty, E, _ => E != .prrn
  | .fixed N, .dflt, .int w => N == w
  | .fixed N, .bigEndian, .int w => N == w
  | .fixed N, .prrn, .int w => N == 2 && w == 8
  | .fixed _, .bcd, .int _ => true
  | .fixed _, _, .str => true
  | .fixed _, _, .bytes => true
  | .temperature, .dflt, .str => true
  | _, _, _ => false

def leafWf (t : Ty) (L : LenKind) (E : Enc) (tag : Option Nat) : Bool :=
  leafShape E t && tagOK tag && leafLenOK L E t

/-- the encoded length is representable in the style. -/
def LenOK : LenKind → Nat → Prop
  | .empty, _ => True
  | .temperature, n => n = 3 ∨ n = 4
  | L, n => LenFits L n

/-- **Canonical leaf values** (DESIGN.md §5.1). -/
def leafCanon (L : LenKind) (E : Enc) (t : Ty) (v : Val) : Prop :=
  ∃ p, leafEnc E t v = .ok p ∧ LenOK L p.length ∧
  match E, t, v with
  | .dflt, .int w, .num n => n < 256 ^ w
  | .bigEndian, .int w, .num n => n < 256 ^ w
  | .bcd, .int w, .num n => n < 256 ^ w
  | .prrn, .int _, .num n => n = 0xffff ∨ n ≤ 9999
  | .dflt, .str, .str cs => cs.getLast? ≠ some 0 ∧ (∀ N, L = .fixed N → p.length = N)
  | .hex, .str, .str cs => (∀ c ∈ cs, isLowerHex c = true) ∧ (∀ N, L = .fixed N → p.length = N)
  | .utf8, .str, .str cs => (∀ c ∈ cs, validScalar c) ∧ (∀ N, L = .fixed N → p.length = N)
  | .custom, .bytes, .raw b => b ≠ [] ∧ (∀ N, L = .fixed N → p.length = N)
  | .dflt, .dateTime, .dt d t => validDt d t
  | _, _, _ => False

/-! ### the leaf level -/

def IsLeafTy : Ty → Prop
  | .int _ => True
  | .str => True
  | .bytes => True
  | .dateTime => True
  | _ => False

theorem leaf_ser_eq (t : Ty) (ht : IsLeafTy t) (L : LenKind) (E : Enc) (tag : Option Nat) (v : Val)
    (hb : ∀ b, t = .bytes → v = .raw b → b ≠ []) (hv : ∀ p, leafEnc E t v = .ok p → True) (hty : t = .bytes → ∃ b, v = .raw b) :
    Ty.ser t L E tag v = serTagged tagEncDefault L tag (leafEnc E t v) := by
  cases t with
  | int w => simp only [Ty.ser]
  | str => simp only [Ty.ser]
  | dateTime => simp only [Ty.ser]
  | bytes =>
    obtain ⟨b, rfl⟩ := hty rfl
    have : b.isEmpty = false := by
      have := hb b rfl rfl
      cases b <;> simp_all
    simp only [Ty.ser, this, Bool.false_eq_true, if_false]
  | struct fs => exact absurd ht (by simp [IsLeafTy])
  | opt t => exact absurd ht (by simp [IsLeafTy])
  | vec t => exact absurd ht (by simp [IsLeafTy])

theorem leaf_de_eq (t : Ty) (ht : IsLeafTy t) (L : LenKind) (E : Enc) (tag : Option Nat) (b : Bytes) :
    Ty.de t L E tag b = deserTagged tagDecDefault L (leafDec E t) tag b := by
  cases t with
  | int w => simp only [Ty.de]
  | str => simp only [Ty.de]
  | dateTime => simp only [Ty.de]
  | bytes => simp only [Ty.de]
  | struct fs => exact absurd ht (by simp [IsLeafTy])
  | opt t => exact absurd ht (by simp [IsLeafTy])
  | vec t => exact absurd ht (by simp [IsLeafTy])

theorem tagPrefix_facts (tg : Nat) (hrep : tagRepresentable tg) (r : Bytes) :
    tagPrefix tagEncDefault (some tg) ++ r ≠ [] ∧ ∀ x, ∃ r', tagDecDefault ((tagPrefix tagEncDefault (some tg) ++ r) ++ x) = .ok (tg, r') := by
  constructor
  · simp only [tagPrefix]
    have := tagEnc_shape tg
    intro h
    have hl := congrArg List.length h
    simp only [List.length_append, List.length_nil] at hl
    split at this <;> omega
  · intro x
    simp only [tagPrefix, List.append_assoc]
    exact ⟨_, tagDec_tagEnc tg hrep _⟩

/-- without a delimiting prefix (`Empty`, `Temperature`): the value decoder sees everything up to the end. -/
theorem deserTagged_serTagged_end {α : Type} (L : LenKind) (hL : L = .empty ∨ L = .temperature)
    (tag : Option Nat) (htag : ∀ t, tag = some t → tagRepresentable t)
    (p : Bytes) (hlen : LenOK L p.length) (dec : Bytes → Res (α × Bytes)) (v : α) (hdec : dec p = .ok (v, [])) :
    ∃ bytes, serTagged tagEncDefault L tag (.ok p) = .ok bytes ∧
      deserTagged tagDecDefault L dec tag (bytes ++ []) = .ok (v, []) ∧ bytes = tagPrefix tagEncDefault tag ++ p := by
  refine ⟨tagPrefix tagEncDefault tag ++ p, ?_, ?_, rfl⟩
  · rcases hL with rfl | rfl <;> simp [serTagged, LenKind.ser]
  · unfold deserTagged
    rw [List.append_nil, stripTag_tagEnc tag htag]
    rcases hL with rfl | rfl
    · simp only [LenKind.de, gt_iff_lt, Nat.lt_irrefl, if_false, List.take_length, hdec]
      simp
    · have hl : p.length = 3 ∨ p.length = 4 := hlen
      have h1 : ¬ (p.length < 3) := by omega
      have h2 : min p.length 4 = p.length := by omega
      simp only [LenKind.de, h1, if_false, h2, gt_iff_lt, Nat.lt_irrefl, List.take_length, hdec]
      simp

theorem fixed_eq_of_lenOK {N w : Nat} (h : (N == w) = true) : N = w := by simpa using h

/-- **Leaf payload**: what the value decoder makes of the bytes it is shown is exactly the canonical value. -/
theorem leaf_seen (L : LenKind) (E : Enc) (t : Ty) (v : Val) (hwf : leafLenOK L E t = true) (hc : leafCanon L E t v) :
    ∃ p, leafEnc E t v = .ok p ∧ LenOK L p.length ∧ leafDec E t (seenPayload L p) = .ok (v, []) := by
  obtain ⟨p, henc, hlen, hm⟩ := hc
  refine ⟨p, henc, hlen, ?_⟩
  cases E <;> cases t <;> cases v <;> simp only [] at hm <;> try (exact False.elim hm)
  · -- dflt int
    rename_i w n
    refine leaf_seen_roundtrip L _ _ _ p ⟨henc, hm, ?_⟩
    intro N hN; subst hN
    exact fixed_eq_of_lenOK (by simpa [leafLenOK] using hwf)
  · -- dflt str
    exact leaf_seen_roundtrip L _ _ _ p ⟨henc, hm⟩
  · -- dflt dateTime
    rename_i d tm
    obtain ⟨p', he, hd⟩ := dt_roundtrip d tm hm
    simp only [leafEnc] at henc
    have hpp : p' = p := Except.ok.inj (by rw [he] at henc; exact henc)
    rw [← hpp]
    have hs : seenPayload L p' = p' := by
      cases L <;> simp only [seenPayload]
      simp [leafLenOK] at hwf
    rw [hs]; simp only [leafDec]; exact hd
  · -- be int
    rename_i w n
    refine leaf_seen_roundtrip L _ _ _ p ⟨henc, hm, ?_⟩
    intro N hN; subst hN
    exact fixed_eq_of_lenOK (by simpa [leafLenOK] using hwf)
  · -- bcd int
    exact leaf_seen_roundtrip L _ _ _ p ⟨henc, hm⟩
  · -- hex str
    exact leaf_seen_roundtrip L _ _ _ p ⟨henc, hm⟩
  · -- utf8 str
    rename_i cs
    simp only [leafEnc] at henc; simp at henc; subst henc
    rw [seen_eq_of_exact L _ hm.2]
    simp only [leafDec, utf8_roundtrip cs hm.1]
  · -- custom bytes
    exact leaf_seen_roundtrip L _ _ _ p ⟨henc, hm.2⟩
  · -- prrn
    rename_i w n
    refine leaf_seen_roundtrip L _ _ _ p ⟨henc, hm, ?_⟩
    cases L <;> simp [leafLenOK] at hwf
    rename_i N
    obtain ⟨h1, h2⟩ := hwf
    subst h1; subst h2; exact ⟨rfl, rfl⟩

theorem lenOK_delim (L : LenKind) (n : Nat) (hd : L.delim = true) (h : LenOK L n) : LenFits L n := by
  cases L <;> simp [LenKind.delim] at hd <;> exact h

theorem leaf_ser_canon (t : Ty) (ht : IsLeafTy t) (L : LenKind) (E : Enc) (tag : Option Nat) (v : Val)
    (hc : leafCanon L E t v) : Ty.ser t L E tag v = serTagged tagEncDefault L tag (leafEnc E t v) := by
  cases t with
  | int w => simp only [Ty.ser]
  | str => simp only [Ty.ser]
  | dateTime => simp only [Ty.ser]
  | bytes =>
    obtain ⟨p, henc, _, hm⟩ := hc
    cases E <;> cases v <;> simp only [] at hm <;> try (exact False.elim hm)
    rename_i b
    have : b.isEmpty = false := by
      have := hm.1
      cases b <;> simp_all
    simp only [Ty.ser, this, Bool.false_eq_true, if_false]
  | struct fs => exact absurd ht (by simp [IsLeafTy])
  | opt t => exact absurd ht (by simp [IsLeafTy])
  | vec t => exact absurd ht (by simp [IsLeafTy])

/-- **Leaf fields, all shapes**: tag (if any), length prefix (if any) and payload of a canonical value are
read back as exactly that value; what follows is handed back untouched whenever the field delimits itself,
and a field that takes everything is read back at the end of its container. -/
theorem leaf_rt (t : Ty) (ht : IsLeafTy t) (L : LenKind) (E : Enc) (tag : Option Nat) (v : Val)
    (hwf : leafWf t L E tag = true) (hc : leafCanon L E t v) :
    ∃ bytes, Ty.ser t L E tag v = .ok bytes ∧
      (∀ x, (leafFollow t L E).holds x → Ty.de t L E tag (bytes ++ x) = .ok (v, x)) ∧
      ∃ r, bytes = tagPrefix tagEncDefault tag ++ r := by
  simp only [leafWf, Bool.and_eq_true] at hwf
  obtain ⟨⟨hshape, htg⟩, hlenok⟩ := hwf
  have htag : ∀ tg, tag = some tg → tagRepresentable tg := by
    intro tg h; subst h; simpa [tagOK] using htg
  have hser := leaf_ser_canon t ht L E tag v hc
  obtain ⟨p, henc, hlen, hseen⟩ := leaf_seen L E t v hlenok hc
  rw [henc] at hser
  by_cases hd : L.delim = true
  · have hfit := lenOK_delim L p.length hd hlen
    obtain ⟨bytes, hs, _, pre, _, hb⟩ := deserTagged_serTagged L tag htag p [] hfit (leafDec E t) v hseen
    refine ⟨bytes, by rw [hser]; exact hs, ?_, ⟨pre ++ p, hb⟩⟩
    intro x _
    obtain ⟨bytes', hs', hd', _⟩ := deserTagged_serTagged L tag htag p x hfit (leafDec E t) v hseen
    rw [hs] at hs'
    have : bytes = bytes' := Except.ok.inj hs'
    rw [leaf_de_eq t ht, this]; exact hd'
  · by_cases hse : L = .empty ∧ selfEnding E t = true
    · obtain ⟨hL, hself⟩ := hse
      subst hL
      -- fixed-width integers
      cases E <;> cases t <;> simp [selfEnding] at hself
      · rename_i w
        obtain ⟨p', hE', hl', hm⟩ := hc
        cases v <;> simp only [] at hm <;> try (exact False.elim hm)
        rename_i n
        obtain ⟨bytes, hs, _, hb⟩ := int_field_roundtrip_empty w n false hm tag htag []
        refine ⟨bytes, by simpa using hs, ?_, ⟨_, hb⟩⟩
        intro x _
        obtain ⟨bytes', hs', hd', _⟩ := int_field_roundtrip_empty w n false hm tag htag x
        rw [hs] at hs'
        have : bytes = bytes' := Except.ok.inj hs'
        rw [this]; simpa using hd'
      · rename_i w
        obtain ⟨p', hE', hl', hm⟩ := hc
        cases v <;> simp only [] at hm <;> try (exact False.elim hm)
        rename_i n
        obtain ⟨bytes, hs, _, hb⟩ := int_field_roundtrip_empty w n true hm tag htag []
        refine ⟨bytes, by simpa using hs, ?_, ⟨_, hb⟩⟩
        intro x _
        obtain ⟨bytes', hs', hd', _⟩ := int_field_roundtrip_empty w n true hm tag htag x
        rw [hs] at hs'
        have : bytes = bytes' := Except.ok.inj hs'
        rw [this]; simpa using hd'
    · have hL : L = .empty ∨ L = .temperature := by
        cases L <;> simp [LenKind.delim] at hd <;> simp [leafLenOK] at hlenok <;> simp
      have hsp : seenPayload L p = p := by rcases hL with rfl | rfl <;> rfl
      rw [hsp] at hseen
      obtain ⟨bytes, hs, hde, hb⟩ := deserTagged_serTagged_end L hL tag htag p hlen (leafDec E t) v hseen
      refine ⟨bytes, by rw [hser]; exact hs, ?_, ⟨p, hb⟩⟩
      intro x hx
      have hf : leafFollow t L E = .endOnly := by simp [leafFollow, hd, hse]
      rw [hf] at hx
      simp only [Follow.holds] at hx
      subst hx
      rw [leaf_de_eq t ht]; exact hde

end Zvt

namespace Zvt

/-! ### schemas: what may follow a field, well-formedness, canonical values -/

mutual
/-- what may follow the encoding of a field of this shape for the decoder to read it back. -/
def Ty.follow : Ty → LenKind → Enc → Option Nat → Follow
  | .opt t, L, E, tag => Ty.follow t L E tag
  | .vec _, _, _, tag =>
    match tag with
    | some tg => .noStart tg
    | none => .endOnly
  | .struct fs, L, _, _ => if L.delim then .any else if fieldsTransparent fs then .any else .endOnly
  | .int w, L, E, _ => leafFollow (.int w) L E
  | .str, L, E, _ => leafFollow .str L E
  | .bytes, L, E, _ => leafFollow .bytes L E
  | .dateTime, L, E, _ => leafFollow .dateTime L E
termination_by structural t => t
/-- a struct that can stand without a length prefix: only positional, self-delimiting fields. -/
def fieldsTransparent : List Field → Bool
  | [] => true
  | .mk _ tag L E ty :: fs => tag.isNone && (Ty.follow ty L E none == .any) && fieldsTransparent fs
termination_by structural fs => fs
end

/-- not `Option`/`Vec` (what may stand inside an `Option` or a `Vec`). -/
def Ty.plain : Ty → Bool
  | .opt _ => false
  | .vec _ => false
  | _ => true

def structLenOK : LenKind → Bool
  | .tlv => true
  | .llv _ => true
  | .empty => true
  | _ => false

mutual
/-- **Well-formed field shapes** (Boolean, evaluated by the kernel on the shipped schema). -/
def Ty.wf : Ty → LenKind → Enc → Option Nat → Bool
  | .opt t, L, E, tag => t.plain && Ty.wf t L E tag
  | .vec t, L, E, tag => tag.isSome && t.plain && Ty.wf t L E tag && (Ty.follow t L E tag == .any)
  | .struct fs, L, _, tag => tagOK tag && structLenOK L && fieldsWf fs
  | .int w, L, E, tag => leafWf (.int w) L E tag
  | .str, L, E, tag => leafWf .str L E tag
  | .bytes, L, E, tag => leafWf .bytes L E tag
  | .dateTime, L, E, tag => leafWf .dateTime L E tag
termination_by structural t => t
/-- positional fields first, each self-delimiting unless it is the very last field; then tagged fields with
pairwise distinct numbers, none of which takes everything. -/
def fieldsWf : List Field → Bool
  | [] => true
  | .mk _ tag L E ty :: fs =>
    Ty.wf ty L E tag && fieldsWf fs &&
    (match tag with
     | none => (Ty.follow ty L E none == .any) || fs.isEmpty
     | some t => fs.all (fun f => f.tag.isSome && f.tag != some t) && (Ty.follow ty L E tag != .endOnly))
termination_by structural fs => fs
end

mutual
/-- **Canonical values** (DESIGN.md §5.1), by recursion on the schema. -/
def Ty.canon : Ty → LenKind → Enc → Option Nat → Val → Prop
  | .opt t, L, E, tag, v =>
    match v with
    | .none => tag.isSome = true          -- an absent positional optional is outside the domain
    | .some v' => Ty.canon t L E tag v'
    | _ => False
  | .vec t, L, E, tag, v =>
    match v with
    | .vec vs => ∀ v' ∈ vs, Ty.canon t L E tag v'
    | _ => False
  | .struct fs, L, _, _, v =>
    match v with
    | .struct vs => fieldsCanon fs vs ∧ ∀ p, encFields fs vs = .ok p → LenOK L p.length
    | _ => False
  | .int w, L, E, _, v => leafCanon L E (.int w) v
  | .str, L, E, _, v => leafCanon L E .str v
  | .bytes, L, E, _, v => leafCanon L E .bytes v
  | .dateTime, L, E, _, v => leafCanon L E .dateTime v
termination_by structural t => t
def fieldsCanon : List Field → List Val → Prop
  | [], vs => vs = []
  | .mk _ tag L E ty :: fs, vs =>
    match vs with
    | v :: vs' => Ty.canon ty L E tag v ∧ fieldsCanon fs vs'
    | [] => False
termination_by structural fs => fs
end

/-- the value writes bytes (an absent `Option` and an empty `Vec` write nothing). -/
def Present : Val → Prop
  | .none => False
  | .vec [] => False
  | _ => True

instance (v : Val) : Decidable (Present v) := by
  cases v with
  | none => exact isFalse (by simp [Present])
  | vec vs => cases vs with
    | nil => exact isFalse (by simp [Present])
    | cons a as => exact isTrue (by simp [Present])
  | num n => exact isTrue (by simp [Present])
  | str cs => exact isTrue (by simp [Present])
  | raw b => exact isTrue (by simp [Present])
  | dt d t => exact isTrue (by simp [Present])
  | some v => exact isTrue (by simp [Present])
  | struct vs => exact isTrue (by simp [Present])

/-- what the generic theorem says about one field. -/
structure FieldRT (t : Ty) (L : LenKind) (E : Enc) (tag : Option Nat) (v : Val) (bytes : Bytes) : Prop where
  ser : Ty.ser t L E tag v = .ok bytes
  de : Present v → ∀ x, (Ty.follow t L E tag).holds x → Ty.de t L E tag (bytes ++ x) = .ok (v, x)
  tagged : ∀ tg, tag = some tg → Present v → bytes ≠ [] ∧ ∀ x, ∃ r, tagDecDefault (bytes ++ x) = .ok (tg, r)
  absent : ¬ Present v → bytes = [] ∧ t.isOptional = true ∧ v = t.dflt

theorem follow_holds_nil (F : Follow) : F.holds [] := by
  cases F with
  | any => trivial
  | noStart t => exact noStart_nil t
  | endOnly => rfl

theorem leafCanon_present (L : LenKind) (E : Enc) (t : Ty) (v : Val) (h : leafCanon L E t v) : Present v := by
  obtain ⟨p, _, _, hm⟩ := h
  cases v with
  | none => cases E <;> cases t <;> exact False.elim hm
  | vec vs => cases E <;> cases t <;> exact False.elim hm
  | num n => simp [Present]
  | str cs => simp [Present]
  | raw b => simp [Present]
  | dt d t => simp [Present]
  | some v => simp [Present]
  | struct vs => simp [Present]

theorem leaf_fieldRT (t : Ty) (ht : IsLeafTy t) (L : LenKind) (E : Enc) (tag : Option Nat) (v : Val)
    (hfo : Ty.follow t L E tag = leafFollow t L E)
    (hwf : leafWf t L E tag = true) (hc : leafCanon L E t v) : ∃ bytes, FieldRT t L E tag v bytes := by
  obtain ⟨bytes, hs, hd, r, hb⟩ := leaf_rt t ht L E tag v hwf hc
  have hp := leafCanon_present L E t v hc
  refine ⟨bytes, ⟨hs, fun _ x hx => hd x (by rw [← hfo]; exact hx), ?_, fun h => absurd hp h⟩⟩
  intro tg htg _
  subst htg
  have hrep : tagRepresentable tg := by
    simp only [leafWf, Bool.and_eq_true] at hwf
    simpa [tagOK] using hwf.1.2
  rw [hb]
  exact tagPrefix_facts tg hrep r

end Zvt
