import ZvtVerif.Client
namespace Zvt

/-! the virtual clock only moves where the model says so; the terminal's pace (`gap`) never changes -/

@[simp] theorem log_now (w : World) (k : Nat) (s : LogE) : (w.log k s).now = w.now := rfl
@[simp] theorem log_conn (w : World) (k : Nat) (s : LogE) : (w.log k s).conn = w.conn := rfl
@[simp] theorem log_gap (w : World) (k : Nat) (s : LogE) : (w.log k s).gap = w.gap := rfl
@[simp] theorem waited_gap (w : World) (k : Nat) : (w.waited k).gap = w.gap := rfl
@[simp] theorem waited_conn (w : World) (k : Nat) : (w.waited k).conn = w.conn := rfl
@[simp] theorem waited_logs (w : World) (k : Nat) : (w.waited k).logs = w.logs := rfl
theorem waited_now_ge (w : World) (k : Nat) : w.now ≤ (w.waited k).now := Nat.le_add_right _ _
theorem waited_now0 (w : World) (k : Nat) (hg : w.gap = 0) : (w.waited k).now = w.now := by
  simp [World.waited, hg]

theorem releaseItems_now : ∀ (n : Nat) (w : World) (c : ConnSt), (releaseItems n w c).1.now = w.now := by
  intro n
  induction n with
  | zero => intro w c; rfl
  | succ n ih =>
    intro w c
    simp only [releaseItems]
    split
    · rfl
    · split
      · rfl
      · split
        · exact ih _ _
        · exact ih _ _
        · exact ih _ _
        · exact ih _ _
        · rfl
        · rfl

theorem releaseItems_gap : ∀ (n : Nat) (w : World) (c : ConnSt), (releaseItems n w c).1.gap = w.gap := by
  intro n
  induction n with
  | zero => intro w c; rfl
  | succ n ih =>
    intro w c
    simp only [releaseItems]
    split
    · rfl
    · split
      · rfl
      · split
        · exact ih _ _
        · exact ih _ _
        · exact ih _ _
        · exact ih _ _
        · rfl
        · rfl

theorem termRx_now (w : World) (c : ConnSt) (p : Bytes) : (termRx w c p).1.now = w.now := by
  unfold termRx
  simp only
  split
  · rw [releaseItems_now]; rfl
  · rw [releaseItems_now]; rfl

theorem termRx_gap (w : World) (c : ConnSt) (p : Bytes) : (termRx w c p).1.gap = w.gap := by
  unfold termRx
  simp only
  split
  · rw [releaseItems_gap]; rfl
  · rw [releaseItems_gap]; rfl

theorem connWrite_now (w : World) (c : ConnSt) (p : Bytes) (w' : World) (c' : ConnSt)
    (h : connWrite w c p = some (w', c')) : w'.now = w.now := by
  unfold connWrite at h
  split at h
  · simp at h
  · simp at h
    have := termRx_now w c p
    rw [h] at this; exact this

theorem connWrite_gap (w : World) (c : ConnSt) (p : Bytes) (w' : World) (c' : ConnSt)
    (h : connWrite w c p = some (w', c')) : w'.gap = w.gap := by
  unfold connWrite at h
  split at h
  · simp at h
  · simp at h
    have := termRx_gap w c p
    rw [h] at this; exact this

theorem dropConn_now (w : World) (c : ConnSt) : (dropConn w c).now = w.now := by
  unfold dropConn; split <;> rfl

theorem dropConn_gap (w : World) (c : ConnSt) : (dropConn w c).gap = w.gap := by
  unfold dropConn; split <;> rfl

theorem dropConn_conn (w : World) (c : ConnSt) : (dropConn w c).conn = none := by
  unfold dropConn; rfl

/-- what one `read_packet` under a deadline does to the world: the client sat out `k` pauses of the terminal and
is still within the deadline; nothing else changes. -/
theorem readBy_pkt (dl : Nat) (w : World) (c : ConnSt) (p : Bytes) (w' : World) (c' : ConnSt)
    (h : readBy dl w c = .pkt p w' c') : ∃ k, w' = w.waited k ∧ (w.waited k).now ≤ dl := by
  unfold readBy at h
  split at h
  · simp at h
  · split at h <;> simp at h
  · rename_i k _ _
    split at h
    · simp at h
    · rename_i hlt
      simp only [RdBy.pkt.injEq] at h
      exact ⟨k, h.2.1.symm, Nat.le_of_not_lt hlt⟩

theorem readBy_eof (dl : Nat) (w : World) (c : ConnSt) (w' : World) (c' : ConnSt)
    (h : readBy dl w c = .eof w' c') : ∃ k, w' = w.waited k ∧ (w.waited k).now ≤ dl := by
  unfold readBy at h
  split at h
  · simp at h
  · rename_i k _ _
    split at h
    · simp at h
    · rename_i hlt
      simp only [RdBy.eof.injEq] at h
      exact ⟨k, h.1.symm, Nat.le_of_not_lt hlt⟩
  · split at h <;> simp at h

/-- the time facts about a world reached from `w` by waiting: shared shape of the lemmas below. -/
structure TimeRel (dl : Nat) (w w' : World) : Prop where
  gap : w'.gap = w.gap
  ge : w.now ≤ w'.now
  le : w.now ≤ dl → w'.now ≤ dl
  zero : w.gap = 0 → w'.now = w.now

theorem TimeRel.refl (dl : Nat) (w : World) : TimeRel dl w w := ⟨rfl, Nat.le_refl _, id, fun _ => rfl⟩

theorem TimeRel.trans {dl : Nat} {a b c : World} (h1 : TimeRel dl a b) (h2 : TimeRel dl b c) : TimeRel dl a c :=
  ⟨h2.gap.trans h1.gap, Nat.le_trans h1.ge h2.ge, fun h => h2.le (h1.le h),
   fun h => (h2.zero (h1.gap.trans h)).trans (h1.zero h)⟩

theorem TimeRel.waited (dl : Nat) (w : World) (k : Nat) (h : (w.waited k).now ≤ dl) : TimeRel dl w (w.waited k) :=
  ⟨rfl, waited_now_ge w k, fun _ => h, waited_now0 w k⟩

theorem TimeRel.of_eq (dl : Nat) (w w' : World) (hn : w'.now = w.now) (hg : w'.gap = w.gap) : TimeRel dl w w' :=
  ⟨hg, by omega, fun h => by omega, fun _ => hn⟩

theorem TimeRel.write (dl : Nat) (w : World) (c : ConnSt) (p : Bytes) (w' : World) (c' : ConnSt)
    (h : connWrite w c p = some (w', c')) : TimeRel dl w w' :=
  TimeRel.of_eq dl w w' (connWrite_now w c p w' c' h) (connWrite_gap w c p w' c' h)

/-- **one `stream.next()`**: the terminal's pace is unchanged, the clock does not run backwards, the call is over by
its deadline (if it began before it), and against a terminal that answers at once (or never) it takes no time. -/
theorem seqNext_time (d : SeqDesc) (dl : Nat) (w : World) (c : ConnSt) (st : SeqSt) :
    TimeRel dl w (seqNext d dl w c st).2.1 := by
  unfold seqNext
  cases st with
  | done => exact TimeRel.refl dl w
  | start =>
    simp only
    cases hw : connWrite w c d.cmd with
    | none => exact TimeRel.refl dl w
    | some wc =>
      obtain ⟨w1, c1⟩ := wc
      have h1 := TimeRel.write dl w c d.cmd w1 c1 hw
      simp only
      cases hr : readBy dl w1 c1 with
      | hang c2 => exact h1
      | eof w2 c2 =>
        obtain ⟨k, he, hk⟩ := readBy_eof dl w1 c1 w2 c2 hr
        simp only; rw [he]; exact h1.trans (TimeRel.waited dl w1 k hk)
      | pkt p w2 c2 =>
        obtain ⟨k, he, hk⟩ := readBy_pkt dl w1 c1 p w2 c2 hr
        have h2 : TimeRel dl w w2 := by rw [he]; exact h1.trans (TimeRel.waited dl w1 k hk)
        simp only
        cases parseEnum Generated.io_Ack p with
        | error e => exact h2
        | ok a =>
          simp only
          cases hr2 : readBy dl w2 c2 with
          | hang c3 => exact h2
          | eof w3 c3 =>
            obtain ⟨k2, he2, hk2⟩ := readBy_eof dl w2 c2 w3 c3 hr2
            simp only; rw [he2]; exact h2.trans (TimeRel.waited dl w2 k2 hk2)
          | pkt p2 w3 c3 =>
            obtain ⟨k2, he2, hk2⟩ := readBy_pkt dl w2 c2 p2 w3 c3 hr2
            have h3 : TimeRel dl w w3 := by rw [he2]; exact h2.trans (TimeRel.waited dl w2 k2 hk2)
            simp only
            cases parseEnum d.enum p2 with
            | error e => exact h3
            | ok iv =>
              obtain ⟨i, v⟩ := iv
              simp only
              cases hw2 : connWrite w3 c3 ackBytes with
              | none => exact h3
              | some wc2 =>
                obtain ⟨w4, c4⟩ := wc2
                simp only
                exact h3.trans (TimeRel.write dl w3 c3 ackBytes w4 c4 hw2)
  | looping =>
    simp only
    cases hr : readBy dl w c with
    | hang c2 => exact TimeRel.refl dl w
    | eof w2 c2 =>
      obtain ⟨k, he, hk⟩ := readBy_eof dl w c w2 c2 hr
      simp only; rw [he]; exact TimeRel.waited dl w k hk
    | pkt p w2 c2 =>
      obtain ⟨k, he, hk⟩ := readBy_pkt dl w c p w2 c2 hr
      have h2 : TimeRel dl w w2 := by rw [he]; exact TimeRel.waited dl w k hk
      simp only
      cases parseEnum d.enum p with
      | error e => exact h2
      | ok iv =>
        obtain ⟨i, v⟩ := iv
        simp only
        cases hw2 : connWrite w2 c2 ackBytes with
        | none => exact h2
        | some wc2 =>
          obtain ⟨w4, c4⟩ := wc2
          simp only
          exact h2.trans (TimeRel.write dl w2 c2 ackBytes w4 c4 hw2)

/-- against a terminal that answers at once or not at all, one `stream.next()` takes no virtual time by itself
(time passes only in the caller's time-out). -/
theorem seqNext_now (d : SeqDesc) (dl : Nat) (w : World) (c : ConnSt) (st : SeqSt) (hg : w.gap = 0) :
    (seqNext d dl w c st).2.1.now = w.now := (seqNext_time d dl w c st).zero hg

theorem seqNext_gap (d : SeqDesc) (dl : Nat) (w : World) (c : ConnSt) (st : SeqSt) :
    (seqNext d dl w c st).2.1.gap = w.gap := (seqNext_time d dl w c st).gap

theorem onceExchange_time (d : SeqDesc) (dl : Nat) (w : World) (c : ConnSt) : TimeRel dl w (onceExchange d dl w c).2.1 := by
  have h := seqNext_time d dl w c .start
  unfold onceExchange
  generalize seqNext d dl w c .start = q at h ⊢
  obtain ⟨o, w1, c1, st⟩ := q
  cases o <;> exact h

/-- `inner::connect` under its guard, for any pace of the terminal: over by `TIMEOUT`; against a terminal that
answers at once or never: takes no time, or exactly `TIMEOUT`. -/
theorem connect_time (cfg : Cfg) (w : World) :
    (connect cfg w).1.gap = w.gap ∧ w.now ≤ (connect cfg w).1.now ∧ (connect cfg w).1.now ≤ w.now + TIMEOUT ∧
    (w.gap = 0 → (connect cfg w).1.now = w.now ∨ (connect cfg w).1.now = w.now + TIMEOUT) := by
  unfold connect
  simp only
  split
  · exact ⟨rfl, Nat.le_refl _, Nat.le_add_right _ _, fun _ => Or.inl rfl⟩
  · split
    · exact ⟨rfl, Nat.le_add_right _ _, Nat.le_refl _, fun _ => Or.inr rfl⟩
    · generalize hw0 : ({ w with logs := w.logs ++ [[.opened w.now]] } : World) = w0
      have hn0 : w0.now = w.now := by rw [← hw0]
      have hg0 : w0.gap = w.gap := by rw [← hw0]
      have h1 := onceExchange_time (seqDesc "sequences::Registration" (registrationCmd cfg)) (w.now + TIMEOUT) w0 { id := w.logs.length }
      generalize onceExchange (seqDesc "sequences::Registration" (registrationCmd cfg)) (w.now + TIMEOUT) w0 { id := w.logs.length } = q1 at h1 ⊢
      obtain ⟨o, w1, c1⟩ := q1
      simp only at h1
      have h1le := h1.le (by omega)
      have h1ge := h1.ge
      have h1g := h1.gap
      cases o with
      | none =>
        refine ⟨?_, ?_, ?_, ?_⟩
        · rw [dropConn_gap]; exact h1g.trans hg0
        · rw [dropConn_now]; exact Nat.le_add_right _ _
        · rw [dropConn_now]; exact Nat.le_refl _
        · intro _; right; rw [dropConn_now]
      | some it =>
        cases it with
        | err =>
          simp only [dropConn_now, dropConn_gap]
          exact ⟨by rw [h1g, hg0], by omega, by omega, fun hg => Or.inl (by rw [h1.zero (by rw [hg0]; exact hg), hn0])⟩
        | ok i v =>
          simp only
          have h2 := onceExchange_time (seqDesc "feig::sequences::GetSystemInfo" sysInfoCmd) (w.now + TIMEOUT) w1 c1
          generalize onceExchange (seqDesc "feig::sequences::GetSystemInfo" sysInfoCmd) (w.now + TIMEOUT) w1 c1 = q2 at h2 ⊢
          obtain ⟨o2, w2, c2⟩ := q2
          simp only at h2
          have h2le := h2.le h1le
          have h2ge := h2.ge
          have h2g := h2.gap
          have hz : w.gap = 0 → w2.now = w.now := fun hg => by
            rw [h2.zero (by rw [h1g, hg0]; exact hg), h1.zero (by rw [hg0]; exact hg), hn0]
          cases o2 with
          | none =>
            refine ⟨?_, ?_, ?_, ?_⟩
            · rw [dropConn_gap]; exact h2g.trans (h1g.trans hg0)
            · rw [dropConn_now]; exact Nat.le_add_right _ _
            · rw [dropConn_now]; exact Nat.le_refl _
            · intro _; right; rw [dropConn_now]
          | some it2 =>
            cases it2 with
            | err =>
              simp only [dropConn_now, dropConn_gap]
              exact ⟨by rw [h2g, h1g, hg0], by omega, by omega, fun hg => Or.inl (hz hg)⟩
            | ok i2 v2 =>
              simp only
              split
              · split
                · exact ⟨by simp only; rw [h2g, h1g, hg0], by simp only; omega, by simp only; omega, fun hg => Or.inl (hz hg)⟩
                · simp only [dropConn_now, dropConn_gap]
                  exact ⟨by rw [h2g, h1g, hg0], by omega, by omega, fun hg => Or.inl (hz hg)⟩
              · simp only [dropConn_now, dropConn_gap]
                exact ⟨by rw [h2g, h1g, hg0], by omega, by omega, fun hg => Or.inl (hz hg)⟩

theorem connect_gap (cfg : Cfg) (w : World) : (connect cfg w).1.gap = w.gap := (connect_time cfg w).1

/-- against a terminal that answers at once or never: the handshake takes no time, or exactly `TIMEOUT`. -/
theorem connect_now (cfg : Cfg) (w : World) (hg : w.gap = 0) :
    (connect cfg w).1.now = w.now ∨ (connect cfg w).1.now = w.now + TIMEOUT := (connect_time cfg w).2.2.2 hg

/-- one attempt on a live connection, any pace of the terminal: every `next()` is over one packet time-out after it
began, so `fuel` items take at most `fuel` time-outs; against a terminal that answers at once or never the whole
attempt costs at most ONE packet time-out. -/
theorem runItems_time {σ ρ : Type} (d : SeqDesc) (timeout : Nat) (step : σ → Item → Step σ ρ) :
    ∀ (fuel : Nat) (w : World) (c : ConnSt) (st : SeqSt) (s : σ),
      (runItems d timeout step fuel w c st s).2.1.gap = w.gap ∧
      w.now ≤ (runItems d timeout step fuel w c st s).2.1.now ∧
      (runItems d timeout step fuel w c st s).2.1.now ≤ w.now + fuel * timeout ∧
      (w.gap = 0 → (runItems d timeout step fuel w c st s).2.1.now ≤ w.now + timeout) := by
  intro fuel
  induction fuel with
  | zero => intro w c st s; simp [runItems]
  | succ fuel ih =>
    intro w c st s
    simp only [runItems]
    have hn := seqNext_time d (w.now + timeout) w c st
    generalize seqNext d (w.now + timeout) w c st = q at hn ⊢
    obtain ⟨o, w1, c1, st1⟩ := q
    simp only at hn
    have hle := hn.le (Nat.le_add_right _ _)
    have hge := hn.ge
    have hgp := hn.gap
    have hmul : (fuel + 1) * timeout = fuel * timeout + timeout := Nat.succ_mul _ _
    cases o with
    | ended =>
      simp only
      exact ⟨hgp, hge, by omega, fun hg => by rw [hn.zero hg]; omega⟩
    | hang =>
      simp only [dropConn_now, dropConn_gap]
      exact ⟨hgp, by omega, by omega, fun _ => Nat.le_refl _⟩
    | item it =>
      cases it with
      | err =>
        simp only
        cases step s .err <;> (simp only [dropConn_now, dropConn_gap]; exact ⟨hgp, hge, by omega, fun hg => by rw [hn.zero hg]; omega⟩)
      | ok i v =>
        simp only
        cases step s (.ok i v) with
        | ret r => simp only; exact ⟨hgp, hge, by omega, fun hg => by rw [hn.zero hg]; omega⟩
        | cont s' =>
          simp only
          have := ih w1 c1 st1 s'
          refine ⟨this.1.trans hgp, by omega, by omega, fun hg => ?_⟩
          have h0 := this.2.2.2 (by rw [hgp]; exact hg)
          rw [hn.zero hg] at h0
          exact h0

theorem runItems_gap {σ ρ : Type} (d : SeqDesc) (timeout : Nat) (step : σ → Item → Step σ ρ)
    (fuel : Nat) (w : World) (c : ConnSt) (st : SeqSt) (s : σ) :
    (runItems d timeout step fuel w c st s).2.1.gap = w.gap := (runItems_time d timeout step fuel w c st s).1

/-! ### which connection is live; how many connection slots exist -/

@[simp] theorem log_nlogs (w : World) (k : Nat) (s : LogE) : (w.log k s).logs.length = w.logs.length := by
  simp [World.log]

@[simp] theorem put_id (c : ConnSt) (b : Bytes) : (c.put b).id = c.id := by
  unfold ConnSt.put; split <;> rfl

theorem releaseItems_conn : ∀ (n : Nat) (w : World) (c : ConnSt),
    (releaseItems n w c).1.conn = w.conn ∧ (releaseItems n w c).2.id = c.id := by
  intro n
  induction n with
  | zero => intro w c; exact ⟨rfl, rfl⟩
  | succ n ih =>
    intro w c
    simp only [releaseItems]
    split
    · exact ⟨rfl, rfl⟩
    · split
      · exact ⟨rfl, rfl⟩
      · split
        · exact ⟨(ih _ _).1, (ih _ _).2.trans (put_id _ _)⟩
        · exact ⟨(ih _ _).1, (ih _ _).2.trans (put_id _ _)⟩
        · exact ⟨(ih _ _).1, (ih _ _).2.trans (put_id _ _)⟩
        · exact ⟨(ih _ _).1, (ih _ _).2.trans (put_id _ _)⟩
        · exact ⟨rfl, rfl⟩
        · exact ⟨rfl, rfl⟩

theorem termRx_conn (w : World) (c : ConnSt) (p : Bytes) :
    (termRx w c p).1.conn = w.conn ∧ (termRx w c p).2.id = c.id := by
  unfold termRx
  simp only
  split
  · exact releaseItems_conn 1 _ _
  · exact releaseItems_conn 2 _ _

theorem connWrite_conn (w : World) (c : ConnSt) (p : Bytes) (w' : World) (c' : ConnSt)
    (h : connWrite w c p = some (w', c')) : w'.conn = w.conn ∧ c'.id = c.id := by
  unfold connWrite at h
  split at h
  · simp at h
  · simp at h
    have := termRx_conn w c p
    rw [h] at this; exact this

theorem connRead_id (c : ConnSt) : (connRead c).2.2.id = c.id := by
  unfold connRead
  split
  · rfl
  · split <;> rfl

theorem releaseItems_nlogs : ∀ (n : Nat) (w : World) (c : ConnSt), (releaseItems n w c).1.logs.length = w.logs.length := by
  intro n
  induction n with
  | zero => intro w c; rfl
  | succ n ih =>
    intro w c
    simp only [releaseItems]
    split
    · rfl
    · split
      · rfl
      · split
        · exact ih _ _
        · exact ih _ _
        · exact ih _ _
        · exact ih _ _
        · rfl
        · simp

theorem termRx_nlogs (w : World) (c : ConnSt) (p : Bytes) : (termRx w c p).1.logs.length = w.logs.length := by
  unfold termRx
  simp only
  split
  · rw [releaseItems_nlogs]; simp
  · rw [releaseItems_nlogs]; simp

theorem connWrite_nlogs (w : World) (c : ConnSt) (p : Bytes) (w' : World) (c' : ConnSt)
    (h : connWrite w c p = some (w', c')) : w'.logs.length = w.logs.length := by
  unfold connWrite at h
  split at h
  · simp at h
  · simp at h
    have := termRx_nlogs w c p
    rw [h] at this; exact this

theorem dropConn_nlogs (w : World) (c : ConnSt) : (dropConn w c).logs.length = w.logs.length := by
  unfold dropConn; split <;> simp

/-! #### the log of every OTHER connection is left alone -/

theorem log_other (w : World) (k j : Nat) (s : LogE) (h : j ≠ k) : (w.log k s).logs[j]? = w.logs[j]? := by
  simp only [World.log, List.getElem?_modify]
  have : ¬ k = j := fun e => h e.symm
  cases w.logs[j]? <;> simp [this]

theorem releaseItems_others : ∀ (n : Nat) (w : World) (c : ConnSt) (j : Nat), j ≠ c.id →
    (releaseItems n w c).1.logs[j]? = w.logs[j]? := by
  intro n
  induction n with
  | zero => intro w c j _; rfl
  | succ n ih =>
    intro w c j hj
    simp only [releaseItems]
    split
    · rfl
    · split
      · rfl
      · split
        · exact ih _ _ j (by rw [put_id]; exact hj)
        · exact ih _ _ j (by rw [put_id]; exact hj)
        · exact ih _ _ j (by rw [put_id]; exact hj)
        · exact ih _ _ j (by rw [put_id]; exact hj)
        · rfl
        · exact log_other _ _ _ _ hj

theorem termRx_others (w : World) (c : ConnSt) (p : Bytes) (j : Nat) (hj : j ≠ c.id) :
    (termRx w c p).1.logs[j]? = w.logs[j]? := by
  unfold termRx
  simp only
  split
  · rw [releaseItems_others 1 _ _ j hj]; exact log_other _ _ _ _ hj
  · refine Eq.trans (releaseItems_others 2 _ _ j ?_) ?_
    · exact hj
    · exact log_other w c.id j _ hj

theorem connWrite_others (w : World) (c : ConnSt) (p : Bytes) (w' : World) (c' : ConnSt)
    (h : connWrite w c p = some (w', c')) (j : Nat) (hj : j ≠ c.id) : w'.logs[j]? = w.logs[j]? := by
  unfold connWrite at h
  split at h
  · simp at h
  · simp at h
    have := termRx_others w c p j hj
    rw [h] at this; exact this

theorem dropConn_others (w : World) (c : ConnSt) (j : Nat) (hj : j ≠ c.id) : (dropConn w c).logs[j]? = w.logs[j]? := by
  unfold dropConn
  split
  · rfl
  · exact log_other _ _ _ _ hj

/-- what a step on a connection leaves alone: which connection is live, how many slots exist, whose connection it
is — and the log of every other connection (nothing is sent or received on any slot but the one in use). -/
structure FrameRel (w w' : World) (c c' : ConnSt) : Prop where
  conn : w'.conn = w.conn
  nlogs : w'.logs.length = w.logs.length
  id : c'.id = c.id
  others : ∀ j, j ≠ c.id → w'.logs[j]? = w.logs[j]?

theorem FrameRel.refl (w : World) (c : ConnSt) : FrameRel w w c c := ⟨rfl, rfl, rfl, fun _ _ => rfl⟩

theorem FrameRel.trans {a b e : World} {x y z : ConnSt} (h1 : FrameRel a b x y) (h2 : FrameRel b e y z) : FrameRel a e x z :=
  ⟨h2.conn.trans h1.conn, h2.nlogs.trans h1.nlogs, h2.id.trans h1.id,
   fun j hj => (h2.others j (by rw [h1.id]; exact hj)).trans (h1.others j hj)⟩

theorem FrameRel.write (w : World) (c : ConnSt) (p : Bytes) (w' : World) (c' : ConnSt)
    (h : connWrite w c p = some (w', c')) : FrameRel w w' c c' :=
  ⟨(connWrite_conn w c p w' c' h).1, connWrite_nlogs w c p w' c' h, (connWrite_conn w c p w' c' h).2,
   fun j hj => connWrite_others w c p w' c' h j hj⟩

/-- a time-out inside a step: the connection record may differ, the world is the one reached so far. -/
theorem FrameRel.hang {w w' : World} {c c' c2 : ConnSt} (h : FrameRel w w' c c') (hid : c2.id = c'.id) : FrameRel w w' c c2 :=
  ⟨h.conn, h.nlogs, hid.trans h.id, h.others⟩

theorem readBy_frame (dl : Nat) (w : World) (c : ConnSt) :
    match readBy dl w c with
    | .pkt _ w' c' => FrameRel w w' c c'
    | .eof w' c' => FrameRel w w' c c'
    | .hang c' => c'.id = c.id := by
  unfold readBy
  have hid := connRead_id c
  generalize connRead c = q at hid ⊢
  obtain ⟨r, k, c2⟩ := q
  simp only at hid
  cases r with
  | hang => exact hid
  | eof =>
    simp only
    by_cases h : dl < (w.waited k).now
    · rw [if_pos h]; exact hid
    · rw [if_neg h]; exact ⟨rfl, rfl, hid, fun _ _ => rfl⟩
  | pkt p =>
    simp only
    by_cases h : dl < (w.waited k).now
    · rw [if_pos h]; exact hid
    · rw [if_neg h]; exact ⟨rfl, rfl, hid, fun _ _ => rfl⟩

/-- a `stream.next()` never switches connections and opens none. -/
theorem seqNext_frame (d : SeqDesc) (dl : Nat) (w : World) (c : ConnSt) (st : SeqSt) :
    FrameRel w (seqNext d dl w c st).2.1 c (seqNext d dl w c st).2.2.1 := by
  unfold seqNext
  cases st with
  | done => exact FrameRel.refl w c
  | start =>
    simp only
    cases hw : connWrite w c d.cmd with
    | none => exact FrameRel.refl w c
    | some wc =>
      obtain ⟨w1, c1⟩ := wc
      have h1 := FrameRel.write w c d.cmd w1 c1 hw
      simp only
      have hr := readBy_frame dl w1 c1
      generalize readBy dl w1 c1 = q at hr ⊢
      cases q with
      | hang c2 => exact h1.hang (show c2.id = c1.id from hr)
      | eof w2 c2 => exact h1.trans hr
      | pkt p w2 c2 =>
        have h2 := h1.trans (show FrameRel w1 w2 c1 c2 from hr)
        simp only
        cases parseEnum Generated.io_Ack p with
        | error e => exact h2
        | ok a =>
          simp only
          have hr2 := readBy_frame dl w2 c2
          generalize readBy dl w2 c2 = q2 at hr2 ⊢
          cases q2 with
          | hang c3 => exact h2.hang (show c3.id = c2.id from hr2)
          | eof w3 c3 => exact h2.trans hr2
          | pkt p2 w3 c3 =>
            have h3 := h2.trans (show FrameRel w2 w3 c2 c3 from hr2)
            simp only
            cases parseEnum d.enum p2 with
            | error e => exact h3
            | ok iv =>
              obtain ⟨i, v⟩ := iv
              simp only
              cases hw2 : connWrite w3 c3 ackBytes with
              | none => exact h3
              | some wc2 =>
                obtain ⟨w4, c4⟩ := wc2
                simp only
                exact h3.trans (FrameRel.write w3 c3 ackBytes w4 c4 hw2)
  | looping =>
    simp only
    have hr := readBy_frame dl w c
    generalize readBy dl w c = q at hr ⊢
    cases q with
    | hang c2 => exact (FrameRel.refl w c).hang hr
    | eof w2 c2 => exact hr
    | pkt p w2 c2 =>
      have h2 : FrameRel w w2 c c2 := hr
      simp only
      cases parseEnum d.enum p with
      | error e => exact h2
      | ok iv =>
        obtain ⟨i, v⟩ := iv
        simp only
        cases hw2 : connWrite w2 c2 ackBytes with
        | none => exact h2
        | some wc2 =>
          obtain ⟨w4, c4⟩ := wc2
          simp only
          exact h2.trans (FrameRel.write w2 c2 ackBytes w4 c4 hw2)

theorem seqNext_conn (d : SeqDesc) (dl : Nat) (w : World) (c : ConnSt) (st : SeqSt) :
    (seqNext d dl w c st).2.1.conn = w.conn ∧ (seqNext d dl w c st).2.2.1.id = c.id :=
  ⟨(seqNext_frame d dl w c st).conn, (seqNext_frame d dl w c st).id⟩

theorem seqNext_nlogs (d : SeqDesc) (dl : Nat) (w : World) (c : ConnSt) (st : SeqSt) :
    (seqNext d dl w c st).2.1.logs.length = w.logs.length := (seqNext_frame d dl w c st).nlogs

/-- the caller's loop polls the stream again after an error item (`let Ok(r) = r else { continue }`): every loop in
feig.rs has this shape (`*_polls_again` in Properties/C09.lean). It matters: `src.inner = None` is only reached when
the retry stream is polled once more after it has yielded the error. -/
def PollsAgain {σ ρ : Type} (step : σ → Item → Step σ ρ) : Prop := ∀ s, ∃ s', step s .err = .cont s'

/-- **After a failed attempt the connection is gone; after a good one it is kept — the same one.**
`is_err` (error item or time-out) ⇒ `src.inner = None` (for a caller that polls again); otherwise the live connection is still the one
the attempt started on. -/
theorem runItems_conn {σ ρ : Type} (d : SeqDesc) (timeout : Nat) (step : σ → Item → Step σ ρ) :
    ∀ (fuel : Nat) (w : World) (c : ConnSt) (st : SeqSt) (s : σ),
      (PollsAgain step → (runItems d timeout step fuel w c st s).2.2 = true →
        (runItems d timeout step fuel w c st s).2.1.conn = none) ∧
      ((runItems d timeout step fuel w c st s).2.2 = false →
        ∃ c', (runItems d timeout step fuel w c st s).2.1.conn = some c' ∧ c'.id = c.id) ∧
      (∀ c', (runItems d timeout step fuel w c st s).2.1.conn = some c' → c'.id = c.id) := by
  intro fuel
  induction fuel with
  | zero => intro w c st s; simp [runItems]
  | succ fuel ih =>
    intro w c st s
    simp only [runItems]
    have hn := seqNext_conn d (w.now + timeout) w c st
    generalize seqNext d (w.now + timeout) w c st = q at hn ⊢
    obtain ⟨o, w1, c1, st1⟩ := q
    simp only at hn
    cases o with
    | ended => simp only; exact ⟨by simp, fun _ => ⟨c1, rfl, hn.2⟩, fun c' h => by cases h; exact hn.2⟩
    | hang =>
      simp only
      exact ⟨fun _ _ => dropConn_conn _ _, by simp, fun c' h => by rw [dropConn_conn] at h; cases h⟩
    | item it =>
      cases it with
      | err =>
        simp only
        cases hst : step s .err with
        | ret r =>
          simp only
          refine ⟨fun hp _ => ?_, by simp, fun c' h => by cases h; exact hn.2⟩
          obtain ⟨s', hs'⟩ := hp s
          rw [hst] at hs'; cases hs'
        | cont s' =>
          simp only
          exact ⟨fun _ _ => dropConn_conn _ _, by simp, fun c' h => by rw [dropConn_conn] at h; cases h⟩
      | ok i v =>
        simp only
        cases step s (.ok i v) with
        | ret r => simp only; exact ⟨by simp, fun _ => ⟨c1, rfl, hn.2⟩, fun c' h => by cases h; exact hn.2⟩
        | cont s' =>
          simp only
          have := ih w1 c1 st1 s'
          refine ⟨this.1, fun hf => ?_, fun c' h => by rw [this.2.2 c' h, hn.2]⟩
          obtain ⟨c', h1, h2⟩ := this.2.1 hf
          exact ⟨c', h1, by rw [h2, hn.2]⟩

theorem ensureConn_time (cfg : Cfg) (w : World) :
    (ensureConn cfg w).1.gap = w.gap ∧ w.now ≤ (ensureConn cfg w).1.now ∧ (ensureConn cfg w).1.now ≤ w.now + TIMEOUT := by
  unfold ensureConn
  cases w.conn with
  | some c => simp
  | none =>
    simp only
    have := connect_time cfg w
    exact ⟨this.1, this.2.1, this.2.2.1⟩

/-- budget of one attempt: throttle + connect guard + what the items of the attempt may take. -/
def attemptBudget (timeout : Nat) : Nat := THROTTLE + TIMEOUT + timeout

theorem throttleStart_ge (prev : Option Nat) (now : Nat) : now ≤ throttleStart prev now := by
  unfold throttleStart; cases prev with
  | none => simp
  | some p => exact Nat.le_max_left _ _

/-- **Retry loop**, for a terminal of pace `g` whose attempts on a live connection take at most `L`: `n` attempts end
no later than `n × (THROTTLE + TIMEOUT + L)` after the (throttled) start. -/
theorem retryLoop_time {σ ρ : Type} (cfg : Cfg) (d : SeqDesc) (timeout : Nat) (step : σ → Item → Step σ ρ) (g L : Nat)
    (hL : ∀ (w : World) (c : ConnSt) (s : σ), w.gap = g →
      (runItems d timeout step ITEM_FUEL w c .start s).2.1.now ≤ w.now + L) :
    ∀ (n : Nat) (prev : Option Nat) (w : World) (s : σ), w.gap = g →
      (retryLoop cfg d timeout step n prev w s).2.gap = g ∧
      (retryLoop cfg d timeout step n prev w s).2.now ≤ throttleStart prev w.now + n * attemptBudget L := by
  intro n
  induction n with
  | zero => intro prev w s hg; simp only [retryLoop]; have := throttleStart_ge prev w.now; exact ⟨hg, by omega⟩
  | succ n ih =>
    intro prev w s hg
    simp only [retryLoop]
    generalize hstart : throttleStart prev w.now = start
    have he := ensureConn_time cfg { w with now := start }
    generalize ensureConn cfg { w with now := start } = q at he ⊢
    obtain ⟨w1, live⟩ := q
    simp only at he
    have hg1 : w1.gap = g := he.1.trans hg
    have hB : attemptBudget L = THROTTLE + TIMEOUT + L := rfl
    have hT : THROTTLE = 2 := rfl
    have hnext : ∀ wn : World, wn.now ≤ start + TIMEOUT + L →
        throttleStart (some start) wn.now ≤ start + attemptBudget L := by
      intro wn h
      simp only [throttleStart]
      apply Nat.max_le.mpr; constructor <;> omega
    have hmul : (n + 1) * attemptBudget L = n * attemptBudget L + attemptBudget L := Nat.succ_mul _ _
    cases live with
    | false =>
      simp only
      cases step s .err with
      | ret r => simp only; exact ⟨hg1, by omega⟩
      | cont s' =>
        simp only
        have h := ih (some start) w1 s' hg1
        have := hnext w1 (by omega)
        exact ⟨h.1, by omega⟩
    | true =>
      simp only
      cases hc1 : w1.conn with
      | none => simp only; exact ⟨hg1, by omega⟩
      | some c =>
        simp only
        have hr := hL w1 c s hg1
        have hrg := runItems_gap d timeout step ITEM_FUEL w1 c .start s
        generalize runItems d timeout step ITEM_FUEL w1 c .start s = q2 at hr hrg ⊢
        obtain ⟨o, w2, e⟩ := q2
        simp only at hr hrg
        have hg2 : w2.gap = g := hrg.trans hg1
        cases o with
        | ret r => simp only; exact ⟨hg2, by omega⟩
        | cont s' =>
          cases e with
          | false => simp only; exact ⟨hg2, by omega⟩
          | true =>
            simp only
            have h := ih (some start) w2 s' hg2
            have := hnext w2 (by omega)
            exact ⟨h.1, by omega⟩

theorem runOp_gap {σ ρ : Type} (cfg : Cfg) (seqName : String) (cmd : Bytes) (timeout : Nat)
    (step : σ → Item → Step σ ρ) (w : World) (s : σ) : (runOp cfg seqName cmd timeout step w s).2.gap = w.gap := by
  unfold runOp
  exact (retryLoop_time cfg (seqDesc seqName cmd) timeout step w.gap (ITEM_FUEL * timeout)
    (fun w' c s' _ => (runItems_time (seqDesc seqName cmd) timeout step ITEM_FUEL w' c .start s').2.2.1) ATTEMPTS none w s rfl).1

/-- **Every operation returns within its retry budget** against a terminal that answers at once or falls silent: the
whole retry loop of one exchange ends no later than `ATTEMPTS × (THROTTLE + TIMEOUT + timeout)` virtual seconds after
it began — wherever the silence begins. -/
theorem runOp_now {σ ρ : Type} (cfg : Cfg) (seqName : String) (cmd : Bytes) (timeout : Nat)
    (step : σ → Item → Step σ ρ) (w : World) (s : σ) (hg : w.gap = 0) :
    (runOp cfg seqName cmd timeout step w s).2.now ≤ w.now + ATTEMPTS * attemptBudget timeout := by
  unfold runOp
  have := (retryLoop_time cfg (seqDesc seqName cmd) timeout step 0 timeout
    (fun w' c s' hg' => (runItems_time (seqDesc seqName cmd) timeout step ITEM_FUEL w' c .start s').2.2.2 hg') ATTEMPTS none w s hg).2
  simpa [throttleStart] using this

/-- the same for a terminal of ANY pace (a pause before every packet it sends): every `next()` is over one packet
time-out after it began, so the bound grows with the number of packets an attempt may deliver (`ITEM_FUEL`). -/
theorem runOp_now_slow {σ ρ : Type} (cfg : Cfg) (seqName : String) (cmd : Bytes) (timeout : Nat)
    (step : σ → Item → Step σ ρ) (w : World) (s : σ) :
    (runOp cfg seqName cmd timeout step w s).2.now ≤ w.now + ATTEMPTS * attemptBudget (ITEM_FUEL * timeout) := by
  unfold runOp
  have := (retryLoop_time cfg (seqDesc seqName cmd) timeout step w.gap (ITEM_FUEL * timeout)
    (fun w' c s' _ => (runItems_time (seqDesc seqName cmd) timeout step ITEM_FUEL w' c .start s').2.2.1) ATTEMPTS none w s rfl).2
  simpa [throttleStart] using this

/-! ### an early result is always produced by the caller's loop body -/

theorem runItems_ret {σ ρ : Type} (d : SeqDesc) (timeout : Nat) (step : σ → Item → Step σ ρ) (P : ρ → Prop)
    (hP : ∀ s it r, step s it = .ret r → P r) :
    ∀ (fuel : Nat) (w : World) (c : ConnSt) (st : SeqSt) (s : σ) (r : ρ),
      (runItems d timeout step fuel w c st s).1 = .ret r → P r := by
  intro fuel
  induction fuel with
  | zero => intro w c st s r h; simp [runItems] at h
  | succ fuel ih =>
    intro w c st s r h
    simp only [runItems] at h
    generalize seqNext d (w.now + timeout) w c st = q at h
    obtain ⟨o, w1, c1, st1⟩ := q
    cases o with
    | ended => simp at h
    | hang => simp at h
    | item it =>
      cases it with
      | err =>
        simp only at h
        cases hs : step s .err with
        | ret r' => rw [hs] at h; simp only at h; rw [← (show r' = r by injection h)]; exact hP s .err r' hs
        | cont s' => rw [hs] at h; simp at h
      | ok i v =>
        simp only at h
        cases hs : step s (.ok i v) with
        | ret r' => rw [hs] at h; simp only at h; rw [← (show r' = r by injection h)]; exact hP s _ r' hs
        | cont s' => rw [hs] at h; simp only at h; exact ih w1 c1 st1 s' r h

theorem retryLoop_ret {σ ρ : Type} (cfg : Cfg) (d : SeqDesc) (timeout : Nat) (step : σ → Item → Step σ ρ) (P : ρ → Prop)
    (hP : ∀ s it r, step s it = .ret r → P r) :
    ∀ (n : Nat) (prev : Option Nat) (w : World) (s : σ) (r : ρ),
      (retryLoop cfg d timeout step n prev w s).1 = .ret r → P r := by
  intro n
  induction n with
  | zero => intro prev w s r h; simp [retryLoop] at h
  | succ n ih =>
    intro prev w s r h
    simp only [retryLoop] at h
    generalize ensureConn cfg { w with now := throttleStart prev w.now } = q at h
    obtain ⟨w1, live⟩ := q
    cases live with
    | false =>
      simp only at h
      cases hs : step s .err with
      | ret r' => rw [hs] at h; simp only at h; rw [← (show r' = r by injection h)]; exact hP s .err r' hs
      | cont s' => rw [hs] at h; simp only at h; exact ih _ w1 s' r h
    | true =>
      simp only at h
      cases hc : w1.conn with
      | none => rw [hc] at h; simp at h
      | some c =>
        rw [hc] at h
        simp only at h
        have hr := runItems_ret d timeout step P hP ITEM_FUEL w1 c .start s
        generalize runItems d timeout step ITEM_FUEL w1 c .start s = q2 at h hr
        obtain ⟨o, w2, e⟩ := q2
        cases o with
        | ret r' => simp only at h; rw [← (show r' = r by injection h)]; exact hr r' rfl
        | cont s' =>
          cases e with
          | true => simp only at h; exact ih _ w2 s' r h
          | false => simp at h

/-- whatever the terminal does, an operation's early result satisfies every property that all results of
its loop body satisfy. -/
theorem runOp_ret_from_step {σ ρ : Type} (cfg : Cfg) (seqName : String) (cmd : Bytes) (timeout : Nat)
    (step : σ → Item → Step σ ρ) (w : World) (s : σ) (P : ρ → Prop) (hP : ∀ s it r, step s it = .ret r → P r) :
    ∀ r, (runOp cfg seqName cmd timeout step w s).1 = .ret r → P r := by
  intro r h
  exact retryLoop_ret cfg (seqDesc seqName cmd) timeout step P hP ATTEMPTS none w s r h

/-! ### the handshake: what `connect` leaves behind -/

theorem onceExchange_id (d : SeqDesc) (dl : Nat) (w : World) (c : ConnSt) : (onceExchange d dl w c).2.2.id = c.id := by
  have h := (seqNext_conn d dl w c .start).2
  unfold onceExchange
  generalize seqNext d dl w c .start = q at h ⊢
  obtain ⟨o, w1, c1, st⟩ := q
  cases o <;> exact h

/-- **The handshake either yields a vetted connection with a brand-new identity, or no connection at all.**
`true` only on the one path where registration and the identity query were both answered and the serial
number matched (every other path drops the socket); the new connection's identity is the next unused one,
so it is never a connection that existed before. -/
theorem connect_outcome (cfg : Cfg) (w : World) :
    ((connect cfg w).2 = true → ∃ c, (connect cfg w).1.conn = some c ∧ c.id = w.logs.length) ∧
    ((connect cfg w).2 = false → (connect cfg w).1.conn = none ∨ (connect cfg w).1.conn = w.conn) := by
  unfold connect
  simp only
  split
  · exact ⟨by simp, fun _ => Or.inr rfl⟩
  · split
    · exact ⟨by simp, fun _ => Or.inr rfl⟩
    · generalize hw0 : ({ w with logs := w.logs ++ [[.opened w.now]] } : World) = w0
      have h1 := onceExchange_id (seqDesc "sequences::Registration" (registrationCmd cfg)) (w.now + TIMEOUT) w0 { id := w.logs.length }
      generalize onceExchange (seqDesc "sequences::Registration" (registrationCmd cfg)) (w.now + TIMEOUT) w0 { id := w.logs.length } = q1 at h1 ⊢
      obtain ⟨o, w1, c1⟩ := q1
      simp only at h1
      cases o with
      | none => exact ⟨by simp, fun _ => Or.inl (dropConn_conn _ _)⟩
      | some it =>
        cases it with
        | err => exact ⟨by simp, fun _ => Or.inl (dropConn_conn _ _)⟩
        | ok i v =>
          simp only
          have h2 := onceExchange_id (seqDesc "feig::sequences::GetSystemInfo" sysInfoCmd) (w.now + TIMEOUT) w1 c1
          generalize onceExchange (seqDesc "feig::sequences::GetSystemInfo" sysInfoCmd) (w.now + TIMEOUT) w1 c1 = q2 at h2 ⊢
          obtain ⟨o2, w2, c2⟩ := q2
          simp only at h2
          cases o2 with
          | none => exact ⟨by simp, fun _ => Or.inl (dropConn_conn _ _)⟩
          | some it2 =>
            cases it2 with
            | err => exact ⟨by simp, fun _ => Or.inl (dropConn_conn _ _)⟩
            | ok i2 v2 =>
              simp only
              split
              · split
                · exact ⟨fun _ => ⟨c2, rfl, by rw [h2, h1]⟩, by simp⟩
                · exact ⟨by simp, fun _ => Or.inl (dropConn_conn _ _)⟩
              · exact ⟨by simp, fun _ => Or.inl (dropConn_conn _ _)⟩

/-! ### connection identities: every new connection gets a brand-new identity -/

theorem runItems_nlogs {σ ρ : Type} (d : SeqDesc) (timeout : Nat) (step : σ → Item → Step σ ρ) :
    ∀ (fuel : Nat) (w : World) (c : ConnSt) (st : SeqSt) (s : σ),
      (runItems d timeout step fuel w c st s).2.1.logs.length = w.logs.length := by
  intro fuel
  induction fuel with
  | zero => intro w c st s; simp [runItems]
  | succ fuel ih =>
    intro w c st s
    simp only [runItems]
    have hn := seqNext_nlogs d (w.now + timeout) w c st
    generalize seqNext d (w.now + timeout) w c st = q at hn ⊢
    obtain ⟨o, w1, c1, st1⟩ := q
    simp only at hn
    cases o with
    | ended => simp only; exact hn
    | hang => simp only; rw [dropConn_nlogs]; exact hn
    | item it =>
      cases it with
      | err =>
        simp only
        cases step s .err with
        | ret r => simp only; exact hn
        | cont s' => simp only; rw [dropConn_nlogs]; exact hn
      | ok i v =>
        simp only
        cases step s (.ok i v) with
        | ret r => simp only; exact hn
        | cont s' =>
          simp only
          rw [ih w1 c1 st1 s']; exact hn

theorem onceExchange_nlogs (d : SeqDesc) (dl : Nat) (w : World) (c : ConnSt) : (onceExchange d dl w c).2.1.logs.length = w.logs.length := by
  have h := seqNext_nlogs d dl w c .start
  unfold onceExchange
  generalize seqNext d dl w c .start = q at h ⊢
  obtain ⟨o, w1, c1, st⟩ := q
  cases o <;> exact h

/-- the handshake opens exactly one new connection slot, whatever its outcome. -/
theorem connect_nlogs (cfg : Cfg) (w : World) : (connect cfg w).1.logs.length = w.logs.length + 1 := by
  unfold connect
  simp only
  split
  · simp
  · split
    · simp
    · generalize hw0 : ({ w with logs := w.logs ++ [[.opened w.now]] } : World) = w0
      have hl0 : w0.logs.length = w.logs.length + 1 := by rw [← hw0]; simp
      have h1 := onceExchange_nlogs (seqDesc "sequences::Registration" (registrationCmd cfg)) (w.now + TIMEOUT) w0 { id := w.logs.length }
      generalize onceExchange (seqDesc "sequences::Registration" (registrationCmd cfg)) (w.now + TIMEOUT) w0 { id := w.logs.length } = q1 at h1 ⊢
      obtain ⟨o, w1, c1⟩ := q1
      simp only at h1
      cases o with
      | none => simp only; rw [dropConn_nlogs]; simp only; rw [h1, hl0]
      | some it =>
        cases it with
        | err => simp only; rw [dropConn_nlogs, h1, hl0]
        | ok i v =>
          simp only
          have h2 := onceExchange_nlogs (seqDesc "feig::sequences::GetSystemInfo" sysInfoCmd) (w.now + TIMEOUT) w1 c1
          generalize onceExchange (seqDesc "feig::sequences::GetSystemInfo" sysInfoCmd) (w.now + TIMEOUT) w1 c1 = q2 at h2 ⊢
          obtain ⟨o2, w2, c2⟩ := q2
          simp only at h2
          cases o2 with
          | none => simp only; rw [dropConn_nlogs]; simp only; rw [h2, h1, hl0]
          | some it2 =>
            cases it2 with
            | err => simp only; rw [dropConn_nlogs, h2, h1, hl0]
            | ok i2 v2 =>
              simp only
              split
              · split
                · simp only; rw [h2, h1, hl0]
                · rw [dropConn_nlogs, h2, h1, hl0]
              · rw [dropConn_nlogs, h2, h1, hl0]

/-- `w` descends from `w0`: no connection slot disappeared, and the live connection is the one that was live
in `w0` or one that was opened since (its identity is not among the slots of `w0`). -/
def FreshRel (w0 w : World) : Prop :=
  w0.logs.length ≤ w.logs.length ∧
  ∀ c', w.conn = some c' → (∃ c, w0.conn = some c ∧ c'.id = c.id) ∨ w0.logs.length ≤ c'.id

theorem FreshRel.refl (w : World) : FreshRel w w :=
  ⟨Nat.le_refl _, fun c' h => Or.inl ⟨c', h, rfl⟩⟩

theorem freshRel_ensureConn (cfg : Cfg) (w0 w : World) (h : FreshRel w0 w) : FreshRel w0 (ensureConn cfg w).1 := by
  unfold ensureConn
  cases hc : w.conn with
  | some c => simp only; exact h
  | none =>
    simp only
    have hl := connect_nlogs cfg w
    have ho := connect_outcome cfg w
    have h01 := h.1
    refine ⟨by omega, ?_⟩
    intro c' hc'
    cases hb : (connect cfg w).2 with
    | true =>
      obtain ⟨c, h1, h2⟩ := ho.1 hb
      rw [h1] at hc'; cases hc'
      right; rw [h2]; exact h.1
    | false =>
      rcases ho.2 hb with h1 | h1
      · rw [h1] at hc'; cases hc'
      · rw [h1, hc] at hc'; cases hc'

theorem freshRel_runItems {σ ρ : Type} (d : SeqDesc) (timeout : Nat) (step : σ → Item → Step σ ρ) (fuel : Nat)
    (w0 w : World) (c : ConnSt) (st : SeqSt) (s : σ) (h : FreshRel w0 w) (hc : w.conn = some c) :
    FreshRel w0 (runItems d timeout step fuel w c st s).2.1 := by
  have hl := runItems_nlogs d timeout step fuel w c st s
  have hcn := runItems_conn d timeout step fuel w c st s
  refine ⟨by rw [hl]; exact h.1, ?_⟩
  intro c' hc'
  have h2 := hcn.2.2 c' hc'
  rcases h.2 c hc with ⟨c0, h3, h4⟩ | h3
  · exact Or.inl ⟨c0, h3, by rw [h2, h4]⟩
  · right; rw [h2]; exact h3

/-- **A dropped connection is never picked up again**: after any number of attempts of an exchange, the live
connection (if any) is the one that was live before the exchange, or one that was opened during it. -/
theorem retryLoop_fresh {σ ρ : Type} (cfg : Cfg) (d : SeqDesc) (timeout : Nat) (step : σ → Item → Step σ ρ) (w0 : World) :
    ∀ (n : Nat) (prev : Option Nat) (w : World) (s : σ), FreshRel w0 w →
      FreshRel w0 (retryLoop cfg d timeout step n prev w s).2 := by
  intro n
  induction n with
  | zero => intro prev w s h; simpa [retryLoop] using h
  | succ n ih =>
    intro prev w s h
    simp only [retryLoop]
    have ht : FreshRel w0 { w with now := throttleStart prev w.now } := h
    have he := freshRel_ensureConn cfg w0 _ ht
    generalize ensureConn cfg { w with now := throttleStart prev w.now } = q at he ⊢
    obtain ⟨w1, live⟩ := q
    simp only at he
    cases live with
    | false =>
      simp only
      cases step s .err with
      | ret r => exact he
      | cont s' => exact ih _ w1 s' he
    | true =>
      simp only
      cases hc1 : w1.conn with
      | none => exact he
      | some c =>
        simp only
        have hr := freshRel_runItems d timeout step ITEM_FUEL w0 w1 c .start s he hc1
        generalize runItems d timeout step ITEM_FUEL w1 c .start s = q2 at hr ⊢
        obtain ⟨o, w2, e⟩ := q2
        simp only at hr
        cases o with
        | ret r => exact hr
        | cont s' =>
          cases e with
          | false => exact hr
          | true => exact ih _ w2 s' hr

theorem runOp_fresh {σ ρ : Type} (cfg : Cfg) (seqName : String) (cmd : Bytes) (timeout : Nat)
    (step : σ → Item → Step σ ρ) (w : World) (s : σ) : FreshRel w (runOp cfg seqName cmd timeout step w s).2 :=
  retryLoop_fresh cfg (seqDesc seqName cmd) timeout step w ATTEMPTS none w s (FreshRel.refl w)

end Zvt
