import ZvtVerif.Client
namespace Zvt

/-! the virtual clock only moves where the model says so -/

@[simp] theorem log_now (w : World) (k : Nat) (s : String) : (w.log k s).now = w.now := rfl
@[simp] theorem log_conn (w : World) (k : Nat) (s : String) : (w.log k s).conn = w.conn := rfl

theorem releaseItems_now : ∀ (n : Nat) (w : World) (c : ConnSt), (releaseItems n w c).1.now = w.now := by
  intro n
  induction n with
  | zero => intro w c; rfl
  | succ n ih =>
    intro w c
    simp only [releaseItems]
    split
    · rfl
    · split
      · rfl
      · split
        · exact ih _ _
        · exact ih _ _
        · exact ih _ _
        · rfl
        · rfl

theorem termRx_now (w : World) (c : ConnSt) (p : Bytes) : (termRx w c p).1.now = w.now := by
  unfold termRx
  simp only
  split
  · rw [releaseItems_now]; rfl
  · rw [releaseItems_now]; rfl

theorem connWrite_now (w : World) (c : ConnSt) (p : Bytes) (w' : World) (c' : ConnSt)
    (h : connWrite w c p = some (w', c')) : w'.now = w.now := by
  unfold connWrite at h
  split at h
  · simp at h
  · simp at h
    have := termRx_now w c p
    rw [h] at this; exact this

theorem dropConn_now (w : World) (c : ConnSt) : (dropConn w c).now = w.now := by
  unfold dropConn; split <;> rfl

theorem dropConn_conn (w : World) (c : ConnSt) : (dropConn w c).conn = none := by
  unfold dropConn; rfl

/-- one `stream.next()` takes no virtual time by itself (time passes only in the caller's time-out). -/
theorem seqNext_now (d : SeqDesc) (w : World) (c : ConnSt) (st : SeqSt) : (seqNext d w c st).2.1.now = w.now := by
  unfold seqNext
  cases st with
  | done => rfl
  | start =>
    simp only
    cases hw : connWrite w c d.cmd with
    | none => rfl
    | some wc =>
      obtain ⟨w1, c1⟩ := wc
      have h1 := connWrite_now w c d.cmd w1 c1 hw
      simp only
      rcases connRead c1 with ⟨r, c2⟩
      cases r with
      | hang => exact h1
      | eof => exact h1
      | pkt p =>
        simp only
        cases parseEnum Generated.io_Ack p with
        | error e => exact h1
        | ok a =>
          simp only
          rcases connRead c2 with ⟨r2, c3⟩
          cases r2 with
          | hang => exact h1
          | eof => exact h1
          | pkt p2 =>
            simp only
            cases parseEnum d.enum p2 with
            | error e => exact h1
            | ok iv =>
              obtain ⟨i, v⟩ := iv
              simp only
              cases hw2 : connWrite w1 c3 ackBytes with
              | none => exact h1
              | some wc2 =>
                obtain ⟨w2, c4⟩ := wc2
                simp only
                rw [connWrite_now w1 c3 ackBytes w2 c4 hw2]; exact h1
  | looping =>
    simp only
    rcases connRead c with ⟨r, c2⟩
    cases r with
    | hang => rfl
    | eof => rfl
    | pkt p =>
      simp only
      cases parseEnum d.enum p with
      | error e => rfl
      | ok iv =>
        obtain ⟨i, v⟩ := iv
        simp only
        cases hw2 : connWrite w c2 ackBytes with
        | none => rfl
        | some wc2 =>
          obtain ⟨w2, c4⟩ := wc2
          simp only
          exact connWrite_now w c2 ackBytes w2 c4 hw2

theorem onceExchange_now (d : SeqDesc) (w : World) (c : ConnSt) : (onceExchange d w c).2.1.now = w.now := by
  have h := seqNext_now d w c .start
  unfold onceExchange
  generalize seqNext d w c .start = q at h ⊢
  obtain ⟨o, w1, c1, st⟩ := q
  cases o <;> exact h

/-- `inner::connect` under its guard: takes no time, or exactly `TIMEOUT`. -/
theorem connect_now (cfg : Cfg) (w : World) :
    (connect cfg w).1.now = w.now ∨ (connect cfg w).1.now = w.now + TIMEOUT := by
  unfold connect
  simp only
  split
  · left; rfl
  · split
    · right; rfl
    · generalize hw0 : ({ w with logs := w.logs ++ [[s!"open@{w.now}"]] } : World) = w0
      have hn0 : w0.now = w.now := by rw [← hw0]
      have h1 := onceExchange_now (seqDesc "sequences::Registration" (registrationCmd cfg)) w0 { id := w.logs.length }
      generalize onceExchange (seqDesc "sequences::Registration" (registrationCmd cfg)) w0 { id := w.logs.length } = q1 at h1 ⊢
      obtain ⟨o, w1, c1⟩ := q1
      simp only at h1
      cases o with
      | none => right; simp [dropConn_now]
      | some it =>
        cases it with
        | err => left; simp only; rw [dropConn_now, h1, hn0]
        | ok i v =>
          simp only
          have h2 := onceExchange_now (seqDesc "feig::sequences::GetSystemInfo" sysInfoCmd) w1 c1
          generalize onceExchange (seqDesc "feig::sequences::GetSystemInfo" sysInfoCmd) w1 c1 = q2 at h2 ⊢
          obtain ⟨o2, w2, c2⟩ := q2
          simp only at h2
          cases o2 with
          | none => right; simp [dropConn_now]
          | some it2 =>
            cases it2 with
            | err => left; simp only; rw [dropConn_now, h2, h1, hn0]
            | ok i2 v2 =>
              simp only
              split
              · split
                · left; simp only; rw [h2, h1, hn0]
                · left; rw [dropConn_now, h2, h1, hn0]
              · left; rw [dropConn_now, h2, h1, hn0]

/-- one attempt on a live connection costs at most one packet time-out. -/
theorem runItems_now {σ ρ : Type} (d : SeqDesc) (timeout : Nat) (step : σ → Item → Step σ ρ) :
    ∀ (fuel : Nat) (w : World) (c : ConnSt) (st : SeqSt) (s : σ),
      w.now ≤ (runItems d timeout step fuel w c st s).2.1.now ∧
      (runItems d timeout step fuel w c st s).2.1.now ≤ w.now + timeout := by
  intro fuel
  induction fuel with
  | zero => intro w c st s; simp [runItems]
  | succ fuel ih =>
    intro w c st s
    simp only [runItems]
    have hn := seqNext_now d w c st
    generalize seqNext d w c st = q at hn ⊢
    obtain ⟨o, w1, c1, st1⟩ := q
    simp only at hn
    cases o with
    | ended => simp only; rw [hn]; omega
    | hang => simp only; rw [dropConn_now]; simp only; rw [hn]; omega
    | item it =>
      cases it with
      | err =>
        simp only
        cases step s .err <;> (simp only; rw [dropConn_now, hn]; omega)
      | ok i v =>
        simp only
        cases step s (.ok i v) with
        | ret r => simp only; rw [hn]; omega
        | cont s' =>
          simp only
          have := ih w1 c1 st1 s'
          rw [hn] at this
          exact this

/-! ### which connection is live -/

theorem releaseItems_conn : ∀ (n : Nat) (w : World) (c : ConnSt),
    (releaseItems n w c).1.conn = w.conn ∧ (releaseItems n w c).2.id = c.id := by
  intro n
  induction n with
  | zero => intro w c; exact ⟨rfl, rfl⟩
  | succ n ih =>
    intro w c
    simp only [releaseItems]
    split
    · exact ⟨rfl, rfl⟩
    · split
      · exact ⟨rfl, rfl⟩
      · split
        · exact ih _ _
        · exact ih _ _
        · exact ih _ _
        · exact ⟨rfl, rfl⟩
        · exact ⟨rfl, rfl⟩

theorem termRx_conn (w : World) (c : ConnSt) (p : Bytes) :
    (termRx w c p).1.conn = w.conn ∧ (termRx w c p).2.id = c.id := by
  unfold termRx
  simp only
  split
  · exact releaseItems_conn 1 _ _
  · exact releaseItems_conn 2 _ _

theorem connWrite_conn (w : World) (c : ConnSt) (p : Bytes) (w' : World) (c' : ConnSt)
    (h : connWrite w c p = some (w', c')) : w'.conn = w.conn ∧ c'.id = c.id := by
  unfold connWrite at h
  split at h
  · simp at h
  · simp at h
    have := termRx_conn w c p
    rw [h] at this; exact this

theorem connRead_id (c : ConnSt) : (connRead c).2.id = c.id := by
  unfold connRead
  split
  · rfl
  · split <;> rfl

/-- a `stream.next()` never switches connections. -/
theorem seqNext_conn (d : SeqDesc) (w : World) (c : ConnSt) (st : SeqSt) :
    (seqNext d w c st).2.1.conn = w.conn ∧ (seqNext d w c st).2.2.1.id = c.id := by
  unfold seqNext
  cases st with
  | done => exact ⟨rfl, rfl⟩
  | start =>
    simp only
    cases hw : connWrite w c d.cmd with
    | none => exact ⟨rfl, rfl⟩
    | some wc =>
      obtain ⟨w1, c1⟩ := wc
      have h1 := connWrite_conn w c d.cmd w1 c1 hw
      simp only
      have hr := connRead_id c1
      generalize connRead c1 = q at hr ⊢
      obtain ⟨r, c2⟩ := q
      simp only at hr
      have h2 : w1.conn = w.conn ∧ c2.id = c.id := ⟨h1.1, by rw [hr, h1.2]⟩
      cases r with
      | hang => exact h2
      | eof => exact h2
      | pkt p =>
        simp only
        cases parseEnum Generated.io_Ack p with
        | error e => exact h2
        | ok a =>
          simp only
          have hr2 := connRead_id c2
          generalize connRead c2 = q2 at hr2 ⊢
          obtain ⟨r2, c3⟩ := q2
          simp only at hr2
          have h3 : w1.conn = w.conn ∧ c3.id = c.id := ⟨h1.1, by rw [hr2, h2.2]⟩
          cases r2 with
          | hang => exact h3
          | eof => exact h3
          | pkt p2 =>
            simp only
            cases parseEnum d.enum p2 with
            | error e => exact h3
            | ok iv =>
              obtain ⟨i, v⟩ := iv
              simp only
              cases hw2 : connWrite w1 c3 ackBytes with
              | none => exact h3
              | some wc2 =>
                obtain ⟨w2, c4⟩ := wc2
                have h4 := connWrite_conn w1 c3 ackBytes w2 c4 hw2
                simp only
                exact ⟨by rw [h4.1, h3.1], by rw [h4.2, h3.2]⟩
  | looping =>
    simp only
    have hr := connRead_id c
    generalize connRead c = q at hr ⊢
    obtain ⟨r, c2⟩ := q
    simp only at hr
    cases r with
    | hang => exact ⟨rfl, hr⟩
    | eof => exact ⟨rfl, hr⟩
    | pkt p =>
      simp only
      cases parseEnum d.enum p with
      | error e => exact ⟨rfl, hr⟩
      | ok iv =>
        obtain ⟨i, v⟩ := iv
        simp only
        cases hw2 : connWrite w c2 ackBytes with
        | none => exact ⟨rfl, hr⟩
        | some wc2 =>
          obtain ⟨w2, c4⟩ := wc2
          have h4 := connWrite_conn w c2 ackBytes w2 c4 hw2
          simp only
          exact ⟨h4.1, by rw [h4.2, hr]⟩

/-- **After a failed attempt the connection is gone; after a good one it is kept — the same one.**
`is_err` (error item or time-out) ⇒ `src.inner = None`; otherwise the live connection is still the one
the attempt started on. -/
theorem runItems_conn {σ ρ : Type} (d : SeqDesc) (timeout : Nat) (step : σ → Item → Step σ ρ) :
    ∀ (fuel : Nat) (w : World) (c : ConnSt) (st : SeqSt) (s : σ),
      ((runItems d timeout step fuel w c st s).2.2 = true → (runItems d timeout step fuel w c st s).2.1.conn = none) ∧
      ((runItems d timeout step fuel w c st s).2.2 = false →
        ∃ c', (runItems d timeout step fuel w c st s).2.1.conn = some c' ∧ c'.id = c.id) := by
  intro fuel
  induction fuel with
  | zero => intro w c st s; simp [runItems]
  | succ fuel ih =>
    intro w c st s
    simp only [runItems]
    have hn := seqNext_conn d w c st
    generalize seqNext d w c st = q at hn ⊢
    obtain ⟨o, w1, c1, st1⟩ := q
    simp only at hn
    cases o with
    | ended => simp only; exact ⟨by simp, fun _ => ⟨c1, rfl, hn.2⟩⟩
    | hang => simp only; exact ⟨fun _ => dropConn_conn _ _, by simp⟩
    | item it =>
      cases it with
      | err =>
        simp only
        cases step s .err <;> (simp only; exact ⟨fun _ => dropConn_conn _ _, by simp⟩)
      | ok i v =>
        simp only
        cases step s (.ok i v) with
        | ret r => simp only; exact ⟨by simp, fun _ => ⟨c1, rfl, hn.2⟩⟩
        | cont s' =>
          simp only
          have := ih w1 c1 st1 s'
          refine ⟨this.1, fun hf => ?_⟩
          obtain ⟨c', h1, h2⟩ := this.2 hf
          exact ⟨c', h1, by rw [h2, hn.2]⟩

theorem ensureConn_now (cfg : Cfg) (w : World) :
    w.now ≤ (ensureConn cfg w).1.now ∧ (ensureConn cfg w).1.now ≤ w.now + TIMEOUT := by
  unfold ensureConn
  cases w.conn with
  | some c => simp
  | none =>
    simp only
    rcases connect_now cfg w with h | h <;> omega

/-- budget of one attempt: throttle + connect guard + one packet time-out. -/
def attemptBudget (timeout : Nat) : Nat := THROTTLE + TIMEOUT + timeout

theorem throttleStart_ge (prev : Option Nat) (now : Nat) : now ≤ throttleStart prev now := by
  unfold throttleStart; cases prev with
  | none => simp
  | some p => exact Nat.le_max_left _ _

/-- **Retry loop.** `n` attempts end no later than `n` attempt budgets after the (throttled) start. -/
theorem retryLoop_now {σ ρ : Type} (cfg : Cfg) (d : SeqDesc) (timeout : Nat) (step : σ → Item → Step σ ρ) :
    ∀ (n : Nat) (prev : Option Nat) (w : World) (s : σ),
      (retryLoop cfg d timeout step n prev w s).2.now ≤ throttleStart prev w.now + n * attemptBudget timeout := by
  intro n
  induction n with
  | zero => intro prev w s; simp only [retryLoop]; have := throttleStart_ge prev w.now; omega
  | succ n ih =>
    intro prev w s
    simp only [retryLoop]
    generalize hstart : throttleStart prev w.now = start
    have he := ensureConn_now cfg { w with now := start }
    generalize ensureConn cfg { w with now := start } = q at he ⊢
    obtain ⟨w1, live⟩ := q
    simp only at he
    have hB : attemptBudget timeout = THROTTLE + TIMEOUT + timeout := rfl
    have hT : THROTTLE = 2 := rfl
    have hnext : ∀ wn : World, wn.now ≤ start + TIMEOUT + timeout →
        throttleStart (some start) wn.now ≤ start + attemptBudget timeout := by
      intro wn h
      simp only [throttleStart]
      apply Nat.max_le.mpr; constructor <;> omega
    cases live with
    | false =>
      simp only
      cases step s .err with
      | ret r => simp only; rw [Nat.succ_mul]; omega
      | cont s' =>
        simp only
        have := ih (some start) w1 s'
        have := hnext w1 (by omega)
        rw [Nat.succ_mul]; omega
    | true =>
      simp only
      cases hc1 : w1.conn with
      | none => simp only; rw [Nat.succ_mul]; omega
      | some c =>
        simp only
        have hr := runItems_now d timeout step ITEM_FUEL w1 c .start s
        generalize runItems d timeout step ITEM_FUEL w1 c .start s = q2 at hr ⊢
        obtain ⟨o, w2, e⟩ := q2
        simp only at hr
        cases o with
        | ret r => simp only; rw [Nat.succ_mul]; omega
        | cont s' =>
          cases e with
          | false => simp only; rw [Nat.succ_mul]; omega
          | true =>
            simp only
            have := ih (some start) w2 s'
            have := hnext w2 (by omega)
            rw [Nat.succ_mul]; omega

/-- **Every operation returns within its retry budget**: the whole retry loop of one exchange ends no
later than `ATTEMPTS × (THROTTLE + TIMEOUT + timeout)` virtual seconds after it began — whatever the
terminal does (silence at any point included). -/
theorem runOp_now {σ ρ : Type} (cfg : Cfg) (seqName : String) (cmd : Bytes) (timeout : Nat)
    (step : σ → Item → Step σ ρ) (w : World) (s : σ) :
    (runOp cfg seqName cmd timeout step w s).2.now ≤ w.now + ATTEMPTS * attemptBudget timeout := by
  unfold runOp
  have := retryLoop_now cfg (seqDesc seqName cmd) timeout step ATTEMPTS none w s
  simpa [throttleStart] using this

/-! ### an early result is always produced by the caller's loop body -/

theorem runItems_ret {σ ρ : Type} (d : SeqDesc) (timeout : Nat) (step : σ → Item → Step σ ρ) (P : ρ → Prop)
    (hP : ∀ s it r, step s it = .ret r → P r) :
    ∀ (fuel : Nat) (w : World) (c : ConnSt) (st : SeqSt) (s : σ) (r : ρ),
      (runItems d timeout step fuel w c st s).1 = .ret r → P r := by
  intro fuel
  induction fuel with
  | zero => intro w c st s r h; simp [runItems] at h
  | succ fuel ih =>
    intro w c st s r h
    simp only [runItems] at h
    generalize seqNext d w c st = q at h
    obtain ⟨o, w1, c1, st1⟩ := q
    cases o with
    | ended => simp at h
    | hang => simp at h
    | item it =>
      cases it with
      | err =>
        simp only at h
        cases hs : step s .err with
        | ret r' => rw [hs] at h; simp only at h; rw [← (show r' = r by injection h)]; exact hP s .err r' hs
        | cont s' => rw [hs] at h; simp at h
      | ok i v =>
        simp only at h
        cases hs : step s (.ok i v) with
        | ret r' => rw [hs] at h; simp only at h; rw [← (show r' = r by injection h)]; exact hP s _ r' hs
        | cont s' => rw [hs] at h; simp only at h; exact ih w1 c1 st1 s' r h

theorem retryLoop_ret {σ ρ : Type} (cfg : Cfg) (d : SeqDesc) (timeout : Nat) (step : σ → Item → Step σ ρ) (P : ρ → Prop)
    (hP : ∀ s it r, step s it = .ret r → P r) :
    ∀ (n : Nat) (prev : Option Nat) (w : World) (s : σ) (r : ρ),
      (retryLoop cfg d timeout step n prev w s).1 = .ret r → P r := by
  intro n
  induction n with
  | zero => intro prev w s r h; simp [retryLoop] at h
  | succ n ih =>
    intro prev w s r h
    simp only [retryLoop] at h
    generalize ensureConn cfg { w with now := throttleStart prev w.now } = q at h
    obtain ⟨w1, live⟩ := q
    cases live with
    | false =>
      simp only at h
      cases hs : step s .err with
      | ret r' => rw [hs] at h; simp only at h; rw [← (show r' = r by injection h)]; exact hP s .err r' hs
      | cont s' => rw [hs] at h; simp only at h; exact ih _ w1 s' r h
    | true =>
      simp only at h
      cases hc : w1.conn with
      | none => rw [hc] at h; simp at h
      | some c =>
        rw [hc] at h
        simp only at h
        have hr := runItems_ret d timeout step P hP ITEM_FUEL w1 c .start s
        generalize runItems d timeout step ITEM_FUEL w1 c .start s = q2 at h hr
        obtain ⟨o, w2, e⟩ := q2
        cases o with
        | ret r' => simp only at h; rw [← (show r' = r by injection h)]; exact hr r' rfl
        | cont s' =>
          cases e with
          | true => simp only at h; exact ih _ w2 s' r h
          | false => simp at h

/-- whatever the terminal does, an operation's early result satisfies every property that all results of
its loop body satisfy. -/
theorem runOp_ret_from_step {σ ρ : Type} (cfg : Cfg) (seqName : String) (cmd : Bytes) (timeout : Nat)
    (step : σ → Item → Step σ ρ) (w : World) (s : σ) (P : ρ → Prop) (hP : ∀ s it r, step s it = .ret r → P r) :
    ∀ r, (runOp cfg seqName cmd timeout step w s).1 = .ret r → P r := by
  intro r h
  exact retryLoop_ret cfg (seqDesc seqName cmd) timeout step P hP ATTEMPTS none w s r h

/-! ### the handshake: what `connect` leaves behind -/

theorem onceExchange_id (d : SeqDesc) (w : World) (c : ConnSt) : (onceExchange d w c).2.2.id = c.id := by
  have h := (seqNext_conn d w c .start).2
  unfold onceExchange
  generalize seqNext d w c .start = q at h ⊢
  obtain ⟨o, w1, c1, st⟩ := q
  cases o <;> exact h

/-- **The handshake either yields a vetted connection with a brand-new identity, or no connection at all.**
`true` only on the one path where registration and the identity query were both answered and the serial
number matched (every other path drops the socket); the new connection's identity is the next unused one,
so it is never a connection that existed before. -/
theorem connect_outcome (cfg : Cfg) (w : World) :
    ((connect cfg w).2 = true → ∃ c, (connect cfg w).1.conn = some c ∧ c.id = w.logs.length) ∧
    ((connect cfg w).2 = false → (connect cfg w).1.conn = none ∨ (connect cfg w).1.conn = w.conn) := by
  unfold connect
  simp only
  split
  · exact ⟨by simp, fun _ => Or.inr rfl⟩
  · split
    · exact ⟨by simp, fun _ => Or.inr rfl⟩
    · generalize hw0 : ({ w with logs := w.logs ++ [[s!"open@{w.now}"]] } : World) = w0
      have h1 := onceExchange_id (seqDesc "sequences::Registration" (registrationCmd cfg)) w0 { id := w.logs.length }
      generalize onceExchange (seqDesc "sequences::Registration" (registrationCmd cfg)) w0 { id := w.logs.length } = q1 at h1 ⊢
      obtain ⟨o, w1, c1⟩ := q1
      simp only at h1
      cases o with
      | none => exact ⟨by simp, fun _ => Or.inl (dropConn_conn _ _)⟩
      | some it =>
        cases it with
        | err => exact ⟨by simp, fun _ => Or.inl (dropConn_conn _ _)⟩
        | ok i v =>
          simp only
          have h2 := onceExchange_id (seqDesc "feig::sequences::GetSystemInfo" sysInfoCmd) w1 c1
          generalize onceExchange (seqDesc "feig::sequences::GetSystemInfo" sysInfoCmd) w1 c1 = q2 at h2 ⊢
          obtain ⟨o2, w2, c2⟩ := q2
          simp only at h2
          cases o2 with
          | none => exact ⟨by simp, fun _ => Or.inl (dropConn_conn _ _)⟩
          | some it2 =>
            cases it2 with
            | err => exact ⟨by simp, fun _ => Or.inl (dropConn_conn _ _)⟩
            | ok i2 v2 =>
              simp only
              split
              · split
                · exact ⟨fun _ => ⟨c2, rfl, by rw [h2, h1]⟩, by simp⟩
                · exact ⟨by simp, fun _ => Or.inl (dropConn_conn _ _)⟩
              · exact ⟨by simp, fun _ => Or.inl (dropConn_conn _ _)⟩

/-! ### connection identities: every new connection gets a brand-new identity -/

@[simp] theorem log_nlogs (w : World) (k : Nat) (s : String) : (w.log k s).logs.length = w.logs.length := by
  simp [World.log]

theorem releaseItems_nlogs : ∀ (n : Nat) (w : World) (c : ConnSt), (releaseItems n w c).1.logs.length = w.logs.length := by
  intro n
  induction n with
  | zero => intro w c; rfl
  | succ n ih =>
    intro w c
    simp only [releaseItems]
    split
    · rfl
    · split
      · rfl
      · split
        · exact ih _ _
        · exact ih _ _
        · exact ih _ _
        · rfl
        · simp

theorem termRx_nlogs (w : World) (c : ConnSt) (p : Bytes) : (termRx w c p).1.logs.length = w.logs.length := by
  unfold termRx
  simp only
  split
  · rw [releaseItems_nlogs]; simp
  · rw [releaseItems_nlogs]; simp

theorem connWrite_nlogs (w : World) (c : ConnSt) (p : Bytes) (w' : World) (c' : ConnSt)
    (h : connWrite w c p = some (w', c')) : w'.logs.length = w.logs.length := by
  unfold connWrite at h
  split at h
  · simp at h
  · simp at h
    have := termRx_nlogs w c p
    rw [h] at this; exact this

theorem dropConn_nlogs (w : World) (c : ConnSt) : (dropConn w c).logs.length = w.logs.length := by
  unfold dropConn; split <;> simp

theorem seqNext_nlogs (d : SeqDesc) (w : World) (c : ConnSt) (st : SeqSt) :
    (seqNext d w c st).2.1.logs.length = w.logs.length := by
  unfold seqNext
  cases st with
  | done => rfl
  | start =>
    simp only
    cases hw : connWrite w c d.cmd with
    | none => rfl
    | some wc =>
      obtain ⟨w1, c1⟩ := wc
      have h1 := connWrite_nlogs w c d.cmd w1 c1 hw
      simp only
      rcases connRead c1 with ⟨r, c2⟩
      cases r with
      | hang => exact h1
      | eof => exact h1
      | pkt p =>
        simp only
        cases parseEnum Generated.io_Ack p with
        | error e => exact h1
        | ok a =>
          simp only
          rcases connRead c2 with ⟨r2, c3⟩
          cases r2 with
          | hang => exact h1
          | eof => exact h1
          | pkt p2 =>
            simp only
            cases parseEnum d.enum p2 with
            | error e => exact h1
            | ok iv =>
              obtain ⟨i, v⟩ := iv
              simp only
              cases hw2 : connWrite w1 c3 ackBytes with
              | none => exact h1
              | some wc2 =>
                obtain ⟨w2, c4⟩ := wc2
                simp only
                rw [connWrite_nlogs w1 c3 ackBytes w2 c4 hw2]; exact h1
  | looping =>
    simp only
    rcases connRead c with ⟨r, c2⟩
    cases r with
    | hang => rfl
    | eof => rfl
    | pkt p =>
      simp only
      cases parseEnum d.enum p with
      | error e => rfl
      | ok iv =>
        obtain ⟨i, v⟩ := iv
        simp only
        cases hw2 : connWrite w c2 ackBytes with
        | none => rfl
        | some wc2 =>
          obtain ⟨w2, c4⟩ := wc2
          simp only
          exact connWrite_nlogs w c2 ackBytes w2 c4 hw2

theorem runItems_nlogs {σ ρ : Type} (d : SeqDesc) (timeout : Nat) (step : σ → Item → Step σ ρ) :
    ∀ (fuel : Nat) (w : World) (c : ConnSt) (st : SeqSt) (s : σ),
      (runItems d timeout step fuel w c st s).2.1.logs.length = w.logs.length := by
  intro fuel
  induction fuel with
  | zero => intro w c st s; simp [runItems]
  | succ fuel ih =>
    intro w c st s
    simp only [runItems]
    have hn := seqNext_nlogs d w c st
    generalize seqNext d w c st = q at hn ⊢
    obtain ⟨o, w1, c1, st1⟩ := q
    simp only at hn
    cases o with
    | ended => simp only; exact hn
    | hang => simp only; rw [dropConn_nlogs]; exact hn
    | item it =>
      cases it with
      | err =>
        simp only
        cases step s .err <;> (simp only; rw [dropConn_nlogs]; exact hn)
      | ok i v =>
        simp only
        cases step s (.ok i v) with
        | ret r => simp only; exact hn
        | cont s' =>
          simp only
          rw [ih w1 c1 st1 s']; exact hn

theorem onceExchange_nlogs (d : SeqDesc) (w : World) (c : ConnSt) : (onceExchange d w c).2.1.logs.length = w.logs.length := by
  have h := seqNext_nlogs d w c .start
  unfold onceExchange
  generalize seqNext d w c .start = q at h ⊢
  obtain ⟨o, w1, c1, st⟩ := q
  cases o <;> exact h

/-- the handshake opens exactly one new connection slot, whatever its outcome. -/
theorem connect_nlogs (cfg : Cfg) (w : World) : (connect cfg w).1.logs.length = w.logs.length + 1 := by
  unfold connect
  simp only
  split
  · simp
  · split
    · simp
    · generalize hw0 : ({ w with logs := w.logs ++ [[s!"open@{w.now}"]] } : World) = w0
      have hl0 : w0.logs.length = w.logs.length + 1 := by rw [← hw0]; simp
      have h1 := onceExchange_nlogs (seqDesc "sequences::Registration" (registrationCmd cfg)) w0 { id := w.logs.length }
      generalize onceExchange (seqDesc "sequences::Registration" (registrationCmd cfg)) w0 { id := w.logs.length } = q1 at h1 ⊢
      obtain ⟨o, w1, c1⟩ := q1
      simp only at h1
      cases o with
      | none => simp only; rw [dropConn_nlogs]; simp only; rw [h1, hl0]
      | some it =>
        cases it with
        | err => simp only; rw [dropConn_nlogs, h1, hl0]
        | ok i v =>
          simp only
          have h2 := onceExchange_nlogs (seqDesc "feig::sequences::GetSystemInfo" sysInfoCmd) w1 c1
          generalize onceExchange (seqDesc "feig::sequences::GetSystemInfo" sysInfoCmd) w1 c1 = q2 at h2 ⊢
          obtain ⟨o2, w2, c2⟩ := q2
          simp only at h2
          cases o2 with
          | none => simp only; rw [dropConn_nlogs]; simp only; rw [h2, h1, hl0]
          | some it2 =>
            cases it2 with
            | err => simp only; rw [dropConn_nlogs, h2, h1, hl0]
            | ok i2 v2 =>
              simp only
              split
              · split
                · simp only; rw [h2, h1, hl0]
                · rw [dropConn_nlogs, h2, h1, hl0]
              · rw [dropConn_nlogs, h2, h1, hl0]

/-- `w` descends from `w0`: no connection slot disappeared, and the live connection is the one that was live
in `w0` or one that was opened since (its identity is not among the slots of `w0`). -/
def FreshRel (w0 w : World) : Prop :=
  w0.logs.length ≤ w.logs.length ∧
  ∀ c', w.conn = some c' → (∃ c, w0.conn = some c ∧ c'.id = c.id) ∨ w0.logs.length ≤ c'.id

theorem FreshRel.refl (w : World) : FreshRel w w :=
  ⟨Nat.le_refl _, fun c' h => Or.inl ⟨c', h, rfl⟩⟩

theorem freshRel_ensureConn (cfg : Cfg) (w0 w : World) (h : FreshRel w0 w) : FreshRel w0 (ensureConn cfg w).1 := by
  unfold ensureConn
  cases hc : w.conn with
  | some c => simp only; exact h
  | none =>
    simp only
    have hl := connect_nlogs cfg w
    have ho := connect_outcome cfg w
    have h01 := h.1
    refine ⟨by omega, ?_⟩
    intro c' hc'
    cases hb : (connect cfg w).2 with
    | true =>
      obtain ⟨c, h1, h2⟩ := ho.1 hb
      rw [h1] at hc'; cases hc'
      right; rw [h2]; exact h.1
    | false =>
      rcases ho.2 hb with h1 | h1
      · rw [h1] at hc'; cases hc'
      · rw [h1, hc] at hc'; cases hc'

theorem freshRel_runItems {σ ρ : Type} (d : SeqDesc) (timeout : Nat) (step : σ → Item → Step σ ρ) (fuel : Nat)
    (w0 w : World) (c : ConnSt) (st : SeqSt) (s : σ) (h : FreshRel w0 w) (hc : w.conn = some c) :
    FreshRel w0 (runItems d timeout step fuel w c st s).2.1 := by
  have hl := runItems_nlogs d timeout step fuel w c st s
  have hcn := runItems_conn d timeout step fuel w c st s
  refine ⟨by rw [hl]; exact h.1, ?_⟩
  intro c' hc'
  cases hb : (runItems d timeout step fuel w c st s).2.2 with
  | true => rw [hcn.1 hb] at hc'; cases hc'
  | false =>
    obtain ⟨c2, h1, h2⟩ := hcn.2 hb
    rw [h1] at hc'; cases hc'
    rcases h.2 c hc with ⟨c0, h3, h4⟩ | h3
    · exact Or.inl ⟨c0, h3, by rw [h2, h4]⟩
    · right; rw [h2]; exact h3

/-- **A dropped connection is never picked up again**: after any number of attempts of an exchange, the live
connection (if any) is the one that was live before the exchange, or one that was opened during it. -/
theorem retryLoop_fresh {σ ρ : Type} (cfg : Cfg) (d : SeqDesc) (timeout : Nat) (step : σ → Item → Step σ ρ) (w0 : World) :
    ∀ (n : Nat) (prev : Option Nat) (w : World) (s : σ), FreshRel w0 w →
      FreshRel w0 (retryLoop cfg d timeout step n prev w s).2 := by
  intro n
  induction n with
  | zero => intro prev w s h; simpa [retryLoop] using h
  | succ n ih =>
    intro prev w s h
    simp only [retryLoop]
    have ht : FreshRel w0 { w with now := throttleStart prev w.now } := h
    have he := freshRel_ensureConn cfg w0 _ ht
    generalize ensureConn cfg { w with now := throttleStart prev w.now } = q at he ⊢
    obtain ⟨w1, live⟩ := q
    simp only at he
    cases live with
    | false =>
      simp only
      cases step s .err with
      | ret r => exact he
      | cont s' => exact ih _ w1 s' he
    | true =>
      simp only
      cases hc1 : w1.conn with
      | none => exact he
      | some c =>
        simp only
        have hr := freshRel_runItems d timeout step ITEM_FUEL w0 w1 c .start s he hc1
        generalize runItems d timeout step ITEM_FUEL w1 c .start s = q2 at hr ⊢
        obtain ⟨o, w2, e⟩ := q2
        simp only at hr
        cases o with
        | ret r => exact hr
        | cont s' =>
          cases e with
          | false => exact hr
          | true => exact ih _ w2 s' hr

theorem runOp_fresh {σ ρ : Type} (cfg : Cfg) (seqName : String) (cmd : Bytes) (timeout : Nat)
    (step : σ → Item → Step σ ρ) (w : World) (s : σ) : FreshRel w (runOp cfg seqName cmd timeout step w s).2 :=
  retryLoop_fresh cfg (seqDesc seqName cmd) timeout step w ATTEMPTS none w s (FreshRel.refl w)

end Zvt
