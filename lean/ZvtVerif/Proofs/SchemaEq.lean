/-
  Structural Boolean equality on schemas with a soundness proof, so that table equalities
  (`Generated.shipped = Spec.shipped`) can be decided by kernel evaluation.
-/
import ZvtVerif.Schema
namespace Zvt

mutual
def Ty.beq : Ty → Ty → Bool
  | .int a, .int b => a == b
  | .str, .str => true
  | .bytes, .bytes => true
  | .dateTime, .dateTime => true
  | .struct a, .struct b => Field.beqList a b
  | .opt a, .opt b => Ty.beq a b
  | .vec a, .vec b => Ty.beq a b
  | _, _ => false
def Field.beq : Field → Field → Bool
  | .mk n1 t1 l1 e1 ty1, .mk n2 t2 l2 e2 ty2 =>
    n1 == n2 && t1 == t2 && decide (l1 = l2) && decide (e1 = e2) && Ty.beq ty1 ty2
def Field.beqList : List Field → List Field → Bool
  | [], [] => true
  | a :: as, b :: bs => Field.beq a b && Field.beqList as bs
  | _, _ => false
end

mutual
theorem Ty.beq_sound : ∀ (a b : Ty), Ty.beq a b = true → a = b
  | .int a, .int b, h => by simp [Ty.beq] at h; rw [h]
  | .str, .str, _ => rfl
  | .bytes, .bytes, _ => rfl
  | .dateTime, .dateTime, _ => rfl
  | .struct a, .struct b, h => by simp only [Ty.beq] at h; rw [Field.beqList_sound a b h]
  | .opt a, .opt b, h => by simp only [Ty.beq] at h; rw [Ty.beq_sound a b h]
  | .vec a, .vec b, h => by simp only [Ty.beq] at h; rw [Ty.beq_sound a b h]
  | .int _, .str, h | .int _, .bytes, h | .int _, .dateTime, h | .int _, .struct _, h | .int _, .opt _, h | .int _, .vec _, h => by simp [Ty.beq] at h
  | .str, .int _, h | .str, .bytes, h | .str, .dateTime, h | .str, .struct _, h | .str, .opt _, h | .str, .vec _, h => by simp [Ty.beq] at h
  | .bytes, .int _, h | .bytes, .str, h | .bytes, .dateTime, h | .bytes, .struct _, h | .bytes, .opt _, h | .bytes, .vec _, h => by simp [Ty.beq] at h
  | .dateTime, .int _, h | .dateTime, .str, h | .dateTime, .bytes, h | .dateTime, .struct _, h | .dateTime, .opt _, h | .dateTime, .vec _, h => by simp [Ty.beq] at h
  | .struct _, .int _, h | .struct _, .str, h | .struct _, .bytes, h | .struct _, .dateTime, h | .struct _, .opt _, h | .struct _, .vec _, h => by simp [Ty.beq] at h
  | .opt _, .int _, h | .opt _, .str, h | .opt _, .bytes, h | .opt _, .dateTime, h | .opt _, .struct _, h | .opt _, .vec _, h => by simp [Ty.beq] at h
  | .vec _, .int _, h | .vec _, .str, h | .vec _, .bytes, h | .vec _, .dateTime, h | .vec _, .struct _, h | .vec _, .opt _, h => by simp [Ty.beq] at h
theorem Field.beq_sound : ∀ (a b : Field), Field.beq a b = true → a = b
  | .mk n1 t1 l1 e1 ty1, .mk n2 t2 l2 e2 ty2, h => by
    simp only [Field.beq, Bool.and_eq_true, beq_iff_eq, decide_eq_true_eq] at h
    obtain ⟨⟨⟨⟨h1, h2⟩, h3⟩, h4⟩, h5⟩ := h
    rw [h1, h2, h3, h4, Ty.beq_sound ty1 ty2 h5]
theorem Field.beqList_sound : ∀ (a b : List Field), Field.beqList a b = true → a = b
  | [], [], _ => rfl
  | a :: as, b :: bs, h => by
    simp only [Field.beqList, Bool.and_eq_true] at h
    rw [Field.beq_sound a b h.1, Field.beqList_sound as bs h.2]
  | [], _ :: _, h => by simp [Field.beqList] at h
  | _ :: _, [], h => by simp [Field.beqList] at h
end

def StructDef.beq (a b : StructDef) : Bool :=
  a.name == b.name && a.ctrl == b.ctrl && Field.beqList a.fields b.fields

theorem StructDef.beq_sound (a b : StructDef) (h : StructDef.beq a b = true) : a = b := by
  cases a; cases b
  simp only [StructDef.beq, Bool.and_eq_true, beq_iff_eq] at h
  obtain ⟨⟨h1, h2⟩, h3⟩ := h
  rw [StructDef.mk.injEq]
  exact ⟨h1, h2, Field.beqList_sound _ _ h3⟩

def structsBeq : List StructDef → List StructDef → Bool
  | [], [] => true
  | a :: as, b :: bs => StructDef.beq a b && structsBeq as bs
  | _, _ => false

theorem structsBeq_sound : ∀ (a b : List StructDef), structsBeq a b = true → a = b
  | [], [], _ => rfl
  | a :: as, b :: bs, h => by
    simp only [structsBeq, Bool.and_eq_true] at h
    rw [StructDef.beq_sound a b h.1, structsBeq_sound as bs h.2]
  | [], _ :: _, h => by simp [structsBeq] at h
  | _ :: _, [], h => by simp [structsBeq] at h

def EnumDef.beq (a b : EnumDef) : Bool :=
  a.name == b.name && (a.variants.map (·.1)) == (b.variants.map (·.1)) && structsBeq (a.variants.map (·.2)) (b.variants.map (·.2))

def enumsBeq : List EnumDef → List EnumDef → Bool
  | [], [] => true
  | a :: as, b :: bs => EnumDef.beq a b && enumsBeq as bs
  | _, _ => false

end Zvt
