/-
  Sequence.lean — mirror of the `Sequence::into_stream` bodies (zvt/src/sequences.rs: the default
  "once" body and the standard "loop" body whose final-packet set is extracted from the source by the
  translator) and of `WriteFile::into_stream` (zvt/src/feig/sequences.rs), run against the scripted
  terminal of the harness.
-/
import ZvtVerif.Transport
import ZvtVerif.Generated
namespace Zvt

/-- observable events of one exchange, in order. -/
inductive Ev where
  | w (b : Bytes)                 -- the client wrote these bytes
  | r (n : Nat)                   -- the client consumed n bytes (consecutive reads merged)
  | y (idx : Nat) (v : Val)       -- the stream yielded Ok(variant idx)
  | e (kind : String)             -- the stream yielded Err
  | fin                           -- the stream ended
  | hang                          -- the client waits for bytes that will never come
  deriving Repr

/-- The scripted terminal: `avail` = bytes sent and not yet consumed, `items` = reply items not yet
released, `closed` = the terminal has shut down its sending side. It releases two items after the
command (acknowledgement and first reply) and one item after each further packet from the client; when
no item is left it closes. -/
structure Term where
  avail : Bytes
  items : List Bytes
  closed : Bool
  deriving Repr

def Term.release (t : Term) : Term :=
  match t.items with
  | [] => { t with closed := true }
  | i :: is => { avail := t.avail ++ i, items := is, closed := is.isEmpty }

def Term.start (items : List Bytes) : Term := { avail := [], items := items, closed := items.isEmpty }

inductive RdOut where
  | pkt (p : Bytes)
  | eof
  | hang

/-- one `read_packet` framing step against the terminal: consumes exactly one APDU if it is available. -/
def Term.readPkt (t : Term) : RdOut × Term × List Ev :=
  match readFrame t.avail with
  | .packet p rest => (.pkt p, { t with avail := rest }, [.r p.length])
  | .eof n =>
    if t.closed then (.eof, { t with avail := [] }, if n = 0 then [] else [.r n])
    else (.hang, t, [.hang])

def ackBytes : Bytes := [0x80, 0x00, 0x00]

def errName : Err → String
  | .incomplete => "incomplete"
  | .missing ts => "missing:" ++ ",".intercalate (ts.map toString)
  | .nonImplemented => "nonImplemented"
  | .wrongTag t => s!"wrongTag:{t}"
  | .duplicateTag t => s!"duplicateTag:{t}"
  | .aborted c => s!"aborted:{c}"
  | .panic _ => "panic"
  | .outOfFuel => "hang"

/-- `write_packet_with_ack`: the command goes out, the terminal reacts, the acknowledgement is read
through the one-variant enum `Ack`. Returns the terminal state or the error event. -/
def writeWithAck (cmd : Bytes) (t : Term) : Option Term × List Ev :=
  let t := t.release.release
  match t.readPkt with
  | (.pkt p, t', evs) =>
    match parseEnum Generated.io_Ack p with
    | .ok _ => (some t', [.w cmd] ++ evs)
    | .error er => (none, [.w cmd] ++ evs ++ [.e (errName er), .fin])
  | (.eof, _, evs) => (none, [.w cmd] ++ evs ++ [.e "io:eof", .fin])
  | (.hang, _, evs) => (none, [.w cmd] ++ evs)

/-- the standard loop body: read, acknowledge, yield, stop after a final variant. -/
def seqLoop (e : EnumDef) (isFinal : Nat → Bool) (once : Bool) : Nat → Term → List Ev
  | 0, _ => [.hang]
  | fuel + 1, t =>
    match t.readPkt with
    | (.hang, _, evs) => evs
    | (.eof, _, evs) => evs ++ [.e "io:eof", .fin]
    | (.pkt p, t', evs) =>
      match parseEnum e p with
      | .error er => evs ++ [.e (errName er), .fin]
      | .ok (i, v) =>
        let t'' := t'.release
        if once ∨ isFinal i then evs ++ [.w ackBytes, .y i v, .fin]
        else evs ++ [.w ackBytes, .y i v] ++ seqLoop e isFinal once fuel t''

/-- is variant `i` of enum `e` one of the final packets of the command? -/
def isFinalOf (e : EnumDef) (finals : List String) (i : Nat) : Bool :=
  match e.variants[i]? with
  | some (n, _) => finals.contains n
  | none => false

/-- a whole `Sequence::into_stream` run: `kind` and `finals` come from the translator. -/
def runSeq (e : EnumDef) (once : Bool) (finals : List String) (cmd : Bytes) (items : List Bytes) : List Ev :=
  match writeWithAck cmd (Term.start items) with
  | (none, evs) => evs
  | (some t, evs) => evs ++ seqLoop e (isFinalOf e finals) once (items.length + 2) t

end Zvt
