/-
  Schema.lean — the data the derive macro sees (`Ty`, `Field`, `StructDef`, `EnumDef`),
  the values it produces (`Val`), and the leaf codecs (value encodings of non-struct types).
-/
import ZvtVerif.Encoding
namespace Zvt

inductive Enc where
  | dflt | bigEndian | bcd | hex | utf8 | custom | prrn
  | unknown (name : String)
  deriving DecidableEq, Repr, Inhabited

mutual
/-- Rust-side field types. `int w`: `u8`/`u16`/`u32`/`u64`/`usize` by width in bytes
(64-bit target); `bytes`: `Vec<u8>` under the `Custom` encoding. -/
inductive Ty where
  | int (w : Nat)
  | str
  | bytes
  | dateTime
  | struct (fs : List Field)
  | opt (t : Ty)
  | vec (t : Ty)
/-- one struct field with its `#[zvt_bmp]` / `#[zvt_tlv]` attribute as parsed by the macro. -/
inductive Field where
  | mk (name : String) (tag : Option Nat) (len : LenKind) (enc : Enc) (ty : Ty)
end

instance : Inhabited Ty := ⟨.int 1⟩
instance : Inhabited Field := ⟨.mk "" none .empty .dflt (.int 1)⟩

def Field.name : Field → String | .mk n _ _ _ _ => n
def Field.tag : Field → Option Nat | .mk _ t _ _ _ => t
def Field.len : Field → LenKind | .mk _ _ l _ _ => l
def Field.enc : Field → Enc | .mk _ _ _ e _ => e
def Field.ty : Field → Ty | .mk _ _ _ _ t => t

/-- `is_optional` of zvt_derive: last path segment `Option` or `Vec`. -/
def Ty.isOptional : Ty → Bool
  | .opt _ => true
  | .vec _ => true
  | .bytes => true
  | _ => false

structure StructDef where
  name : String
  ctrl : Option (Nat × Nat)
  fields : List Field

instance : Inhabited StructDef := ⟨⟨"", none, []⟩⟩

/-- a `#[derive(ZvtEnum)]` enum: variant name and payload struct. -/
structure EnumDef where
  name : String
  variants : List (String × StructDef)

instance : Inhabited EnumDef := ⟨⟨"", []⟩⟩

/-- Values. `dt date time`: `date = y*10000 + m*100 + d`, `time = h*10000 + mi*100 + s`. -/
inductive Val where
  | num (n : Nat)
  | str (cs : List Nat)
  | raw (b : Bytes)
  | dt (date time : Nat)
  | none
  | some (v : Val)
  | vec (vs : List Val)
  | struct (vs : List Val)
  deriving Repr, Inhabited

mutual
/-- structural equality on values (Boolean, kernel-evaluable). -/
def Val.beq : Val → Val → Bool
  | .num a, .num b => a == b
  | .str a, .str b => a == b
  | .raw a, .raw b => a == b
  | .dt a b, .dt c d => a == c && b == d
  | .none, .none => true
  | .some a, .some b => Val.beq a b
  | .vec a, .vec b => Val.beqList a b
  | .struct a, .struct b => Val.beqList a b
  | _, _ => false
def Val.beqList : List Val → List Val → Bool
  | [], [] => true
  | a :: as, b :: bs => Val.beq a b && Val.beqList as bs
  | _, _ => false
end

/-- `r` is `ok (v, rest)` (Boolean form used in `decide`d examples). -/
def Res.isOkVal (r : Res (Val × Bytes)) (v : Val) (rest : Bytes) : Bool :=
  match r with
  | .ok (v', r') => Val.beq v' v && r' == rest
  | .error _ => false

/-! ### Generic `<TAG><LENGTH><DATA>` triple (`ZvtSerializerImpl` default methods) -/

/-- the encoded tag in front of a field (nothing for an untagged field). -/
def tagPrefix (tagEnc : Nat → Bytes) (tag : Option Nat) : Bytes :=
  match tag with
  | none => []
  | some t => tagEnc t

def serTagged (tagEnc : Nat → Bytes) (L : LenKind) (tag : Option Nat) (payload : Res Bytes) : Res Bytes :=
  match payload with
  | .error e => .error e
  | .ok p =>
    match L.ser p.length with
    | .error e => .error e
    | .ok l => .ok (tagPrefix tagEnc tag ++ l ++ p)

def stripTag (tagDec : Bytes → Res (Nat × Bytes)) (tag : Option Nat) (bytes : Bytes) : Res Bytes :=
  match tag with
  | none => .ok bytes
  | some t =>
    match tagDec bytes with
    | .error e => .error e
    | .ok (a, r) => if a ≠ t then .error (.wrongTag a) else .ok r

def deserTagged {α : Type} (tagDec : Bytes → Res (Nat × Bytes)) (L : LenKind)
    (dec : Bytes → Res (α × Bytes)) (tag : Option Nat) (bytes : Bytes) : Res (α × Bytes) :=
  match stripTag tagDec tag bytes with
  | .error e => .error e
  | .ok bytes =>
    match L.de bytes with
    | .error e => .error e
    | .ok (length, payload) =>
      if length > payload.length then .error .incomplete
      else
        match dec (payload.take length) with
        | .error e => .error e
        | .ok (v, rem) =>
          -- `&payload[length - remainder.len()..]`: usize subtraction
          if rem.length > length then .error (.panic "sub")
          else .ok (v, payload.drop (length - rem.length))

/-! ### Date-time decoder (`Encoding<NaiveDateTime> for Default::decode`) -/

structure DtAcc where
  date : Option Nat := none
  time : Option Nat := none

def dtLoop : Nat → Bytes → DtAcc → Res (DtAcc × Bytes)
  | 0, _, _ => .error .outOfFuel
  | fuel + 1, data, acc =>
    if data.isEmpty then .ok (acc, data)
    else
      match tagDecDefault data with
      | .error e => .error e
      | .ok (t, _) =>
        if t = 0x1f0e then
          if acc.date.isSome then .error (.duplicateTag 0x1f0e)
          else
            match deserTagged tagDecDefault .tlv (bcdDec 8) (some 0x1f0e) data with
            | .error e => .error e
            | .ok (d, rest) => dtLoop fuel rest { acc with date := some d }
        else if t = 0x1f0f then
          if acc.time.isSome then .error (.duplicateTag 0x1f0f)
          else
            match deserTagged tagDecDefault .tlv (bcdDec 4) (some 0x1f0f) data with
            | .error e => .error e
            | .ok (d, rest) => dtLoop fuel rest { acc with time := some d }
        else .ok (acc, data)

def dtDecode (data : Bytes) : Res (Val × Bytes) :=
  match dtLoop (data.length + 1) data {} with
  | .error e => .error e
  | .ok (acc, rest) =>
    match acc.date, acc.time with
    | some date, some time =>
      if date / 10000 < 2 ^ 31 ∧ validDate (date / 10000) (date % 10000 / 100) (date % 100)
          ∧ validTime (time / 10000) (time % 10000 / 100) (time % 100)
      then .ok (.dt date time, rest) else .error .incomplete
    | _, _ => .error .incomplete

def padLeft (n : Nat) (b : Bytes) : Bytes := List.replicate (n - b.length) 0 ++ b

def dtEncode (date time : Nat) : Res Bytes :=
  match serTagged tagEncDefault .tlv (some 0x1f0e) (.ok (padLeft 4 (bcdEncK date))),
        serTagged tagEncDefault .tlv (some 0x1f0f) (.ok (padLeft 3 (bcdEncK time))) with
  | .ok a, .ok b => .ok (a ++ b)
  | .error e, _ => .error e
  | _, .error e => .error e

/-! ### Leaf codecs: `E::encode` / `E::decode` for non-struct types -/

def leafEnc : Enc → Ty → Val → Res Bytes
  | .dflt, .int w, .num n => .ok (leBytes w n)
  | .bigEndian, .int w, .num n => .ok (beBytes w n)
  | .bcd, .int _, .num n => .ok (bcdEncK n)
  | .prrn, .int _, .num n => .ok (prrnEnc n)
  | .dflt, .str, .str cs => cpEncodeStr cs
  | .hex, .str, .str cs => hexEncodeStr cs
  | .utf8, .str, .str cs => .ok (utf8Encode cs)
  | .custom, .bytes, .raw b => .ok b
  | .dflt, .dateTime, .dt d t => dtEncode d t
  | _, _, _ => .error (.panic "ill-typed")

def leafDec : Enc → Ty → Bytes → Res (Val × Bytes)
  | .dflt, .int w, b => (intDecode false w b).map fun (n, r) => (.num n, r)
  | .bigEndian, .int w, b => (intDecode true w b).map fun (n, r) => (.num n, r)
  | .bcd, .int w, b => (bcdDec w b).map fun (n, r) => (.num n, r)
  | .prrn, .int w, b => (prrnDec w b).map fun (n, r) => (.num n, r)
  | .dflt, .str, b => .ok (.str (cpDecodeStr b), [])
  | .hex, .str, b => .ok (.str (hexDecodeStr b), [])
  | .utf8, .str, b =>
      match utf8Decode b with
      | some cs => .ok (.str cs, [])
      | none => .error .incomplete
  | .custom, .bytes, b => .ok (.raw b, [])
  | .dflt, .dateTime, b => dtDecode b
  | _, _, _ => .error (.panic "ill-typed")

end Zvt
