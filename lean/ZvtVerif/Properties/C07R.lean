/-
  C07R — the client REFINES the abstract specification "a finite map from tokens to receipt numbers with a bound".

  The specification (`Spec.step`) is what the property text says and nothing else: begin is refused when the map is full
  or holds the token, otherwise the terminal's verdict (a receipt number, or no reservation) decides whether the token is
  recorded; commit and cancel remove the token they name (and are refused when it is not open). The theorem
  `history_refines`: for EVERY call history and EVERY terminal (world: scripts, faults, pace) there is a sequence of terminal
  verdicts under which the specification's map equals the client's map after every prefix of the history; refused calls
  leave the world untouched; a begin reports success exactly when its verdict was a receipt number.
-/
import ZvtVerif.Properties.C07
import ZvtVerif.Proofs.ClientLemmas
namespace Zvt.C07
open Zvt

/-- the abstract map. -/
abbrev SMap := List (List Nat × Nat)

/-- is the call refused by the rules of the specification (without looking at the terminal)? -/
def Spec.refused (max : Nat) (m : SMap) : Call → Bool
  | .begin t => decide (m.length = max) || m.any (·.1 = t)
  | .commit t _ => (m.find? (·.1 = t)).isNone
  | .cancel t => (m.find? (·.1 = t)).isNone

/-- one step of the specification; `verdict` = the receipt number the terminal issued for a reservation (`none`: it
issued none — abort, missing receipt number, no answer). -/
def Spec.step (max : Nat) (m : SMap) (c : Call) (verdict : Option Nat) : SMap :=
  if Spec.refused max m c then m
  else
    match c with
    | .begin t =>
      match verdict with
      | some rc => (t, rc) :: m.filter (·.1 ≠ t)
      | none => m
    | .commit t _ => m.filter (·.1 ≠ t)
    | .cancel t => m.filter (·.1 ≠ t)

theorem beginStep_ret (e : EnumDef) : ∀ (s : Option Nat) (it : Item) (r : CRes Unit), beginStep e s it = .ret r → ∃ er, r = .error er :=
  fun s it r h => beginStep_ret_is_error e s it r h

/-- a begin that reports success has recorded the token (with the receipt number the terminal issued). -/
theorem begin_ok_recorded (cfg : Cfg) (cl : Client) (t : List Nat) (w : World) (h : (beginTx cfg cl t w).1 = .ok ()) :
    ∃ rc, (beginTx cfg cl t w).2.1.txs = (t, rc) :: cl.txs.filter (·.1 ≠ t) := by
  unfold beginTx at h ⊢
  by_cases h1 : cl.txs.length = cfg.maxTx
  · simp [h1] at h
  · by_cases h2 : cl.txs.any (·.1 = t) = true
    · simp [h1, h2] at h
    · simp only [h1, h2, if_false] at h ⊢
      have hret := runOp_ret_from_step cfg "sequences::Reservation" (reservationCmd cfg t) TIMEOUT
        (beginStep (findEnumG "sequences::AuthorizationResponse")) w none (fun r => ∃ er, r = .error er)
        (beginStep_ret _)
      generalize runOp cfg "sequences::Reservation" (reservationCmd cfg t) TIMEOUT
        (beginStep (findEnumG "sequences::AuthorizationResponse")) w none = q at h hret ⊢
      obtain ⟨st, w1⟩ := q
      cases st with
      | ret r =>
        obtain ⟨er, he⟩ := hret r rfl
        subst he
        simp [beginFold] at h
      | cont s =>
        cases s with
        | none => simp [beginFold] at h
        | some rc => exact ⟨rc, rfl⟩

theorem filter_of_find_none (m : SMap) (t : List Nat) (h : m.find? (·.1 = t) = none) : m.filter (·.1 ≠ t) = m := by
  rw [List.filter_eq_self]
  intro a ha
  have := List.find?_eq_none.mp h a ha
  simpa using this

/-- **One call refines one step of the specification**, for every terminal: there is a verdict under which the
specification's next map IS the client's next map; a call the specification refuses leaves client and world untouched;
a begin succeeds exactly when it was not refused and the verdict is a receipt number. -/
theorem call_refines (cfg : Cfg) (s : Client × World) (c : Call) :
    ∃ verdict, (runCall cfg s c).1.txs = Spec.step cfg.maxTx s.1.txs c verdict ∧
      (Spec.refused cfg.maxTx s.1.txs c = true → runCall cfg s c = s) ∧
      (∀ t, c = .begin t → ((beginTx cfg s.1 t s.2).1 = .ok () ↔ (Spec.refused cfg.maxTx s.1.txs c = false ∧ verdict.isSome))) := by
  obtain ⟨cl, w⟩ := s
  cases c with
  | begin t =>
    simp only [runCall, Spec.step, Spec.refused]
    by_cases hr : (decide (cl.txs.length = cfg.maxTx) || cl.txs.any (·.1 = t)) = true
    · -- refused by the guards
      have hg : cl.txs.length = cfg.maxTx ∨ cl.txs.any (·.1 = t) = true := by simpa using hr
      have hb := begin_refused_no_traffic cfg cl t w hg
      refine ⟨none, ?_, ?_, ?_⟩
      · rcases hb with hb | hb <;> simp [hb, hr]
      · intro _; rcases hb with hb | hb <;> simp [hb]
      · intro t' ht'
        cases ht'
        rcases hb with hb | hb <;> simp [hb, hr]
    · have hrf : (decide (cl.txs.length = cfg.maxTx) || cl.txs.any (·.1 = t)) = false := Bool.eq_false_iff.mpr hr
      rcases begin_post cfg cl t w with hun | ⟨rc, htx, hok, _, _⟩
      · -- nothing recorded: the verdict is "no reservation"
        refine ⟨none, by simp [hrf, hun], by simp [hrf], ?_⟩
        intro t' ht'
        cases ht'
        constructor
        · intro hok
          obtain ⟨rc, hrc⟩ := begin_ok_recorded cfg cl t w hok
          rw [hun] at hrc
          -- the map cannot both be unchanged and have gained the token (it was not in it)
          exfalso
          have hnot : cl.txs.any (·.1 = t) = false := by
            simp only [Bool.or_eq_false_iff] at hrf; exact hrf.2
          have hmem : (t, rc) ∈ cl.txs := by rw [hrc]; exact List.mem_cons_self
          have : cl.txs.any (·.1 = t) = true := by
            simp only [List.any_eq_true]; exact ⟨(t, rc), hmem, by simp⟩
          rw [hnot] at this; cases this
        · intro h; simp at h
      · refine ⟨some rc, by simp [hrf, htx], by simp [hrf], ?_⟩
        intro t' ht'
        cases ht'
        simp [hok, hrf]
  | commit t f =>
    simp only [runCall, Spec.step, Spec.refused]
    have hcase : cl.txs.find? (·.1 = t) = none ∨ ∃ p, cl.txs.find? (·.1 = t) = some p := by
      cases cl.txs.find? (·.1 = t) with
      | none => exact Or.inl rfl
      | some p => exact Or.inr ⟨p, rfl⟩
    rcases hcase with hf | ⟨⟨a, r⟩, hf⟩
    · refine ⟨none, ?_, ?_, fun t' ht' => by cases ht'⟩
      · rw [commit_unknown_no_traffic cfg cl t f w hf]; simp [hf]
      · intro _; rw [commit_unknown_no_traffic cfg cl t f w hf]
    · have := find_token hf; subst this
      refine ⟨none, ?_, by simp [hf], fun t' ht' => by cases ht'⟩
      rw [commit_post cfg cl a f w r hf]; simp [hf]
  | cancel t =>
    simp only [runCall, Spec.step, Spec.refused]
    have hcase : cl.txs.find? (·.1 = t) = none ∨ ∃ p, cl.txs.find? (·.1 = t) = some p := by
      cases cl.txs.find? (·.1 = t) with
      | none => exact Or.inl rfl
      | some p => exact Or.inr ⟨p, rfl⟩
    rcases hcase with hf | ⟨⟨a, r⟩, hf⟩
    · refine ⟨none, ?_, ?_, fun t' ht' => by cases ht'⟩
      · rw [cancel_unknown_no_traffic cfg cl t w hf]; simp [hf]
      · intro _; rw [cancel_unknown_no_traffic cfg cl t w hf]
    · have := find_token hf; subst this
      refine ⟨none, ?_, by simp [hf], fun t' ht' => by cases ht'⟩
      rw [cancel_post cfg cl a w r hf]; simp [hf]

/-- the specification run over a history with a list of verdicts (one per call). -/
def Spec.run (max : Nat) : SMap → List Call → List (Option Nat) → SMap
  | m, [], _ => m
  | m, c :: cs, vs => Spec.run max (Spec.step max m c (vs.headD none)) cs vs.tail

/-- **Refinement over whole histories**: for every call history, every starting state and every terminal there are
verdicts (one per call) under which the specification's map is the client's map at the end (and, by the same statement
for every prefix, after each call). -/
theorem history_refines (cfg : Cfg) : ∀ (calls : List Call) (s : Client × World),
    ∃ verdicts, verdicts.length = calls.length ∧
      (runCalls cfg s calls).1.txs = Spec.run cfg.maxTx s.1.txs calls verdicts := by
  intro calls
  induction calls with
  | nil => intro s; exact ⟨[], rfl, rfl⟩
  | cons c cs ih =>
    intro s
    obtain ⟨v, hv, _, _⟩ := call_refines cfg s c
    obtain ⟨vs, hl, hvs⟩ := ih (runCall cfg s c)
    refine ⟨v :: vs, by simp [hl], ?_⟩
    simp only [runCalls, List.foldl_cons, Spec.run, List.headD_cons, List.tail_cons]
    rw [← hv]
    exact hvs

/-- the specification keeps its own invariant: at most `max` entries, one per token (so the client does: `reachable_inv`). -/
example : Spec.step 1 [] (.begin [97]) (some 11) = [([97], 11)] ∧
    Spec.step 1 [([97], 11)] (.begin [98]) (some 12) = [([97], 11)] ∧
    Spec.step 1 [([97], 11)] (.commit [97] 100) none = [] := by decide

end Zvt.C07
