/-
  C16 — every length-prefix style is an exact, shortest-form bijection on its range.
  Property theorems only; helper lemmas live in Proofs/.
-/
import ZvtVerif.Proofs.LengthLemmas
namespace Zvt.C16
open Zvt

/-! ## BER-TLV, 0..65535 -/

/-- serialise then parse with arbitrary trailing data: the length and exactly that data. -/
theorem tlv_ser_de (n : Nat) (h : n ≤ 65535) (d : Bytes) :
    ∃ p, LenKind.tlv.ser n = .ok p ∧ LenKind.tlv.de (p ++ d) = .ok (n, d) := by
  unfold LenKind.ser
  by_cases h1 : n ≤ 127
  · refine ⟨[byte n], ?_, ?_⟩
    · simp [h1]
    · have : (byte n).toNat = n := byte_toNat_lt (by omega)
      simp [LenKind.de, this, h1]
  · by_cases h2 : n ≤ 255
    · refine ⟨[0x81, byte n], ?_, ?_⟩
      · simp [h1, h2]
      · have : (byte n).toNat = n := byte_toNat_lt (by omega)
        simp [LenKind.de, this]
    · refine ⟨0x82 :: beBytes 2 n, ?_, ?_⟩
      · simp [h1, h2, h]
      · have a : (byte (n / 256 % 256)).toNat = n / 256 := by rw [byte_toNat]; omega
        have b : (byte (n % 256)).toNat = n % 256 := by rw [byte_toNat]; omega
        simp [LenKind.de, beBytes, leBytes, a, b]
        omega

/-- shortest form: one, two or three bytes, switching at 128 and 256. -/
theorem tlv_shortest (n : Nat) (h : n ≤ 65535) :
    ∃ p, LenKind.tlv.ser n = .ok p ∧ p.length = (if n < 128 then 1 else if n < 256 then 2 else 3) := by
  unfold LenKind.ser
  by_cases h1 : n ≤ 127
  · refine ⟨[byte n], ?_, ?_⟩
    · simp [h1]
    · simp [show n < 128 by omega]
  · by_cases h2 : n ≤ 255
    · refine ⟨[0x81, byte n], ?_, ?_⟩
      · simp [h1, h2]
      · simp [show ¬ n < 128 by omega, show n < 256 by omega]
    · refine ⟨0x82 :: beBytes 2 n, ?_, ?_⟩
      · simp [h1, h2, h]
      · simp [beBytes_length, show ¬ n < 128 by omega, show ¬ n < 256 by omega]

theorem tlv_above_range_panics (n : Nat) (h : 65535 < n) : LenKind.tlv.ser n = .error (.panic "Unsupported length") := by
  unfold LenKind.ser
  simp [show ¬ n ≤ 127 by omega, show ¬ n ≤ 255 by omega, show ¬ n ≤ 65535 by omega]

/-- a truncated prefix is an error (and not a panic). -/
theorem tlv_truncated (n : Nat) (h : n ≤ 65535) (p q : Bytes) (hp : LenKind.tlv.ser n = .ok (p ++ q)) (hq : q ≠ []) :
    LenKind.tlv.de p = .error .incomplete := by
  unfold LenKind.ser at hp
  by_cases h1 : n ≤ 127
  · simp [h1] at hp
    match p, q, hp with
    | [], _, _ => simp [LenKind.de]
    | [_], [], _ => exact absurd rfl hq
  · by_cases h2 : n ≤ 255
    · simp [h1, h2] at hp
      match p, q, hp with
      | [], _, _ => simp [LenKind.de]
      | [a], _, hp => simp at hp; obtain ⟨rfl, _⟩ := hp; simp [LenKind.de]
      | [_, _], [], _ => exact absurd rfl hq
    · simp [h1, h2, h, beBytes, leBytes] at hp
      match p, q, hp with
      | [], _, _ => simp [LenKind.de]
      | [a], _, hp => simp at hp; obtain ⟨rfl, _⟩ := hp; simp [LenKind.de]
      | [a, b], _, hp => simp at hp; obtain ⟨rfl, _⟩ := hp; simp [LenKind.de]
      | [_, _, _], [], _ => exact absurd rfl hq

/-! ## APDU, 0..65535 -/

theorem adpu_ser_de (n : Nat) (h : n ≤ 65535) (d : Bytes) :
    ∃ p, LenKind.adpu.ser n = .ok p ∧ LenKind.adpu.de (p ++ d) = .ok (n, d) := by
  unfold LenKind.ser
  by_cases h1 : n < 0xff
  · refine ⟨[byte n], ?_, ?_⟩
    · simp [h1]
    · have : (byte n).toNat = n := byte_toNat_lt (by omega)
      simp [LenKind.de, this]; omega
  · refine ⟨0xff :: leBytes 2 (n % 65536), ?_, ?_⟩
    · simp [h1]
    · have a : (byte (n % 65536 % 256)).toNat = n % 256 := by rw [byte_toNat]; omega
      have b : (byte (n % 65536 / 256 % 256)).toNat = n / 256 := by rw [byte_toNat]; omega
      simp only [LenKind.de, intDecode, leBytes, leVal, List.cons_append, List.nil_append]
      simp [a, b, leVal]
      have hl : ¬ (d.length + 1 + 1 < 2) := by omega
      simp [hl]
      omega

/-- extended (three byte) form exactly from 255. -/
theorem adpu_shortest (n : Nat) (h : n ≤ 65535) :
    ∃ p, LenKind.adpu.ser n = .ok p ∧ p.length = (if n < 255 then 1 else 3) := by
  unfold LenKind.ser
  by_cases h1 : n < 0xff
  · refine ⟨[byte n], ?_, ?_⟩
    · simp [h1]
    · simp [show n < 255 by omega]
  · refine ⟨0xff :: leBytes 2 (n % 65536), ?_, ?_⟩
    · simp [h1]
    · simp [leBytes_length, show ¬ n < 255 by omega]

theorem adpu_truncated (n : Nat) (h : n ≤ 65535) (p q : Bytes) (hp : LenKind.adpu.ser n = .ok (p ++ q)) (hq : q ≠ []) :
    LenKind.adpu.de p = .error .incomplete := by
  unfold LenKind.ser at hp
  by_cases h1 : n < 0xff
  · simp [h1] at hp
    match p, q, hp with
    | [], _, _ => simp [LenKind.de]
    | [_], [], _ => exact absurd rfl hq
  · simp [h1, leBytes] at hp
    match p, q, hp with
    | [], _, _ => simp [LenKind.de]
    | [a], _, hp => simp at hp; obtain ⟨rfl, _⟩ := hp; simp [LenKind.de, intDecode]
    | [a, b], _, hp => simp at hp; obtain ⟨rfl, _⟩ := hp; simp [LenKind.de, intDecode]
    | [_, _, _], [], _ => exact absurd rfl hq

/-! ## LLVAR (N = 2, 0..99) and LLLVAR (N = 3, 0..999); any digit count N -/

theorem llv_ser_de (N n : Nat) (h : n < 10 ^ N) (d : Bytes) :
    ∃ p, (LenKind.llv N).ser n = .ok p ∧ p.length = N ∧ (LenKind.llv N).de (p ++ d) = .ok (n, d) := by
  refine ⟨(llvSerRev N n).reverse, rfl, by simp [llvSerRev_length], ?_⟩
  have := llvDe_ser N n 0 d h
  simpa [LenKind.de] using this

theorem llvar_ser_de (n : Nat) (h : n ≤ 99) (d : Bytes) :
    ∃ p, (LenKind.llv 2).ser n = .ok p ∧ p.length = 2 ∧ (LenKind.llv 2).de (p ++ d) = .ok (n, d) :=
  llv_ser_de 2 n (by omega) d

theorem lllvar_ser_de (n : Nat) (h : n ≤ 999) (d : Bytes) :
    ∃ p, (LenKind.llv 3).ser n = .ok p ∧ p.length = 3 ∧ (LenKind.llv 3).de (p ++ d) = .ok (n, d) :=
  llv_ser_de 3 n (by omega) d

theorem llv_truncated (N : Nat) (p : Bytes) (h : p.length < N) : (LenKind.llv N).de p = .error .incomplete := by
  simpa [LenKind.de] using llvDe_short N 0 p h

/-! ## Fixed width: left padding with zero bytes; the parser announces N and hands the data through -/

theorem fixed_pad (N len : Nat) (h : len ≤ N) : (LenKind.fixed N).ser len = .ok (List.replicate (N - len) 0) := by
  simp [LenKind.ser, h]

theorem fixed_total_width (N : Nat) (payload : Bytes) (h : payload.length ≤ N) :
    ∃ p, (LenKind.fixed N).ser payload.length = .ok p ∧ (p ++ payload).length = N := by
  refine ⟨_, fixed_pad N _ h, ?_⟩
  simp; omega

theorem fixed_de (N : Nat) (b : Bytes) :
    (LenKind.fixed N).de b = if b.length < N then .error .incomplete else .ok (N, b) := by
  simp [LenKind.de]

/-! ## Injectivity (a consequence of the round trips) -/

theorem ser_injective (L : LenKind) (n m : Nat) (p : Bytes)
    (hL : (L = .tlv ∧ n ≤ 65535 ∧ m ≤ 65535) ∨ (L = .adpu ∧ n ≤ 65535 ∧ m ≤ 65535) ∨ (∃ N, L = .llv N ∧ n < 10 ^ N ∧ m < 10 ^ N))
    (hn : L.ser n = .ok p) (hm : L.ser m = .ok p) : n = m := by
  rcases hL with ⟨rfl, h1, h2⟩ | ⟨rfl, h1, h2⟩ | ⟨N, rfl, h1, h2⟩
  · obtain ⟨p1, e1, d1⟩ := tlv_ser_de n h1 []
    obtain ⟨p2, e2, d2⟩ := tlv_ser_de m h2 []
    rw [hn] at e1; rw [hm] at e2
    cases e1; cases e2
    rw [d1] at d2; simpa using d2
  · obtain ⟨p1, e1, d1⟩ := adpu_ser_de n h1 []
    obtain ⟨p2, e2, d2⟩ := adpu_ser_de m h2 []
    rw [hn] at e1; rw [hm] at e2
    cases e1; cases e2
    rw [d1] at d2; simpa using d2
  · obtain ⟨p1, e1, _, d1⟩ := llv_ser_de N n h1 []
    obtain ⟨p2, e2, _, d2⟩ := llv_ser_de N m h2 []
    rw [hn] at e1; rw [hm] at e2
    cases e1; cases e2
    rw [d1] at d2; simpa using d2

/-! ## Parsers are total: never a panic, on any input -/

theorem de_no_panic (L : LenKind) (b : Bytes) (hL : ∀ s, L ≠ .unknown s) : (L.de b).isPanic = false := by
  cases L with
  | empty => simp [LenKind.de, Res.isPanic]
  | fixed n => simp only [LenKind.de]; split <;> simp [Res.isPanic, Err.isPanic]
  | tlv =>
    simp only [LenKind.de]
    repeat (first | split | simp [Res.isPanic, Err.isPanic])
  | llv n =>
    simp only [LenKind.de]
    generalize 0 = acc
    induction n generalizing acc b with
    | zero => simp [llvDe, Res.isPanic]
    | succ n ih =>
      match b with
      | [] => simp [llvDe, Res.isPanic, Err.isPanic]
      | x :: xs => simp only [llvDe]; exact ih xs (fun _ => by simp) _
  | adpu =>
    simp only [LenKind.de, intDecode]
    repeat (first | split | simp [Res.isPanic, Err.isPanic])
  | temperature => simp only [LenKind.de]; split <;> simp [Res.isPanic, Err.isPanic]
  | unknown s => exact absurd rfl (hL s)

/-! ## Non-vacuity: concrete instances at the switching points -/

example : LenKind.tlv.ser 127 = .ok [0x7f] ∧ LenKind.tlv.ser 128 = .ok [0x81, 0x80] ∧
    LenKind.tlv.ser 255 = .ok [0x81, 0xff] ∧ LenKind.tlv.ser 256 = .ok [0x82, 0x01, 0x00] ∧
    LenKind.tlv.ser 65535 = .ok [0x82, 0xff, 0xff] := by decide
example : LenKind.adpu.ser 254 = .ok [0xfe] ∧ LenKind.adpu.ser 255 = .ok [0xff, 0xff, 0x00] ∧
    LenKind.adpu.ser 65535 = .ok [0xff, 0xff, 0xff] := by decide
example : (LenKind.llv 2).ser 99 = .ok [0xf9, 0xf9] ∧ (LenKind.llv 3).ser 7 = .ok [0xf0, 0xf0, 0xf7] := by decide
example : LenKind.tlv.de [0x82, 0x01] = .error .incomplete := by decide

end Zvt.C16
