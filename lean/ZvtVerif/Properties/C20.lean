/-
  C20 — a terminal abort always surfaces as an error identifying its result code.
  Theorems about the decision every operation takes on a decoded abort packet, for ALL codes; that the
  decision is reached for every position of the abort in the reply script is what the retry/sequence
  model carries (an abort packet is yielded to the caller's loop: C05) and the correspondence checks.
-/
import ZvtVerif.Client
import ZvtVerif.Spec.Layout
namespace Zvt.C20
open Zvt

/-- the code ↔ message table translated from constants.rs on this run equals the specification's. -/
theorem errorTable_eq_spec : Generated.errorTable = Spec.errorTable := by decide +kernel

/-- `e` names the result code `c`. -/
def Identifies (e : CErr) (c : Nat) : Prop :=
  e = .zvt (.aborted c) ∨ e = .other ("Unknown error code: 0x" ++ hexUpper c) ∨
  ∃ m, errorMessage c = some m ∧ e = .other ("Unhandled error: " ++ m)

/-- **read card**: every abort is an error naming the code, except the documented 0x6C ↦ "no card". -/
theorem readCard_abort (e : EnumDef) (s : Option Card) (i : Nat) (v : Val) (h : variantName e i = "Abort") :
    ∃ er, readCardStep e s (.ok i v) = .ret (.error er) ∧
      ((errorCode abortStruct v = 0x6c ∧ errorMessage 0x6c ≠ none ∧ er = .noCard) ∨ Identifies er (errorCode abortStruct v)) := by
  refine ⟨readCardAbort (errorCode abortStruct v), by simp [readCardStep, h], ?_⟩
  generalize errorCode abortStruct v = c
  unfold readCardAbort
  cases hm : errorMessage c with
  | none => right; right; left; rfl
  | some m =>
    by_cases hc : c = 0x6c
    · left; subst hc; exact ⟨rfl, by simp [hm], by simp⟩
    · right; right; right; exact ⟨m, hm, by simp [hc]⟩

/-- **begin**: every abort is an error naming the code, except the documented 0xFC ↦ "PIN required". -/
theorem begin_abort (e : EnumDef) (s : Option Nat) (i : Nat) (v : Val) (h : variantName e i = "Abort") :
    ∃ er, beginStep e s (.ok i v) = .ret (.error er) ∧
      ((errorCode abortStruct v = 0xfc ∧ er = .needsPin) ∨ Identifies er (errorCode abortStruct v)) := by
  refine ⟨beginAbort (errorCode abortStruct v), by simp [beginStep, h], ?_⟩
  generalize errorCode abortStruct v = c
  unfold beginAbort
  cases hm : errorMessage c with
  | none => right; right; left; rfl
  | some m =>
    by_cases hc : c = 0xfc
    · left; exact ⟨hc, by simp [hc]⟩
    · right; left; simp [hc]

/-- **commit**: every abort fails the call with `Aborted(c)` — whatever was received before it. -/
theorem commit_abort (e : EnumDef) (s : Option Val) (i : Nat) (v : Val)
    (h : variantName e i = "PartialReversalAbort") :
    commitStep e s (.ok i v) = .ret (.error (.zvt (.aborted (errorCode prAbortStruct v)))) := by
  have hne : ¬ (variantName e i = "StatusInformation") := by rw [h]; decide
  simp [commitStep, h, hne]

/-- **cancel / reversal of a dangling pre-authorisation**. -/
theorem reversal_abort (e : EnumDef) (i : Nat) (v : Val) (h : variantName e i = "PartialReversalAbort") :
    reversalDecide e i v = .ret (.error (.zvt (.aborted (errorCode prAbortStruct v)))) := by
  have hne : ¬ (variantName e i = "CompletionData") := by rw [h]; decide
  simp [reversalDecide, h, hne]

/-- **initialisation**. -/
theorem init_abort (e : EnumDef) (i : Nat) (v : Val) (h : variantName e i = "Abort") :
    initDecide e i v = .ret (.error (.zvt (.aborted (errorCode abortStruct v)))) := by
  have hne : ¬ (variantName e i = "CompletionData") := by rw [h]; decide
  simp [initDecide, h, hne]

/-- **set terminal id**: anything but a completion is the abort. -/
theorem setTid_abort (e : EnumDef) (i : Nat) (v : Val) (h : variantName e i = "Abort") :
    setTidDecide e i v = .ret (.error (.zvt (.aborted (errorCode abortStruct v)))) := by
  have hne : ¬ (variantName e i = "CompletionData") := by rw [h]; decide
  simp [setTidDecide, hne]

/-- **end-of-day**: "receiver not ready" (0xA0) is tolerated, every other abort is reported with its code. -/
theorem eod_abort (e : EnumDef) (i : Nat) (v : Val) (h : variantName e i = "Abort") :
    eodDecide e i v = if errorCode prAbortStruct v = 0xa0 then .ret (.ok ()) else .ret (.error (.zvt (.aborted (errorCode prAbortStruct v)))) := by
  have hne : ¬ (variantName e i = "CompletionData") := by rw [h]; decide
  simp [eodDecide, h, hne]

/-- the three documented exceptions really are the table's entries they are documented as. -/
theorem documented_codes :
    errorMessage 0x6c = some "abort via timeout or abort-key" ∧
    errorMessage 0xfc = some "necessary device not present or defective" ∧
    errorMessage 0xa0 = some "receiver not ready" := by decide +kernel

/-- no decision ever turns an abort into a *successful* result, except end-of-day's 0xA0. -/
theorem abort_never_success :
    (∀ e s i v, variantName e i = "Abort" → ∀ c, readCardStep e s (.ok i v) ≠ .ret (.ok c)) ∧
    (∀ e s i v, variantName e i = "Abort" → beginStep e s (.ok i v) ≠ .ret (.ok ())) ∧
    (∀ e s i v, variantName e i = "PartialReversalAbort" → ∀ x, commitStep e s (.ok i v) ≠ .ret (.ok x)) := by
  refine ⟨?_, ?_, ?_⟩
  · intro e s i v h c; simp [readCardStep, h]
  · intro e s i v h; simp [beginStep, h]
  · intro e s i v h x; rw [commit_abort e s i v h]; simp

end Zvt.C20
