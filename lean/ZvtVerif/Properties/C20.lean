/-
  C20 — theorems are being added (see DESIGN.md §7 C20)
-/
import ZvtVerif.Client
namespace Zvt.C20
open Zvt

end Zvt.C20
