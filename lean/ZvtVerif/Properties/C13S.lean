/-
  C13 (schema level) — the group statements of Properties/C13.lean instantiated for EVERY well-formed struct
  definition and its canonical values: the hypothesis `GroupOK` of those theorems is discharged by the generic
  field theorem (Proofs/Canon.lean), so nothing is assumed about the fields any more.
-/
import ZvtVerif.Proofs.Canon
import ZvtVerif.Generated
namespace Zvt.C13S
open Zvt

/-- **Any order, for every well-formed struct.** The encoding of a canonical value is a positional prefix
followed by the groups of its present tagged fields (one group per field; the elements of a `Vec` field form
one group); EVERY rearrangement of those groups decodes to the same value, with nothing left over.
(`posPresent`: no absent positional optional — whether such a field is read back as absent depends on the bytes
that follow it, so rearranging what follows can leave the canonical domain, DESIGN.md §5.1.) -/
theorem wellformed_any_order (fs : List Field) (vs : List Val) (hwf : fieldsWf fs = true) (hc : fieldsCanon fs vs)
    (hpp : posPresent fs vs) :
    ∃ (pos : Bytes) (gs : List Group), encFields fs vs = .ok (pos ++ flat gs) ∧ (gs.map (·.t)).Nodup ∧
      ∀ gs', gs.Perm gs' → decStruct fs (pos ++ flat gs') = .ok (.struct vs, []) := by
  obtain ⟨D, hD, hDf, hDv, _, hall⟩ := fields_rt fs vs hwf hc
  have hallps := hall hpp
  obtain ⟨henc, hdec, _⟩ := decomp_rt D hD
  rw [hDf, hDv] at henc hdec
  obtain ⟨ps, g, qs⟩ := D
  cases g with
  | some p =>
    -- a trailing field that takes everything: no tagged fields at all
    refine ⟨_, [], by simpa [flat] using henc, by simp, ?_⟩
    intro gs' hp
    have : gs' = [] := by simpa using hp.symm.eq_nil
    subst this
    simpa [flat] using hdec
  | none =>
    have hps : ∀ p ∈ ps, p.OK := hallps
    have hqs := hD.qs
    have hnd := hD.nd
    simp only at hqs hnd
    simp only [Decomp.bytes, Decomp.gl, List.flatMap_nil, List.nil_append] at henc hdec
    simp only [Decomp.fields, Decomp.gl, List.map_nil, List.nil_append] at hDf
    let gs := groupsFrom ps.length qs
    have hflat : flat gs = qs.flatMap (·.bytes) := flat_groupsFrom qs ps.length hqs
    have hgnd : (gs.map (·.t)).Nodup := List.Nodup.sublist (groupsFrom_tags_sublist qs ps.length) hnd
    refine ⟨ps.flatMap (·.bytes), gs, by rw [hflat]; exact henc, hgnd, ?_⟩
    intro gs' hp
    have hgok : ∀ g ∈ gs, GroupOK (fun t x => armFind fs t 0 x) g := by
      intro g hg
      rw [← hDf]
      exact groupOK_of_fields ps qs (fun p hp => (hps p hp).ok0) hqs hnd g hg
    have := C13.perm_invariant (fun x => decPos fs x) (fun t x => armFind fs t 0 x) fs (ps.flatMap (·.bytes)) (ps.map (·.v))
      (fun x => by rw [← hDf]; exact decPos_pos ps qs x hps hqs) gs gs' hp hgok hgnd (groupsFrom_idx_nodup qs ps.length)
    unfold decStruct
    rw [← this, hflat]
    exact hdec

/-- … in particular for every shipped struct (the schema is regenerated from the source on every run). -/
theorem shipped_any_order (s : StructDef) (hs : s ∈ Generated.shipped) (vs : List Val) (hc : fieldsCanon s.fields vs)
    (hpp : posPresent s.fields vs) :
    ∃ (pos : Bytes) (gs : List Group), encFields s.fields vs = .ok (pos ++ flat gs) ∧ (gs.map (·.t)).Nodup ∧
      ∀ gs', gs.Perm gs' → decStruct s.fields (pos ++ flat gs') = .ok (.struct vs, []) := by
  have hwf : structWf s = true := by
    have : ∀ s ∈ Generated.shipped, structWf s = true := by decide +kernel
    exact this s hs
  simp only [structWf, Bool.and_eq_true] at hwf
  exact wellformed_any_order s.fields vs hwf.1 hc hpp

end Zvt.C13S
