/-
  C10 — theorems are being added (see DESIGN.md §7 C10)
-/
import ZvtVerif.Client
namespace Zvt.C10
open Zvt

end Zvt.C10
