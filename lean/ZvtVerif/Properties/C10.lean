/-
  C10 — no terminal stall or configuration value can hang a client call.

  The model functions are total and have no `hang` outcome above the sequence level: every wait on the
  terminal is under a timer. The theorems bound the virtual time. What the model cannot exhibit: the
  executor (tokio's timer wheel and wakers); the harness drives the real client on the paused clock and
  compares time stamps exactly (DESIGN.md §12).
-/
import ZvtVerif.Proofs.ClientLemmas
import ZvtVerif.Proofs.Pace
import ZvtVerif.Generated
namespace Zvt.C10
open Zvt

/-- the per-packet time-out of card reading for EVERY configuration byte: `t + 2`, computed without
overflow (it fits 64 bits with room to spare) and never zero (at least 2 s). -/
theorem timeout_no_overflow (t : Nat) (h : t ≤ 255) :
    readCardTimeoutOf t = t + 2 ∧ 2 ≤ readCardTimeoutOf t ∧ readCardTimeoutOf t ≤ 257 ∧ readCardTimeoutOf t < 2 ^ 64 := by
  unfold readCardTimeoutOf; omega

/-- **every `stream.next()` is over by its deadline**, whatever the terminal does and however slowly it talks: the
clock never runs backwards and the call (begun before the deadline) does not outlast it. -/
theorem next_within_deadline (d : SeqDesc) (dl : Nat) (w : World) (c : ConnSt) (st : SeqSt) (h : w.now ≤ dl) :
    w.now ≤ (seqNext d dl w c st).2.1.now ∧ (seqNext d dl w c st).2.1.now ≤ dl :=
  ⟨(seqNext_time d dl w c st).ge, (seqNext_time d dl w c st).le h⟩

/-- against a terminal that answers at once or not at all, one `stream.next()` consumes no time by itself. -/
theorem next_takes_no_time (d : SeqDesc) (dl : Nat) (w : World) (c : ConnSt) (st : SeqSt) (hg : w.gap = 0) :
    (seqNext d dl w c st).2.1.now = w.now := seqNext_now d dl w c st hg

/-- the handshake (TCP connect, registration, system info) is bounded by `TIMEOUT` wherever the terminal falls
silent in it and however slowly it talks; against an instant-or-silent terminal it takes no time or exactly `TIMEOUT`. -/
theorem connect_bounded (cfg : Cfg) (w : World) :
    w.now ≤ (connect cfg w).1.now ∧ (connect cfg w).1.now ≤ w.now + TIMEOUT ∧
    (w.gap = 0 → (connect cfg w).1.now = w.now ∨ (connect cfg w).1.now = w.now + TIMEOUT) :=
  (connect_time cfg w).2

/-- an attempt on a live connection: at most one packet time-out per packet it delivers; against an instant-or-silent
terminal it ends at most ONE packet time-out after it began. -/
theorem attempt_bounded {σ ρ : Type} (d : SeqDesc) (timeout : Nat) (step : σ → Item → Step σ ρ)
    (fuel : Nat) (w : World) (c : ConnSt) (st : SeqSt) (s : σ) :
    (runItems d timeout step fuel w c st s).2.1.now ≤ w.now + fuel * timeout ∧
    (w.gap = 0 → (runItems d timeout step fuel w c st s).2.1.now ≤ w.now + timeout) :=
  (runItems_time d timeout step fuel w c st s).2.2

/-- **Every exchange with retries returns within `ATTEMPTS × (THROTTLE + TIMEOUT + timeout)`** virtual seconds, for
every reply script, fault table (silence at any position included), connection behaviour and caller loop, against a
terminal that answers at once or falls silent. -/
theorem exchange_bounded {σ ρ : Type} (cfg : Cfg) (seqName : String) (cmd : Bytes) (timeout : Nat)
    (step : σ → Item → Step σ ρ) (w : World) (s : σ) (hg : w.gap = 0) :
    (runOp cfg seqName cmd timeout step w s).2.now ≤ w.now + ATTEMPTS * (THROTTLE + TIMEOUT + timeout) :=
  runOp_now cfg seqName cmd timeout step w s hg

/-- the same against a terminal of any pace (a pause before every packet): finite, growing with the number of packets
one attempt may deliver. -/
theorem exchange_bounded_slow {σ ρ : Type} (cfg : Cfg) (seqName : String) (cmd : Bytes) (timeout : Nat)
    (step : σ → Item → Step σ ρ) (w : World) (s : σ) :
    (runOp cfg seqName cmd timeout step w s).2.now ≤ w.now + ATTEMPTS * (THROTTLE + TIMEOUT + ITEM_FUEL * timeout) :=
  runOp_now_slow cfg seqName cmd timeout step w s

/-- **no pause is lost or counted twice**: what one `read_packet` waits for plus what is still owed afterwards equals
what was owed before (packet, end of stream, or silence) — the slow terminal's time is accounted for exactly. -/
theorem pauses_sat_out_once (c : ConnSt) :
    (connRead c).2.1 + ((connRead c).2.2.marks.sum + (connRead c).2.2.eofOwed) = c.marks.sum + c.eofOwed :=
  connRead_conserves c

/-- the pause marks stay parallel to the bytes on the wire through sending and reading. -/
theorem marks_parallel (c : ConnSt) (b : Bytes) (h : c.WF) : (c.put b).WF ∧ (connRead c).2.2.WF :=
  ⟨put_wf c b h, connRead_wf c h⟩

/-- **the time-out cuts off silence, not slowness**: in the middle of an exchange a `next()` whose deadline leaves room
for the pauses the terminal still owes ends in `hang` only if the terminal really sends nothing (the per-packet
deadline starts anew with every `next()`: `runItems` passes `now + timeout`). -/
theorem slow_terminal_not_cut_off (d : SeqDesc) (dl : Nat) (w : World) (c : ConnSt)
    (hfit : w.now + w.gap * (c.marks.sum + c.eofOwed) ≤ dl)
    (h : (seqNext d dl w c .looping).1 = NextOut.hang) : (connRead c).1 = .hang :=
  looping_hang_is_silence d dl w c hfit h

/-- budget of one exchange against a terminal of pace `g`. -/
def paceBudget (g timeout : Nat) : Nat := ATTEMPTS * attemptBudget (if g = 0 then timeout else ITEM_FUEL * timeout)

theorem runOp_paced {σ ρ : Type} (cfg : Cfg) (seqName : String) (cmd : Bytes) (timeout : Nat)
    (step : σ → Item → Step σ ρ) (w : World) (s : σ) :
    (runOp cfg seqName cmd timeout step w s).2.gap = w.gap ∧
    (runOp cfg seqName cmd timeout step w s).2.now ≤ w.now + paceBudget w.gap timeout := by
  refine ⟨runOp_gap cfg seqName cmd timeout step w s, ?_⟩
  unfold paceBudget
  by_cases hg : w.gap = 0
  · rw [if_pos hg]; exact runOp_now cfg seqName cmd timeout step w s hg
  · rw [if_neg hg]; exact runOp_now_slow cfg seqName cmd timeout step w s

def constOf (k : String) : Option String := (Generated.consts.find? (·.1 == k)).map (·.2)

/-- **The model's retry budget is the source's**: the constants the theorems above are stated with are the ones
the translator reads from the source on this run — `TIMEOUT` in stream.rs, and the `throttle(2 s).take(20)` retry
streams of `ResetSequence::into_stream` and of `Feig::read_card`. -/
theorem retry_constants_match_source :
    constOf "TIMEOUT" = some "secs(60)" ∧ TIMEOUT = 60 ∧
    constOf "RETRY[into_stream]" = some "throttle=secs(2) take=20" ∧
    constOf "RETRY[read_card]" = some "throttle=secs(2) take=20" ∧ THROTTLE = 2 ∧ ATTEMPTS = 20 := by
  decide +kernel

/-- the budgets with the constants of the source: 20 × (2 + 60 + 60) = 2440 s for ordinary exchanges. -/
theorem budget_default : ATTEMPTS * (THROTTLE + TIMEOUT + TIMEOUT) = 2440 := by decide

theorem paceBudget_zero : paceBudget 0 TIMEOUT = 2440 := by decide

/-! ### every public operation: composition of bounded exchanges

`…_paced` : for a terminal of ANY pace the operation leaves the pace alone and returns within so many exchange budgets
`paceBudget w.gap …`; `…_bounded` : the numbers for a terminal that answers at once or falls silent (`gap = 0`). -/

theorem readCard_paced (cfg : Cfg) (w : World) :
    (readCard cfg w).2.gap = w.gap ∧
    (readCard cfg w).2.now ≤ w.now + paceBudget w.gap (readCardTimeoutOf cfg.readCardTimeout) := by
  unfold readCard
  have hb := runOp_paced cfg "sequences::ReadCard" (readCardCmd cfg) (readCardTimeoutOf cfg.readCardTimeout)
    (readCardStep (findEnumG "sequences::ReadCardResponse")) w none
  generalize runOp cfg "sequences::ReadCard" (readCardCmd cfg) (readCardTimeoutOf cfg.readCardTimeout)
    (readCardStep (findEnumG "sequences::ReadCardResponse")) w none = q at hb ⊢
  obtain ⟨st, w'⟩ := q
  simp only at hb
  cases st with
  | ret r => exact hb
  | cont s => cases s <;> exact hb

/-- **read_card** for every `read_card_timeout` 0..255: at most 20 × (2 + 60 + t + 2) ≤ 6380 s. -/
theorem readCard_bounded (cfg : Cfg) (w : World) (h : cfg.readCardTimeout ≤ 255) (hg : w.gap = 0) :
    (readCard cfg w).2.now ≤ w.now + 6380 := by
  have hb := (readCard_paced cfg w).2
  rw [hg] at hb
  have : paceBudget 0 (readCardTimeoutOf cfg.readCardTimeout) ≤ 6380 := by
    simp only [paceBudget, if_pos, ATTEMPTS, attemptBudget, THROTTLE, TIMEOUT, readCardTimeoutOf]; omega
  omega

theorem begin_paced (cfg : Cfg) (cl : Client) (token : List Nat) (w : World) :
    (beginTx cfg cl token w).2.2.gap = w.gap ∧ (beginTx cfg cl token w).2.2.now ≤ w.now + paceBudget w.gap TIMEOUT := by
  unfold beginTx
  split
  · exact ⟨rfl, Nat.le_add_right _ _⟩
  · split
    · exact ⟨rfl, Nat.le_add_right _ _⟩
    · have hb := runOp_paced cfg "sequences::Reservation" (reservationCmd cfg token) TIMEOUT
        (beginStep (findEnumG "sequences::AuthorizationResponse")) w none
      generalize runOp cfg "sequences::Reservation" (reservationCmd cfg token) TIMEOUT
        (beginStep (findEnumG "sequences::AuthorizationResponse")) w none = q at hb ⊢
      obtain ⟨st, w'⟩ := q
      simp only at hb
      cases st with
      | ret r => simp only [beginFold]; exact hb
      | cont s => cases s <;> (simp only [beginFold]; exact hb)

/-- **begin** : refused at once, or one reservation exchange. -/
theorem begin_bounded (cfg : Cfg) (cl : Client) (token : List Nat) (w : World) (hg : w.gap = 0) :
    (beginTx cfg cl token w).2.2.now ≤ w.now + 2440 := by
  have hb := (begin_paced cfg cl token w).2
  rw [hg, paceBudget_zero] at hb; exact hb

theorem simpleOp_paced (cfg : Cfg) (seqName : String) (cmd : Bytes) (w : World)
    (onOk : EnumDef → Nat → Val → Step Unit (CRes Unit)) :
    (simpleOp cfg seqName cmd w onOk).2.gap = w.gap ∧ (simpleOp cfg seqName cmd w onOk).2.now ≤ w.now + paceBudget w.gap TIMEOUT := by
  unfold simpleOp
  have hb := runOp_paced cfg seqName cmd TIMEOUT (liftStep (onOk (seqDesc seqName cmd).enum)) w ()
  generalize runOp cfg seqName cmd TIMEOUT (liftStep (onOk (seqDesc seqName cmd).enum)) w () = q at hb ⊢
  obtain ⟨st, w'⟩ := q
  cases st <;> exact hb

theorem getSystemInfo_paced (cfg : Cfg) (w : World) :
    (getSystemInfo cfg w).2.gap = w.gap ∧ (getSystemInfo cfg w).2.now ≤ w.now + paceBudget w.gap TIMEOUT := by
  unfold getSystemInfo
  have hb := runOp_paced cfg "feig::sequences::GetSystemInfo" sysInfoCmd TIMEOUT (sysInfoStep (findEnumG "feig::sequences::GetSystemInfoResponse")) w ()
  generalize runOp cfg "feig::sequences::GetSystemInfo" sysInfoCmd TIMEOUT (sysInfoStep (findEnumG "feig::sequences::GetSystemInfoResponse")) w () = q at hb ⊢
  obtain ⟨st, w'⟩ := q
  cases st <;> exact hb

theorem setTerminalId_paced (cfg : Cfg) (w : World) :
    (setTerminalId cfg w).2.gap = w.gap ∧ (setTerminalId cfg w).2.now ≤ w.now + 2 * paceBudget w.gap TIMEOUT := by
  unfold setTerminalId
  have h1 := getSystemInfo_paced cfg w
  generalize getSystemInfo cfg w = q at h1 ⊢
  obtain ⟨r, w1⟩ := q
  simp only at h1
  cases r with
  | error e => simp only; exact ⟨h1.1, by omega⟩
  | ok info =>
    simp only
    split
    · simp only; exact ⟨h1.1, by omega⟩
    · split
      · simp only; exact ⟨h1.1, by omega⟩
      · have h2 := simpleOp_paced cfg "sequences::SetTerminalId"
          (encodeReq "packets::SetTerminalId" (.struct [.num cfg.password, .some (.num (digitsVal cfg.terminalId))])) w1 setTidDecide
        rw [h1.1] at h2
        exact ⟨h2.1, by omega⟩

theorem initialize_paced (cfg : Cfg) (w : World) :
    (initializeT cfg w).2.gap = w.gap ∧ (initializeT cfg w).2.now ≤ w.now + paceBudget w.gap TIMEOUT := by
  unfold initializeT; exact simpleOp_paced _ _ _ _ _

theorem cancelByReceipt_paced (cfg : Cfg) (r : Nat) (w : World) :
    (cancelByReceipt cfg r w).2.gap = w.gap ∧ (cancelByReceipt cfg r w).2.now ≤ w.now + paceBudget w.gap TIMEOUT := by
  unfold cancelByReceipt; exact simpleOp_paced _ _ _ _ _

/-- the pending query reports at most one receipt, within one exchange budget. -/
theorem getPending_paced (cfg : Cfg) (w : World) :
    ((getPending cfg w).2.gap = w.gap ∧ (getPending cfg w).2.now ≤ w.now + paceBudget w.gap TIMEOUT) ∧
    ∀ l, (getPending cfg w).1 = .ok l → l.length ≤ 1 := by
  unfold getPending
  have hb := runOp_paced cfg "sequences::PartialReversal" pendingCmd TIMEOUT (pendingStep (findEnumG "sequences::PartialReversalResponse")) w ()
  have hres := runOp_ret_from_step cfg "sequences::PartialReversal" pendingCmd TIMEOUT
    (pendingStep (findEnumG "sequences::PartialReversalResponse")) w ()
    (fun r => ∀ l, r = .ok l → l.length ≤ 1)
    (by
      intro s it r h
      cases it with
      | err => simp [pendingStep] at h
      | ok i v =>
        simp only [pendingStep] at h
        split at h
        · split at h
          · cases h; intro l hl; cases hl; simp
          · split at h <;> (cases h; intro l hl; cases hl; simp)
        · cases h; intro l hl; cases hl)
  generalize runOp cfg "sequences::PartialReversal" pendingCmd TIMEOUT (pendingStep (findEnumG "sequences::PartialReversalResponse")) w () = q at hb hres ⊢
  obtain ⟨st, w'⟩ := q
  cases st with
  | ret r => exact ⟨hb, hres r rfl⟩
  | cont u => exact ⟨hb, by intro l hl; cases hl⟩

theorem cancelAll_paced (cfg : Cfg) : ∀ (rs : List Nat) (w : World),
    (cancelAll cfg rs w).2.gap = w.gap ∧ (cancelAll cfg rs w).2.now ≤ w.now + rs.length * paceBudget w.gap TIMEOUT := by
  intro rs
  induction rs with
  | nil => intro w; simp [cancelAll]
  | cons r rs ih =>
    intro w
    simp only [cancelAll]
    have h1 := cancelByReceipt_paced cfg r w
    generalize cancelByReceipt cfg r w = q at h1 ⊢
    obtain ⟨res, w1⟩ := q
    simp only at h1
    have hmul : (rs.length + 1) * paceBudget w.gap TIMEOUT = rs.length * paceBudget w.gap TIMEOUT + paceBudget w.gap TIMEOUT := Nat.succ_mul _ _
    cases res with
    | error e => simp only [List.length_cons]; exact ⟨h1.1, by omega⟩
    | ok u =>
      simp only [List.length_cons]
      have h2 := ih w1
      rw [h1.1] at h2
      exact ⟨h2.1, by omega⟩

/-- **end_of_day** (pending query, reversal of at most one receipt, end-of-day): three exchange budgets. -/
theorem endOfDay_paced (cfg : Cfg) (cl : Client) (w : World) :
    (endOfDay cfg cl w).2.2.gap = w.gap ∧ (endOfDay cfg cl w).2.2.now ≤ w.now + 3 * paceBudget w.gap TIMEOUT := by
  unfold endOfDay
  obtain ⟨h1, hlen⟩ := getPending_paced cfg w
  generalize getPending cfg w = q at h1 hlen ⊢
  obtain ⟨res, w1⟩ := q
  simp only at h1
  cases res with
  | error e => simp only; exact ⟨h1.1, by omega⟩
  | ok pend =>
    simp only
    have hl := hlen pend rfl
    have h2 := cancelAll_paced cfg pend w1
    rw [h1.1] at h2
    generalize cancelAll cfg pend w1 = q2 at h2 ⊢
    obtain ⟨res2, w2⟩ := q2
    simp only at h2
    have hmul : pend.length * paceBudget w.gap TIMEOUT ≤ paceBudget w.gap TIMEOUT := by
      cases hp : pend.length with
      | zero => simp
      | succ k => have : k = 0 := by omega
                  subst this; simp
    cases res2 with
    | error e => simp only; exact ⟨h2.1, by omega⟩
    | ok u =>
      simp only
      have h3 := simpleOp_paced cfg "sequences::EndOfDay" (encodeReq "packets::EndOfDay" (.struct [.num cfg.password])) w2 eodDecide
      rw [h2.1] at h3
      generalize simpleOp cfg "sequences::EndOfDay" (encodeReq "packets::EndOfDay" (.struct [.num cfg.password])) w2 eodDecide = q3 at h3 ⊢
      obtain ⟨r3, w3⟩ := q3
      simp only at h3 ⊢
      exact ⟨h3.1, by omega⟩

/-- **configure** (`Feig::new` runs it): system info, set terminal id, initialisation, end-of-day. -/
theorem configure_paced (cfg : Cfg) (cl : Client) (w : World) :
    (configure cfg cl w).2.2.gap = w.gap ∧ (configure cfg cl w).2.2.now ≤ w.now + 6 * paceBudget w.gap TIMEOUT := by
  unfold configure
  have h1 := setTerminalId_paced cfg w
  generalize setTerminalId cfg w = q at h1 ⊢
  obtain ⟨r1, w1⟩ := q
  simp only at h1
  cases r1 with
  | error e => simp only; exact ⟨h1.1, by omega⟩
  | ok u =>
    simp only
    have h2 := initialize_paced cfg w1
    rw [h1.1] at h2
    generalize initializeT cfg w1 = q2 at h2 ⊢
    obtain ⟨r2, w2⟩ := q2
    simp only at h2
    cases r2 with
    | error e => simp only; exact ⟨h2.1, by omega⟩
    | ok u2 =>
      simp only
      have h3 := endOfDay_paced cfg cl w2
      rw [h2.1] at h3
      exact ⟨h3.1, by omega⟩

theorem idleCleanup_paced (cfg : Cfg) (cl : Client) (w : World) :
    (idleCleanup cfg cl w).2.2.gap = w.gap ∧ (idleCleanup cfg cl w).2.2.now ≤ w.now + 3 * paceBudget w.gap TIMEOUT := by
  unfold idleCleanup
  split
  · exact endOfDay_paced cfg cl w
  · exact ⟨rfl, Nat.le_add_right _ _⟩

/-- **cancel**: refused at once, or the reversal exchange plus the idle clean-up. -/
theorem cancel_paced (cfg : Cfg) (cl : Client) (token : List Nat) (w : World) :
    (cancelTx cfg cl token w).2.2.gap = w.gap ∧ (cancelTx cfg cl token w).2.2.now ≤ w.now + 4 * paceBudget w.gap TIMEOUT := by
  unfold cancelTx
  split
  · exact ⟨rfl, Nat.le_add_right _ _⟩
  · rename_i a receipt _
    have h1 := cancelByReceipt_paced cfg receipt w
    generalize cancelByReceipt cfg receipt w = q at h1 ⊢
    obtain ⟨r, w1⟩ := q
    simp only at h1
    cases r with
    | error e => simp only [cancelFold]; exact ⟨h1.1, by omega⟩
    | ok u =>
      simp only [cancelFold]
      have h2 := idleCleanup_paced cfg { txs := cl.txs.filter (·.1 ≠ token) } w1
      rw [h1.1] at h2
      exact ⟨h2.1, by omega⟩

/-- **commit**: refused at once, or the partial-reversal exchange plus the idle clean-up. -/
theorem commit_paced (cfg : Cfg) (cl : Client) (token : List Nat) (final : Nat) (w : World) :
    (commitTx cfg cl token final w).2.2.gap = w.gap ∧ (commitTx cfg cl token final w).2.2.now ≤ w.now + 4 * paceBudget w.gap TIMEOUT := by
  unfold commitTx
  split
  · exact ⟨rfl, Nat.le_add_right _ _⟩
  · rename_i a receipt _
    have h1 := runOp_paced cfg "sequences::PartialReversal" (commitCmd cfg token receipt final) TIMEOUT
      (commitStep (findEnumG "sequences::PartialReversalResponse")) w none
    generalize runOp cfg "sequences::PartialReversal" (commitCmd cfg token receipt final) TIMEOUT
      (commitStep (findEnumG "sequences::PartialReversalResponse")) w none = q at h1 ⊢
    obtain ⟨st, w1⟩ := q
    simp only at h1
    cases st with
    | ret r => simp only [commitFold]; exact ⟨h1.1, by omega⟩
    | cont s =>
      simp only [commitFold]
      have h2 := idleCleanup_paced cfg { txs := cl.txs.filter (·.1 ≠ token) } w1
      rw [h1.1] at h2
      generalize idleCleanup cfg { txs := cl.txs.filter (·.1 ≠ token) } w1 = q2 at h2 ⊢
      obtain ⟨r2, cl2, w2⟩ := q2
      simp only at h2
      cases r2 with
      | error e => simp only; exact ⟨h2.1, by omega⟩
      | ok u => cases s <;> (simp only; exact ⟨h2.1, by omega⟩)

/-! the numbers against a terminal that answers at once or falls silent (`gap = 0`): one exchange = 2440 s -/

theorem setTerminalId_bounded (cfg : Cfg) (w : World) (hg : w.gap = 0) : (setTerminalId cfg w).2.now ≤ w.now + 4880 := by
  have h := (setTerminalId_paced cfg w).2; rw [hg, paceBudget_zero] at h; omega
theorem initialize_bounded (cfg : Cfg) (w : World) (hg : w.gap = 0) : (initializeT cfg w).2.now ≤ w.now + 2440 := by
  have h := (initialize_paced cfg w).2; rw [hg, paceBudget_zero] at h; omega
theorem getSystemInfo_bounded (cfg : Cfg) (w : World) (hg : w.gap = 0) : (getSystemInfo cfg w).2.now ≤ w.now + 2440 := by
  have h := (getSystemInfo_paced cfg w).2; rw [hg, paceBudget_zero] at h; omega
theorem cancelByReceipt_bounded (cfg : Cfg) (r : Nat) (w : World) (hg : w.gap = 0) : (cancelByReceipt cfg r w).2.now ≤ w.now + 2440 := by
  have h := (cancelByReceipt_paced cfg r w).2; rw [hg, paceBudget_zero] at h; omega
theorem getPending_bounded (cfg : Cfg) (w : World) (hg : w.gap = 0) :
    (getPending cfg w).2.now ≤ w.now + 2440 ∧ ∀ l, (getPending cfg w).1 = .ok l → l.length ≤ 1 := by
  have h := getPending_paced cfg w; rw [hg, paceBudget_zero] at h; exact ⟨h.1.2, h.2⟩
theorem endOfDay_bounded (cfg : Cfg) (cl : Client) (w : World) (hg : w.gap = 0) : (endOfDay cfg cl w).2.2.now ≤ w.now + 7320 := by
  have h := (endOfDay_paced cfg cl w).2; rw [hg, paceBudget_zero] at h; omega
theorem configure_bounded (cfg : Cfg) (cl : Client) (w : World) (hg : w.gap = 0) : (configure cfg cl w).2.2.now ≤ w.now + 14640 := by
  have h := (configure_paced cfg cl w).2; rw [hg, paceBudget_zero] at h; omega
theorem idleCleanup_bounded (cfg : Cfg) (cl : Client) (w : World) (hg : w.gap = 0) : (idleCleanup cfg cl w).2.2.now ≤ w.now + 7320 := by
  have h := (idleCleanup_paced cfg cl w).2; rw [hg, paceBudget_zero] at h; omega
theorem cancel_bounded (cfg : Cfg) (cl : Client) (token : List Nat) (w : World) (hg : w.gap = 0) :
    (cancelTx cfg cl token w).2.2.now ≤ w.now + 9760 := by
  have h := (cancel_paced cfg cl token w).2; rw [hg, paceBudget_zero] at h; omega
theorem commit_bounded (cfg : Cfg) (cl : Client) (token : List Nat) (final : Nat) (w : World) (hg : w.gap = 0) :
    (commitTx cfg cl token final w).2.2.now ≤ w.now + 9760 := by
  have h := (commit_paced cfg cl token final w).2; rw [hg, paceBudget_zero] at h; omega

end Zvt.C10
