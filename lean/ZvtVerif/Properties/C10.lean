/-
  C10 — no terminal stall or configuration value can hang a client call.

  The model functions are total and have no `hang` outcome above the sequence level: every wait on the
  terminal is under a timer. The theorems bound the virtual time. What the model cannot exhibit: the
  executor (tokio's timer wheel and wakers); the harness drives the real client on the paused clock and
  compares time stamps exactly (DESIGN.md §12).
-/
import ZvtVerif.Proofs.ClientLemmas
namespace Zvt.C10
open Zvt

/-- the per-packet time-out of card reading for EVERY configuration byte: `t + 2`, computed without
overflow (it fits 64 bits with room to spare) and never zero (at least 2 s). -/
theorem timeout_no_overflow (t : Nat) (h : t ≤ 255) :
    readCardTimeoutOf t = t + 2 ∧ 2 ≤ readCardTimeoutOf t ∧ readCardTimeoutOf t ≤ 257 ∧ readCardTimeoutOf t < 2 ^ 64 := by
  unfold readCardTimeoutOf; omega

/-- one `stream.next()` consumes no time by itself. -/
theorem next_takes_no_time (d : SeqDesc) (w : World) (c : ConnSt) (st : SeqSt) :
    (seqNext d w c st).2.1.now = w.now := seqNext_now d w c st

/-- the handshake (TCP connect, registration, system info) is bounded by `TIMEOUT` wherever the
terminal falls silent in it. -/
theorem connect_bounded (cfg : Cfg) (w : World) :
    (connect cfg w).1.now = w.now ∨ (connect cfg w).1.now = w.now + TIMEOUT := connect_now cfg w

/-- an attempt on a live connection ends at most one packet time-out after it began. -/
theorem attempt_bounded {σ ρ : Type} (d : SeqDesc) (timeout : Nat) (step : σ → Item → Step σ ρ)
    (fuel : Nat) (w : World) (c : ConnSt) (st : SeqSt) (s : σ) :
    (runItems d timeout step fuel w c st s).2.1.now ≤ w.now + timeout := (runItems_now d timeout step fuel w c st s).2

/-- **Every exchange with retries returns within `ATTEMPTS × (THROTTLE + TIMEOUT + timeout)`** virtual
seconds, for every terminal script, fault table, connection behaviour and caller loop. -/
theorem exchange_bounded {σ ρ : Type} (cfg : Cfg) (seqName : String) (cmd : Bytes) (timeout : Nat)
    (step : σ → Item → Step σ ρ) (w : World) (s : σ) :
    (runOp cfg seqName cmd timeout step w s).2.now ≤ w.now + ATTEMPTS * (THROTTLE + TIMEOUT + timeout) :=
  runOp_now cfg seqName cmd timeout step w s

/-- the budgets with the constants of the source: 20 × (2 + 60 + 60) = 2440 s for ordinary exchanges. -/
theorem budget_default : ATTEMPTS * (THROTTLE + TIMEOUT + TIMEOUT) = 2440 := by decide

/-- **read_card** for every `read_card_timeout` 0..255: at most 20 × (2 + 60 + t + 2) ≤ 6380 s. -/
theorem readCard_bounded (cfg : Cfg) (w : World) (h : cfg.readCardTimeout ≤ 255) :
    (readCard cfg w).2.now ≤ w.now + 6380 := by
  unfold readCard
  have hb := runOp_now cfg "sequences::ReadCard" (readCardCmd cfg) (readCardTimeoutOf cfg.readCardTimeout)
    (readCardStep (findEnumG "sequences::ReadCardResponse")) w none
  generalize runOp cfg "sequences::ReadCard" (readCardCmd cfg) (readCardTimeoutOf cfg.readCardTimeout)
    (readCardStep (findEnumG "sequences::ReadCardResponse")) w none = q at hb ⊢
  obtain ⟨st, w'⟩ := q
  have : ATTEMPTS * attemptBudget (readCardTimeoutOf cfg.readCardTimeout) ≤ 6380 := by
    simp only [ATTEMPTS, attemptBudget, THROTTLE, TIMEOUT, readCardTimeoutOf]; omega
  simp only at hb
  cases st with
  | ret r => simp only; omega
  | cont s => cases s <;> (simp only; omega)

/-- **begin** : refused at once, or one reservation exchange. -/
theorem begin_bounded (cfg : Cfg) (cl : Client) (token : List Nat) (w : World) :
    (beginTx cfg cl token w).2.2.now ≤ w.now + 2440 := by
  unfold beginTx
  split
  · simp
  · split
    · simp
    · have hb := runOp_now cfg "sequences::Reservation" (reservationCmd cfg token) TIMEOUT
        (beginStep (findEnumG "sequences::AuthorizationResponse")) w none
      generalize runOp cfg "sequences::Reservation" (reservationCmd cfg token) TIMEOUT
        (beginStep (findEnumG "sequences::AuthorizationResponse")) w none = q at hb ⊢
      obtain ⟨st, w'⟩ := q
      have : ATTEMPTS * attemptBudget TIMEOUT = 2440 := by decide
      simp only at hb
      cases st with
      | ret r => simp only [beginFold]; omega
      | cont s => cases s <;> (simp only [beginFold]; omega)

end Zvt.C10
