/-
  C10 — no terminal stall or configuration value can hang a client call.

  The model functions are total and have no `hang` outcome above the sequence level: every wait on the
  terminal is under a timer. The theorems bound the virtual time. What the model cannot exhibit: the
  executor (tokio's timer wheel and wakers); the harness drives the real client on the paused clock and
  compares time stamps exactly (DESIGN.md §12).
-/
import ZvtVerif.Proofs.ClientLemmas
import ZvtVerif.Generated
namespace Zvt.C10
open Zvt

/-- the per-packet time-out of card reading for EVERY configuration byte: `t + 2`, computed without
overflow (it fits 64 bits with room to spare) and never zero (at least 2 s). -/
theorem timeout_no_overflow (t : Nat) (h : t ≤ 255) :
    readCardTimeoutOf t = t + 2 ∧ 2 ≤ readCardTimeoutOf t ∧ readCardTimeoutOf t ≤ 257 ∧ readCardTimeoutOf t < 2 ^ 64 := by
  unfold readCardTimeoutOf; omega

/-- one `stream.next()` consumes no time by itself. -/
theorem next_takes_no_time (d : SeqDesc) (w : World) (c : ConnSt) (st : SeqSt) :
    (seqNext d w c st).2.1.now = w.now := seqNext_now d w c st

/-- the handshake (TCP connect, registration, system info) is bounded by `TIMEOUT` wherever the
terminal falls silent in it. -/
theorem connect_bounded (cfg : Cfg) (w : World) :
    (connect cfg w).1.now = w.now ∨ (connect cfg w).1.now = w.now + TIMEOUT := connect_now cfg w

/-- an attempt on a live connection ends at most one packet time-out after it began. -/
theorem attempt_bounded {σ ρ : Type} (d : SeqDesc) (timeout : Nat) (step : σ → Item → Step σ ρ)
    (fuel : Nat) (w : World) (c : ConnSt) (st : SeqSt) (s : σ) :
    (runItems d timeout step fuel w c st s).2.1.now ≤ w.now + timeout := (runItems_now d timeout step fuel w c st s).2

/-- **Every exchange with retries returns within `ATTEMPTS × (THROTTLE + TIMEOUT + timeout)`** virtual
seconds, for every terminal script, fault table, connection behaviour and caller loop. -/
theorem exchange_bounded {σ ρ : Type} (cfg : Cfg) (seqName : String) (cmd : Bytes) (timeout : Nat)
    (step : σ → Item → Step σ ρ) (w : World) (s : σ) :
    (runOp cfg seqName cmd timeout step w s).2.now ≤ w.now + ATTEMPTS * (THROTTLE + TIMEOUT + timeout) :=
  runOp_now cfg seqName cmd timeout step w s

def constOf (k : String) : Option String := (Generated.consts.find? (·.1 == k)).map (·.2)

/-- **The model's retry budget is the source's**: the constants the theorems above are stated with are the ones
the translator reads from the source on this run — `TIMEOUT` in stream.rs, and the `throttle(2 s).take(20)` retry
streams of `ResetSequence::into_stream` and of `Feig::read_card`. -/
theorem retry_constants_match_source :
    constOf "TIMEOUT" = some "secs(60)" ∧ TIMEOUT = 60 ∧
    constOf "RETRY[into_stream]" = some "throttle=secs(2) take=20" ∧
    constOf "RETRY[read_card]" = some "throttle=secs(2) take=20" ∧ THROTTLE = 2 ∧ ATTEMPTS = 20 := by
  decide +kernel

/-- the budgets with the constants of the source: 20 × (2 + 60 + 60) = 2440 s for ordinary exchanges. -/
theorem budget_default : ATTEMPTS * (THROTTLE + TIMEOUT + TIMEOUT) = 2440 := by decide

/-- **read_card** for every `read_card_timeout` 0..255: at most 20 × (2 + 60 + t + 2) ≤ 6380 s. -/
theorem readCard_bounded (cfg : Cfg) (w : World) (h : cfg.readCardTimeout ≤ 255) :
    (readCard cfg w).2.now ≤ w.now + 6380 := by
  unfold readCard
  have hb := runOp_now cfg "sequences::ReadCard" (readCardCmd cfg) (readCardTimeoutOf cfg.readCardTimeout)
    (readCardStep (findEnumG "sequences::ReadCardResponse")) w none
  generalize runOp cfg "sequences::ReadCard" (readCardCmd cfg) (readCardTimeoutOf cfg.readCardTimeout)
    (readCardStep (findEnumG "sequences::ReadCardResponse")) w none = q at hb ⊢
  obtain ⟨st, w'⟩ := q
  have : ATTEMPTS * attemptBudget (readCardTimeoutOf cfg.readCardTimeout) ≤ 6380 := by
    simp only [ATTEMPTS, attemptBudget, THROTTLE, TIMEOUT, readCardTimeoutOf]; omega
  simp only at hb
  cases st with
  | ret r => simp only; omega
  | cont s => cases s <;> (simp only; omega)

/-- **begin** : refused at once, or one reservation exchange. -/
theorem begin_bounded (cfg : Cfg) (cl : Client) (token : List Nat) (w : World) :
    (beginTx cfg cl token w).2.2.now ≤ w.now + 2440 := by
  unfold beginTx
  split
  · simp
  · split
    · simp
    · have hb := runOp_now cfg "sequences::Reservation" (reservationCmd cfg token) TIMEOUT
        (beginStep (findEnumG "sequences::AuthorizationResponse")) w none
      generalize runOp cfg "sequences::Reservation" (reservationCmd cfg token) TIMEOUT
        (beginStep (findEnumG "sequences::AuthorizationResponse")) w none = q at hb ⊢
      obtain ⟨st, w'⟩ := q
      have : ATTEMPTS * attemptBudget TIMEOUT = 2440 := by decide
      simp only at hb
      cases st with
      | ret r => simp only [beginFold]; omega
      | cont s => cases s <;> (simp only [beginFold]; omega)

/-! ### every public operation: composition of bounded exchanges -/

theorem runOp_B {σ ρ : Type} (cfg : Cfg) (seqName : String) (cmd : Bytes) (step : σ → Item → Step σ ρ) (w : World) (s : σ) :
    (runOp cfg seqName cmd TIMEOUT step w s).2.now ≤ w.now + 2440 := by
  have := runOp_now cfg seqName cmd TIMEOUT step w s
  have hb : ATTEMPTS * attemptBudget TIMEOUT = 2440 := by decide
  omega

theorem simpleOp_bounded (cfg : Cfg) (seqName : String) (cmd : Bytes) (w : World)
    (onOk : EnumDef → Nat → Val → Step Unit (CRes Unit)) : (simpleOp cfg seqName cmd w onOk).2.now ≤ w.now + 2440 := by
  unfold simpleOp
  have hb := runOp_B cfg seqName cmd (liftStep (onOk (seqDesc seqName cmd).enum)) w ()
  generalize runOp cfg seqName cmd TIMEOUT (liftStep (onOk (seqDesc seqName cmd).enum)) w () = q at hb ⊢
  obtain ⟨st, w'⟩ := q
  cases st <;> exact hb

theorem getSystemInfo_bounded (cfg : Cfg) (w : World) : (getSystemInfo cfg w).2.now ≤ w.now + 2440 := by
  unfold getSystemInfo
  have hb := runOp_B cfg "feig::sequences::GetSystemInfo" sysInfoCmd (sysInfoStep (findEnumG "feig::sequences::GetSystemInfoResponse")) w ()
  generalize runOp cfg "feig::sequences::GetSystemInfo" sysInfoCmd TIMEOUT (sysInfoStep (findEnumG "feig::sequences::GetSystemInfoResponse")) w () = q at hb ⊢
  obtain ⟨st, w'⟩ := q
  cases st <;> exact hb

theorem setTerminalId_bounded (cfg : Cfg) (w : World) : (setTerminalId cfg w).2.now ≤ w.now + 4880 := by
  unfold setTerminalId
  have h1 := getSystemInfo_bounded cfg w
  generalize getSystemInfo cfg w = q at h1 ⊢
  obtain ⟨r, w1⟩ := q
  cases r with
  | error e => simp only; simp only at h1; omega
  | ok info =>
    simp only at h1 ⊢
    split
    · simp only; omega
    · split
      · simp only; omega
      · have := simpleOp_bounded cfg "sequences::SetTerminalId"
          (encodeReq "packets::SetTerminalId" (.struct [.num cfg.password, .some (.num (digitsVal cfg.terminalId))])) w1 setTidDecide
        omega

theorem initialize_bounded (cfg : Cfg) (w : World) : (initializeT cfg w).2.now ≤ w.now + 2440 := by
  unfold initializeT; exact simpleOp_bounded _ _ _ _ _

theorem cancelByReceipt_bounded (cfg : Cfg) (r : Nat) (w : World) : (cancelByReceipt cfg r w).2.now ≤ w.now + 2440 := by
  unfold cancelByReceipt; exact simpleOp_bounded _ _ _ _ _

/-- the pending query reports at most one receipt, within one exchange budget. -/
theorem getPending_bounded (cfg : Cfg) (w : World) :
    (getPending cfg w).2.now ≤ w.now + 2440 ∧ ∀ l, (getPending cfg w).1 = .ok l → l.length ≤ 1 := by
  unfold getPending
  have hb := runOp_B cfg "sequences::PartialReversal" pendingCmd (pendingStep (findEnumG "sequences::PartialReversalResponse")) w ()
  have hres := runOp_ret_from_step cfg "sequences::PartialReversal" pendingCmd TIMEOUT
    (pendingStep (findEnumG "sequences::PartialReversalResponse")) w ()
    (fun r => ∀ l, r = .ok l → l.length ≤ 1)
    (by
      intro s it r h
      cases it with
      | err => simp [pendingStep] at h
      | ok i v =>
        simp only [pendingStep] at h
        split at h
        · split at h
          · cases h; intro l hl; cases hl; simp
          · split at h <;> (cases h; intro l hl; cases hl; simp)
        · cases h; intro l hl; cases hl)
  generalize runOp cfg "sequences::PartialReversal" pendingCmd TIMEOUT (pendingStep (findEnumG "sequences::PartialReversalResponse")) w () = q at hb hres ⊢
  obtain ⟨st, w'⟩ := q
  cases st with
  | ret r => exact ⟨hb, hres r rfl⟩
  | cont u => exact ⟨hb, by intro l hl; cases hl⟩

theorem cancelAll_bounded (cfg : Cfg) : ∀ (rs : List Nat) (w : World), (cancelAll cfg rs w).2.now ≤ w.now + rs.length * 2440 := by
  intro rs
  induction rs with
  | nil => intro w; simp [cancelAll]
  | cons r rs ih =>
    intro w
    simp only [cancelAll]
    have h1 := cancelByReceipt_bounded cfg r w
    generalize cancelByReceipt cfg r w = q at h1 ⊢
    obtain ⟨res, w1⟩ := q
    cases res with
    | error e => simp only [List.length_cons] at h1 ⊢; omega
    | ok u =>
      simp only [List.length_cons] at h1 ⊢
      have := ih w1
      omega

/-- **end_of_day** (pending query, reversal of at most one receipt, end-of-day): three exchange budgets. -/
theorem endOfDay_bounded (cfg : Cfg) (cl : Client) (w : World) : (endOfDay cfg cl w).2.2.now ≤ w.now + 7320 := by
  unfold endOfDay
  obtain ⟨h1, hlen⟩ := getPending_bounded cfg w
  generalize getPending cfg w = q at h1 hlen ⊢
  obtain ⟨res, w1⟩ := q
  cases res with
  | error e => simp only at h1 ⊢; omega
  | ok pend =>
    simp only at h1 ⊢
    have hl := hlen pend rfl
    have h2 := cancelAll_bounded cfg pend w1
    generalize cancelAll cfg pend w1 = q2 at h2 ⊢
    obtain ⟨res2, w2⟩ := q2
    have hmul : pend.length * 2440 ≤ 2440 := by omega
    cases res2 with
    | error e => simp only at h2 ⊢; omega
    | ok u =>
      simp only at h2 ⊢
      have h3 := simpleOp_bounded cfg "sequences::EndOfDay" (encodeReq "packets::EndOfDay" (.struct [.num cfg.password])) w2 eodDecide
      generalize simpleOp cfg "sequences::EndOfDay" (encodeReq "packets::EndOfDay" (.struct [.num cfg.password])) w2 eodDecide = q3 at h3 ⊢
      obtain ⟨r3, w3⟩ := q3
      simp only at h3 ⊢
      omega

/-- **configure** (`Feig::new` runs it): system info, set terminal id, initialisation, end-of-day. -/
theorem configure_bounded (cfg : Cfg) (cl : Client) (w : World) : (configure cfg cl w).2.2.now ≤ w.now + 14640 := by
  unfold configure
  have h1 := setTerminalId_bounded cfg w
  generalize setTerminalId cfg w = q at h1 ⊢
  obtain ⟨r1, w1⟩ := q
  cases r1 with
  | error e => simp only at h1 ⊢; omega
  | ok u =>
    simp only at h1 ⊢
    have h2 := initialize_bounded cfg w1
    generalize initializeT cfg w1 = q2 at h2 ⊢
    obtain ⟨r2, w2⟩ := q2
    cases r2 with
    | error e => simp only at h2 ⊢; omega
    | ok u2 =>
      simp only at h2 ⊢
      have := endOfDay_bounded cfg cl w2
      omega

theorem idleCleanup_bounded (cfg : Cfg) (cl : Client) (w : World) : (idleCleanup cfg cl w).2.2.now ≤ w.now + 7320 := by
  unfold idleCleanup
  split
  · exact endOfDay_bounded cfg cl w
  · simp

/-- **cancel**: refused at once, or the reversal exchange plus the idle clean-up. -/
theorem cancel_bounded (cfg : Cfg) (cl : Client) (token : List Nat) (w : World) :
    (cancelTx cfg cl token w).2.2.now ≤ w.now + 9760 := by
  unfold cancelTx
  split
  · simp
  · rename_i a receipt _
    have h1 := cancelByReceipt_bounded cfg receipt w
    generalize cancelByReceipt cfg receipt w = q at h1 ⊢
    obtain ⟨r, w1⟩ := q
    cases r with
    | error e => simp only [cancelFold] at h1 ⊢; omega
    | ok u =>
      simp only [cancelFold] at h1 ⊢
      have := idleCleanup_bounded cfg { txs := cl.txs.filter (·.1 ≠ token) } w1
      omega

/-- **commit**: refused at once, or the partial-reversal exchange plus the idle clean-up. -/
theorem commit_bounded (cfg : Cfg) (cl : Client) (token : List Nat) (final : Nat) (w : World) :
    (commitTx cfg cl token final w).2.2.now ≤ w.now + 9760 := by
  unfold commitTx
  split
  · simp
  · rename_i a receipt _
    have h1 := runOp_B cfg "sequences::PartialReversal" (commitCmd cfg token receipt final)
      (commitStep (findEnumG "sequences::PartialReversalResponse")) w none
    generalize runOp cfg "sequences::PartialReversal" (commitCmd cfg token receipt final) TIMEOUT
      (commitStep (findEnumG "sequences::PartialReversalResponse")) w none = q at h1 ⊢
    obtain ⟨st, w1⟩ := q
    cases st with
    | ret r => simp only [commitFold] at h1 ⊢; omega
    | cont s =>
      simp only [commitFold] at h1 ⊢
      have h2 := idleCleanup_bounded cfg { txs := cl.txs.filter (·.1 ≠ token) } w1
      generalize idleCleanup cfg { txs := cl.txs.filter (·.1 ≠ token) } w1 = q2 at h2 ⊢
      obtain ⟨r2, cl2, w2⟩ := q2
      cases r2 with
      | error e => simp only at h2 ⊢; omega
      | ok u => cases s <;> (simp only at h2 ⊢; omega)

end Zvt.C10
