/-
  C17 — scalar, text and tag encodings round-trip over their whole domain.
-/
import ZvtVerif.Proofs.EncodingLemmas
import ZvtVerif.Schema
namespace Zvt.C17
open Zvt

/-- little- and big-endian integers of every width: every value, arbitrary trailing data. -/
theorem int_roundtrip (be : Bool) (w n : Nat) (h : n < 256 ^ w) (d : Bytes) :
    intDecode be w (intEncode be w n ++ d) = .ok (n, d) := intDecode_intEncode be w n h d

theorem int_truncated (be : Bool) (w : Nat) (b : Bytes) (h : b.length < w) :
    intDecode be w b = .error .incomplete := intDecode_short be w b h

/-- packed BCD: every value of every integer width round-trips. -/
theorem bcd_roundtrip (w n : Nat) (h : n < 256 ^ w) : bcdDec w (bcdEncK n) = .ok (n, []) := by
  rw [bcdEncK_eq]; exact bcdDec_bcdEnc w n h

/-- the encoder emits decimal digits only (both nibbles 0–9) … -/
theorem bcd_digits_only (n : Nat) : ∀ b ∈ bcdEncK n, b.toNat / 16 ≤ 9 ∧ b.toNat % 16 ≤ 9 := by
  rw [bcdEncK_eq]; exact bcdEnc_digits n

/-- … most significant digit first: the bytes of `n` are the bytes of `n / 100` followed by the
byte holding the last two decimal digits. -/
theorem bcd_msd_first (n : Nat) (h : n ≠ 0) :
    bcdEncK n = bcdEncK (n / 100) ++ [byte ((n / 10 % 10) * 16 + n % 10)] := by
  simp only [bcdEncK_eq]; exact bcdEnc_pos n h

/-- Digits that do not fit the target integer are an error, never a wrapped value: the decoder
returns exactly the unbounded value of the digit string when that fits `w` bytes, and
`IncompleteData` otherwise. Debug and release builds therefore agree. -/
theorem bcd_overflow_is_error (w : Nat) (ds : Bytes) :
    bcdDec w ds = if bcdValFrom 0 ds < 256 ^ w then .ok (bcdValFrom 0 ds, []) else .error .incomplete := by
  have := bcdDecFrom_spec w ds 0 (Nat.pow_pos (by decide))
  unfold bcdDec
  rw [this]
  by_cases h : bcdValFrom 0 ds < 256 ^ w <;> simp [h]

/-- F-padded odd-length input is accepted: a final `hF` byte contributes the single digit `h`. -/
theorem bcd_f_padding (w rv h : Nat) (hh : h ≤ 9) (hfit : rv * 10 + h < 256 ^ w) :
    bcdStep w rv (byte (h * 16 + 15)) = .ok (rv * 10 + h) := bcdStep_fpad w rv h hh hfit

/-- zero bytes in front (fixed-width padding) do not change the value. -/
theorem bcd_leading_zeros (w k : Nat) (xs : Bytes) :
    bcdDec w (List.replicate k 0 ++ xs) = bcdDec w xs := by
  unfold bcdDec
  rw [bcdDecFrom_zeros w (Nat.pow_pos (by decide)) k xs]

/-- every representable one- and two-byte tag round-trips, with arbitrary trailing data. -/
theorem tag_roundtrip (t : Nat) (h : tagRepresentable t) (d : Bytes) :
    tagDecDefault (tagEncDefault t ++ d) = .ok (t, d) := tagDec_tagEnc t h d

/-- one byte unless the first byte is 1F or FF. -/
theorem tag_shape (t : Nat) :
    (tagEncDefault t).length = (if t / 256 = 0x1f ∨ t / 256 = 0xff then 2 else 1) := tagEnc_shape t

theorem tag_be_roundtrip (t : Nat) (h : t < 65536) (d : Bytes) : tagDecBE (tagEncBE t ++ d) = .ok (t, d) :=
  tagDecBE_tagEncBE t h d

/-- hex text: every byte string decodes to lower-case hex and encodes back … -/
theorem hex_roundtrip_bytes (b : Bytes) : hexEncodeStr (hexDecodeStr b) = .ok b := hexEncode_hexDecode b

/-- … and every even-length lower-case hex string survives encode → decode. -/
theorem hex_roundtrip_text (cs : List Nat) (b : Bytes) (hl : ∀ c ∈ cs, isLowerHex c = true)
    (h : hexEncodeStr cs = .ok b) : hexDecodeStr b = cs := hexDecode_hexEncode cs b hl h

/-- CP437: every byte. -/
theorem cp437_roundtrip_byte (b : UInt8) : cpEncode (cpDecode b) = some b := cpEncode_cpDecode b

theorem cp437_roundtrip_bytes (b : Bytes) : cpEncodeStr (b.map cpDecode) = .ok b := cpEncodeStr_map_cpDecode b

/-- receipt numbers: the FFFF sentinel and every 4-digit BCD value, in the 2-byte field. -/
theorem receiptNo_sentinel (w : Nat) (d : Bytes) : prrnDec w (prrnEnc 0xffff ++ d) = .ok (0xffff, d) := by
  simp [prrnEnc, prrnDec, leBytes, byte]

/-- `padLeft 2` is what `Fixed<2>` does to the (at most two) BCD bytes. -/
theorem receiptNo_roundtrip (n : Nat) (h : n ≤ 9999) (d : Bytes) :
    prrnDec 8 (padLeft 2 (prrnEnc n) ++ d) = .ok (n, d) := by
  have hne : n ≠ 0xffff := by omega
  have hlen : (bcdEnc n).length ≤ 2 := bcdEnc_length_le 2 n (by omega)
  have hdig := bcdEnc_digits n
  have hdec : bcdDec 8 (padLeft 2 (bcdEnc n)) = .ok (n, []) := by
    unfold padLeft
    rw [bcd_leading_zeros]
    exact bcdDec_bcdEnc 8 n (by omega)
  have hpl : (padLeft 2 (bcdEnc n)).length = 2 := by simp [padLeft]; omega
  have hmem : ∀ b ∈ padLeft 2 (bcdEnc n), b.toNat % 16 ≤ 9 := by
    intro b hb
    simp only [padLeft, List.mem_append, List.mem_replicate] at hb
    rcases hb with ⟨_, rfl⟩ | hb
    · decide
    · exact (hdig b hb).2
  simp only [prrnEnc, hne, if_false, bcdEncK_eq]
  match hp : padLeft 2 (bcdEnc n), hpl with
  | [b0, b1], _ =>
    rw [hp] at hdec hmem
    have h1 := hmem b1 (by simp)
    have hnot : ¬ (b0 = 0xff ∧ b1 = 0xff) := by
      rintro ⟨_, rfl⟩
      revert h1; decide
    simp [prrnDec, hnot, hdec]

end Zvt.C17
