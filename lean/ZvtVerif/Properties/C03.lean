/-
  C03 — shipped packets use the wire layout the ZVT / Feig specification assigns.
-/
import ZvtVerif.Generated
import ZvtVerif.Spec.Layout
import ZvtVerif.Proofs.SchemaEq
namespace Zvt.C03
open Zvt

/-- The table re-translated from the source on this run equals the frozen specification table:
every packet's control field and, for every field, its position, name, BMP/TLV number, length style,
value encoding and type. (`decide`: re-checked by the kernel whenever `Generated.lean` changes.) -/
theorem shipped_beq_spec : structsBeq Generated.shipped Spec.shipped = true := by decide +kernel

theorem shipped_eq_spec : Generated.shipped = Spec.shipped :=
  structsBeq_sound _ _ shipped_beq_spec

/-- reply enums: same variants, in the same order, with the same packet layouts. -/
theorem enums_beq_spec : enumsBeq Generated.enums Spec.enums = true := by decide +kernel

/-- the translator translated everything it found. -/
theorem no_translator_problems : Generated.problems = [] := by decide

end Zvt.C03
