/-
  C03 — shipped packets use the wire layout the ZVT / Feig specification assigns.
-/
import ZvtVerif.Generated
import ZvtVerif.Spec.Layout
import ZvtVerif.Proofs.SchemaEq
import ZvtVerif.Proofs.RefEq
namespace Zvt.C03
open Zvt

/-- every packet type of `spec` occurs in `shipped` with exactly the same layout. -/
def structsCovered (spec shipped : List StructDef) : Bool :=
  spec.all fun s => shipped.any fun t => StructDef.beq t s

def enumsCovered (spec shipped : List EnumDef) : Bool :=
  spec.all fun s => shipped.any fun t => EnumDef.beq t s

/-- Every packet type of the frozen specification table is in the table re-translated from the source on this run
with exactly the specified layout: control field and, for every field, its position, name, BMP/TLV number, length
style, value encoding and type. (`decide`: re-checked by the kernel whenever `Generated.lean` changes. A packet
type the source adds on top — for which the specification table says nothing — does not break this obligation; it
is listed in the evidence and still subject to the generic theorems C01/C02/C12–C15.) -/
theorem shipped_covers_spec_b : structsCovered Spec.shipped Generated.shipped = true := by decide +kernel

theorem shipped_covers_spec : ∀ s ∈ Spec.shipped, s ∈ Generated.shipped := by
  intro s hs
  have h := List.all_eq_true.mp shipped_covers_spec_b s hs
  obtain ⟨t, ht, hb⟩ := List.any_eq_true.mp h
  rw [← StructDef.beq_sound t s hb]; exact ht

/-- on the pinned tree the two tables are equal (nothing beyond the specification is shipped); kept as a witness that the
covering obligation is not vacuous — NOT an obligation of the check (it fails, harmlessly, when a packet type is added). -/
example : Spec.shipped.length = 55 := by decide

/-- reply enums of the specification: present with the same variants, in the same order, with the same packet layouts. -/
theorem enums_cover_spec : enumsCovered Spec.enums Generated.enums = true := by decide +kernel

/-- the translator translated every packet type and reply enum it found. -/
theorem no_translator_problems : Generated.layoutProblems = [] := by decide

/-! ### the layout as a theorem: code (model) = reference encoder of the format description

`Ref.encode` (Spec/RefCodec.lean) assembles a packet from a layout table the way the ZVT / Feig specification describes
the format: class, instruction, APDU length; per field the BMP / TLV number, the length prefix of its style (nothing,
left zero padding, LLVAR / LLLVAR digits, shortest BER length) and the value (little / big endian, decimal digit
pairs, hex pairs, code page 437). It is a different function from the model of the Rust serialiser (`encodeCmd`, one
definition per Rust function). The theorems below say that the two agree on every canonical value — for every
well-formed layout, hence for the shipped ones — and that the reference bytes decode into exactly the named fields. -/

/-- every layout of the frozen specification table is well-formed. -/
theorem spec_wf : ∀ s ∈ Spec.shipped, structWf s = true := by decide +kernel

/-- **C03, generic**: for ANY well-formed layout and every canonical value: the bytes assembled by the reference
encoder from the layout table are the bytes the (model of the) serialiser writes, they decode into exactly that
value with nothing left over, and for a command whatever follows is handed back. -/
theorem layout_implemented (s : StructDef) (hwf : structWf s = true) (v : Val) (hc : s.canon v) :
    ∃ bytes, Ref.encode s v = some bytes ∧ encodeCmd s v = .ok bytes ∧ decodeCmd s bytes = .ok (v, []) ∧
      (s.ctrl.isSome = true → ∀ x, decodeCmd s (bytes ++ x) = .ok (v, x)) := by
  obtain ⟨bytes, henc, hdec, hsuf⟩ := packet_roundtrip s hwf v hc
  exact ⟨bytes, Ref.encode_eq s hwf v hc bytes henc, henc, hdec, hsuf⟩

/-- **C03 for the shipped packets**: every packet type of the specification table is in the source with exactly that
layout (`shipped_covers_spec`), and for each of them and every canonical value the serialiser's bytes ARE the
reference bytes: each field at its position, under its number, with its length style and value encoding, inside
the APDU of the packet's class and instruction; decoding the reference bytes gives back the named fields and
re-encoding them the identical bytes. -/
theorem shipped_layout_implemented (s : StructDef) (hs : s ∈ Spec.shipped) (v : Val) (hc : s.canon v) :
    s ∈ Generated.shipped ∧
    ∃ bytes, Ref.encode s v = some bytes ∧ encodeCmd s v = .ok bytes ∧ decodeCmd s bytes = .ok (v, []) :=
  ⟨shipped_covers_spec s hs, by
    obtain ⟨b, h1, h2, h3, _⟩ := layout_implemented s (spec_wf s hs) v hc
    exact ⟨b, h1, h2, h3⟩⟩

/-- the reference encoder can only produce what the serialiser produces: if both are defined on a canonical value
they are equal (restated for use from other files). -/
theorem reference_bytes_unique (s : StructDef) (hwf : structWf s = true) (v : Val) (hc : s.canon v) (a b : Bytes)
    (ha : Ref.encode s v = some a) (hb : encodeCmd s v = .ok b) : a = b := by
  have := Ref.encode_eq s hwf v hc b hb
  rw [ha] at this; exact Option.some.inj this

/-! non-vacuity: concrete packets of the specification table, evaluated by the kernel — the reference encoder on its
own produces the captured bytes, and the decoder reads them back. -/

/-- Registration `06 00 06 12 34 56 DE 09 78` from the layout table alone. -/
example : Ref.encode Spec.packets_Registration (.struct [.num 123456, .num 0xde, .some (.num 978), .none])
    = some [0x06, 0x00, 0x06, 0x12, 0x34, 0x56, 0xde, 0x09, 0x78] := by decide +kernel

/-- the primitives of the format description on boundary values (kernel-evaluated). -/
example : Ref.bcd 0 = [] ∧ Ref.bcd 7 = [0x07] ∧ Ref.bcd 978 = [0x09, 0x78] ∧ Ref.bcd 123456 = [0x12, 0x34, 0x56] := by
  decide +kernel
example : Ref.lengthPrefix .tlv 127 = some [0x7f] ∧ Ref.lengthPrefix .tlv 128 = some [0x81, 0x80] ∧
    Ref.lengthPrefix .tlv 256 = some [0x82, 0x01, 0x00] ∧ Ref.lengthPrefix .tlv 65536 = none ∧
    Ref.lengthPrefix (.llv 2) 7 = some [0xf0, 0xf7] ∧ Ref.lengthPrefix (.llv 3) 120 = some [0xf1, 0xf2, 0xf0] ∧
    Ref.lengthPrefix (.llv 2) 100 = none ∧
    Ref.lengthPrefix .adpu 254 = some [0xfe] ∧ Ref.lengthPrefix .adpu 255 = some [0xff, 0xff, 0x00] ∧
    Ref.lengthPrefix (.fixed 3) 1 = some [0, 0] ∧ Ref.lengthPrefix (.fixed 3) 4 = none := by decide +kernel
example : Ref.tagBytes 0x1f = none ∧ Ref.tagBytes 0x1f0e = some [0x1f, 0x0e] ∧ Ref.tagBytes 0x2a = some [0x2a] ∧
    Ref.tagBytes 0x2a00 = none := by decide +kernel

end Zvt.C03
