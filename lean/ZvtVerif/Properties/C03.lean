/-
  C03 — shipped packets use the wire layout the ZVT / Feig specification assigns.
-/
import ZvtVerif.Generated
import ZvtVerif.Spec.Layout
import ZvtVerif.Proofs.SchemaEq
namespace Zvt.C03
open Zvt

/-- every packet type of `spec` occurs in `shipped` with exactly the same layout. -/
def structsCovered (spec shipped : List StructDef) : Bool :=
  spec.all fun s => shipped.any fun t => StructDef.beq t s

def enumsCovered (spec shipped : List EnumDef) : Bool :=
  spec.all fun s => shipped.any fun t => EnumDef.beq t s

/-- Every packet type of the frozen specification table is in the table re-translated from the source on this run
with exactly the specified layout: control field and, for every field, its position, name, BMP/TLV number, length
style, value encoding and type. (`decide`: re-checked by the kernel whenever `Generated.lean` changes. A packet
type the source adds on top — for which the specification table says nothing — does not break this obligation; it
is listed in the evidence and still subject to the generic theorems C01/C02/C12–C15.) -/
theorem shipped_covers_spec_b : structsCovered Spec.shipped Generated.shipped = true := by decide +kernel

theorem shipped_covers_spec : ∀ s ∈ Spec.shipped, s ∈ Generated.shipped := by
  intro s hs
  have h := List.all_eq_true.mp shipped_covers_spec_b s hs
  obtain ⟨t, ht, hb⟩ := List.any_eq_true.mp h
  rw [← StructDef.beq_sound t s hb]; exact ht

/-- on the pinned tree the two tables are equal (nothing beyond the specification is shipped); kept as a witness that the
covering obligation is not vacuous — NOT an obligation of the check (it fails, harmlessly, when a packet type is added). -/
example : Spec.shipped.length = 55 := by decide

/-- reply enums of the specification: present with the same variants, in the same order, with the same packet layouts. -/
theorem enums_cover_spec : enumsCovered Spec.enums Generated.enums = true := by decide +kernel

/-- the translator translated everything it found. -/
theorem no_translator_problems : Generated.problems = [] := by decide

end Zvt.C03
