/-
  C07 — transaction tokens map one-to-one onto open pre-authorisations.

  The client keeps `txs : List (token × receipt)`. Abstract specification: a finite map from tokens to
  receipt numbers. The theorems below hold for EVERY world (terminal script, faults, time) because they
  only depend on the guards and on how the outcome of the exchange is folded into the map.
-/
import ZvtVerif.Client
namespace Zvt.C07
open Zvt

/-- the map invariant: at most one entry per token. -/
def Inv (cl : Client) : Prop := (cl.txs.map (·.1)).Nodup

/-- a call refused by the guards (`Maximum number of transactions reached` / `Token already in use`)
returns without touching the world: no traffic, no time, token map unchanged. -/
theorem begin_refused_no_traffic (cfg : Cfg) (cl : Client) (token : List Nat) (w : World)
    (h : cl.txs.length = cfg.maxTx ∨ cl.txs.any (·.1 = token) = true) :
    (beginTx cfg cl token w = (.error .activeMax, cl, w)) ∨ (beginTx cfg cl token w = (.error .activeInUse, cl, w)) := by
  unfold beginTx
  by_cases h1 : cl.txs.length = cfg.maxTx
  · left; simp [h1]
  · rcases h with h | h
    · exact absurd h h1
    · right; simp [h1, h]

theorem commit_unknown_no_traffic (cfg : Cfg) (cl : Client) (token : List Nat) (final : Nat) (w : World)
    (h : cl.txs.find? (·.1 = token) = none) :
    commitTx cfg cl token final w = (.error (.unknownToken token), cl, w) := by
  unfold commitTx; simp [h]

theorem cancel_unknown_no_traffic (cfg : Cfg) (cl : Client) (token : List Nat) (w : World)
    (h : cl.txs.find? (·.1 = token) = none) :
    cancelTx cfg cl token w = (.error (.unknownToken token), cl, w) := by
  unfold cancelTx; simp [h]

/-- `end_of_day` always leaves the map empty. -/
theorem endOfDay_clears (cfg : Cfg) (cl : Client) (w : World) : (endOfDay cfg cl w).2.1.txs = [] := by
  unfold endOfDay
  simp only
  split
  · rfl
  · split
    · rfl
    · rfl

theorem idleCleanup_txs (cfg : Cfg) (cl : Client) (w : World) : (idleCleanup cfg cl w).2.1.txs = cl.txs := by
  unfold idleCleanup
  by_cases he : cl.txs.isEmpty = true
  · have : cl.txs = [] := by simpa using he
    simp only [he, if_true]
    rw [endOfDay_clears, this]
  · simp [he]

/-- fold of the reservation outcome: unchanged map, or the old map plus exactly `token ↦ rc`, the latter
only together with success. -/
theorem beginFold_post (cl : Client) (token : List Nat) (res : Step (Option Nat) (CRes Unit) × World) :
    ((beginFold cl token res).2.1 = cl) ∨
    (∃ rc, (beginFold cl token res).2.1.txs = (token, rc) :: cl.txs.filter (·.1 ≠ token) ∧ (beginFold cl token res).1 = .ok ()) := by
  obtain ⟨st, w⟩ := res
  cases st with
  | ret r => left; rfl
  | cont s =>
    cases s with
    | none => left; rfl
    | some rc => right; exact ⟨rc, rfl, rfl⟩

/-- **begin**: whatever the terminal does, the map afterwards is either unchanged or the old map plus
exactly `token ↦ rc` for one receipt number `rc` — the latter only if the call succeeded, the token was
not open and the map was not full. -/
theorem begin_post (cfg : Cfg) (cl : Client) (token : List Nat) (w : World) :
    ((beginTx cfg cl token w).2.1 = cl) ∨
    (∃ rc, (beginTx cfg cl token w).2.1.txs = (token, rc) :: cl.txs.filter (·.1 ≠ token) ∧
      (beginTx cfg cl token w).1 = .ok () ∧ cl.txs.length ≠ cfg.maxTx ∧ cl.txs.any (·.1 = token) = false) := by
  unfold beginTx
  by_cases h1 : cl.txs.length = cfg.maxTx
  · left; simp [h1]
  · by_cases h2 : cl.txs.any (·.1 = token) = true
    · left; simp [h1, h2]
    · simp only [h1, h2, if_false]
      rcases beginFold_post cl token _ with h | ⟨rc, ha, hb⟩
      · left; exact h
      · right; exact ⟨rc, ha, hb, h1, by simpa using h2⟩

/-- the abort decision of `begin_transaction` never reports success. -/
theorem beginStep_ret_is_error (e : EnumDef) (s : Option Nat) (it : Item) (r : CRes Unit)
    (h : beginStep e s it = .ret r) : ∃ er, r = .error er := by
  unfold beginStep at h
  cases it with
  | err => simp at h
  | ok i v =>
    simp only at h
    split at h
    · simp at h; exact ⟨_, h.symm⟩
    · split at h
      · split at h <;> simp at h
      · simp at h

theorem commitFold_txs (cfg : Cfg) (cl : Client) (res : Step (Option Val) (CRes Summary) × World) :
    (commitFold cfg cl res).2.1.txs = cl.txs := by
  obtain ⟨st, w⟩ := res
  cases st with
  | ret r => rfl
  | cont s =>
    have h := idleCleanup_txs cfg cl w
    unfold commitFold
    simp only
    generalize idleCleanup cfg cl w = ic at h ⊢
    obtain ⟨r, cl', w'⟩ := ic
    cases r with
    | error er => exact h
    | ok u => cases s <;> exact h

/-- **commit** closes exactly the given token, whatever the terminal does. -/
theorem commit_post (cfg : Cfg) (cl : Client) (token : List Nat) (final : Nat) (w : World)
    (receipt : Nat) (h : cl.txs.find? (·.1 = token) = some (token, receipt)) :
    (commitTx cfg cl token final w).2.1.txs = cl.txs.filter (·.1 ≠ token) := by
  unfold commitTx
  simp only [h]
  exact commitFold_txs cfg _ _

theorem cancelFold_txs (cfg : Cfg) (cl : Client) (res : CRes Unit × World) : (cancelFold cfg cl res).2.1.txs = cl.txs := by
  obtain ⟨r, w⟩ := res
  cases r with
  | error er => rfl
  | ok u => exact idleCleanup_txs cfg cl w

/-- **cancel** closes exactly the given token, whatever the terminal does. -/
theorem cancel_post (cfg : Cfg) (cl : Client) (token : List Nat) (w : World)
    (receipt : Nat) (h : cl.txs.find? (·.1 = token) = some (token, receipt)) :
    (cancelTx cfg cl token w).2.1.txs = cl.txs.filter (·.1 ≠ token) := by
  unfold cancelTx
  simp only [h]
  exact cancelFold_txs cfg _ _

theorem filter_nodup (l : List (List Nat × Nat)) (token : List Nat) (h : (l.map (·.1)).Nodup) :
    ((l.filter (·.1 ≠ token)).map (·.1)).Nodup := by
  induction l with
  | nil => simp
  | cons a l ih =>
    simp only [List.map_cons, List.nodup_cons] at h
    by_cases ha : a.1 = token
    · have : (a :: l).filter (·.1 ≠ token) = l.filter (·.1 ≠ token) := by simp [ha]
      rw [this]; exact ih h.2
    · have : (a :: l).filter (·.1 ≠ token) = a :: l.filter (·.1 ≠ token) := by simp [ha]
      rw [this]
      simp only [List.map_cons, List.nodup_cons]
      refine ⟨?_, ih h.2⟩
      intro hm
      apply h.1
      simp only [List.mem_map, List.mem_filter] at hm ⊢
      obtain ⟨x, ⟨hx, _⟩, hx2⟩ := hm
      exact ⟨x, hx, hx2⟩

/-- the invariant (one entry per token) is preserved by begin … -/
theorem begin_inv (cfg : Cfg) (cl : Client) (token : List Nat) (w : World) (h : Inv cl) :
    Inv (beginTx cfg cl token w).2.1 := by
  rcases begin_post cfg cl token w with heq | ⟨rc, heq, _, _, _⟩
  · rw [heq]; exact h
  · unfold Inv; rw [heq]
    simp only [List.map_cons, List.nodup_cons]
    refine ⟨?_, filter_nodup cl.txs token h⟩
    simp [List.mem_map, List.mem_filter]

/-- … and by commit and cancel of an open token. -/
theorem commit_inv (cfg : Cfg) (cl : Client) (token : List Nat) (final : Nat) (w : World)
    (receipt : Nat) (hf : cl.txs.find? (·.1 = token) = some (token, receipt)) (h : Inv cl) :
    Inv (commitTx cfg cl token final w).2.1 := by
  unfold Inv; rw [commit_post cfg cl token final w receipt hf]; exact filter_nodup cl.txs token h

theorem cancel_inv (cfg : Cfg) (cl : Client) (token : List Nat) (w : World)
    (receipt : Nat) (hf : cl.txs.find? (·.1 = token) = some (token, receipt)) (h : Inv cl) :
    Inv (cancelTx cfg cl token w).2.1 := by
  unfold Inv; rw [cancel_post cfg cl token w receipt hf]; exact filter_nodup cl.txs token h

/-- never more open tokens than the configured maximum (starting from the empty map). -/
theorem begin_bound (cfg : Cfg) (cl : Client) (token : List Nat) (w : World) (h : cl.txs.length ≤ cfg.maxTx) :
    (beginTx cfg cl token w).2.1.txs.length ≤ cfg.maxTx := by
  rcases begin_post cfg cl token w with heq | ⟨rc, heq, _, hmax, hany⟩
  · rw [heq]; exact h
  · rw [heq]
    have : (cl.txs.filter (·.1 ≠ token)).length ≤ cl.txs.length := List.length_filter_le _ _
    simp only [List.length_cons]
    omega

/-- after an entry `token ↦ r` exists, the request commit issues is built from exactly `r`. -/
theorem commit_uses_own_receipt (cfg : Cfg) (cl : Client) (token : List Nat) (final : Nat) (w : World)
    (receipt : Nat) (h : cl.txs.find? (·.1 = token) = some (token, receipt)) :
    commitTx cfg cl token final w =
      commitFold cfg { txs := cl.txs.filter (·.1 ≠ token) }
        (runOp cfg "sequences::PartialReversal" (commitCmd cfg token receipt final) TIMEOUT
          (commitStep (findEnumG "sequences::PartialReversalResponse")) w none) := by
  unfold commitTx; simp only [h]

/-! ### every reachable state: induction over arbitrary call histories -/

inductive Call where
  | begin (token : List Nat)
  | commit (token : List Nat) (final : Nat)
  | cancel (token : List Nat)

def runCall (cfg : Cfg) (s : Client × World) : Call → Client × World
  | .begin t => ((beginTx cfg s.1 t s.2).2.1, (beginTx cfg s.1 t s.2).2.2)
  | .commit t f => ((commitTx cfg s.1 t f s.2).2.1, (commitTx cfg s.1 t f s.2).2.2)
  | .cancel t => ((cancelTx cfg s.1 t s.2).2.1, (cancelTx cfg s.1 t s.2).2.2)

def runCalls (cfg : Cfg) (s : Client × World) (calls : List Call) : Client × World := calls.foldl (runCall cfg) s

theorem find_token {l : List (List Nat × Nat)} {token : List Nat} {a : List Nat} {r : Nat}
    (h : l.find? (·.1 = token) = some (a, r)) : a = token := by
  have := List.find?_some h
  simpa using this

/-- one call preserves "one entry per token, at most `max` entries", whatever the terminal answers. -/
theorem call_preserves (cfg : Cfg) (s : Client × World) (c : Call) (h : Inv s.1 ∧ s.1.txs.length ≤ cfg.maxTx) :
    Inv (runCall cfg s c).1 ∧ (runCall cfg s c).1.txs.length ≤ cfg.maxTx := by
  obtain ⟨hi, hl⟩ := h
  cases c with
  | begin t => exact ⟨begin_inv cfg s.1 t s.2 hi, begin_bound cfg s.1 t s.2 hl⟩
  | commit t f =>
    simp only [runCall]
    cases hf : s.1.txs.find? (·.1 = t) with
    | none => rw [commit_unknown_no_traffic cfg s.1 t f s.2 hf]; exact ⟨hi, hl⟩
    | some p =>
      obtain ⟨a, r⟩ := p
      have := find_token hf; subst this
      refine ⟨commit_inv cfg s.1 a f s.2 r hf hi, ?_⟩
      rw [commit_post cfg s.1 a f s.2 r hf]
      have := List.length_filter_le (fun x : List Nat × Nat => decide (x.1 ≠ a)) s.1.txs
      omega
  | cancel t =>
    simp only [runCall]
    cases hf : s.1.txs.find? (·.1 = t) with
    | none => rw [cancel_unknown_no_traffic cfg s.1 t s.2 hf]; exact ⟨hi, hl⟩
    | some p =>
      obtain ⟨a, r⟩ := p
      have := find_token hf; subst this
      refine ⟨cancel_inv cfg s.1 a s.2 r hf hi, ?_⟩
      rw [cancel_post cfg s.1 a s.2 r hf]
      have := List.length_filter_le (fun x : List Nat × Nat => decide (x.1 ≠ a)) s.1.txs
      omega

/-- **Every reachable state** — after ANY history of begin / commit / cancel calls against ANY terminal
behaviour (the world `w` is arbitrary: replies, faults, time-outs), starting from the empty map: each open
token has exactly one receipt and the number of open tokens never exceeds the configured maximum. -/
theorem reachable_inv (cfg : Cfg) (w : World) (calls : List Call) :
    Inv (runCalls cfg ({}, w) calls).1 ∧ (runCalls cfg ({}, w) calls).1.txs.length ≤ cfg.maxTx := by
  have key : ∀ (calls : List Call) (s : Client × World), (Inv s.1 ∧ s.1.txs.length ≤ cfg.maxTx) →
      Inv (runCalls cfg s calls).1 ∧ (runCalls cfg s calls).1.txs.length ≤ cfg.maxTx := by
    intro calls
    induction calls with
    | nil => intro s h; exact h
    | cons c cs ih => intro s h; exact ih (runCall cfg s c) (call_preserves cfg s c h)
  exact key calls ({}, w) ⟨by simp [Inv], by simp⟩

/-- non-vacuity: a concrete client state satisfying the invariant, with one open token. -/
example : Inv { txs := [([97], 11)] } := by simp [Inv]

end Zvt.C07
