/-
  C13 — tagged fields: any order accepted, duplicates and missing fields reported.

  All four statements come from one loop invariant (Proofs/TagLoop.lean). They are stated for an
  ARBITRARY struct definition and arbitrary arms (`arm` = the `match tag.0 { … }` of the generated code),
  over sequences of *groups* = encoded tagged fields that decode exactly whatever follows them
  (`GroupOK`; for the fields of well-formed structs this is the field-level round trip of C01 together
  with the suffix law of C14).
-/
import ZvtVerif.Proofs.TagLoop
namespace Zvt.C13
open Zvt

/-! ### what the loop does on groups ++ tail -/

/-- all groups consumed, nothing left: the loop ends with every group recorded. -/
theorem loop_all_groups (arm : Arm) (gs : List Group) (fuel currLen : Nat) (acc : List (Nat × Val)) (seen : List Nat)
    (hok : ∀ g ∈ gs, GroupOK arm g) (hnd : (gs.map (·.t)).Nodup) (hns : ∀ g ∈ gs, g.t ∉ seen)
    (hcl : gs ≠ [] → currLen ≠ (flat gs).length) :
    tagLoop arm (gs.length + (fuel + 1)) currLen (flat gs) acc seen = .ok (results gs acc, tagsOf gs seen, []) := by
  have := tagLoop_groups arm gs (fuel + 1) currLen [] acc seen hok hnd hns (by simpa using hcl)
    (fun g _ => Or.inr (noStart_nil g.t))
  simp only [List.append_nil] at this
  rw [this]
  simp [tagLoop]

/-- **Foreign tag.** A tag the struct does not know, behind any sequence of groups, stops the loop: the
fields decoded so far are exactly those of the groups before it, and everything from the unknown tag on
is handed back untouched. -/
theorem loop_foreign_tag (arm : Arm) (gs : List Group) (fuel currLen : Nat) (tail : Bytes) (u : Nat) (r : Bytes)
    (acc : List (Nat × Val)) (seen : List Nat)
    (hok : ∀ g ∈ gs, GroupOK arm g) (hnd : (gs.map (·.t)).Nodup) (hns : ∀ g ∈ gs, g.t ∉ seen)
    (hcl : gs ≠ [] → currLen ≠ (flat gs ++ tail).length) (hcl0 : gs = [] → currLen ≠ tail.length)
    (htag : tagDecDefault tail = .ok (u, r)) (hunk : arm u tail = none) (hfor : ∀ g ∈ gs, g.t ≠ u) :
    tagLoop arm (gs.length + (fuel + 1)) currLen (flat gs ++ tail) acc seen = .ok (results gs acc, tagsOf gs seen, tail) := by
  have hlast : ∀ g, gs.getLast? = some g → g.Follows tail := by
    intro g hg
    right; intro r' h'
    rw [htag] at h'
    simp only [Except.ok.injEq, Prod.mk.injEq] at h'
    exact hfor g (List.mem_of_getLast? hg) h'.1.symm
  rw [tagLoop_groups arm gs (fuel + 1) currLen tail acc seen hok hnd hns hcl hlast]
  have hne : tail ≠ [] := by intro h; subst h; simp [tagDecDefault] at htag
  have hl : lastLen gs tail currLen ≠ tail.length := by
    cases gs with
    | nil => simpa [lastLen] using hcl0 rfl
    | cons g gs' => exact lastLen_ne _ _ _ (by simp) (fun x hx => (hok x hx).1)
  simp only [tagLoop]
  have : ¬ (tail.isEmpty = true ∨ lastLen gs tail currLen = tail.length) := by
    intro h; rcases h with h | h
    · cases tail <;> simp_all
    · exact hl h
  simp [this, htag, hunk]

/-- **Duplicate.** A second group with a tag that was already consumed — wherever it stands — is rejected
with `DuplicateTag` naming that tag, before its content is even looked at. (`hlast`: the group just before
the duplicate may be followed by it — always so for a single field; the elements of a `Vec` field that stand
next to each other form ONE group, so a duplicate of a `Vec` group is one that is separated from it.) -/
theorem loop_duplicate (arm : Arm) (gs : List Group) (fuel currLen : Nat) (tail : Bytes) (t : Nat) (r : Bytes)
    (idx : Nat) (res : Res (Val × Bytes)) (acc : List (Nat × Val)) (seen : List Nat)
    (hok : ∀ g ∈ gs, GroupOK arm g) (hnd : (gs.map (·.t)).Nodup) (hns : ∀ g ∈ gs, g.t ∉ seen)
    (hcl : gs ≠ [] → currLen ≠ (flat gs ++ tail).length) (hcl0 : gs = [] → currLen ≠ tail.length)
    (htag : tagDecDefault tail = .ok (t, r)) (harm : arm t tail = some (idx, res)) (hdup : t ∈ tagsOf gs seen)
    (hlast : ∀ g, gs.getLast? = some g → g.Follows tail) :
    tagLoop arm (gs.length + (fuel + 1)) currLen (flat gs ++ tail) acc seen = .error (.duplicateTag t) := by
  rw [tagLoop_groups arm gs (fuel + 1) currLen tail acc seen hok hnd hns hcl hlast]
  have hne : tail ≠ [] := by intro h; subst h; simp [tagDecDefault] at htag
  have hl : lastLen gs tail currLen ≠ tail.length := by
    cases gs with
    | nil => simpa [lastLen] using hcl0 rfl
    | cons g gs' => exact lastLen_ne _ _ _ (by simp) (fun x hx => (hok x hx).1)
  simp only [tagLoop]
  have : ¬ (tail.isEmpty = true ∨ lastLen gs tail currLen = tail.length) := by
    intro h; rcases h with h | h
    · cases tail <;> simp_all
    · exact hl h
  have hc : (tagsOf gs seen).contains t = true := by simpa using hdup
  simp only [this, if_false, htag, harm, hc, if_true]

/-! ### order independence of what is assembled from the loop's result -/

theorem lookupIdx_perm (i : Nat) : ∀ {l l' : List (Nat × Val)}, l.Perm l' → (l.map (·.1)).Nodup →
    lookupIdx i l = lookupIdx i l' := by
  intro l l' hp
  induction hp with
  | nil => intro _; rfl
  | cons x _ ih =>
    intro hnd
    obtain ⟨j, v⟩ := x
    simp only [List.map_cons, List.nodup_cons] at hnd
    simp only [lookupIdx]
    split
    · rfl
    · exact ih hnd.2
  | swap x y l =>
    intro hnd
    obtain ⟨j, v⟩ := x
    obtain ⟨k, w⟩ := y
    simp only [List.map_cons, List.nodup_cons, List.mem_cons] at hnd
    simp only [lookupIdx]
    have hkj : k ≠ j := fun h => hnd.1 (Or.inl h)
    by_cases h1 : i = k <;> by_cases h2 : i = j
    · exfalso; apply hkj; rw [← h1, ← h2]
    · subst h1; simp [hkj]
    · subst h2; simp [Ne.symm hkj]
    · simp [h1, h2]
  | trans h1 _ ih1 ih2 =>
    intro hnd
    rw [ih1 hnd]
    apply ih2
    exact (List.Perm.nodup_iff (List.Perm.map _ h1)).mp hnd

theorem assemble_congr : ∀ (fs : List Field) (pvals : List Val) (acc acc' : List (Nat × Val)) (i : Nat),
    (∀ j, lookupIdx j acc = lookupIdx j acc') → assemble fs pvals acc i = assemble fs pvals acc' i := by
  intro fs
  induction fs with
  | nil => intro _ _ _ _ _; rfl
  | cons f fs ih =>
    intro pvals acc acc' i h
    simp only [assemble]
    cases f.tag with
    | none =>
      simp only
      cases pvals with
      | nil => simp only; rw [ih [] acc acc' (i + 1) h]
      | cons p ps => simp only; rw [ih ps acc acc' (i + 1) h]
    | some t => simp only; rw [h i, ih pvals acc acc' (i + 1) h]

theorem results_perm {gs gs' : List Group} (hp : gs.Perm gs') : (results gs []).Perm (results gs' []) := by
  simp only [results, List.append_nil]
  exact (List.reverse_perm _).trans ((List.Perm.map _ hp).trans (List.reverse_perm _).symm)

theorem tags_contains_perm {gs gs' : List Group} (hp : gs.Perm gs') (t : Nat) :
    (tagsOf gs []).contains t = (tagsOf gs' []).contains t := by
  simp only [tagsOf, List.append_nil]
  have : ((gs.map (·.t)).reverse).Perm ((gs'.map (·.t)).reverse) :=
    (List.reverse_perm _).trans ((List.Perm.map _ hp).trans (List.reverse_perm _).symm)
  rw [Bool.eq_iff_iff]
  simp only [List.contains_iff_mem, List.elem_eq_mem, decide_eq_true_eq]
  exact this.mem_iff

/-! ### the generated `decode` on (positional prefix) ++ (groups) -/

/-- value or missing-tags error computed from the loop's result. -/
def finish (fs : List Field) (pvals : List Val) (acc : List (Nat × Val)) (seen : List Nat) (rest : Bytes) : Res (Val × Bytes) :=
  let missing := sortDedup ((requiredTags fs).filter (fun t => ! seen.contains t))
  if missing.isEmpty then .ok (.struct (assemble fs pvals acc 0), rest) else .error (.missing missing)

/-- the whole struct decoder on a positional prefix followed by groups with pairwise distinct tags (the prefix
only has to be read back in front of exactly these groups). -/
theorem decode_groups_at (decPosF : Bytes → Res (List Val × Bytes)) (arm : Arm) (fs : List Field)
    (pos : Bytes) (pvals : List Val) (gs : List Group) (hpos : decPosF (pos ++ flat gs) = .ok (pvals, flat gs))
    (hok : ∀ g ∈ gs, GroupOK arm g) (hnd : (gs.map (·.t)).Nodup) :
    decStructWith decPosF arm fs (pos ++ flat gs) = finish fs pvals (results gs []) (tagsOf gs []) [] := by
  unfold decStructWith finish
  rw [hpos]
  simp only
  have hfuel : (flat gs).length + 2 = gs.length + (((flat gs).length + 1 - gs.length) + 1) := by
    have : gs.length ≤ (flat gs).length := by
      clear hnd hpos
      induction gs with
      | nil => simp
      | cons g gs ih =>
        have hb := (hok g (by simp)).1
        have := ih (fun x hx => hok x (by simp [hx]))
        rw [flat_cons]
        cases hbb : g.bytes with
        | nil => exact absurd hbb hb
        | cons x xs => simp; omega
    omega
  rw [hfuel, loop_all_groups arm gs _ _ [] [] hok hnd (by simp) (by intro _; omega)]

/-- the same when the positional prefix is read back in front of anything. -/
theorem decode_groups (decPosF : Bytes → Res (List Val × Bytes)) (arm : Arm) (fs : List Field)
    (pos : Bytes) (pvals : List Val) (hpos : ∀ x, decPosF (pos ++ x) = .ok (pvals, x))
    (gs : List Group) (hok : ∀ g ∈ gs, GroupOK arm g) (hnd : (gs.map (·.t)).Nodup) :
    decStructWith decPosF arm fs (pos ++ flat gs) = finish fs pvals (results gs []) (tagsOf gs []) [] :=
  decode_groups_at decPosF arm fs pos pvals gs (hpos (flat gs)) hok hnd

/-- **Any order.** Two arrangements of the same groups decode to the same result: same value, no bytes
left over — or the same error. -/
theorem perm_invariant (decPosF : Bytes → Res (List Val × Bytes)) (arm : Arm) (fs : List Field)
    (pos : Bytes) (pvals : List Val) (hpos : ∀ x, decPosF (pos ++ x) = .ok (pvals, x))
    (gs gs' : List Group) (hp : gs.Perm gs') (hok : ∀ g ∈ gs, GroupOK arm g)
    (hnd : (gs.map (·.t)).Nodup) (hni : (gs.map (·.idx)).Nodup) :
    decStructWith decPosF arm fs (pos ++ flat gs) = decStructWith decPosF arm fs (pos ++ flat gs') := by
  have hok' : ∀ g ∈ gs', GroupOK arm g := fun g hg => hok g (hp.mem_iff.mpr hg)
  have hnd' : (gs'.map (·.t)).Nodup := (List.Perm.nodup_iff (List.Perm.map _ hp)).mp hnd
  rw [decode_groups decPosF arm fs pos pvals hpos gs hok hnd, decode_groups decPosF arm fs pos pvals hpos gs' hok' hnd']
  unfold finish
  have hseen : (fun t => ! (tagsOf gs []).contains t) = (fun t => ! (tagsOf gs' []).contains t) := by
    funext t; rw [tags_contains_perm hp t]
  have hkeys : ((results gs []).map (·.1)).Nodup := by
    simp only [results, List.append_nil, List.map_reverse, List.map_map]
    exact (List.reverse_perm _).nodup_iff.mpr (by simpa [Function.comp_def] using hni)
  have hass : assemble fs pvals (results gs []) 0 = assemble fs pvals (results gs' []) 0 :=
    assemble_congr fs pvals _ _ 0 (fun j => lookupIdx_perm j (results_perm hp) hkeys)
  rw [hseen, hass]

/-! ### missing mandatory fields: all of them, sorted -/

theorem mem_insertSorted (x y : Nat) (l : List Nat) : y ∈ insertSorted x l ↔ y = x ∨ y ∈ l := by
  induction l with
  | nil => simp [insertSorted]
  | cons a l ih =>
    simp only [insertSorted]
    split
    · simp
    · split
      · rename_i h; subst h; simp
      · simp [ih]; constructor
        · rintro (h | h | h) <;> simp [h]
        · rintro (h | h | h) <;> simp [h]

theorem mem_sortDedup (y : Nat) (l : List Nat) : y ∈ sortDedup l ↔ y ∈ l := by
  unfold sortDedup
  induction l with
  | nil => simp
  | cons a l ih => simp [mem_insertSorted, ih]

def StrictSorted : List Nat → Prop
  | [] => True
  | [_] => True
  | a :: b :: r => a < b ∧ StrictSorted (b :: r)

theorem insertSorted_sorted (x : Nat) (l : List Nat) (h : StrictSorted l) : StrictSorted (insertSorted x l) := by
  induction l with
  | nil => simp [insertSorted, StrictSorted]
  | cons a l ih =>
    simp only [insertSorted]
    split
    · rename_i hlt; exact ⟨hlt, h⟩
    · split
      · exact h
      · rename_i hnlt hne
        have hax : a < x := by omega
        cases l with
        | nil => simp [insertSorted, StrictSorted, hax]
        | cons b r =>
          have hb := h.1
          have ih' := ih h.2
          simp only [insertSorted] at ih' ⊢
          split
          · exact ⟨hax, by rename_i hxb; exact ⟨hxb, h.2⟩⟩
          · split
            · exact ⟨hb, h.2⟩
            · rename_i h1 h2
              simp only [h1, h2, if_false] at ih'
              exact ⟨hb, ih'⟩

theorem sortDedup_sorted (l : List Nat) : StrictSorted (sortDedup l) := by
  unfold sortDedup
  induction l with
  | nil => simp [StrictSorted]
  | cons a l ih => exact insertSorted_sorted a _ ih

/-- **Missing.** When mandatory tagged fields are absent the error names exactly the mandatory tags that did
not occur — all of them — in strictly increasing order. -/
theorem missing_reported (fs : List Field) (pvals : List Val) (acc : List (Nat × Val)) (seen : List Nat) (rest : Bytes)
    (t : Nat) (ht : t ∈ requiredTags fs) (hs : t ∉ seen) :
    ∃ m, finish fs pvals acc seen rest = .error (.missing m) ∧ StrictSorted m ∧
      ∀ y, y ∈ m ↔ (y ∈ requiredTags fs ∧ y ∉ seen) := by
  refine ⟨sortDedup ((requiredTags fs).filter (fun t => ! seen.contains t)), ?_, sortDedup_sorted _, ?_⟩
  · unfold finish
    simp only
    have hm : t ∈ sortDedup ((requiredTags fs).filter (fun t => ! seen.contains t)) := by
      rw [mem_sortDedup]; simp [ht, hs]
    have : (sortDedup ((requiredTags fs).filter (fun t => ! seen.contains t))).isEmpty = false := by
      cases hh : sortDedup ((requiredTags fs).filter (fun t => ! seen.contains t)) with
      | nil => rw [hh] at hm; simp at hm
      | cons a l => rfl
    simp only [this, Bool.false_eq_true, if_false]
  · intro y; rw [mem_sortDedup]; simp

/-- … and when none is missing the packet is accepted. -/
theorem none_missing_accepted (fs : List Field) (pvals : List Val) (acc : List (Nat × Val)) (seen : List Nat) (rest : Bytes)
    (h : ∀ t ∈ requiredTags fs, t ∈ seen) :
    finish fs pvals acc seen rest = .ok (.struct (assemble fs pvals acc 0), rest) := by
  unfold finish
  have : (requiredTags fs).filter (fun t => ! seen.contains t) = [] := by
    apply List.filter_eq_nil_iff.mpr
    intro t ht; simp [h t ht]
  rw [this]; rfl

end Zvt.C13
