/-
  C13 — tagged fields: any order accepted, duplicates and missing fields reported.
  (theorems are being added; see DESIGN.md §7 C13)
-/
import ZvtVerif.Derive
namespace Zvt.C13
open Zvt

end Zvt.C13
