/-
  C15 — replies are dispatched solely by their class and instruction bytes.
-/
import ZvtVerif.Derive
import ZvtVerif.Generated
namespace Zvt.C15
open Zvt

/-- dispatch loop, soundness: a returned variant has exactly the control field of the input, and its
content is what the variant's own packet decoder returns on the same bytes. -/
theorem parseVariants_sound (vs : List (String × StructDef)) (i c0 c1 : Nat) (b : Bytes) (k : Nat) (v : Val)
    (h : parseVariants vs i c0 c1 b = .ok (k, v)) :
    ∃ n s r, vs[k - i]? = some (n, s) ∧ i ≤ k ∧ s.ctrl = some (c0, c1) ∧ decodeCmd s b = .ok (v, r) := by
  induction vs generalizing i with
  | nil => simp [parseVariants] at h
  | cons hd tl ih =>
    obtain ⟨n, s⟩ := hd
    simp only [parseVariants] at h
    split at h
    · rename_i hc
      split at h
      · simp at h
      · rename_i v' r' hd'
        simp at h
        obtain ⟨rfl, rfl⟩ := h
        exact ⟨n, s, r', by simp, Nat.le_refl _, hc, hd'⟩
    · obtain ⟨n', s', r, hget, hle, hc, hd⟩ := ih (i + 1) h
      refine ⟨n', s', r, ?_, by omega, hc, hd⟩
      have : k - i = (k - (i + 1)) + 1 := by omega
      rw [this]; simpa using hget

/-- Soundness of the reply parser. -/
theorem parse_sound (e : EnumDef) (b : Bytes) (k : Nat) (v : Val) (h : parseEnum e b = .ok (k, v)) :
    ∃ c0 c1 rest n s r, b = c0 :: c1 :: rest ∧ e.variants[k]? = some (n, s) ∧
      s.ctrl = some (c0.toNat, c1.toNat) ∧ decodeCmd s b = .ok (v, r) := by
  unfold parseEnum at h
  match b, h with
  | c0 :: c1 :: rest, h =>
    obtain ⟨n, s, r, hget, _, hc, hd⟩ := parseVariants_sound _ 0 _ _ _ k v h
    exact ⟨c0, c1, rest, n, s, r, rfl, by simpa using hget, hc, hd⟩

/-- a control field outside the reply set is rejected, whatever the body. -/
theorem parseVariants_reject (vs : List (String × StructDef)) (i c0 c1 : Nat) (b : Bytes)
    (h : ∀ p ∈ vs, p.2.ctrl ≠ some (c0, c1)) : parseVariants vs i c0 c1 b = .error (.wrongTag 0) := by
  induction vs generalizing i with
  | nil => simp [parseVariants]
  | cons hd tl ih =>
    obtain ⟨n, s⟩ := hd
    simp only [parseVariants]
    have := h (n, s) (by simp)
    simp only [this, if_false]
    exact ih (i + 1) (fun p hp => h p (by simp [hp]))

theorem parse_reject (e : EnumDef) (c0 c1 : UInt8) (rest : Bytes)
    (h : ∀ p ∈ e.variants, p.2.ctrl ≠ some (c0.toNat, c1.toNat)) :
    parseEnum e (c0 :: c1 :: rest) = .error (.wrongTag 0) := by
  simp only [parseEnum]
  exact parseVariants_reject _ 0 _ _ _ h

/-- completeness: the first variant with the packet's control field decides the outcome — value or error —
with exactly what that variant's packet decoder says. -/
theorem parseVariants_complete (pre : List (String × StructDef)) (n : String) (s : StructDef) (post : List (String × StructDef))
    (i c0 c1 : Nat) (b : Bytes) (hpre : ∀ p ∈ pre, p.2.ctrl ≠ some (c0, c1)) (hs : s.ctrl = some (c0, c1)) :
    parseVariants (pre ++ (n, s) :: post) i c0 c1 b =
      match decodeCmd s b with
      | .error e => .error e
      | .ok (v, _) => .ok (i + pre.length, v) := by
  induction pre generalizing i with
  | nil =>
    simp only [parseVariants, hs, if_true, List.nil_append, List.length_nil, Nat.add_zero]
    cases decodeCmd s b with
    | error e => rfl
    | ok p => cases p; rfl
  | cons hd tl ih =>
    obtain ⟨n', s'⟩ := hd
    simp only [List.cons_append, parseVariants]
    have := hpre (n', s') (by simp)
    simp only [this, if_false]
    rw [ih (i + 1) (fun p hp => hpre p (by simp [hp]))]
    simp only [List.length_cons]
    have : i + 1 + tl.length = i + (tl.length + 1) := by omega
    rw [this]

theorem parse_complete (e : EnumDef) (pre post : List (String × StructDef)) (n : String) (s : StructDef)
    (c0 c1 : UInt8) (rest : Bytes) (he : e.variants = pre ++ (n, s) :: post)
    (hpre : ∀ p ∈ pre, p.2.ctrl ≠ some (c0.toNat, c1.toNat)) (hs : s.ctrl = some (c0.toNat, c1.toNat)) :
    parseEnum e (c0 :: c1 :: rest) =
      match decodeCmd s (c0 :: c1 :: rest) with
      | .error er => .error er
      | .ok (v, _) => .ok (pre.length, v) := by
  simp only [parseEnum, he]
  rw [parseVariants_complete pre n s post 0 _ _ _ hpre hs]
  simp

/-- inputs shorter than two bytes. -/
theorem parse_short (e : EnumDef) (b : Bytes) (h : b.length < 2) : parseEnum e b = .error .incomplete := by
  match b, h with
  | [], _ => rfl
  | [_], _ => rfl

/-- no variant of a shipped reply enum is shadowed by an earlier one: control fields are pairwise distinct. -/
def ctrlsNodup (e : EnumDef) : Bool := (e.variants.map (·.2.ctrl)).Nodup ∧ e.variants.all (·.2.ctrl.isSome)

theorem shipped_ctrls_distinct : Generated.enums.all ctrlsNodup = true := by decide +kernel

/-- non-vacuity: a concrete abort reply is dispatched to the abort variant of the read-card replies. -/
example : (match parseEnum Generated.sequences_ReadCardResponse [0x06, 0x1e, 0x01, 0x6c] with
    | .ok (i, v) => i == 2 && v.beq (.struct [.num 0x6c])
    | .error _ => false) = true := by decide +kernel

end Zvt.C15
