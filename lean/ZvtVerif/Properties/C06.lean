/-
  C06 — a failed exchange yields exactly one error, then silence.
  The shape theorems below hold for EVERY reply script (no assumption on what the terminal sends).
-/
import ZvtVerif.Sequence
namespace Zvt.C06
open Zvt

/-- `k` complete rounds: read a packet (n bytes), answer it with exactly one `80 00 00`, hand it to the caller. -/
def rounds : List (Nat × Nat × Val) → List Ev
  | [] => []
  | (n, i, v) :: rs => .r n :: .w ackBytes :: .y i v :: rounds rs

/-- how an exchange can end. -/
inductive Closing : List Ev → Prop
  | done : Closing [.fin]                               -- right after a yielded packet: normal completion
  | err (k : String) : Closing [.e k, .fin]              -- exactly one error, then the end
  | rerr (n : Nat) (k : String) : Closing [.r n, .e k, .fin]   -- the faulty packet was read, NOT answered, one error, end
  | hang : Closing [.hang]                              -- silence on an open connection (bounded by the caller's time-out, C10)

theorem readPkt_evs (t : Term) :
    (∃ p t' n, t.readPkt = (.pkt p, t', [.r n])) ∨ (∃ t', t.readPkt = (.eof, t', [])) ∨
    (∃ t' n, t.readPkt = (.eof, t', [.r n])) ∨ (∃ t', t.readPkt = (.hang, t', [.hang])) := by
  unfold Term.readPkt
  cases readFrame t.avail with
  | packet p rest => exact Or.inl ⟨p, _, _, rfl⟩
  | eof n =>
    by_cases hc : t.closed
    · by_cases hn : n = 0
      · simp [hc, hn]
      · simp [hc, hn]
    · simp [hc]

/-- **Every** run of the reply loop — whatever the terminal sends — is a sequence of complete rounds
followed by one closing; a normal completion only happens directly after a yielded packet. -/
theorem seqLoop_shape (e : EnumDef) (isFinal : Nat → Bool) (once : Bool) :
    ∀ (fuel : Nat) (t : Term), ∃ rs tail, seqLoop e isFinal once fuel t = rounds rs ++ tail ∧ Closing tail ∧
      (tail = [.fin] → rs ≠ []) := by
  intro fuel
  induction fuel with
  | zero => intro t; exact ⟨[], [.hang], by simp [seqLoop, rounds], .hang, by simp⟩
  | succ fuel ih =>
    intro t
    simp only [seqLoop]
    rcases readPkt_evs t with ⟨p, t', n, h⟩ | ⟨t', h⟩ | ⟨t', n, h⟩ | ⟨t', h⟩
    · rw [h]; simp only
      cases parseEnum e p with
      | error er => exact ⟨[], [.r n, .e (errName er), .fin], by simp [rounds], .rerr n _, by simp⟩
      | ok iv =>
        obtain ⟨i, v⟩ := iv
        simp only
        by_cases hf : once = true ∨ isFinal i = true
        · exact ⟨[(n, i, v)], [.fin], by simp [hf, rounds], .done, by simp⟩
        · obtain ⟨rs, tail, heq, hc, hne⟩ := ih t'.release
          refine ⟨(n, i, v) :: rs, tail, ?_, hc, by simp⟩
          simp [hf, heq, rounds]
    · rw [h]; exact ⟨[], [.e "io:eof", .fin], by simp [rounds], .err _, by simp⟩
    · rw [h]; exact ⟨[], [.r n, .e "io:eof", .fin], by simp [rounds], .rerr n _, by simp⟩
    · rw [h]; exact ⟨[], [.hang], by simp [rounds], .hang, by simp⟩

/-- **Whole exchange.** The command is written exactly once, first. Then either the acknowledgement
phase fails (one error — e.g. for a NACK `84 xx`, anything that is not `80 00`, or a closed connection —
and nothing more is written), or the acknowledgement (`n` bytes) is read and rounds + closing follow. -/
theorem runSeq_shape (e : EnumDef) (once : Bool) (finals : List String) (cmd : Bytes) (items : List Bytes) :
    (∃ tail, runSeq e once finals cmd items = .w cmd :: tail ∧ Closing tail ∧ tail ≠ [.fin]) ∨
    (∃ n rs tail, runSeq e once finals cmd items = .w cmd :: .r n :: (rounds rs ++ tail) ∧ Closing tail ∧
      (tail = [.fin] → rs ≠ [])) := by
  unfold runSeq writeWithAck
  simp only
  rcases readPkt_evs (Term.start items).release.release with ⟨p, t', n, h⟩ | ⟨t', h⟩ | ⟨t', n, h⟩ | ⟨t', h⟩
  · rw [h]; simp only
    cases parseEnum Generated.io_Ack p with
    | error er => exact Or.inl ⟨[.r n, .e (errName er), .fin], by simp, .rerr n _, by simp⟩
    | ok iv =>
      obtain ⟨rs, tail, heq, hc, hne⟩ := seqLoop_shape e (isFinalOf e finals) once (items.length + 2) t'
      exact Or.inr ⟨n, rs, tail, by simp [heq], hc, hne⟩
  · rw [h]; exact Or.inl ⟨[.e "io:eof", .fin], by simp, .err _, by simp⟩
  · rw [h]; exact Or.inl ⟨[.r n, .e "io:eof", .fin], by simp, .rerr n _, by simp⟩
  · rw [h]; exact Or.inl ⟨[.hang], by simp, .hang, by simp⟩

/-! ### What the shape means for the caller -/

def countErr : List Ev → Nat
  | [] => 0
  | .e _ :: r => 1 + countErr r
  | _ :: r => countErr r

def writesAfterFirstErr : List Ev → Nat
  | [] => 0
  | .e _ :: r => (r.filter fun x => match x with | .w _ => true | _ => false).length
  | _ :: r => writesAfterFirstErr r

theorem countErr_rounds (rs : List (Nat × Nat × Val)) (tail : List Ev) :
    countErr (rounds rs ++ tail) = countErr tail := by
  induction rs with
  | nil => simp [rounds]
  | cons r rs ih => obtain ⟨n, i, v⟩ := r; simp [rounds, countErr, ih]

theorem writesAfter_rounds (rs : List (Nat × Nat × Val)) (tail : List Ev) :
    writesAfterFirstErr (rounds rs ++ tail) = writesAfterFirstErr tail := by
  induction rs with
  | nil => simp [rounds]
  | cons r rs ih => obtain ⟨n, i, v⟩ := r; simp [rounds, writesAfterFirstErr, ih]

theorem closing_facts (tail : List Ev) (h : Closing tail) : countErr tail ≤ 1 ∧ writesAfterFirstErr tail = 0 := by
  cases h <;> simp [countErr, writesAfterFirstErr]

/-- At most one error is ever reported, and after it nothing is written to the terminal — for every
sequence, command and reply script. In particular a packet that could not be interpreted is never
acknowledged (the `rerr` closing has no write between the read and the error). -/
theorem one_error_then_silence (e : EnumDef) (once : Bool) (finals : List String) (cmd : Bytes) (items : List Bytes) :
    countErr (runSeq e once finals cmd items) ≤ 1 ∧ writesAfterFirstErr (runSeq e once finals cmd items) = 0 := by
  rcases runSeq_shape e once finals cmd items with ⟨tail, heq, hc, _⟩ | ⟨n, rs, tail, heq, hc, _⟩
  · rw [heq]; simpa [countErr, writesAfterFirstErr] using closing_facts tail hc
  · rw [heq]
    have := closing_facts tail hc
    simp only [countErr, writesAfterFirstErr, countErr_rounds, writesAfter_rounds]
    exact this

/-- The acknowledgement parser accepts a packet only if its control field is `80 00`. -/
theorem ack_only_8000 (p : Bytes) (i : Nat) (v : Val) (h : parseEnum Generated.io_Ack p = .ok (i, v)) :
    ∃ rest, p = 0x80 :: 0x00 :: rest := by
  unfold parseEnum at h
  match p, h with
  | c0 :: c1 :: rest, h =>
    simp only [Generated.io_Ack, parseVariants] at h
    split at h
    · rename_i hc
      simp [Generated.packets_Ack] at hc
      have h0 : c0 = 0x80 := UInt8.toNat_inj.mp (by simpa using hc.1.symm)
      have h1 : c1 = 0x00 := UInt8.toNat_inj.mp (by simpa using hc.2.symm)
      exact ⟨rest, by rw [h0, h1]⟩
    · simp at h

/-- non-vacuity: a NACK instead of the acknowledgement. -/
example : (runSeq Generated.sequences_ReadCardResponse false ["StatusInformation", "Abort"] [0x06, 0xc0, 0x01, 0x0f]
    [[0x84, 0x9c, 0x00], [0x04, 0xff, 0x01, 0x00]]).length = 4 := by decide +kernel

end Zvt.C06
