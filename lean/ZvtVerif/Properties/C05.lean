/-
  C05 — command sequences acknowledge every packet once and stop at the final packet.
-/
import ZvtVerif.Properties.C06
import ZvtVerif.Spec.Layout
import ZvtVerif.WriteFile
namespace Zvt.C05
open Zvt C06

/-- a reply packet as the terminal sends it, with what the reply parser makes of it. -/
structure Reply where
  bytes : Bytes
  idx : Nat
  val : Val

/-- `p` is exactly one APDU: whatever follows it, the reader frames `p` and leaves the rest. -/
def WellFramed (p : Bytes) : Prop := ∀ x, readFrame (p ++ x) = .packet p x

/-- the stream of items still to come: non-final replies, then the final reply with arbitrary bytes glued behind it. -/
def script (ps : List Reply) (f : Reply) (junk : Bytes) : List Bytes :=
  ps.map (·.bytes) ++ [f.bytes ++ junk]

theorem script_cons (p : Reply) (ps : List Reply) (f : Reply) (junk : Bytes) :
    script (p :: ps) f junk = p.bytes :: script ps f junk := rfl

theorem script_ne_nil (ps : List Reply) (f : Reply) (junk : Bytes) : script ps f junk ≠ [] := by
  cases ps <;> simp [script]

/-- the reply loop on a well-formed script, started with the first item already delivered. -/
theorem seqLoop_wellformed (e : EnumDef) (finals : List String) (f : Reply) (junk : Bytes)
    (hf : WellFramed f.bytes ∧ parseEnum e f.bytes = .ok (f.idx, f.val) ∧ isFinalOf e finals f.idx = true) :
    ∀ (ps : List Reply) (fuel : Nat) (hd : Bytes) (tl : List Bytes) (c : Bool),
      (∀ p ∈ ps, WellFramed p.bytes ∧ parseEnum e p.bytes = .ok (p.idx, p.val) ∧ isFinalOf e finals p.idx = false) →
      ps.length < fuel → hd :: tl = script ps f junk →
      seqLoop e (isFinalOf e finals) false fuel { avail := hd, items := tl, closed := c } =
        rounds (ps.map fun p => (p.bytes.length, p.idx, p.val)) ++ [.r f.bytes.length, .w ackBytes, .y f.idx f.val, .fin] := by
  intro ps
  induction ps with
  | nil =>
    intro fuel hd tl c _ hfuel hs
    obtain ⟨k, rfl⟩ : ∃ k, fuel = k + 1 := ⟨fuel - 1, by omega⟩
    simp only [script, List.map_nil, List.nil_append, List.cons.injEq] at hs
    obtain ⟨rfl, rfl⟩ := hs
    simp only [seqLoop, Term.readPkt, hf.1 junk, hf.2.1, hf.2.2, rounds, List.map_nil]
    simp
  | cons p ps ih =>
    intro fuel hd tl c hps hfuel hs
    obtain ⟨k, rfl⟩ : ∃ k, fuel = k + 1 := ⟨fuel - 1, by omega⟩
    rw [script_cons] at hs
    simp only [List.cons.injEq] at hs
    obtain ⟨rfl, rfl⟩ := hs
    have hp := hps p (by simp)
    have hfr : readFrame p.bytes = .packet p.bytes [] := by simpa using hp.1 []
    simp only [seqLoop, Term.readPkt, hfr, hp.2.1, hp.2.2]
    -- after the acknowledgement the terminal releases the next item
    obtain ⟨hd', tl', hs'⟩ : ∃ hd' tl', script ps f junk = hd' :: tl' := by
      cases h : script ps f junk with
      | nil => exact absurd h (script_ne_nil ps f junk)
      | cons a b => exact ⟨a, b, rfl⟩
    simp only [Term.release, hs', List.nil_append]
    have := ih k hd' tl' tl'.isEmpty (fun q hq => hps q (by simp [hq])) (by simpa using hfuel) hs'.symm
    simp only [Bool.false_eq_true, false_or, if_false, List.map_cons, rounds]
    simp [this]

/-- **Well-formed exchange.** For every loop sequence, command, acknowledgement, any number of decodable
non-final replies, a final reply and ARBITRARY bytes queued behind it: the command is written once, the
acknowledgement is read, every reply is read, answered with exactly one `80 00 00` and then yielded, in
arrival order; the exchange ends right after the first final packet; not one byte of `junk` is read. -/
theorem seq_wellformed (e : EnumDef) (finals : List String) (cmd ack : Bytes) (ps : List Reply) (f : Reply) (junk : Bytes)
    (hack : WellFramed ack) (hackp : ∃ iv, parseEnum Generated.io_Ack ack = .ok iv)
    (hps : ∀ p ∈ ps, WellFramed p.bytes ∧ parseEnum e p.bytes = .ok (p.idx, p.val) ∧ isFinalOf e finals p.idx = false)
    (hf : WellFramed f.bytes ∧ parseEnum e f.bytes = .ok (f.idx, f.val) ∧ isFinalOf e finals f.idx = true) :
    runSeq e false finals cmd (ack :: script ps f junk) =
      .w cmd :: .r ack.length ::
        (rounds (ps.map fun p => (p.bytes.length, p.idx, p.val)) ++ [.r f.bytes.length, .w ackBytes, .y f.idx f.val, .fin]) := by
  obtain ⟨iv, hiv⟩ := hackp
  obtain ⟨hd, tl, hs⟩ : ∃ hd tl, script ps f junk = hd :: tl := by
    cases h : script ps f junk with
    | nil => exact absurd h (script_ne_nil ps f junk)
    | cons a b => exact ⟨a, b, rfl⟩
  unfold runSeq writeWithAck
  simp only [Term.start, Term.release, hs, List.nil_append, Term.readPkt, hack hd, hiv]
  have := seqLoop_wellformed e finals f junk hf ps (ps.length + 1 + 2) hd tl tl.isEmpty hps (by omega) hs.symm
  have hlen : (ack :: hd :: tl).length + 2 = ps.length + 1 + 2 + 1 := by
    have := congrArg List.length hs
    simp [script] at this
    simp; omega
  simp only [List.isEmpty_cons, hlen]
  -- the loop result does not depend on surplus fuel
  have h2 := seqLoop_wellformed e finals f junk hf ps (ps.length + 1 + 2 + 1) hd tl tl.isEmpty hps (by omega) hs.symm
  simp [h2]

/-- bytes consumed from the connection = acknowledgement + the replies up to and including the final one. -/
def consumed : List Ev → Nat
  | [] => 0
  | .r n :: r => n + consumed r
  | _ :: r => consumed r

theorem consumed_rounds (rs : List (Nat × Nat × Val)) (tail : List Ev) :
    consumed (rounds rs ++ tail) = (rs.map (·.1)).sum + consumed tail := by
  induction rs with
  | nil => simp [rounds]
  | cons r rs ih => obtain ⟨n, i, v⟩ := r; simp [rounds, consumed, ih]; omega

/-- the table of exchanges translated from the `impl Sequence` blocks on this run — input packet, reply
enum, kind (`once` / standard `loop`, recognised token by token) and the set of final packets — contains every
exchange of the specification (Appendix A of DESIGN.md) unchanged; exchanges the source adds on top are covered by
`generated_sequences_covered` below. -/
theorem sequences_cover_spec : Spec.sequences.all (fun s => Generated.sequences.contains s) = true := by decide +kernel

/-- every `impl Sequence` the translator found is of a modelled kind (`once` or the standard `loop`). -/
theorem generated_sequences_covered :
    Generated.sequences.all (fun s => s.2.2.2.1 == "once" || s.2.2.2.1 == "loop") = true := by decide +kernel

/-- … and every final-variant name is a variant of the sequence's reply enum (no dangling name). -/
theorem generated_finals_exist :
    Generated.sequences.all (fun s => match Generated.enums.find? (·.name == s.2.2.1) with
      | some e => s.2.2.2.2.all (fun f => e.variants.any (·.1 == f))
      | none => false) = true := by decide +kernel

/-! ### the firmware upload loop (`WriteFile::into_stream`) -/

/-- rounds of the upload: read a packet (n bytes), answer it with exactly one packet — the data block —, hand it
to the caller. -/
def wfRounds : List (Nat × Bytes × Nat × Val) → List Ev
  | [] => []
  | (n, pkt, i, v) :: rs => .r n :: .w pkt :: .y i v :: wfRounds rs

/-- **Every** run of the upload loop — whatever the terminal sends — is a sequence of rounds in each of which the
one packet written is the data block the request asks for (`wfDecide … = .data pkt`: requested file id, requested
offset, `wfBlock` of that file — C11), followed by one closing: a final packet answered with one acknowledgement
and yielded, or exactly one error (after which nothing is written), or silence. -/
theorem wfLoop_shape (files : List (Nat × Bytes)) (block : Nat) :
    ∀ (fuel : Nat) (t : Term), ∃ rs tail, wfLoop files block fuel t = wfRounds rs ++ tail ∧
      (∀ r ∈ rs, wfDecide files block r.2.2.1 r.2.2.2 = .data r.2.1) ∧
      (Closing tail ∨ ∃ n i v, tail = [.r n, .w ackBytes, .y i v, .fin] ∧ wfDecide files block i v = .finish) := by
  intro fuel
  induction fuel with
  | zero => intro t; exact ⟨[], [.hang], by simp [wfLoop, wfRounds], by simp, Or.inl .hang⟩
  | succ fuel ih =>
    intro t
    simp only [wfLoop]
    rcases readPkt_evs t with ⟨p, t', n, h⟩ | ⟨t', h⟩ | ⟨t', n, h⟩ | ⟨t', h⟩
    · rw [h]; simp only
      cases parseEnum wfEnum p with
      | error er => exact ⟨[], [.r n, .e (errName er), .fin], by simp [wfRounds], by simp, Or.inl (.rerr n _)⟩
      | ok iv =>
        obtain ⟨i, v⟩ := iv
        simp only
        cases hdec : wfDecide files block i v with
        | finish => exact ⟨[], [.r n, .w ackBytes, .y i v, .fin], by simp [wfRounds], by simp, Or.inr ⟨n, i, v, rfl, hdec⟩⟩
        | fail => exact ⟨[], [.r n, .e "incomplete", .fin], by simp [wfRounds], by simp, Or.inl (.rerr n _)⟩
        | data pkt =>
          obtain ⟨rs, tail, heq, hall, hc⟩ := ih t'.release
          refine ⟨(n, pkt, i, v) :: rs, tail, by simp [heq, wfRounds], ?_, hc⟩
          intro r hr
          simp only [List.mem_cons] at hr
          rcases hr with rfl | hr
          · exact hdec
          · exact hall r hr
    · rw [h]; exact ⟨[], [.e "io:eof", .fin], by simp [wfRounds], by simp, Or.inl (.err _)⟩
    · rw [h]; exact ⟨[], [.r n, .e "io:eof", .fin], by simp [wfRounds], by simp, Or.inl (.rerr n _)⟩
    · rw [h]; exact ⟨[], [.hang], by simp [wfRounds], by simp, Or.inl .hang⟩

end Zvt.C05
