/-
  C19 — theorems are being added (see DESIGN.md §7 C19)
-/
import ZvtVerif.Client
namespace Zvt.C19
open Zvt

end Zvt.C19
