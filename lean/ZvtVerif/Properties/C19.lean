/-
  C19 — going idle triggers clean-up; end-of-day never runs over open transactions.
-/
import ZvtVerif.Client
import ZvtVerif.Properties.C07
namespace Zvt.C19
open Zvt

/-- **While other transactions are open nothing is requested**: the step commit and cancel take after
their own exchange is the identity on the world — not one packet, no pending query, no end-of-day. -/
theorem no_cleanup_while_open (cfg : Cfg) (cl : Client) (w : World) (h : cl.txs ≠ []) :
    idleCleanup cfg cl w = (.ok (), cl, w) := by
  unfold idleCleanup
  have : cl.txs.isEmpty = false := by cases hc : cl.txs <;> simp_all
  simp [this]

/-- **Going idle**: when no transaction is left open the very next thing is `end_of_day`. -/
theorem cleanup_when_idle (cfg : Cfg) (cl : Client) (w : World) (h : cl.txs = []) :
    idleCleanup cfg cl w = endOfDay cfg cl w := by
  unfold idleCleanup; simp [h]

/-- commit reaches the clean-up step exactly when the terminal did not abort the partial reversal (the
`ret` outcome is the abort: C20), with the token already closed. -/
theorem commit_then_cleanup (cfg : Cfg) (cl : Client) (st : Option Val) (w : World) :
    commitFold cfg cl (.cont st, w) =
      match idleCleanup cfg cl w with
      | (.error er, cl, w) => (.error er, cl, w)
      | (.ok _, cl, w) =>
        match st with
        | none => (.error (.zvt .incomplete), cl, w)
        | some v => (.ok (summaryOf v), cl, w) := rfl

theorem commit_abort_no_cleanup (cfg : Cfg) (cl : Client) (r : CRes Summary) (w : World) :
    commitFold cfg cl (.ret r, w) = (r, cl, w) := rfl

/-- cancel reaches the clean-up step exactly when the reversal was completed. -/
theorem cancel_then_cleanup (cfg : Cfg) (cl : Client) (w : World) :
    cancelFold cfg cl (.ok (), w) = idleCleanup cfg cl w := rfl

theorem cancel_failed_no_cleanup (cfg : Cfg) (cl : Client) (e : CErr) (w : World) :
    cancelFold cfg cl (.error e, w) = (.error e, cl, w) := rfl

/-- **Order of the clean-up**: pending query; only if it succeeded, the reversal of every reported
receipt, stopping at the first failure; only if all succeeded, the end-of-day request. A failing query
or reversal is the call's result and nothing else is sent. -/
theorem endOfDay_order (cfg : Cfg) (cl : Client) (w : World) :
    endOfDay cfg cl w =
      match getPending cfg w with
      | (.error e, w1) => (.error e, { txs := [] }, w1)
      | (.ok pend, w1) =>
        match cancelAll cfg pend w1 with
        | (.error e, w2) => (.error e, { txs := [] }, w2)
        | (.ok _, w2) =>
          ((simpleOp cfg "sequences::EndOfDay" (encodeReq "packets::EndOfDay" (.struct [.num cfg.password])) w2 eodDecide).1,
           { txs := [] },
           (simpleOp cfg "sequences::EndOfDay" (encodeReq "packets::EndOfDay" (.struct [.num cfg.password])) w2 eodDecide).2) := by
  unfold endOfDay
  simp only
  rcases getPending cfg w with ⟨r, w1⟩
  cases r with
  | error e => rfl
  | ok pend =>
    simp only
    rcases cancelAll cfg pend w1 with ⟨r2, w2⟩
    cases r2 with
    | error e => rfl
    | ok u => rfl

/-- the pending query reports a dangling pre-authorisation iff the terminal's answer carries a receipt
number other than FFFF; exactly that receipt is reversed. -/
theorem cancelAll_nil (cfg : Cfg) (w : World) : cancelAll cfg [] w = (.ok (), w) := rfl

theorem cancelAll_single (cfg : Cfg) (r : Nat) (w : World) :
    cancelAll cfg [r] w = match cancelByReceipt cfg r w with
      | (.error e, w) => (.error e, w)
      | (.ok _, w) => (.ok (), w) := by
  simp only [cancelAll]
  rcases cancelByReceipt cfg r w with ⟨x, w1⟩
  cases x <;> rfl

/-- end-of-day outcome: completion or "receiver not ready" ⇒ success; any other refusal ⇒ that error. -/
theorem eod_outcome (e : EnumDef) (i : Nat) (v : Val) :
    eodDecide e i v =
      if variantName e i = "CompletionData" then .ret (.ok ())
      else if variantName e i = "Abort" then
        (if errorCode prAbortStruct v = 0xa0 then .ret (.ok ()) else .ret (.error (.zvt (.aborted (errorCode prAbortStruct v)))))
      else .cont () := rfl

/-- after the clean-up the map is empty and stays consistent. -/
theorem cleanup_keeps_map (cfg : Cfg) (cl : Client) (w : World) : (idleCleanup cfg cl w).2.1.txs = cl.txs :=
  C07.idleCleanup_txs cfg cl w

end Zvt.C19
