/-
  C06 / C05 at the terminal client's own stream (`seqNext` of Client.lean: one `stream.next()` of a
  `Sequence::into_stream` on the live connection, as `into_stream_with_retry` polls it): the first failure is the
  last item, after it the stream is silent, a reply that cannot be interpreted is never acknowledged, and the stream
  ends right after the first final packet.
-/
import ZvtVerif.Proofs.ClientLemmas
import ZvtVerif.Proofs.ClientTraffic
namespace Zvt.C06C
open Zvt

/-- a finished stream does nothing: no read, no write, no time. -/
theorem done_is_silent (d : SeqDesc) (dl : Nat) (w : World) (c : ConnSt) :
    seqNext d dl w c .done = (.ended, w, c, .done) := rfl

/-- the state a `next()` leaves the stream in, by what it yielded. -/
theorem next_state (d : SeqDesc) (dl : Nat) (w : World) (c : ConnSt) (st : SeqSt) :
    match (seqNext d dl w c st).1 with
    | .item (.ok i _) =>
      (seqNext d dl w c st).2.2.2 = if d.once = true ∨ isFinalOf d.enum d.finals i = true then .done else .looping
    | _ => (seqNext d dl w c st).2.2.2 = .done := by
  unfold seqNext
  cases st with
  | done => rfl
  | start =>
    simp only
    repeat' split
    all_goals simp_all
  | looping =>
    simp only
    repeat' split
    all_goals simp_all

/-- **the first failure is the last item**: whatever state the stream is in, an error item or a time-out leaves it
finished — the next `next()` yields nothing and touches nothing (`done_is_silent`). -/
theorem error_is_last (d : SeqDesc) (dl : Nat) (w : World) (c : ConnSt) (st : SeqSt)
    (h : (seqNext d dl w c st).1 = .item .err ∨ (seqNext d dl w c st).1 = .hang) :
    (seqNext d dl w c st).2.2.2 = .done := by
  have := next_state d dl w c st
  rcases h with h | h <;> (rw [h] at this; exact this)

/-- **the stream ends right after the first final packet** (and, for a one-reply command, after its one reply):
the state after yielding it is `done`, so nothing behind it is ever read. -/
theorem final_is_last (d : SeqDesc) (dl : Nat) (w : World) (c : ConnSt) (st : SeqSt) (i : Nat) (v : Val)
    (h : (seqNext d dl w c st).1 = .item (.ok i v)) (hf : d.once = true ∨ isFinalOf d.enum d.finals i = true) :
    (seqNext d dl w c st).2.2.2 = .done := by
  have := next_state d dl w c st
  rw [h] at this
  simpa [hf] using this

/-- … and goes on after a packet that is not final. -/
theorem nonfinal_continues (d : SeqDesc) (dl : Nat) (w : World) (c : ConnSt) (st : SeqSt) (i : Nat) (v : Val)
    (h : (seqNext d dl w c st).1 = .item (.ok i v)) (hf : ¬ (d.once = true ∨ isFinalOf d.enum d.finals i = true)) :
    (seqNext d dl w c st).2.2.2 = .looping := by
  have := next_state d dl w c st
  rw [h] at this
  simpa [hf] using this

/-- **a reply that cannot be interpreted is never acknowledged**: when a `next()` of a running exchange ends in an
error item — undecodable packet, packet outside the reply set, end of stream, or the terminal has hung up — the
terminal's log of this and every other connection is exactly what it was: nothing was written. -/
theorem failed_reply_not_acknowledged (d : SeqDesc) (dl : Nat) (w : World) (c : ConnSt)
    (h : (seqNext d dl w c .looping).1 = .item .err) :
    (seqNext d dl w c .looping).2.1.logs = w.logs := by
  unfold seqNext at h ⊢
  simp only at h ⊢
  unfold readBy at h ⊢
  generalize connRead c = q at h ⊢
  obtain ⟨r, k, c2⟩ := q
  cases r with
  | hang => simp at h
  | eof =>
    simp only at h ⊢
    by_cases hd : dl < (w.waited k).now
    · simp [hd] at h
    · simp only [hd, if_false]; rfl
  | pkt p =>
    simp only at h ⊢
    by_cases hd : dl < (w.waited k).now
    · simp [hd] at h
    · simp only [hd, if_false] at h ⊢
      cases hp : parseEnum d.enum p with
      | error e => rfl
      | ok iv =>
        obtain ⟨i, v⟩ := iv
        simp only [hp] at h ⊢
        cases hw : connWrite (w.waited k) c2 ackBytes with
        | none => rfl
        | some wc2 => simp [hw] at h

/-- **C05 / C06 on the wire, at the client's stream**: what one `stream.next()` writes on its connection (`sentOn`: the
packets the terminal logged as received). The first call writes the command once and — exactly when it yields a
decoded packet — one acknowledgement behind it; every later call writes one acknowledgement exactly when it yields a
decoded packet; a finished stream writes nothing. So every packet handed to the caller was answered exactly once, before
it was handed over, and an error item or a time-out never comes with an acknowledgement. -/
theorem next_writes (d : SeqDesc) (dl : Nat) (w : World) (c : ConnSt) (st : SeqSt) (hl : c.id < w.logs.length) :
    ∃ S, (seqNext d dl w c st).2.1.sentOn c.id = w.sentOn c.id ++ S ∧
      (match st with
       | .start => ((seqNext d dl w c st).1.isOk = true ∧ S = [d.cmd, ackBytes]) ∨
                   ((seqNext d dl w c st).1.isOk = false ∧ (S = [] ∨ S = [d.cmd]))
       | .looping => ((seqNext d dl w c st).1.isOk = true ∧ S = [ackBytes]) ∨
                     ((seqNext d dl w c st).1.isOk = false ∧ S = [])
       | .done => S = []) :=
  seqNext_writes d dl w c st hl

/-- the state after a `next()` that started the exchange or continued it is never `start` again. -/
theorem never_back_to_start (d : SeqDesc) (dl : Nat) (w : World) (c : ConnSt) (st : SeqSt) (h : st ≠ .start) :
    (seqNext d dl w c st).2.2.2 ≠ .start := by
  have := next_state d dl w c st
  generalize seqNext d dl w c st = q at this ⊢
  obtain ⟨o, w1, c1, st1⟩ := q
  simp only at this ⊢
  cases o with
  | hang => rw [this]; simp
  | ended => rw [this]; simp
  | item it =>
    cases it with
    | err => rw [this]; simp
    | ok i v => rw [this]; split <;> simp

theorem start_leaves_start (d : SeqDesc) (dl : Nat) (w : World) (c : ConnSt) :
    (seqNext d dl w c .start).2.2.2 ≠ .start := by
  have := next_state d dl w c .start
  generalize seqNext d dl w c .start = q at this ⊢
  obtain ⟨o, w1, c1, st1⟩ := q
  simp only at this ⊢
  cases o with
  | hang => rw [this]; simp
  | ended => rw [this]; simp
  | item it =>
    cases it with
    | err => rw [this]; simp
    | ok i v => rw [this]; split <;> simp

/-- the writes of a run of `next()` calls that does not start the exchange: acknowledgements only. -/
theorem continued_attempt_writes {σ ρ : Type} (d : SeqDesc) (timeout : Nat) (step : σ → Item → Step σ ρ) :
    ∀ (fuel : Nat) (w : World) (c : ConnSt) (st : SeqSt) (s : σ), st ≠ .start → c.id < w.logs.length →
      ∃ k, (runItems d timeout step fuel w c st s).2.1.sentOn c.id = w.sentOn c.id ++ List.replicate k ackBytes := by
  intro fuel
  induction fuel with
  | zero => intro w c st s _ _; exact ⟨0, by simp only [runItems, List.replicate_zero, List.append_nil]; rfl⟩
  | succ fuel ih =>
    intro w c st s hst hl
    simp only [runItems]
    obtain ⟨S, hS, hshape⟩ := seqNext_writes d (w.now + timeout) w c st hl
    have hfr := seqNext_frame d (w.now + timeout) w c st
    have hnb := never_back_to_start d (w.now + timeout) w c st hst
    have hS' : S = [] ∨ S = [ackBytes] := by
      cases st with
      | start => exact absurd rfl hst
      | looping => rcases hshape with ⟨_, h⟩ | ⟨_, h⟩ <;> simp [h]
      | done => exact Or.inl hshape
    generalize seqNext d (w.now + timeout) w c st = q at hS hfr hnb ⊢
    obtain ⟨o, w1, c1, st1⟩ := q
    simp only at hS hfr hnb
    have hk1 : ∃ k1, w1.sentOn c.id = w.sentOn c.id ++ List.replicate k1 ackBytes := by
      rcases hS' with h | h
      · exact ⟨0, by rw [hS, h]; simp⟩
      · exact ⟨1, by rw [hS, h]; rfl⟩
    obtain ⟨k1, hk1⟩ := hk1
    cases o with
    | ended => exact ⟨k1, hk1⟩
    | hang => exact ⟨k1, by simp only; rw [← hfr.id, dropConn_sentOn, hfr.id]; exact hk1⟩
    | item it =>
      cases it with
      | err =>
        simp only
        cases step s .err with
        | ret r => exact ⟨k1, hk1⟩
        | cont s' => exact ⟨k1, by simp only; rw [← hfr.id, dropConn_sentOn, hfr.id]; exact hk1⟩
      | ok i v =>
        simp only
        cases step s (.ok i v) with
        | ret r => exact ⟨k1, hk1⟩
        | cont s' =>
          simp only
          obtain ⟨k2, hk2⟩ := ih w1 c1 st1 s' hnb (by rw [hfr.id, hfr.nlogs]; exact hl)
          rw [hfr.id] at hk2
          exact ⟨k1 + k2, by rw [hk2, hk1, List.append_assoc, List.replicate_append_replicate]⟩

/-- **C05 at the client, one attempt**: on its connection an attempt writes the command at most once — as the very first
thing — and after it nothing but acknowledgements (one per packet it handed to the caller, `next_writes`). -/
theorem attempt_writes {σ ρ : Type} (d : SeqDesc) (timeout : Nat) (step : σ → Item → Step σ ρ)
    (fuel : Nat) (w : World) (c : ConnSt) (s : σ) (hl : c.id < w.logs.length) :
    (runItems d timeout step fuel w c .start s).2.1.sentOn c.id = w.sentOn c.id ∨
    ∃ k, (runItems d timeout step fuel w c .start s).2.1.sentOn c.id = w.sentOn c.id ++ d.cmd :: List.replicate k ackBytes := by
  cases fuel with
  | zero => left; simp only [runItems]; rfl
  | succ fuel =>
    simp only [runItems]
    obtain ⟨S, hS, hshape⟩ := seqNext_writes d (w.now + timeout) w c .start hl
    have hfr := seqNext_frame d (w.now + timeout) w c .start
    have hnb := start_leaves_start d (w.now + timeout) w c
    simp only at hshape
    generalize seqNext d (w.now + timeout) w c .start = q at hS hfr hnb hshape ⊢
    obtain ⟨o, w1, c1, st1⟩ := q
    simp only at hS hfr hnb hshape
    -- what the first call wrote: nothing, the command, or the command and one acknowledgement
    have h3 : S = [] ∨ S = [d.cmd] ∨ S = [d.cmd, ackBytes] := by
      rcases hshape with ⟨_, h⟩ | ⟨_, h | h⟩
      · exact Or.inr (Or.inr h)
      · exact Or.inl h
      · exact Or.inr (Or.inl h)
    have fin : ∀ (wf : World), wf.sentOn c.id = w1.sentOn c.id →
        wf.sentOn c.id = w.sentOn c.id ∨ ∃ k, wf.sentOn c.id = w.sentOn c.id ++ d.cmd :: List.replicate k ackBytes := by
      intro wf hwf
      rw [hwf, hS]
      rcases h3 with h | h | h
      · left; rw [h]; simp
      · right; exact ⟨0, by rw [h]; rfl⟩
      · right; exact ⟨1, by rw [h]; rfl⟩
    cases o with
    | ended => exact fin _ rfl
    | hang => exact fin _ (by rw [← hfr.id, dropConn_sentOn]; rfl)
    | item it =>
      cases it with
      | err =>
        simp only
        cases step s .err with
        | ret r => exact fin _ rfl
        | cont s' => exact fin _ (by rw [← hfr.id, dropConn_sentOn])
      | ok i v =>
        simp only
        have hok : S = [d.cmd, ackBytes] := by
          rcases hshape with ⟨_, h⟩ | ⟨h, _⟩
          · exact h
          · simp [NextOut.isOk] at h
        cases step s (.ok i v) with
        | ret r => exact fin _ rfl
        | cont s' =>
          simp only
          obtain ⟨k2, hk2⟩ := continued_attempt_writes d timeout step fuel w1 c1 st1 s' hnb (by rw [hfr.id, hfr.nlogs]; exact hl)
          rw [hfr.id] at hk2
          right
          refine ⟨1 + k2, ?_⟩
          rw [hk2, hS, hok, ← List.replicate_append_replicate]
          simp

end Zvt.C06C
