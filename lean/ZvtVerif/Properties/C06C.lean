/-
  C06 / C05 at the terminal client's own stream (`seqNext` of Client.lean: one `stream.next()` of a
  `Sequence::into_stream` on the live connection, as `into_stream_with_retry` polls it): the first failure is the
  last item, after it the stream is silent, a reply that cannot be interpreted is never acknowledged, and the stream
  ends right after the first final packet.
-/
import ZvtVerif.Proofs.ClientLemmas
import ZvtVerif.Proofs.ClientTraffic
namespace Zvt.C06C
open Zvt

/-- a finished stream does nothing: no read, no write, no time. -/
theorem done_is_silent (d : SeqDesc) (dl : Nat) (w : World) (c : ConnSt) :
    seqNext d dl w c .done = (.ended, w, c, .done) := rfl

/-- the state a `next()` leaves the stream in, by what it yielded. -/
theorem next_state (d : SeqDesc) (dl : Nat) (w : World) (c : ConnSt) (st : SeqSt) :
    match (seqNext d dl w c st).1 with
    | .item (.ok i _) =>
      (seqNext d dl w c st).2.2.2 = if d.once = true ∨ isFinalOf d.enum d.finals i = true then .done else .looping
    | _ => (seqNext d dl w c st).2.2.2 = .done := by
  unfold seqNext
  cases st with
  | done => rfl
  | start =>
    simp only
    repeat' split
    all_goals simp_all
  | looping =>
    simp only
    repeat' split
    all_goals simp_all

/-- **the first failure is the last item**: whatever state the stream is in, an error item or a time-out leaves it
finished — the next `next()` yields nothing and touches nothing (`done_is_silent`). -/
theorem error_is_last (d : SeqDesc) (dl : Nat) (w : World) (c : ConnSt) (st : SeqSt)
    (h : (seqNext d dl w c st).1 = .item .err ∨ (seqNext d dl w c st).1 = .hang) :
    (seqNext d dl w c st).2.2.2 = .done := by
  have := next_state d dl w c st
  rcases h with h | h <;> (rw [h] at this; exact this)

/-- **the stream ends right after the first final packet** (and, for a one-reply command, after its one reply):
the state after yielding it is `done`, so nothing behind it is ever read. -/
theorem final_is_last (d : SeqDesc) (dl : Nat) (w : World) (c : ConnSt) (st : SeqSt) (i : Nat) (v : Val)
    (h : (seqNext d dl w c st).1 = .item (.ok i v)) (hf : d.once = true ∨ isFinalOf d.enum d.finals i = true) :
    (seqNext d dl w c st).2.2.2 = .done := by
  have := next_state d dl w c st
  rw [h] at this
  simpa [hf] using this

/-- … and goes on after a packet that is not final. -/
theorem nonfinal_continues (d : SeqDesc) (dl : Nat) (w : World) (c : ConnSt) (st : SeqSt) (i : Nat) (v : Val)
    (h : (seqNext d dl w c st).1 = .item (.ok i v)) (hf : ¬ (d.once = true ∨ isFinalOf d.enum d.finals i = true)) :
    (seqNext d dl w c st).2.2.2 = .looping := by
  have := next_state d dl w c st
  rw [h] at this
  simpa [hf] using this

/-- **a reply that cannot be interpreted is never acknowledged**: when a `next()` of a running exchange ends in an
error item — undecodable packet, packet outside the reply set, end of stream, or the terminal has hung up — the
terminal's log of this and every other connection is exactly what it was: nothing was written. -/
theorem failed_reply_not_acknowledged (d : SeqDesc) (dl : Nat) (w : World) (c : ConnSt)
    (h : (seqNext d dl w c .looping).1 = .item .err) :
    (seqNext d dl w c .looping).2.1.logs = w.logs := by
  unfold seqNext at h ⊢
  simp only at h ⊢
  unfold readBy at h ⊢
  generalize connRead c = q at h ⊢
  obtain ⟨r, k, c2⟩ := q
  cases r with
  | hang => simp at h
  | eof =>
    simp only at h ⊢
    by_cases hd : dl < (w.waited k).now
    · simp [hd] at h
    · simp only [hd, if_false]; rfl
  | pkt p =>
    simp only at h ⊢
    by_cases hd : dl < (w.waited k).now
    · simp [hd] at h
    · simp only [hd, if_false] at h ⊢
      cases hp : parseEnum d.enum p with
      | error e => rfl
      | ok iv =>
        obtain ⟨i, v⟩ := iv
        simp only [hp] at h ⊢
        cases hw : connWrite (w.waited k) c2 ackBytes with
        | none => rfl
        | some wc2 => simp [hw] at h

/-- **C05 / C06 on the wire, at the client's stream**: what one `stream.next()` writes on its connection (`sentOn`: the
packets the terminal logged as received). The first call writes the command once and — exactly when it yields a
decoded packet — one acknowledgement behind it; every later call writes one acknowledgement exactly when it yields a
decoded packet; a finished stream writes nothing. So every packet handed to the caller was answered exactly once, before
it was handed over, and an error item or a time-out never comes with an acknowledgement. -/
theorem next_writes (d : SeqDesc) (dl : Nat) (w : World) (c : ConnSt) (st : SeqSt) (hl : c.id < w.logs.length) :
    ∃ S, (seqNext d dl w c st).2.1.sentOn c.id = w.sentOn c.id ++ S ∧
      (match st with
       | .start => ((seqNext d dl w c st).1.isOk = true ∧ S = [d.cmd, ackBytes]) ∨
                   ((seqNext d dl w c st).1.isOk = false ∧ (S = [] ∨ S = [d.cmd]))
       | .looping => ((seqNext d dl w c st).1.isOk = true ∧ S = [ackBytes]) ∨
                     ((seqNext d dl w c st).1.isOk = false ∧ S = [])
       | .done => S = []) :=
  seqNext_writes d dl w c st hl

end Zvt.C06C
