/-
  C14 — a decoded packet depends only on the bytes inside its announced length.
-/
import ZvtVerif.Derive
import ZvtVerif.Generated
import ZvtVerif.Proofs.LengthLemmas
import ZvtVerif.Proofs.EncodingLemmas
namespace Zvt.C14
open Zvt

/-- the length-prefix styles that delimit their payload. -/
def Delimiting : LenKind → Prop
  | .fixed _ => True
  | .tlv => True
  | .llv _ => True
  | .adpu => True
  | _ => False

theorem intDecode_append (be : Bool) (w : Nat) (b x : Bytes) (n : Nat) (r : Bytes)
    (h : intDecode be w b = .ok (n, r)) : intDecode be w (b ++ x) = .ok (n, r ++ x) := by
  unfold intDecode at h ⊢
  split at h
  · simp at h
  · rename_i hl
    have hl' : w ≤ b.length := by omega
    have : ¬ ((b ++ x).length < w) := by simp; omega
    simp only [this, if_false]
    simp only [Except.ok.injEq, Prod.mk.injEq] at h
    obtain ⟨h1, h2⟩ := h
    rw [List.take_append_of_le_length hl', List.drop_append_of_le_length hl', h1, h2]

/-- a delimiting prefix parser is unaffected by appended bytes: same length, payload extended. -/
theorem lenDe_append (L : LenKind) (hL : Delimiting L) (b x : Bytes) (n : Nat) (p : Bytes)
    (h : L.de b = .ok (n, p)) : L.de (b ++ x) = .ok (n, p ++ x) := by
  cases L with
  | empty => exact absurd hL (by simp [Delimiting])
  | temperature => exact absurd hL (by simp [Delimiting])
  | unknown s => exact absurd hL (by simp [Delimiting])
  | fixed k =>
    simp only [LenKind.de] at h ⊢
    split at h
    · simp at h
    · rename_i hl
      have : ¬ ((b ++ x).length < k) := by simp; omega
      simp only [this, if_false]
      simp at h; obtain ⟨rfl, rfl⟩ := h; rfl
  | llv k => exact llvDe_append k 0 b x n p h
  | tlv =>
    simp only [LenKind.de] at h ⊢
    match b, h with
    | d :: rest, h =>
      simp only [List.cons_append] at h ⊢
      split at h
      · rename_i h1; simp only [h1, if_true]; simp at h; obtain ⟨rfl, rfl⟩ := h; rfl
      · rename_i h1
        simp only [h1, if_false]
        split at h
        · rename_i h2
          simp only [h2, if_true]
          match rest, h with
          | l :: rest', h => simp at h ⊢; exact h
        · rename_i h2
          simp only [h2, if_false]
          split at h
          · rename_i h3
            simp only [h3, if_true]
            match rest, h with
            | hh :: l :: rest', h => simp at h ⊢; exact h
          · simp at h
  | adpu =>
    simp only [LenKind.de] at h ⊢
    match b, h with
    | d :: rest, h =>
      simp only [List.cons_append] at h ⊢
      split at h
      · rename_i h1; simp only [h1, if_true]; exact intDecode_append false 2 rest x n p h
      · rename_i h1; simp only [h1, if_false]; simp at h ⊢; exact h

theorem tagDecDefault_append (b x : Bytes) (t : Nat) (r : Bytes) (h : tagDecDefault b = .ok (t, r)) :
    tagDecDefault (b ++ x) = .ok (t, r ++ x) := by
  unfold tagDecDefault at h ⊢
  match b, h with
  | t0 :: rest, h =>
    simp only [List.cons_append] at h ⊢
    split at h
    · rename_i h1
      simp only [h1, if_true]
      match rest, h with
      | l :: rest', h => simp at h ⊢; exact h
    · rename_i h1; simp only [h1, if_false]; simp at h ⊢; exact h

theorem stripTag_append (tagDec : Bytes → Res (Nat × Bytes))
    (htag : ∀ b x t r, tagDec b = .ok (t, r) → tagDec (b ++ x) = .ok (t, r ++ x))
    (tag : Option Nat) (b x r : Bytes) (h : stripTag tagDec tag b = .ok r) :
    stripTag tagDec tag (b ++ x) = .ok (r ++ x) := by
  unfold stripTag at h ⊢
  cases tag with
  | none => simp at h ⊢; rw [h]
  | some t =>
    simp only at h ⊢
    cases hd : tagDec b with
    | error e => simp [hd] at h
    | ok p =>
      obtain ⟨a, r'⟩ := p
      rw [htag b x a r' hd]
      simp only [hd] at h
      simp only
      split at h
      · simp at h
      · rename_i hne; simp only [hne, if_false] ; simp at h; rw [h]

/-- **Container law.** Behind a delimiting length prefix, the field decoder sees exactly the announced
bytes: whatever is appended after the container is handed back untouched and cannot change the value.
Holds for *every* input `b` that decodes (not only for canonical encodings) and every payload decoder. -/
theorem deserTagged_append {α : Type} (tagDec : Bytes → Res (Nat × Bytes))
    (htag : ∀ b x t r, tagDec b = .ok (t, r) → tagDec (b ++ x) = .ok (t, r ++ x))
    (L : LenKind) (hL : Delimiting L) (dec : Bytes → Res (α × Bytes)) (tag : Option Nat)
    (b x : Bytes) (v : α) (r : Bytes) (h : deserTagged tagDec L dec tag b = .ok (v, r)) :
    deserTagged tagDec L dec tag (b ++ x) = .ok (v, r ++ x) := by
  unfold deserTagged at h ⊢
  cases hs : stripTag tagDec tag b with
  | error e => simp [hs] at h
  | ok b1 =>
    rw [stripTag_append tagDec htag tag b x b1 hs]
    simp only [hs] at h
    simp only
    cases hl : L.de b1 with
    | error e => simp [hl] at h
    | ok q =>
      obtain ⟨n, p⟩ := q
      rw [lenDe_append L hL b1 x n p hl]
      simp only [hl] at h
      simp only
      split at h
      · simp at h
      · rename_i hle
        have hle' : n ≤ p.length := by omega
        have : ¬ (n > (p ++ x).length) := by simp; omega
        simp only [this, if_false]
        rw [List.take_append_of_le_length hle']
        cases hd : dec (p.take n) with
        | error e => simp [hd] at h
        | ok w =>
          obtain ⟨v', rem⟩ := w
          simp only [hd] at h
          simp only
          split at h
          · simp at h
          · rename_i hr
            simp only [hr, if_false]
            simp only [Except.ok.injEq, Prod.mk.injEq] at h
            obtain ⟨rfl, rfl⟩ := h
            have : n - rem.length ≤ p.length := by omega
            rw [List.drop_append_of_le_length this]

/-- **Packets.** Appending arbitrary bytes after a packet does not change the decoded value, and those
bytes come back untouched as the remainder — for every command type, every input that decodes. -/
theorem cmd_suffix (s : StructDef) (c : Nat × Nat) (hc : s.ctrl = some c) (b x : Bytes) (v : Val) (r : Bytes)
    (h : decodeCmd s b = .ok (v, r)) : decodeCmd s (b ++ x) = .ok (v, r ++ x) := by
  unfold decodeCmd at h ⊢
  simp only [hc] at h ⊢
  exact deserTagged_append tagDecBE (fun b x t r h => intDecode_append true 2 b x t r h) .adpu trivial _ _ b x v r h

/-- **Nested containers.** The same for every field under a delimiting length style (fixed, LLVAR,
LLLVAR, BER-TLV) whose type is a number, text, binary payload, date-time or nested struct. -/
theorem field_suffix (ty : Ty) (L : LenKind) (E : Enc) (tag : Option Nat) (hL : Delimiting L)
    (hty : match ty with | .opt _ => False | .vec _ => False | _ => True)
    (b x : Bytes) (v : Val) (r : Bytes) (h : Ty.de ty L E tag b = .ok (v, r)) :
    Ty.de ty L E tag (b ++ x) = .ok (v, r ++ x) := by
  cases ty with
  | opt t => exact absurd hty (by simp)
  | vec t => exact absurd hty (by simp)
  | int w => simp only [Ty.de] at h ⊢; exact deserTagged_append _ tagDecDefault_append L hL _ tag b x v r h
  | str => simp only [Ty.de] at h ⊢; exact deserTagged_append _ tagDecDefault_append L hL _ tag b x v r h
  | bytes => simp only [Ty.de] at h ⊢; exact deserTagged_append _ tagDecDefault_append L hL _ tag b x v r h
  | dateTime => simp only [Ty.de] at h ⊢; exact deserTagged_append _ tagDecDefault_append L hL _ tag b x v r h
  | struct fs => simp only [Ty.de] at h ⊢; exact deserTagged_append _ tagDecDefault_append L hL _ tag b x v r h

/-- a tagged optional field inherits the law (an absent tagged field is decided by the caller's tag loop). -/
theorem tagged_opt_suffix (t : Ty) (L : LenKind) (E : Enc) (tg : Nat) (hL : Delimiting L)
    (hty : match t with | .opt _ => False | .vec _ => False | _ => True)
    (b x : Bytes) (v : Val) (r : Bytes) (h : Ty.de (.opt t) L E (some tg) b = .ok (v, r)) :
    Ty.de (.opt t) L E (some tg) (b ++ x) = .ok (v, r ++ x) := by
  simp only [Ty.de] at h ⊢
  cases hd : Ty.de t L E (some tg) b with
  | error e => simp [hd] at h
  | ok p =>
    obtain ⟨v', r'⟩ := p
    rw [field_suffix t L E (some tg) hL hty b x v' r' hd]
    simp only [hd] at h
    simp at h ⊢
    obtain ⟨rfl, rfl⟩ := h
    exact ⟨rfl, rfl⟩

/-- Why `Empty` is *not* delimiting (documented counter-example): an untagged text field without length
prefix swallows whatever follows it. -/
example : (Ty.de .str .empty .dflt none [0x41]).isOkVal (.str [0x41]) [] = true ∧
    (Ty.de .str .empty .dflt none ([0x41] ++ [0x42])).isOkVal (.str [0x41, 0x42]) [] = true := by decide +kernel

/-- non-vacuity: a captured read-card request followed by another packet. -/
example : (decodeCmd Generated.packets_Abort ([0x06, 0x1e, 0x01, 0x6c] ++ [0x80, 0x00, 0x00])).isOkVal
    (.struct [.num 0x6c]) [0x80, 0x00, 0x00] = true := by decide +kernel

end Zvt.C14
