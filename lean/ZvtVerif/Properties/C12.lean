/-
  C12 — the derive macro implements the declared layout for any user-defined struct.

  The theorems of C14 (suffix independence of every command and delimited container, for ALL schemas),
  C15 (dispatch, for ALL enum definitions) and C13/C01 are quantified over arbitrary schemas — any size,
  any nesting depth — which is the "programs" quantifier of this property. `any_wellformed_roundtrip` is the
  round trip for EVERY schema accepted by the Boolean well-formedness check `structWf` (Proofs/Canon.lean).
  This file adds what is specific: the boundary of well-formedness, as kernel-checked counter-examples, each
  of which `fieldsWf` rejects.
-/
import ZvtVerif.Derive
import ZvtVerif.Properties.C14
import ZvtVerif.Proofs.Canon
namespace Zvt.C12
open Zvt

/-- the macro decodes ALL positional fields first, whatever the declaration order: a struct that declares
a positional field after a tagged one serialises in declaration order but cannot read its own output. -/
def posAfterTagged : List Field := [.mk "a" (some 1) .empty .dflt (.int 1), .mk "b" none .empty .dflt (.int 1)]

theorem wf_positional_first_is_necessary :
    (encFields posAfterTagged [.num 7, .num 9] == .ok [0x01, 0x07, 0x09]) = true ∧
    (match decStruct posAfterTagged [0x01, 0x07, 0x09] with
      | .ok (v, _) => Val.beq v (.struct [.num 7, .num 9])
      | .error _ => false) = false := by decide +kernel

/-- a one-byte tag 0x1F cannot be represented: the encoder writes one byte, the decoder reads two. -/
def tag1f : List Field := [.mk "a" (some 0x1f) .empty .dflt (.opt (.int 1))]

theorem wf_tag_representable_is_necessary :
    (encFields tag1f [.some (.num 7)] == .ok [0x1f, 0x07]) = true ∧
    (match decStruct tag1f [0x1f, 0x07] with
      | .ok (v, _) => Val.beq v (.struct [.some (.num 7)])
      | .error _ => false) = false := by decide +kernel

/-- an undelimited text field swallows the tagged fields behind it. -/
def greedyThenTagged : List Field := [.mk "a" none .empty .dflt .str, .mk "b" (some 2) .empty .dflt (.opt (.int 1))]

theorem wf_greedy_last_is_necessary :
    (match decStruct greedyThenTagged [0x41, 0x02, 0x05] with
      | .ok (v, _) => Val.beq v (.struct [.str [0x41], .some (.num 5)])
      | .error _ => false) = false := by decide +kernel

/-- the generic suffix law instantiated at an arbitrary user-defined command (re-export of C14). -/
theorem any_command_suffix (s : StructDef) (c : Nat × Nat) (hc : s.ctrl = some c) (b x : Bytes) (v : Val) (r : Bytes)
    (h : decodeCmd s b = .ok (v, r)) : decodeCmd s (b ++ x) = .ok (v, r ++ x) := C14.cmd_suffix s c hc b x v r h

/-- **Generated code = declared layout, for every well-formed user-defined struct**: serialise then deserialise
is the identity on canonical values (re-export of the generic theorem of Proofs/Canon.lean). -/
theorem any_wellformed_roundtrip (s : StructDef) (hwf : structWf s = true) (v : Val) (hc : s.canon v) :
    ∃ bytes, encodeCmd s v = .ok bytes ∧ decodeCmd s bytes = .ok (v, []) ∧
      (s.ctrl.isSome = true → ∀ x, decodeCmd s (bytes ++ x) = .ok (v, x)) :=
  packet_roundtrip s hwf v hc

/-- the well-formedness check rejects exactly the three boundary shapes above (it is not vacuous, and the
hypothesis of `any_wellformed_roundtrip` cannot be dropped). -/
theorem wf_rejects_boundary_shapes :
    fieldsWf posAfterTagged = false ∧ fieldsWf tag1f = false ∧ fieldsWf greedyThenTagged = false := by decide +kernel

end Zvt.C12
