/-
  C08 — theorems are being added (see DESIGN.md §7 C08)
-/
import ZvtVerif.Client
namespace Zvt.C08
open Zvt

end Zvt.C08
