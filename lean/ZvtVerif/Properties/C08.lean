/-
  C08 — commit releases exactly the unused part of the pre-authorisation.
-/
import ZvtVerif.Client
namespace Zvt.C08
open Zvt

/-- `usize::saturating_sub` on machine integers: `a - b` if that is not negative, else 0. Written with the
machine-level case split so that the theorem below has content. -/
def satSub64 (a b : Nat) : Nat := if b ≤ a then a - b else 0

/-- the released amount is the pre-authorised amount minus the final amount, zero when the final amount
is larger: never negative, never wrapped, never more than what was reserved — for all 64-bit inputs. -/
theorem reversal_amount (pre final : Nat) :
    reversalAmount pre final = satSub64 pre final ∧ reversalAmount pre final ≤ pre ∧
    (final ≤ pre → reversalAmount pre final + final = pre) ∧ (pre ≤ final → reversalAmount pre final = 0) := by
  unfold reversalAmount satSub64
  refine ⟨?_, ?_, ?_, ?_⟩
  · split <;> omega
  · omega
  · intro h; omega
  · intro h; omega

theorem reversal_amount_fits (pre final : Nat) (h : pre < 10 ^ 12) : reversalAmount pre final < 10 ^ 12 := by
  unfold reversalAmount; omega

/-- The partial-reversal request of `commit` is built from exactly: the reservation's receipt number, the
released amount, payment type 0x40, the configured currency and the reference `AC` ‖ token. -/
theorem commit_request_fields (cfg : Cfg) (token : List Nat) (receipt final : Nat) :
    commitCmd cfg token receipt final =
      encodeReq "packets::PartialReversal" (.struct [.some (.num receipt), .some (.num (reversalAmount cfg.amount final)),
        .some (.num 0x40), .some (.num cfg.currency),
        .some (.struct [.some (.struct [.str [65, 67], .str token])])]) := rfl

/-- Reservations are always requested for the configured amount and currency, with the same reference. -/
theorem reservation_request_fields (cfg : Cfg) (token : List Nat) :
    reservationCmd cfg token =
      encodeReq "packets::Reservation" (.struct [.some (.num cfg.amount), .some (.num cfg.currency), .some (.num 0x40),
        .none, .none, .none, .none, .none, .none, .none, .none, .none, .none,
        .some (.struct [.some (.struct [.str [65, 67], .str token])])]) := rfl

/-- the layout these requests are encoded with is the specification's (positions of the fields used above). -/
theorem request_layouts :
    (findStructG "packets::PartialReversal").fields.map (·.name) = ["receipt_no", "amount", "payment_type", "currency", "tlv"] ∧
    (findStructG "packets::Reservation").fields.map (·.name) =
      ["amount", "currency", "payment_type", "expiry_date", "card_number", "track_2_data", "timeout", "maximum_no_of_status_info",
       "pump_no", "trace_number", "aid_authorization_attribute", "additional_text", "zvt_card_type", "tlv"] ∧
    (findStructG "packets::PreAuthReversal").fields.map (·.name) = ["payment_type", "currency", "receipt_no"] := by
  decide +kernel

/-- the summary is the projection of the last status information. -/
theorem summary_fields (v : Val) :
    (summaryOf v).amount = numOf (fieldOf statusStruct v "amount") ∧
    (summaryOf v).trace = numOf (fieldOf statusStruct v "trace_number") ∧
    (summaryOf v).date = numOf (fieldOf statusStruct v "date") ∧
    (summaryOf v).time = numOf (fieldOf statusStruct v "time") ∧
    (summaryOf v).terminalId = numOf (fieldOf statusStruct v "terminal_id") := ⟨rfl, rfl, rfl, rfl, rfl⟩

/-- bytes on the wire for a concrete commit (2500 reserved, 100 final, EUR, receipt 11, token "a"):
the amount field carries 000000002400. -/
example : commitCmd { maxTx := 1, amount := 2500, currency := 978, password := 0, readCardTimeout := 15, serial := [], terminalId := [] } [97] 11 100 =
    [0x06, 0x23, 0x1c, 0x87, 0x00, 0x11, 0x04, 0x00, 0x00, 0x00, 0x00, 0x24, 0x00, 0x19, 0x40, 0x49, 0x09, 0x78,
     0x06, 0x0b, 0xe9, 0x09, 0x1f, 0x62, 0x02, 0x41, 0x43, 0x1f, 0x63, 0x01, 0x61] := by
  decide +kernel

/-- the literals the model's requests are built with are the constants of the source (read by the translator on
this run): payment type 40, BMP-60 prefix "AC", registration config byte DE. -/
theorem request_constants_match_source :
    (Generated.consts.find? (·.1 == "PAYMENT_TYPE")).map (·.2) = some "Some(64)" ∧
    (Generated.consts.find? (·.1 == "BMP_PREFIX")).map (·.2) = some "\"AC\"" ∧
    (Generated.consts.find? (·.1 == "CONFIG_BYTE")).map (·.2) = some "222" := by decide +kernel

end Zvt.C08
