/-
  C09 — a connection that saw a failure is never reused; fresh ones are vetted.
-/
import ZvtVerif.Proofs.ClientLemmas
import ZvtVerif.Proofs.ClientFrame
import ZvtVerif.Proofs.ClientTraffic
namespace Zvt.C09
open Zvt

/-- **A failed attempt abandons its connection** — for every sequence, terminal script and fault, and every caller
whose loop polls the stream again after an error item (all of feig.rs, `*_polls_again` below): an error item (transport
error, undecodable or unexpected reply, NACK) or a time-out leaves no live connection behind. -/
theorem failed_attempt_drops_connection {σ ρ : Type} (d : SeqDesc) (timeout : Nat) (step : σ → Item → Step σ ρ)
    (hpoll : PollsAgain step)
    (fuel : Nat) (w : World) (c : ConnSt) (st : SeqSt) (s : σ)
    (h : (runItems d timeout step fuel w c st s).2.2 = true) :
    (runItems d timeout step fuel w c st s).2.1.conn = none :=
  (runItems_conn d timeout step fuel w c st s).1 hpoll h

/-! The hypothesis is about the CALLER and it is necessary: `into_stream_with_retry` clears `src.inner` only when it is
polled again after having yielded the error (`yield packet; if is_err { break }` … `src.inner = None`). A loop body
that leaves on the error item drops the stream first and the failed connection stays cached. Every loop of the client
continues on an error item: -/

theorem liftStep_polls_again (onOk : Nat → Val → Step Unit (CRes Unit)) : PollsAgain (liftStep onOk) :=
  fun _ => ⟨(), rfl⟩
theorem sysInfoStep_polls_again (e : EnumDef) : PollsAgain (sysInfoStep e) := fun _ => ⟨(), rfl⟩
theorem pendingStep_polls_again (e : EnumDef) : PollsAgain (pendingStep e) := fun _ => ⟨(), rfl⟩
theorem readCardStep_polls_again (e : EnumDef) : PollsAgain (readCardStep e) := fun s => ⟨s, rfl⟩
theorem beginStep_polls_again (e : EnumDef) : PollsAgain (beginStep e) := fun s => ⟨s, rfl⟩
theorem commitStep_polls_again (e : EnumDef) : PollsAgain (commitStep e) := fun s => ⟨s, rfl⟩

/-- … and the hypothesis cannot be dropped: a caller that leaves its loop on the error item keeps the failed
connection (kernel-evaluated run: the terminal answers the command with a NACK; the attempt failed, the connection
is still cached). -/
example :
    let d : SeqDesc := seqDesc "sequences::Initialization" [0x06, 0x93, 0x03, 0x12, 0x34, 0x56]
    let w : World := { faults := [((0, 0), .nack)], logs := [[.opened 0]] }
    let leave : Unit → Item → Step Unit Bool := fun _ it => match it with | .err => .ret false | .ok _ _ => .cont ()
    let r := runItems d 60 leave 8 w { id := 0 } .start ()
    r.2.2 = true ∧ r.2.1.conn.isSome = true := by
  decide +kernel

/-- **An exchange that completes normally keeps the connection — the very same one.** -/
theorem good_attempt_keeps_connection {σ ρ : Type} (d : SeqDesc) (timeout : Nat) (step : σ → Item → Step σ ρ)
    (fuel : Nat) (w : World) (c : ConnSt) (st : SeqSt) (s : σ)
    (h : (runItems d timeout step fuel w c st s).2.2 = false) :
    ∃ c', (runItems d timeout step fuel w c st s).2.1.conn = some c' ∧ c'.id = c.id :=
  (runItems_conn d timeout step fuel w c st s).2.1 h

/-- the next call reuses a live connection without reconnecting: no handshake, no time. -/
theorem live_connection_is_reused (cfg : Cfg) (w : World) (c : ConnSt) (h : w.conn = some c) :
    ensureConn cfg w = (w, true) := by
  unfold ensureConn; simp [h]

/-- without a live connection the only way on is the handshake (`inner::connect`). -/
theorem no_connection_means_handshake (cfg : Cfg) (w : World) (h : w.conn = none) :
    ensureConn cfg w = connect cfg w := by
  unfold ensureConn; simp [h]

/-- **The handshake vets or drops.** `connect` reports success only on the single path on which registration
(configured password and currency) AND the identity query were answered AND the serial number matched; on
every other path (refused, silent, NACK, undecodable or unexpected reply, different serial) no connection is
left behind. A successful handshake always yields a connection with the next unused identity — never one
that existed before. -/
theorem handshake_vets_or_drops (cfg : Cfg) (w : World) :
    ((connect cfg w).2 = true → ∃ c, (connect cfg w).1.conn = some c ∧ c.id = w.logs.length) ∧
    ((connect cfg w).2 = false → (connect cfg w).1.conn = none ∨ (connect cfg w).1.conn = w.conn) :=
  connect_outcome cfg w

/-- **After a failure the next attempt runs on a fresh, vetted connection**: with no live connection, an
attempt can only start (`ensureConn … = (_, true)`) on a connection created by a successful handshake, and its
identity is new (the number of connections opened so far), so the abandoned one is never picked up again. -/
theorem reconnect_is_fresh (cfg : Cfg) (w : World) (h : w.conn = none) (hok : (ensureConn cfg w).2 = true) :
    ∃ c, (ensureConn cfg w).1.conn = some c ∧ c.id = w.logs.length := by
  rw [no_connection_means_handshake cfg w h] at hok ⊢
  exact (connect_outcome cfg w).1 hok

/-- … and if the handshake fails there is still no connection (the retry loop tries again or gives up). -/
theorem failed_handshake_leaves_none (cfg : Cfg) (w : World) (h : w.conn = none) (hf : (ensureConn cfg w).2 = false) :
    (ensureConn cfg w).1.conn = none := by
  rw [no_connection_means_handshake cfg w h] at hf ⊢
  rcases (connect_outcome cfg w).2 hf with h1 | h1
  · exact h1
  · rw [h1]; exact h

/-- **An abandoned connection is never picked up again — over a whole exchange with all its retries.** Whatever
the terminal does (any script, any faults, any number of failed attempts and reconnects): when the exchange
returns, no connection slot has disappeared, and the live connection — if there is one — is either the very
connection that was live when the exchange started, or one opened during it (its identity is not among the
connections that existed before, so it is none of the abandoned ones). -/
theorem exchange_never_resurrects {σ ρ : Type} (cfg : Cfg) (seqName : String) (cmd : Bytes) (timeout : Nat)
    (step : σ → Item → Step σ ρ) (w : World) (s : σ) :
    w.logs.length ≤ (runOp cfg seqName cmd timeout step w s).2.logs.length ∧
    ∀ c', (runOp cfg seqName cmd timeout step w s).2.conn = some c' →
      (∃ c, w.conn = some c ∧ c'.id = c.id) ∨ w.logs.length ≤ c'.id :=
  runOp_fresh cfg seqName cmd timeout step w s

/-- every handshake — successful or not — uses up one connection slot, so identities are never recycled. -/
theorem handshake_uses_new_slot (cfg : Cfg) (w : World) : (connect cfg w).1.logs.length = w.logs.length + 1 :=
  connect_nlogs cfg w

/-- inside an exchange the client never switches connections. -/
theorem same_connection_within_exchange (d : SeqDesc) (dl : Nat) (w : World) (c : ConnSt) (st : SeqSt) :
    (seqNext d dl w c st).2.2.1.id = c.id := (seqNext_conn d dl w c st).2

/-! ### traffic: an abandoned connection never sees another byte — over whole call histories

`World.logs` is the per-connection log of the simulated terminal (`open@t`, `rx:HEX` for every packet the client
sends, `tclose@t` / `close@t`); slot `j` is connection `j`. `Quiet w w'` (Proofs/ClientFrame.lean): no slot
disappears, the live connection of `w'` is the live connection of `w` or one opened since, and the log of every slot
of `w` that is not its live connection is unchanged in `w'`. It holds for one `stream.next()`, an attempt, a
handshake, the retry loop, every operation of `Feig` and — by transitivity — every history of calls. -/

/-- **Nothing is ever sent (or received, or closed) on a connection that is not the live one** — for ANY history
of public calls (configure, read_card, begin, commit, cancel), any terminal script, faults, pauses and time-outs:
the log of every connection that is not live at the start is, at the end, exactly what it was. -/
theorem abandoned_connection_stays_silent (cfg : Cfg) (cl : Client) (w : World) (calls : List ClientCall)
    (j : Nat) (hj : j < w.logs.length) (hdead : ∀ c, w.conn = some c → c.id ≠ j) :
    (runClientCalls cfg (cl, w) calls).2.logs[j]? = w.logs[j]? :=
  (quiet_calls cfg calls (cl, w)).frozen j hj hdead

/-- … and the connection that is live after any history is the one that was live before it or a connection opened
during it — never one of the abandoned ones. -/
theorem live_connection_after_history (cfg : Cfg) (cl : Client) (w : World) (calls : List ClientCall) (c' : ConnSt)
    (h : (runClientCalls cfg (cl, w) calls).2.conn = some c') :
    (∃ c, w.conn = some c ∧ c'.id = c.id) ∨ w.logs.length ≤ c'.id :=
  (quiet_calls cfg calls (cl, w)).fresh.2 c' h

/-- **After a failed attempt its connection is dead for good**: whatever the client is asked to do afterwards, not
a single further packet goes out on it. (Failed attempt = error item or time-out, caller polls again.) -/
theorem failed_connection_never_used {σ ρ : Type} (d : SeqDesc) (timeout : Nat) (step : σ → Item → Step σ ρ)
    (hpoll : PollsAgain step) (fuel : Nat) (w : World) (c : ConnSt) (st : SeqSt) (s : σ)
    (hc : c.id < w.logs.length)
    (hfail : (runItems d timeout step fuel w c st s).2.2 = true)
    (cfg : Cfg) (cl : Client) (calls : List ClientCall) :
    (runClientCalls cfg (cl, (runItems d timeout step fuel w c st s).2.1) calls).2.logs[c.id]? =
      (runItems d timeout step fuel w c st s).2.1.logs[c.id]? := by
  apply abandoned_connection_stays_silent
  · rw [runItems_nlogs]; exact hc
  · intro c' h
    rw [failed_attempt_drops_connection d timeout step hpoll fuel w c st s hfail] at h
    cases h

/-- **A connection that failed its vetting is never used for commands**: if the handshake does not succeed
(refused, silent, NACK, undecodable reply, aborted identity request, different serial number) the slot it opened
stays exactly as the handshake left it through every later call — the only packets it ever saw are the
handshake's own. -/
theorem rejected_connection_never_used (cfg : Cfg) (w : World) (hnone : w.conn = none)
    (hrej : (connect cfg w).2 = false) (cl : Client) (calls : List ClientCall) :
    (runClientCalls cfg (cl, (connect cfg w).1) calls).2.logs[w.logs.length]? = (connect cfg w).1.logs[w.logs.length]? := by
  apply abandoned_connection_stays_silent
  · rw [connect_nlogs]; exact Nat.lt_succ_self _
  · intro c' h
    rcases (connect_outcome cfg w).2 hrej with h1 | h1
    · rw [h1] at h; cases h
    · rw [h1, hnone] at h; cases h

/-- the theorems on a concrete run (kernel-evaluated): the terminal drops connection 0 in the middle of the
reservation exchange; the retry registers and identifies on connection 1 and repeats the command there; a later
`cancel` runs on connection 1; connection 0 still shows exactly the seven entries it had when it failed. -/
example :
    let cfg : Cfg := { maxTx := 1, amount := 2500, currency := 978, password := 123456, readCardTimeout := 15,
                       serial := [65, 66], terminalId := [49] }
    let w : World := { serial := [0x41, 0x42, 0, 0, 0, 0, 0, 0], tid := [0x31, 0, 0, 0, 0, 0, 0, 0],
                       faults := [((0, 5), .close)] }
    let s1 := runClientCalls cfg ({}, w) [.begin [97]]
    let s2 := runClientCalls cfg ({}, w) [.begin [97], .cancel [97]]
    s1.2.logs.map List.length = [7, 8] ∧ s1.2.conn.map (·.id) = some 1 ∧
    s2.2.logs.map List.length = [7, 14] ∧ s2.2.logs[0]? = s1.2.logs[0]? ∧
    (s1.2.logs[1]?.map (·.take 4)) = some [.opened 2, .rx [0x06, 0x00, 0x06, 0x12, 0x34, 0x56, 0xde, 0x09, 0x78], .rx [0x80, 0, 0],
      .rx [0x0f, 0xa1, 0x02, 0x00, 0x01]] := by
  decide +kernel

/-- **Every new connection starts with registration and an identity check — and with nothing else.** What the client
writes on the connection a handshake opens (`World.sentOn`: the `rx` entries of the terminal's log of that connection)
is a prefix of

    registration (configured password, config byte DE, configured currency) · acknowledgement · identity request ·
    acknowledgement

in this order; when the handshake succeeds it is exactly these four packets. For every terminal behaviour. -/
theorem handshake_is_registration_then_identity (cfg : Cfg) (w : World) :
    (connect cfg w).1.sentOn w.logs.length <+: handshakePackets cfg ∧
    ((connect cfg w).2 = true → (connect cfg w).1.sentOn w.logs.length = handshakePackets cfg) :=
  connect_traffic cfg w

/-- … with the configured password and currency on the wire (kernel-evaluated). -/
example :
    handshakePackets { maxTx := 1, amount := 2500, currency := 978, password := 123456, readCardTimeout := 15,
                       serial := [65, 66], terminalId := [49] }
      = [[0x06, 0x00, 0x06, 0x12, 0x34, 0x56, 0xde, 0x09, 0x78], [0x80, 0x00, 0x00], [0x0f, 0xa1, 0x02, 0x00, 0x01],
         [0x80, 0x00, 0x00]] := by decide +kernel

/-- **A connection whose terminal failed the vetting never receives a command**: whatever the client is asked to
do afterwards, all it ever wrote on that connection is (a prefix of) the handshake's own four packets. -/
theorem rejected_connection_only_saw_the_handshake (cfg : Cfg) (w : World) (hnone : w.conn = none)
    (hrej : (connect cfg w).2 = false) (cl : Client) (calls : List ClientCall) :
    (runClientCalls cfg (cl, (connect cfg w).1) calls).2.sentOn w.logs.length <+: handshakePackets cfg := by
  rw [sentOn_of_logs_eq _ _ _ (rejected_connection_never_used cfg w hnone hrej cl calls)]
  exact (connect_traffic cfg w).1

/-- the handshake itself touches no older connection. -/
theorem handshake_touches_no_old_connection (cfg : Cfg) (w : World) (j : Nat) (hj : j < w.logs.length) :
    (connect cfg w).1.logs[j]? = w.logs[j]? := connect_old_slots cfg w j hj

/-- non-vacuity / vetting on a concrete run: a terminal reporting a different serial is registered with,
asked for its identity — and then dropped without a single command. -/
example :
    let cfg : Cfg := { maxTx := 1, amount := 2500, currency := 978, password := 123456, readCardTimeout := 15,
                       serial := [65, 66], terminalId := [49] }
    let w : World := { serial := [0x58, 0x59, 0, 0, 0, 0, 0, 0], tid := [0x31, 0, 0, 0, 0, 0, 0, 0] }
    (connect cfg w).2 = false ∧ (connect cfg w).1.conn.isNone = true ∧
      ((connect cfg w).1.logs.map List.length) = [6] := by
  decide +kernel

end Zvt.C09
