/-
  C09 — theorems are being added (see DESIGN.md §7 C09)
-/
import ZvtVerif.Client
namespace Zvt.C09
open Zvt

end Zvt.C09
