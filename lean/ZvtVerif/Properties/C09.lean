/-
  C09 — a connection that saw a failure is never reused; fresh ones are vetted.
-/
import ZvtVerif.Proofs.ClientLemmas
namespace Zvt.C09
open Zvt

/-- **A failed attempt abandons its connection** — for every sequence, terminal script and fault, and every caller
whose loop polls the stream again after an error item (all of feig.rs, `*_polls_again` below): an error item (transport
error, undecodable or unexpected reply, NACK) or a time-out leaves no live connection behind. -/
theorem failed_attempt_drops_connection {σ ρ : Type} (d : SeqDesc) (timeout : Nat) (step : σ → Item → Step σ ρ)
    (hpoll : PollsAgain step)
    (fuel : Nat) (w : World) (c : ConnSt) (st : SeqSt) (s : σ)
    (h : (runItems d timeout step fuel w c st s).2.2 = true) :
    (runItems d timeout step fuel w c st s).2.1.conn = none :=
  (runItems_conn d timeout step fuel w c st s).1 hpoll h

/-! The hypothesis is about the CALLER and it is necessary: `into_stream_with_retry` clears `src.inner` only when it is
polled again after having yielded the error (`yield packet; if is_err { break }` … `src.inner = None`). A loop body
that leaves on the error item drops the stream first and the failed connection stays cached. Every loop of the client
continues on an error item: -/

theorem liftStep_polls_again (onOk : Nat → Val → Step Unit (CRes Unit)) : PollsAgain (liftStep onOk) :=
  fun _ => ⟨(), rfl⟩
theorem sysInfoStep_polls_again (e : EnumDef) : PollsAgain (sysInfoStep e) := fun _ => ⟨(), rfl⟩
theorem pendingStep_polls_again (e : EnumDef) : PollsAgain (pendingStep e) := fun _ => ⟨(), rfl⟩
theorem readCardStep_polls_again (e : EnumDef) : PollsAgain (readCardStep e) := fun s => ⟨s, rfl⟩
theorem beginStep_polls_again (e : EnumDef) : PollsAgain (beginStep e) := fun s => ⟨s, rfl⟩
theorem commitStep_polls_again (e : EnumDef) : PollsAgain (commitStep e) := fun s => ⟨s, rfl⟩

/-- … and the hypothesis cannot be dropped: a caller that leaves its loop on the error item keeps the failed
connection (kernel-evaluated run: the terminal answers the command with a NACK; the attempt failed, the connection
is still cached). -/
example :
    let d : SeqDesc := seqDesc "sequences::Initialization" [0x06, 0x93, 0x03, 0x12, 0x34, 0x56]
    let w : World := { faults := [((0, 0), .nack)], logs := [["open@0"]] }
    let leave : Unit → Item → Step Unit Bool := fun _ it => match it with | .err => .ret false | .ok _ _ => .cont ()
    let r := runItems d 60 leave 8 w { id := 0 } .start ()
    r.2.2 = true ∧ r.2.1.conn.isSome = true := by
  decide +kernel

/-- **An exchange that completes normally keeps the connection — the very same one.** -/
theorem good_attempt_keeps_connection {σ ρ : Type} (d : SeqDesc) (timeout : Nat) (step : σ → Item → Step σ ρ)
    (fuel : Nat) (w : World) (c : ConnSt) (st : SeqSt) (s : σ)
    (h : (runItems d timeout step fuel w c st s).2.2 = false) :
    ∃ c', (runItems d timeout step fuel w c st s).2.1.conn = some c' ∧ c'.id = c.id :=
  (runItems_conn d timeout step fuel w c st s).2.1 h

/-- the next call reuses a live connection without reconnecting: no handshake, no time. -/
theorem live_connection_is_reused (cfg : Cfg) (w : World) (c : ConnSt) (h : w.conn = some c) :
    ensureConn cfg w = (w, true) := by
  unfold ensureConn; simp [h]

/-- without a live connection the only way on is the handshake (`inner::connect`). -/
theorem no_connection_means_handshake (cfg : Cfg) (w : World) (h : w.conn = none) :
    ensureConn cfg w = connect cfg w := by
  unfold ensureConn; simp [h]

/-- **The handshake vets or drops.** `connect` reports success only on the single path on which registration
(configured password and currency) AND the identity query were answered AND the serial number matched; on
every other path (refused, silent, NACK, undecodable or unexpected reply, different serial) no connection is
left behind. A successful handshake always yields a connection with the next unused identity — never one
that existed before. -/
theorem handshake_vets_or_drops (cfg : Cfg) (w : World) :
    ((connect cfg w).2 = true → ∃ c, (connect cfg w).1.conn = some c ∧ c.id = w.logs.length) ∧
    ((connect cfg w).2 = false → (connect cfg w).1.conn = none ∨ (connect cfg w).1.conn = w.conn) :=
  connect_outcome cfg w

/-- **After a failure the next attempt runs on a fresh, vetted connection**: with no live connection, an
attempt can only start (`ensureConn … = (_, true)`) on a connection created by a successful handshake, and its
identity is new (the number of connections opened so far), so the abandoned one is never picked up again. -/
theorem reconnect_is_fresh (cfg : Cfg) (w : World) (h : w.conn = none) (hok : (ensureConn cfg w).2 = true) :
    ∃ c, (ensureConn cfg w).1.conn = some c ∧ c.id = w.logs.length := by
  rw [no_connection_means_handshake cfg w h] at hok ⊢
  exact (connect_outcome cfg w).1 hok

/-- … and if the handshake fails there is still no connection (the retry loop tries again or gives up). -/
theorem failed_handshake_leaves_none (cfg : Cfg) (w : World) (h : w.conn = none) (hf : (ensureConn cfg w).2 = false) :
    (ensureConn cfg w).1.conn = none := by
  rw [no_connection_means_handshake cfg w h] at hf ⊢
  rcases (connect_outcome cfg w).2 hf with h1 | h1
  · exact h1
  · rw [h1]; exact h

/-- **An abandoned connection is never picked up again — over a whole exchange with all its retries.** Whatever
the terminal does (any script, any faults, any number of failed attempts and reconnects): when the exchange
returns, no connection slot has disappeared, and the live connection — if there is one — is either the very
connection that was live when the exchange started, or one opened during it (its identity is not among the
connections that existed before, so it is none of the abandoned ones). -/
theorem exchange_never_resurrects {σ ρ : Type} (cfg : Cfg) (seqName : String) (cmd : Bytes) (timeout : Nat)
    (step : σ → Item → Step σ ρ) (w : World) (s : σ) :
    w.logs.length ≤ (runOp cfg seqName cmd timeout step w s).2.logs.length ∧
    ∀ c', (runOp cfg seqName cmd timeout step w s).2.conn = some c' →
      (∃ c, w.conn = some c ∧ c'.id = c.id) ∨ w.logs.length ≤ c'.id :=
  runOp_fresh cfg seqName cmd timeout step w s

/-- every handshake — successful or not — uses up one connection slot, so identities are never recycled. -/
theorem handshake_uses_new_slot (cfg : Cfg) (w : World) : (connect cfg w).1.logs.length = w.logs.length + 1 :=
  connect_nlogs cfg w

/-- inside an exchange the client never switches connections. -/
theorem same_connection_within_exchange (d : SeqDesc) (dl : Nat) (w : World) (c : ConnSt) (st : SeqSt) :
    (seqNext d dl w c st).2.2.1.id = c.id := (seqNext_conn d dl w c st).2

/-- non-vacuity / vetting on a concrete run: a terminal reporting a different serial is registered with,
asked for its identity — and then dropped without a single command. -/
example :
    let cfg : Cfg := { maxTx := 1, amount := 2500, currency := 978, password := 123456, readCardTimeout := 15,
                       serial := [65, 66], terminalId := [49] }
    let w : World := { serial := [0x58, 0x59, 0, 0, 0, 0, 0, 0], tid := [0x31, 0, 0, 0, 0, 0, 0, 0] }
    (connect cfg w).2 = false ∧ (connect cfg w).1.conn.isNone = true ∧
      ((connect cfg w).1.logs.map List.length) = [6] := by
  decide +kernel

end Zvt.C09
