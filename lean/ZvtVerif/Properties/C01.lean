/-
  C01 — every packet value survives serialise -> deserialise unchanged.
  (theorems are being added; see DESIGN.md §7 C01)
-/
import ZvtVerif.Derive
import ZvtVerif.Proofs.EncodingLemmas
import ZvtVerif.Proofs.LengthLemmas
namespace Zvt.C01
open Zvt

end Zvt.C01
