/-
  C01 — every packet value survives serialise → deserialise unchanged.

  Structure of the proof (all for ARBITRARY struct definitions, any number of fields, any nesting depth):
    * length prefixes           `len_roundtrip`            (Proofs/RoundTrip.lean, from C16)
    * <TAG><LENGTH><DATA>       `deserTagged_serTagged`, `deserTagged_serTagged_empty`
    * value encodings           `leaf_seen_roundtrip`      (LE/BE, BCD incl. zero padding, receipt number, CP437, hex, raw)
    * fields                    `leaf_field_roundtrip`, `bytes_field_roundtrip`, `int_field_roundtrip_empty`, `opt_*`
    * structs (compositional)   `struct_payload_roundtrip`, `struct_positional_suffix`, `struct_field_roundtrip`
    * commands                  `command_roundtrip`
    * ALL of it at once         `Ty.rt` / `fields_rt` (Proofs/Canon.lean): every field shape of every well-formed
                                schema on its canonical values — leaves incl. UTF-8 and date-time, `Option`, tagged
                                `Vec` (elements are read back when what follows does not begin with the field's own
                                number), nested structs with and without length prefix, a trailing field that takes
                                everything — and `packet_roundtrip` for packet types.
  FULL STATEMENT: `all_shipped_roundtrip` — for each of the 55 shipped types (the list is regenerated from
  the source on every run, its well-formedness is re-decided by the kernel) and every canonical value.
  The canonical domain is `StructDef.canon` (DESIGN.md §5.1 as a recursive definition over the schema),
  including §5.1's clause for ABSENT POSITIONAL optionals: such a value is canonical exactly when the field's
  own decoder reads the bytes that follow it in this encoding as "absent" (`fieldsCanon`);
  `registration_absent_currency_canon` is a canonical instance, `statusEnquiry_absent_password_not_canonical`
  a non-canonical one (the wire format has no marker for the missing field).
-/
import ZvtVerif.Proofs.Canon
import ZvtVerif.Generated
namespace Zvt.C01
open Zvt

/-- **Struct level.** See `Zvt.struct_payload_roundtrip`. -/
theorem struct_roundtrip (ps : List PF) (qs : List TF) (hps : ∀ p ∈ ps, p.OK) (hqs : ∀ q ∈ qs, q.OK)
    (hnd : (qs.map (·.t)).Nodup) :
    encFields (ps.map (·.f) ++ qs.map (·.f)) (ps.map (·.v) ++ qs.map (·.v)) =
        .ok (ps.flatMap (·.bytes) ++ qs.flatMap (·.bytes)) ∧
    decStruct (ps.map (·.f) ++ qs.map (·.f)) (ps.flatMap (·.bytes) ++ qs.flatMap (·.bytes)) =
        .ok (.struct (ps.map (·.v) ++ qs.map (·.v)), []) :=
  struct_payload_roundtrip ps qs hps hqs hnd

/-- **Command level**: `zvt_deserialize (zvt_serialize v ++ x) = (v, x)` for every command type whose
fields round-trip. -/
theorem cmd_roundtrip (s : StructDef) (c0 c1 : Nat) (hc : s.ctrl = some (c0, c1)) (h0 : c0 < 256) (h1 : c1 < 256)
    (ps : List PF) (qs : List TF) (hfs : s.fields = ps.map (·.f) ++ qs.map (·.f))
    (hps : ∀ p ∈ ps, p.OK) (hqs : ∀ q ∈ qs, q.OK) (hnd : (qs.map (·.t)).Nodup)
    (hfit : (ps.flatMap (·.bytes) ++ qs.flatMap (·.bytes)).length ≤ 65535) (x : Bytes) :
    ∃ bytes, encodeCmd s (.struct (ps.map (·.v) ++ qs.map (·.v))) = .ok bytes ∧
      decodeCmd s (bytes ++ x) = .ok (.struct (ps.map (·.v) ++ qs.map (·.v)), x) :=
  command_roundtrip s c0 c1 hc h0 h1 ps qs hfs hps hqs hnd hfit x

/-! ### instance: a shipped packet, for ALL its values (the hypotheses of the generic theorems are satisfiable) -/

def optNumVal (o : Option Nat) : Val :=
  match o with
  | none => .none
  | some n => .some (.num n)

theorem tagEnc_ne_nil (t : Nat) : tagEncDefault t ≠ [] := by
  by_cases h : t / 256 = 31 ∨ t / 256 = 255 <;> simp [tagEncDefault, h, beBytes, leBytes]

/-- an optional tagged fixed-width integer without length prefix (e.g. BMP 27 result code, BMP 19). -/
theorem tf_opt_int (name : String) (tg w : Nat) (hrep : tagRepresentable tg) (o : Option Nat) (ho : ∀ n, o = some n → n < 256 ^ w) :
    ∃ q : TF, q.OK ∧ q.f = .mk name (some tg) .empty .dflt (.opt (.int w)) ∧ q.t = tg ∧
      q.v = optNumVal o ∧ q.bytes.length ≤ 2 + w := by
  cases o with
  | none =>
    refine ⟨⟨.mk name (some tg) .empty .dflt (.opt (.int w)), tg, .none, [], false, true⟩, ⟨rfl, by simp [Field.ty, Ty.ser], ?_⟩, rfl, rfl, rfl, by simp⟩
    simp [Field.ty, Ty.isOptional, Ty.dflt]
  | some n =>
    have hn := ho n rfl
    have key : ∀ x, Ty.ser (.int w) .empty .dflt (some tg) (.num n) = .ok (tagEncDefault tg ++ leBytes w n) ∧
        Ty.de (.int w) .empty .dflt (some tg) ((tagEncDefault tg ++ leBytes w n) ++ x) = .ok (.num n, x) := by
      intro x
      obtain ⟨bytes, hs, hd, hb⟩ := int_field_roundtrip_empty w n false hn (some tg) (fun t ht => by cases ht; exact hrep) x
      simp only [Bool.false_eq_true, if_false, tagPrefix, intEncode] at hs hd hb
      subst hb
      exact ⟨hs, hd⟩
    refine ⟨⟨.mk name (some tg) .empty .dflt (.opt (.int w)), tg, .some (.num n), tagEncDefault tg ++ leBytes w n, true, true⟩, ⟨rfl, ?_, ?_⟩, rfl, rfl, rfl, ?_⟩
    · simp only [Field.ty, Field.len, Field.enc, Ty.ser]; exact (key []).1
    · simp only [if_true, Field.ty, Field.len, Field.enc]
      refine ⟨by simp [tagEnc_ne_nil], fun x => ⟨leBytes w n ++ x, by rw [List.append_assoc]; exact tagDec_tagEnc tg hrep _⟩, fun x _ => ?_⟩
      have hk := (key x).2
      simp only [Ty.de] at hk ⊢
      rw [hk]
    · have := tagEnc_shape tg
      simp only [List.length_append, leBytes_length]
      split at this <;> omega

/-- an optional tagged BCD number in a fixed-width field (e.g. BMP 29 terminal id, BMP 49 currency). -/
theorem tf_opt_bcd_fixed (name : String) (tg N w : Nat) (hrep : tagRepresentable tg) (o : Option Nat)
    (ho : ∀ n, o = some n → n < 256 ^ w ∧ n < 100 ^ N) :
    ∃ q : TF, q.OK ∧ q.f = .mk name (some tg) (.fixed N) .bcd (.opt (.int w)) ∧ q.t = tg ∧
      q.v = optNumVal o ∧ q.bytes.length ≤ 2 + N := by
  cases o with
  | none =>
    refine ⟨⟨.mk name (some tg) (.fixed N) .bcd (.opt (.int w)), tg, .none, [], false, true⟩, ⟨rfl, by simp [Field.ty, Ty.ser], ?_⟩, rfl, rfl, rfl, by simp⟩
    simp [Field.ty, Ty.isOptional, Ty.dflt]
  | some n =>
    obtain ⟨hn, hN⟩ := ho n rfl
    have hlen : (bcdEncK n).length ≤ N := by rw [bcdEncK_eq]; exact bcdEnc_length_le N n hN
    have hcan : LeafCanon (.fixed N) .bcd (.int w) (.num n) (bcdEncK n) := ⟨rfl, hn⟩
    have key : ∀ x, Ty.ser (.int w) (.fixed N) .bcd (some tg) (.num n) =
          .ok (tagEncDefault tg ++ (List.replicate (N - (bcdEncK n).length) 0 ++ bcdEncK n)) ∧
        Ty.de (.int w) (.fixed N) .bcd (some tg) ((tagEncDefault tg ++ (List.replicate (N - (bcdEncK n).length) 0 ++ bcdEncK n)) ++ x) = .ok (.num n, x) := by
      intro x
      obtain ⟨bytes, hs, hd, pre, hpre, hb⟩ := leaf_field_roundtrip (.int w) trivial (.fixed N) .bcd (some tg)
        (fun t ht => by cases ht; exact hrep) (.num n) (bcdEncK n) hcan hlen x
      rw [C16.fixed_pad N _ hlen] at hpre
      cases hpre
      simp only [tagPrefix] at hb
      subst hb
      exact ⟨hs, hd⟩
    refine ⟨⟨.mk name (some tg) (.fixed N) .bcd (.opt (.int w)), tg, .some (.num n),
      tagEncDefault tg ++ (List.replicate (N - (bcdEncK n).length) 0 ++ bcdEncK n), true, true⟩, ⟨rfl, ?_, ?_⟩, rfl, rfl, rfl, ?_⟩
    · simp only [Field.ty, Field.len, Field.enc, Ty.ser]; exact (key []).1
    · simp only [if_true, Field.ty, Field.len, Field.enc]
      refine ⟨by simp [tagEnc_ne_nil], fun x => ⟨_, by rw [List.append_assoc]; exact tagDec_tagEnc tg hrep _⟩, fun x _ => ?_⟩
      have hk := (key x).2
      simp only [Ty.de] at hk ⊢
      rw [hk]
    · have := tagEnc_shape tg
      simp only [List.length_append, List.length_replicate]
      split at this <;> omega

/-- **`CompletionData` (06 0F), for every value**: result code and status byte 0..255, terminal id up to 8
digits, currency up to 4 digits, each present or absent — `zvt_deserialize (zvt_serialize v ++ x) = (v, x)`
for arbitrary trailing bytes `x`. Obtained from the generic theorems alone. -/
theorem completionData_roundtrip (rc sb tid cur : Option Nat)
    (h1 : ∀ n, rc = some n → n < 256) (h2 : ∀ n, sb = some n → n < 256)
    (h3 : ∀ n, tid = some n → n < 10 ^ 8) (h4 : ∀ n, cur = some n → n < 10 ^ 4) (x : Bytes) :
    ∃ bytes, encodeCmd Generated.packets_CompletionData (.struct [optNumVal rc, optNumVal sb, optNumVal tid, optNumVal cur]) = .ok bytes ∧
      decodeCmd Generated.packets_CompletionData (bytes ++ x) = .ok (.struct [optNumVal rc, optNumVal sb, optNumVal tid, optNumVal cur], x) := by
  obtain ⟨q0, ok0, f0, t0, v0, l0⟩ := tf_opt_int "result_code" 0x27 1 (by decide) rc (fun n h => by have := h1 n h; omega)
  obtain ⟨q1, ok1, f1, t1, v1, l1⟩ := tf_opt_int "status_byte" 0x19 1 (by decide) sb (fun n h => by have := h2 n h; omega)
  obtain ⟨q2, ok2, f2, t2, v2, l2⟩ := tf_opt_bcd_fixed "terminal_id" 0x29 4 8 (by decide) tid
    (fun n h => by have := h3 n h; constructor <;> omega)
  obtain ⟨q3, ok3, f3, t3, v3, l3⟩ := tf_opt_bcd_fixed "currency" 0x49 2 8 (by decide) cur
    (fun n h => by have := h4 n h; constructor <;> omega)
  have := command_roundtrip Generated.packets_CompletionData 6 15 rfl (by decide) (by decide) [] [q0, q1, q2, q3]
    (by simp [Generated.packets_CompletionData, f0, f1, f2, f3])
    (by simp) (by intro q hq; simp at hq; rcases hq with rfl | rfl | rfl | rfl <;> assumption)
    (by simp [t0, t1, t2, t3])
    (by simp; omega) x
  simpa [v0, v1, v2, v3] using this

/-- a concrete instance evaluated by the kernel (the completion the terminal sends after registration). -/
example : (decodeCmd Generated.packets_CompletionData [0x06, 0x0f, 0x0c, 0x27, 0x00, 0x29, 0x52, 0x52, 0x35, 0x35, 0x49, 0x09, 0x78, 0x19, 0x00, 0xaa]).isOkVal
    (.struct [.some (.num 0), .some (.num 0), .some (.num 52523535), .some (.num 978)]) [0xaa] = true := by decide +kernel

/-! ### the full statement -/

/-- every shipped packet type is well-formed — decided by the kernel on the schema regenerated from the source. -/
theorem shipped_wf : ∀ s ∈ Generated.shipped, structWf s = true := by decide +kernel

/-- **C01, every well-formed schema** (also the generic half of C12). -/
theorem wellformed_roundtrip (s : StructDef) (hwf : structWf s = true) (v : Val) (hc : s.canon v) :
    ∃ bytes, encodeCmd s v = .ok bytes ∧ decodeCmd s bytes = .ok (v, []) ∧
      (s.ctrl.isSome = true → ∀ x, decodeCmd s (bytes ++ x) = .ok (v, x)) :=
  packet_roundtrip s hwf v hc

/-- **C01, all shipped types, all canonical values**: `zvt_deserialize (zvt_serialize v) = (v, nothing left)`,
and for the command types (those with a control field) any bytes behind the packet are handed back untouched. -/
theorem all_shipped_roundtrip (s : StructDef) (hs : s ∈ Generated.shipped) (v : Val) (hc : s.canon v) :
    ∃ bytes, encodeCmd s v = .ok bytes ∧ decodeCmd s bytes = .ok (v, []) ∧
      (s.ctrl.isSome = true → ∀ x, decodeCmd s (bytes ++ x) = .ok (v, x)) :=
  packet_roundtrip s (shipped_wf s hs) v hc

/-- the domain is inhabited by non-trivial values: a registration with password, config byte, currency and a
TLV container carrying the maximal APDU length is canonical … -/
theorem registration_example_canon : Generated.packets_Registration.canon
    (.struct [.num 123456, .num 0xde, .some (.num 978), .some (.struct [.some (.num 1024)])]) := by
  refine ⟨_, rfl, ?_, ?_⟩
  · simp only [Generated.packets_Registration, Generated.packets_tlv_Registration, fieldsCanon, Ty.canon]
    have noabs : ∀ {P : Prop} {n : Nat}, (Val.num n = Val.none → P) := by intro P n h; cases h
    have noabs' : ∀ {P : Prop} {v : Val}, (Val.some v = Val.none → P) := by intro P v h; cases h
    refine ⟨?_, ⟨?_, ⟨?_, ⟨⟨⟨?_, trivial, fun h => by cases h⟩, ?_⟩, trivial, fun h => by cases h⟩, fun _ => noabs'⟩, fun _ => noabs⟩, fun _ => noabs⟩
    · exact ⟨_, rfl, by show (bcdEncK 123456).length ≤ 3; decide +kernel, by decide⟩
    · exact ⟨_, rfl, trivial, by decide⟩
    · exact ⟨_, rfl, by show (bcdEncK 978).length ≤ 2; decide +kernel, by decide⟩
    · exact ⟨_, rfl, by show (beBytes 2 1024).length ≤ 65535; decide +kernel, by decide⟩
    · intro p hp
      have : encFields [Field.mk "max_len_adpu" (some 0x1a) .tlv .bigEndian (.opt (.int 2))] [.some (.num 1024)] =
          .ok [0x1a, 0x02, 0x04, 0x00] := by decide +kernel
      rw [this] at hp; cases hp
      show (4 : Nat) ≤ 65535; decide
  · intro p hp
    have : encFields Generated.packets_Registration.fields
        [.num 123456, .num 0xde, .some (.num 978), .some (.struct [.some (.num 1024)])] =
        .ok [0x12, 0x34, 0x56, 0xde, 0x09, 0x78, 0x06, 0x04, 0x1a, 0x02, 0x04, 0x00] := by decide +kernel
    rw [this] at hp; cases hp; decide

theorem registration_shipped : Generated.packets_Registration ∈ Generated.shipped := by
  unfold Generated.shipped; simp

/-- … and the theorem applies to it. -/
example : ∃ bytes, encodeCmd Generated.packets_Registration
      (.struct [.num 123456, .num 0xde, .some (.num 978), .some (.struct [.some (.num 1024)])]) = .ok bytes ∧
    ∀ x, decodeCmd Generated.packets_Registration (bytes ++ x) =
      .ok (.struct [.num 123456, .num 0xde, .some (.num 978), .some (.struct [.some (.num 1024)])], x) := by
  obtain ⟨bytes, h1, _, h3⟩ := all_shipped_roundtrip Generated.packets_Registration registration_shipped _ registration_example_canon
  exact ⟨bytes, h1, h3 rfl⟩

/-- an ABSENT positional optional that is canonical: a registration without currency (and without TLV
container) — nothing follows the missing field, so its decoder finds nothing to read … -/
theorem registration_absent_currency_canon : Generated.packets_Registration.canon
    (.struct [.num 123456, .num 0xde, .none, .none]) := by
  refine ⟨_, rfl, ?_, ?_⟩
  · simp only [Generated.packets_Registration, Generated.packets_tlv_Registration, fieldsCanon, Ty.canon]
    have noabs : ∀ {P : Prop} {n : Nat}, (Val.num n = Val.none → P) := by intro P n h; cases h
    refine ⟨?_, ⟨?_, ⟨trivial, ⟨trivial, trivial, fun h => by cases h⟩, ?_⟩, fun _ => noabs⟩, fun _ => noabs⟩
    · exact ⟨_, rfl, by show (bcdEncK 123456).length ≤ 3; decide +kernel, by decide⟩
    · exact ⟨_, rfl, trivial, by decide⟩
    · intro _ _ p hp
      have : encFields [Field.mk "tlv" (some 0x6) .tlv .dflt (.opt (.struct [Field.mk "max_len_adpu" (some 0x1a) .tlv .bigEndian (.opt (.int 2))]))]
          [.none] = .ok [] := by decide +kernel
      rw [this] at hp
      have hp' : p = [] := (Except.ok.inj hp).symm
      subst hp'
      rfl
  · intro p hp
    have : encFields Generated.packets_Registration.fields [.num 123456, .num 0xde, .none, .none] =
        .ok [0x12, 0x34, 0x56, 0xde] := by decide +kernel
    rw [this] at hp; cases hp; decide

/-- … and the theorem applies: `06 00 04 12 34 56 DE` is read back without a currency, whatever follows the packet. -/
example : ∃ bytes, encodeCmd Generated.packets_Registration (.struct [.num 123456, .num 0xde, .none, .none]) = .ok bytes ∧
    ∀ x, decodeCmd Generated.packets_Registration (bytes ++ x) = .ok (.struct [.num 123456, .num 0xde, .none, .none], x) := by
  obtain ⟨bytes, h1, _, h3⟩ := all_shipped_roundtrip Generated.packets_Registration registration_shipped _ registration_absent_currency_canon
  exact ⟨bytes, h1, h3 rfl⟩

/-- an absent positional optional that is NOT canonical: `StatusEnquiry {password: None, service_byte: Some(5),
tlv: Some(..)}` is written without any marker for the missing password and read back with the password 030506
(and no service byte) — the wire format cannot carry this value, and `StructDef.canon` excludes it. -/
theorem statusEnquiry_absent_password_not_canonical :
    encodeCmd Generated.packets_StatusEnquiry (.struct [.none, .some (.num 5), .some (.struct [.some (.num 7)])]) =
      .ok [0x05, 0x01, 0x08, 0x03, 0x05, 0x06, 0x04, 0x1f, 0xf2, 0x01, 0x07] ∧
    (decodeCmd Generated.packets_StatusEnquiry [0x05, 0x01, 0x08, 0x03, 0x05, 0x06, 0x04, 0x1f, 0xf2, 0x01, 0x07]).isOkVal
      (.struct [.some (.num 30506), .none, .none]) [0x04, 0x1f, 0xf2, 0x01, 0x07] = true ∧
    ¬ Generated.packets_StatusEnquiry.canon (.struct [.none, .some (.num 5), .some (.struct [.some (.num 7)])]) := by
  refine ⟨by decide +kernel, by decide +kernel, ?_⟩
  rintro ⟨vs, hv, hfc, _⟩
  cases hv
  simp only [Generated.packets_StatusEnquiry, Generated.packets_tlv_StatusEnquiry, fieldsCanon] at hfc
  have habs := hfc.2.2 (by trivial) (by trivial) [0x03, 0x05, 0x06, 0x04, 0x1f, 0xf2, 0x01, 0x07] (by decide +kernel)
  have hreal : (Ty.de (.opt (.int 8)) (.fixed 3) .bcd none [0x03, 0x05, 0x06, 0x04, 0x1f, 0xf2, 0x01, 0x07]).isOkVal
      (.some (.num 30506)) [0x04, 0x1f, 0xf2, 0x01, 0x07] = true := by decide +kernel
  rw [habs] at hreal
  simp [Res.isOkVal, Val.beq] at hreal

end Zvt.C01
