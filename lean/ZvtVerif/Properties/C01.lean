/-
  C01 — every packet value survives serialise → deserialise unchanged.

  Structure of the proof (all for ARBITRARY struct definitions, any number of fields, any nesting depth):
    * length prefixes           `len_roundtrip`            (Proofs/RoundTrip.lean, from C16)
    * <TAG><LENGTH><DATA>       `deserTagged_serTagged`, `deserTagged_serTagged_empty`
    * value encodings           `leaf_seen_roundtrip`      (LE/BE, BCD incl. zero padding, receipt number, CP437, hex, raw)
    * fields                    `leaf_field_roundtrip`, `bytes_field_roundtrip`, `int_field_roundtrip_empty`, `opt_*`
    * structs (compositional)   `struct_payload_roundtrip`, `struct_positional_suffix`, `struct_field_roundtrip`
    * commands                  `command_roundtrip`
  PARTIAL: two leaf encodings are not covered by `LeafCanon` yet (UTF-8 text, date-time), and tagged `Vec`
  fields are not yet admitted as groups (their group consumes all adjacent elements, which needs a side
  condition on what follows). Both are covered by the correspondence check on every run.
-/
import ZvtVerif.Proofs.StructRT
import ZvtVerif.Generated
namespace Zvt.C01
open Zvt

/-- **Struct level.** See `Zvt.struct_payload_roundtrip`. -/
theorem struct_roundtrip (ps : List PF) (qs : List TF) (hps : ∀ p ∈ ps, p.OK) (hqs : ∀ q ∈ qs, q.OK)
    (hnd : (qs.map (·.t)).Nodup) :
    encFields (ps.map (·.f) ++ qs.map (·.f)) (ps.map (·.v) ++ qs.map (·.v)) =
        .ok (ps.flatMap (·.bytes) ++ qs.flatMap (·.bytes)) ∧
    decStruct (ps.map (·.f) ++ qs.map (·.f)) (ps.flatMap (·.bytes) ++ qs.flatMap (·.bytes)) =
        .ok (.struct (ps.map (·.v) ++ qs.map (·.v)), []) :=
  struct_payload_roundtrip ps qs hps hqs hnd

/-- **Command level**: `zvt_deserialize (zvt_serialize v ++ x) = (v, x)` for every command type whose
fields round-trip. -/
theorem cmd_roundtrip (s : StructDef) (c0 c1 : Nat) (hc : s.ctrl = some (c0, c1)) (h0 : c0 < 256) (h1 : c1 < 256)
    (ps : List PF) (qs : List TF) (hfs : s.fields = ps.map (·.f) ++ qs.map (·.f))
    (hps : ∀ p ∈ ps, p.OK) (hqs : ∀ q ∈ qs, q.OK) (hnd : (qs.map (·.t)).Nodup)
    (hfit : (ps.flatMap (·.bytes) ++ qs.flatMap (·.bytes)).length ≤ 65535) (x : Bytes) :
    ∃ bytes, encodeCmd s (.struct (ps.map (·.v) ++ qs.map (·.v))) = .ok bytes ∧
      decodeCmd s (bytes ++ x) = .ok (.struct (ps.map (·.v) ++ qs.map (·.v)), x) :=
  command_roundtrip s c0 c1 hc h0 h1 ps qs hfs hps hqs hnd hfit x

/-! ### instance: a shipped packet, for ALL its values (the hypotheses of the generic theorems are satisfiable) -/

def optNumVal (o : Option Nat) : Val :=
  match o with
  | none => .none
  | some n => .some (.num n)

theorem tagEnc_ne_nil (t : Nat) : tagEncDefault t ≠ [] := by
  by_cases h : t / 256 = 31 ∨ t / 256 = 255 <;> simp [tagEncDefault, h, beBytes, leBytes]

/-- an optional tagged fixed-width integer without length prefix (e.g. BMP 27 result code, BMP 19). -/
theorem tf_opt_int (name : String) (tg w : Nat) (hrep : tagRepresentable tg) (o : Option Nat) (ho : ∀ n, o = some n → n < 256 ^ w) :
    ∃ q : TF, q.OK ∧ q.f = .mk name (some tg) .empty .dflt (.opt (.int w)) ∧ q.t = tg ∧
      q.v = optNumVal o ∧ q.bytes.length ≤ 2 + w := by
  cases o with
  | none =>
    refine ⟨⟨.mk name (some tg) .empty .dflt (.opt (.int w)), tg, .none, [], false, true⟩, ⟨rfl, by simp [Field.ty, Ty.ser], ?_⟩, rfl, rfl, rfl, by simp⟩
    simp [Field.ty, Ty.isOptional, Ty.dflt]
  | some n =>
    have hn := ho n rfl
    have key : ∀ x, Ty.ser (.int w) .empty .dflt (some tg) (.num n) = .ok (tagEncDefault tg ++ leBytes w n) ∧
        Ty.de (.int w) .empty .dflt (some tg) ((tagEncDefault tg ++ leBytes w n) ++ x) = .ok (.num n, x) := by
      intro x
      obtain ⟨bytes, hs, hd, hb⟩ := int_field_roundtrip_empty w n false hn (some tg) (fun t ht => by cases ht; exact hrep) x
      simp only [Bool.false_eq_true, if_false, tagPrefix, intEncode] at hs hd hb
      subst hb
      exact ⟨hs, hd⟩
    refine ⟨⟨.mk name (some tg) .empty .dflt (.opt (.int w)), tg, .some (.num n), tagEncDefault tg ++ leBytes w n, true, true⟩, ⟨rfl, ?_, ?_⟩, rfl, rfl, rfl, ?_⟩
    · simp only [Field.ty, Field.len, Field.enc, Ty.ser]; exact (key []).1
    · simp only [if_true, Field.ty, Field.len, Field.enc]
      refine ⟨by simp [tagEnc_ne_nil], fun x => ⟨leBytes w n ++ x, by rw [List.append_assoc]; exact tagDec_tagEnc tg hrep _⟩, fun x _ => ?_⟩
      have hk := (key x).2
      simp only [Ty.de] at hk ⊢
      rw [hk]
    · have := tagEnc_shape tg
      simp only [List.length_append, leBytes_length]
      split at this <;> omega

/-- an optional tagged BCD number in a fixed-width field (e.g. BMP 29 terminal id, BMP 49 currency). -/
theorem tf_opt_bcd_fixed (name : String) (tg N w : Nat) (hrep : tagRepresentable tg) (o : Option Nat)
    (ho : ∀ n, o = some n → n < 256 ^ w ∧ n < 100 ^ N) :
    ∃ q : TF, q.OK ∧ q.f = .mk name (some tg) (.fixed N) .bcd (.opt (.int w)) ∧ q.t = tg ∧
      q.v = optNumVal o ∧ q.bytes.length ≤ 2 + N := by
  cases o with
  | none =>
    refine ⟨⟨.mk name (some tg) (.fixed N) .bcd (.opt (.int w)), tg, .none, [], false, true⟩, ⟨rfl, by simp [Field.ty, Ty.ser], ?_⟩, rfl, rfl, rfl, by simp⟩
    simp [Field.ty, Ty.isOptional, Ty.dflt]
  | some n =>
    obtain ⟨hn, hN⟩ := ho n rfl
    have hlen : (bcdEncK n).length ≤ N := by rw [bcdEncK_eq]; exact bcdEnc_length_le N n hN
    have hcan : LeafCanon (.fixed N) .bcd (.int w) (.num n) (bcdEncK n) := ⟨rfl, hn⟩
    have key : ∀ x, Ty.ser (.int w) (.fixed N) .bcd (some tg) (.num n) =
          .ok (tagEncDefault tg ++ (List.replicate (N - (bcdEncK n).length) 0 ++ bcdEncK n)) ∧
        Ty.de (.int w) (.fixed N) .bcd (some tg) ((tagEncDefault tg ++ (List.replicate (N - (bcdEncK n).length) 0 ++ bcdEncK n)) ++ x) = .ok (.num n, x) := by
      intro x
      obtain ⟨bytes, hs, hd, pre, hpre, hb⟩ := leaf_field_roundtrip (.int w) trivial (.fixed N) .bcd (some tg)
        (fun t ht => by cases ht; exact hrep) (.num n) (bcdEncK n) hcan hlen x
      rw [C16.fixed_pad N _ hlen] at hpre
      cases hpre
      simp only [tagPrefix] at hb
      subst hb
      exact ⟨hs, hd⟩
    refine ⟨⟨.mk name (some tg) (.fixed N) .bcd (.opt (.int w)), tg, .some (.num n),
      tagEncDefault tg ++ (List.replicate (N - (bcdEncK n).length) 0 ++ bcdEncK n), true, true⟩, ⟨rfl, ?_, ?_⟩, rfl, rfl, rfl, ?_⟩
    · simp only [Field.ty, Field.len, Field.enc, Ty.ser]; exact (key []).1
    · simp only [if_true, Field.ty, Field.len, Field.enc]
      refine ⟨by simp [tagEnc_ne_nil], fun x => ⟨_, by rw [List.append_assoc]; exact tagDec_tagEnc tg hrep _⟩, fun x _ => ?_⟩
      have hk := (key x).2
      simp only [Ty.de] at hk ⊢
      rw [hk]
    · have := tagEnc_shape tg
      simp only [List.length_append, List.length_replicate]
      split at this <;> omega

/-- **`CompletionData` (06 0F), for every value**: result code and status byte 0..255, terminal id up to 8
digits, currency up to 4 digits, each present or absent — `zvt_deserialize (zvt_serialize v ++ x) = (v, x)`
for arbitrary trailing bytes `x`. Obtained from the generic theorems alone. -/
theorem completionData_roundtrip (rc sb tid cur : Option Nat)
    (h1 : ∀ n, rc = some n → n < 256) (h2 : ∀ n, sb = some n → n < 256)
    (h3 : ∀ n, tid = some n → n < 10 ^ 8) (h4 : ∀ n, cur = some n → n < 10 ^ 4) (x : Bytes) :
    ∃ bytes, encodeCmd Generated.packets_CompletionData (.struct [optNumVal rc, optNumVal sb, optNumVal tid, optNumVal cur]) = .ok bytes ∧
      decodeCmd Generated.packets_CompletionData (bytes ++ x) = .ok (.struct [optNumVal rc, optNumVal sb, optNumVal tid, optNumVal cur], x) := by
  obtain ⟨q0, ok0, f0, t0, v0, l0⟩ := tf_opt_int "result_code" 0x27 1 (by decide) rc (fun n h => by have := h1 n h; omega)
  obtain ⟨q1, ok1, f1, t1, v1, l1⟩ := tf_opt_int "status_byte" 0x19 1 (by decide) sb (fun n h => by have := h2 n h; omega)
  obtain ⟨q2, ok2, f2, t2, v2, l2⟩ := tf_opt_bcd_fixed "terminal_id" 0x29 4 8 (by decide) tid
    (fun n h => by have := h3 n h; constructor <;> omega)
  obtain ⟨q3, ok3, f3, t3, v3, l3⟩ := tf_opt_bcd_fixed "currency" 0x49 2 8 (by decide) cur
    (fun n h => by have := h4 n h; constructor <;> omega)
  have := command_roundtrip Generated.packets_CompletionData 6 15 rfl (by decide) (by decide) [] [q0, q1, q2, q3]
    (by simp [Generated.packets_CompletionData, f0, f1, f2, f3])
    (by simp) (by intro q hq; simp at hq; rcases hq with rfl | rfl | rfl | rfl <;> assumption)
    (by simp [t0, t1, t2, t3])
    (by simp; omega) x
  simpa [v0, v1, v2, v3] using this

/-- a concrete instance evaluated by the kernel (the completion the terminal sends after registration). -/
example : (decodeCmd Generated.packets_CompletionData [0x06, 0x0f, 0x0c, 0x27, 0x00, 0x29, 0x52, 0x52, 0x35, 0x35, 0x49, 0x09, 0x78, 0x19, 0x00, 0xaa]).isOkVal
    (.struct [.some (.num 0), .some (.num 0), .some (.num 52523535), .some (.num 978)]) [0xaa] = true := by decide +kernel

end Zvt.C01
