/-
  C02 — decoding is total: arbitrary bytes give a value or an error, never a panic.

  In the model every partial Rust operation on a decode path (index, slice, `usize` subtraction,
  `unwrap`, unbounded loop) is an explicit `.panic` / `.outOfFuel` outcome, so these theorems say that
  the guards in the code make each of them unreachable — for every schema and every byte string.
-/
import ZvtVerif.Proofs.NoPanic
import ZvtVerif.Proofs.SizeBound
import ZvtVerif.Generated
import ZvtVerif.Transport
import ZvtVerif.Properties.C17
namespace Zvt.C02
open Zvt

def structTyped (s : StructDef) : Bool := fieldsTyped s.fields

/-- every length-prefix parser is total. -/
theorem len_de_no_panic (L : LenKind) (b : Bytes) (hL : ∀ s, L ≠ .unknown s) : (L.de b).isPanic = false :=
  C16.de_no_panic L b hL

/-- **Every packet decoder is total** — for every struct definition whose (length, encoding, type) triples
are ones the builder implements, and EVERY byte string: the result is a value or a `ZVTError`, never a
panic, never fuel exhaustion (the tag loop, the `Vec` loop and the date-time loop all terminate), and the
remainder handed back is never longer than the input. -/
theorem decode_total (s : StructDef) (h : structTyped s = true) (b : Bytes) : NP (decodeCmd s b) b := by
  unfold decodeCmd
  cases hc : s.ctrl with
  | none =>
    simp only
    unfold decodePlain
    exact Ty.de_np (.struct s.fields) .empty .dflt none b (by simp [Ty.typed, LenKind.known]; exact h)
  | some c =>
    simp only
    exact deserTagged_np' tagDecBE (fun x => intDecode_np true 2 x) .adpu (by intro s h; cases h) _
      (fun x => decStructWith_np _ _ (fun y => decPos_np s.fields y h) (fun t y idx r ha => armFind_np s.fields t 0 y idx r h ha) s.fields x)
      (some (ctrlTag c)) b

/-- the schema constant of a packet type (depends on the type only, not on the input). -/
def structWeight (s : StructDef) : Nat := 1 + 3 * fieldsWeight s.fields

/-- **Decoding never builds more than a constant multiple of the input** — for every struct definition as
above and EVERY byte string: if a value comes back, its size (nodes + characters + payload bytes, `Val.size`)
is at most `structWeight s × (1 + bytes consumed)`. In particular a `Vec` field cannot grow without
consuming input (the progress guard of defect D8), nested containers cannot multiply their content, and
text decoders produce at most two characters per byte. -/
theorem decode_size_bounded (s : StructDef) (h : structTyped s = true) (b : Bytes) (v : Val) (r : Bytes)
    (hd : decodeCmd s b = .ok (v, r)) : r.length ≤ b.length ∧ v.size ≤ structWeight s * (1 + (b.length - r.length)) := by
  have hstruct : ∀ x, SB (1 + 3 * fieldsWeight s.fields) (decStructWith (fun y => decPos s.fields y) (fun t y => armFind s.fields t 0 y) s.fields x) x :=
    fun x => decStructWith_sb (fieldsWeight s.fields) _ _ (fun y vs r hd => decPos_sb s.fields y vs r h hd)
      (fun t y idx r ha => armFind_np s.fields t 0 y idx r h ha) (fun t y idx r ha => armFind_sb s.fields t 0 y idx r h ha)
      s.fields (length_le_weight s.fields) x
  have hnp : ∀ x, NP (decStructWith (fun y => decPos s.fields y) (fun t y => armFind s.fields t 0 y) s.fields x) x :=
    fun x => decStructWith_np _ _ (fun y => decPos_np s.fields y h) (fun t y idx r ha => armFind_np s.fields t 0 y idx r h ha) s.fields x
  unfold decodeCmd at hd
  cases hc : s.ctrl with
  | none =>
    simp only [hc, decodePlain] at hd
    have := Ty.de_sb (.struct s.fields) .empty .dflt none b (by simp [Ty.typed, LenKind.known]; exact h) v r hd
    simpa [Ty.weight, structWeight] using this
  | some c =>
    simp only [hc] at hd
    exact deserTagged_sb' _ tagDecBE (fun x => intDecode_np true 2 x) .adpu (by intro s h; cases h) _ hnp hstruct (some (ctrlTag c)) b v r hd

/-- any field decoder, at any nesting depth. -/
theorem field_size_bounded (t : Ty) (L : LenKind) (E : Enc) (tag : Option Nat) (b : Bytes) (h : Ty.typed t L E = true) :
    SB (Ty.weight t) (Ty.de t L E tag b) b := Ty.de_sb t L E tag b h

/-- every field decoder, at any nesting depth. -/
theorem field_decode_total (t : Ty) (L : LenKind) (E : Enc) (tag : Option Nat) (b : Bytes) (h : Ty.typed t L E = true) :
    NP (Ty.de t L E tag b) b := Ty.de_np t L E tag b h

def errPanics {α : Type} (r : Res α) : Bool :=
  match r with
  | .error er => er.isPanic
  | .ok _ => false

theorem parseVariants_total (c0 c1 : Nat) (b : Bytes) :
    ∀ (vs : List (String × StructDef)) (i : Nat), vs.all (fun v => structTyped v.2) = true →
      errPanics (parseVariants vs i c0 c1 b) = false := by
  intro vs
  induction vs with
  | nil => intro i _; rfl
  | cons hd tl ih =>
    intro i h
    obtain ⟨n, s⟩ := hd
    simp only [List.all_cons, Bool.and_eq_true] at h
    simp only [parseVariants]
    by_cases hc : s.ctrl = some (c0, c1)
    · simp only [hc, if_true]
      have := decode_total s h.1 b
      cases hd : decodeCmd s b with
      | error er => simp only [errPanics]; exact NP_err_of this hd
      | ok p => rfl
    · simp only [hc, if_false]
      exact ih (i + 1) h.2

/-- **Every reply parser is total.** -/
theorem parse_total (e : EnumDef) (h : e.variants.all (fun v => structTyped v.2) = true) (b : Bytes) :
    errPanics (parseEnum e b) = false := by
  unfold parseEnum
  match b with
  | [] => rfl
  | [_] => rfl
  | c0 :: c1 :: rest => exact parseVariants_total _ _ _ e.variants 0 h

/-- all 55 shipped packet / container types and all 17 reply enums satisfy the hypothesis (re-checked by
the kernel against the table translated from the source on this run). -/
theorem shipped_typed : Generated.shipped.all structTyped = true := by decide +kernel

theorem shipped_enums_typed : Generated.enums.all (fun e => e.variants.all (fun v => structTyped v.2)) = true := by decide +kernel

/-- the schema constants of the shipped types (largest: `StatusInformation` with its nested containers; the
bound is deliberately generous — a factor 3 per nesting level — the measured allocation stays below 64 × input). -/
theorem shipped_weight_le : Generated.shipped.all (fun s => decide (structWeight s ≤ 2677)) = true := by decide +kernel

/-- Corollary for the code as shipped: every decoded value is at most `2677 × (1 + bytes consumed)` large. -/
theorem shipped_decode_size (s : StructDef) (hs : s ∈ Generated.shipped) (b : Bytes) (v : Val) (r : Bytes)
    (hd : decodeCmd s b = .ok (v, r)) : v.size ≤ 2677 * (1 + (b.length - r.length)) := by
  have h1 := decode_size_bounded s (List.all_eq_true.mp shipped_typed s hs) b v r hd
  have h2 : structWeight s ≤ 2677 := by simpa using List.all_eq_true.mp shipped_weight_le s hs
  exact Nat.le_trans h1.2 (Nat.mul_le_mul_right _ h2)

/-- Corollary for the code as shipped: no decoder, no reply parser can panic or loop on any input. -/
theorem shipped_decode_total (s : StructDef) (hs : s ∈ Generated.shipped) (b : Bytes) : NP (decodeCmd s b) b :=
  decode_total s (List.all_eq_true.mp shipped_typed s hs) b

/-- A number that does not fit its field is an error, not a wrapped value (so debug and release builds
decode identically): the BCD decoder returns the exact digit value iff it fits, `IncompleteData` otherwise. -/
theorem bcd_overflow_is_error (w : Nat) (ds : Bytes) :
    bcdDec w ds = if bcdValFrom 0 ds < 256 ^ w then .ok (bcdValFrom 0 ds, []) else .error .incomplete :=
  C17.bcd_overflow_is_error w ds

/-- the transport reads frames with total functions only (`readFrame` has no failure but EOF). -/
theorem readFrame_total (s : Bytes) : (∃ p r, readFrame s = .packet p r) ∨ (∃ n, readFrame s = .eof n) := by
  cases h : readFrame s with
  | packet p r => left; exact ⟨p, r, rfl⟩
  | eof n => right; exact ⟨n, rfl⟩

/-- the repaired defects as regression theorems: a truncated `82` length prefix and the month arithmetic. -/
example : LenKind.tlv.de [0x82, 0x01] = .error .incomplete := by decide
example : (dtDecode [0x1f, 0x0e, 0x04, 0x20, 0x23, 0x10, 0x05, 0x1f, 0x0f, 0x03, 0x22, 0x56, 0x55]).isOkVal (.dt 20231005 225655) [] = true := by
  decide +kernel
example : (dtDecode [0x1f, 0x0e, 0x04, 0x20, 0x23, 0x13, 0x05, 0x1f, 0x0f, 0x03, 0x22, 0x56, 0x55]).isPanic = false := by decide +kernel

end Zvt.C02
