/-
  C02 — decoding is total. (theorems are being added; see DESIGN.md §7 C02)
-/
import ZvtVerif.Derive
import ZvtVerif.Properties.C16
namespace Zvt.C02
open Zvt

/-- every length-prefix parser is total (no panic on any input). -/
theorem len_de_no_panic (L : LenKind) (b : Bytes) (hL : ∀ s, L ≠ .unknown s) : (L.de b).isPanic = false :=
  C16.de_no_panic L b hL

end Zvt.C02
