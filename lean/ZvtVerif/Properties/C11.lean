/-
  C11 — firmware upload sends exactly the requested bytes of the right file.
-/
import ZvtVerif.WriteFile
import ZvtVerif.Spec.Layout
namespace Zvt.C11
open Zvt

/-- the path → file-id table translated from `convert_dir` on this run equals the specification's. -/
theorem fileIds_eq_spec : Generated.fileIds = Spec.fileIds := by decide +kernel

/-- ids are pairwise distinct: a recognised file is never announced under another file's id. -/
theorem fileIds_distinct : (Generated.fileIds.map (·.2)).Nodup ∧ (Generated.fileIds.map (·.1)).Nodup := by decide +kernel

/-- **the block is a contiguous slice of the file**: for every content, offset and block size the data is
`content[off ..]` cut to at most `block` bytes — bit-identical to the file, empty at or after the end. -/
theorem block_exact (content : Bytes) (off block : Nat) :
    (wfBlock content off block).length = min block (content.length - off) ∧
    (∀ i, i < (wfBlock content off block).length → (wfBlock content off block)[i]? = content[off + i]?) := by
  unfold wfBlock
  refine ⟨by simp, ?_⟩
  intro i hi
  simp only [List.length_take, List.length_drop] at hi
  rw [List.getElem?_take_of_lt (by omega), List.getElem?_drop]

theorem block_empty_at_eof (content : Bytes) (off block : Nat) (h : content.length ≤ off) :
    wfBlock content off block = [] := by
  unfold wfBlock
  rw [List.drop_eq_nil_of_le h]; simp

/-- consecutive blocks tile the file: requesting offsets 0, b, 2b, … reproduces the content. -/
theorem blocks_tile (content : Bytes) (off block : Nat) :
    wfBlock content off block ++ (content.drop (off + block)) = content.drop off := by
  unfold wfBlock
  rw [← List.drop_drop]
  exact List.take_append_drop block (content.drop off)

/-- a request for a file that was not announced, or lacking file / id / offset, never sends data. -/
theorem unknown_id_fails (files : List (Nat × Bytes)) (block i : Nat) (v : Val) (s : StructDef) (tlv file : Val) (id off : Nat)
    (hv : wfEnum.variants[i]? = some ("RequestForData", s))
    (h1 : fieldOfS rfdStruct v "tlv" = .some tlv) (h2 : fieldOfS tlvWriteDataStruct tlv "file" = .some file)
    (h3 : optNum (fieldOfS tlvFileStruct file "file_id") = some id) (h4 : optNum (fieldOfS tlvFileStruct file "file_offset") = some off)
    (h5 : files.find? (·.1 = id) = none) :
    (match wfDecide files block i v with | .fail => true | _ => false) = true := by
  unfold wfDecide
  simp [hv, h1, h2, h3, h4, h5]

theorem missing_id_fails (files : List (Nat × Bytes)) (block i : Nat) (v : Val) (s : StructDef) (tlv file : Val)
    (hv : wfEnum.variants[i]? = some ("RequestForData", s))
    (h1 : fieldOfS rfdStruct v "tlv" = .some tlv) (h2 : fieldOfS tlvWriteDataStruct tlv "file" = .some file)
    (h3 : optNum (fieldOfS tlvFileStruct file "file_id") = none) :
    (match wfDecide files block i v with | .fail => true | _ => false) = true := by
  unfold wfDecide
  simp [hv, h1, h2, h3]

/-- a valid request is answered with the id, the offset and exactly that block. -/
theorem valid_request_answer (files : List (Nat × Bytes)) (block i : Nat) (v : Val) (s : StructDef) (tlv file : Val) (id off : Nat)
    (content : Bytes) (pkt : Bytes)
    (hv : wfEnum.variants[i]? = some ("RequestForData", s))
    (h1 : fieldOfS rfdStruct v "tlv" = .some tlv) (h2 : fieldOfS tlvWriteDataStruct tlv "file" = .some file)
    (h3 : optNum (fieldOfS tlvFileStruct file "file_id") = some id) (h4 : optNum (fieldOfS tlvFileStruct file "file_offset") = some off)
    (h5 : files.find? (·.1 = id) = some (id, content)) (h6 : wfData id off (wfBlock content off block) = .ok pkt) :
    (match wfDecide files block i v with | .data p => p == pkt | _ => false) = true := by
  unfold wfDecide
  simp [hv, h1, h2, h3, h4, h5, h6]

/-- an empty payload directory ends the upload with an error before anything is sent. -/
theorem empty_directory (block password : Nat) (items : List Bytes) :
    runWriteFile [] block password items = [.e "io:InvalidData", .fin] := rfl

/-- bytes of a concrete answer, evaluated in the kernel: file 0x10 = 00..09, offset 2, block 4. -/
example : wfData 0x10 2 (wfBlock [0, 1, 2, 3, 4, 5, 6, 7, 8, 9] 2 4) =
    .ok [0x80, 0x00, 0x13, 0x06, 0x11, 0x2d, 0x0f, 0x1d, 0x01, 0x10, 0x1e, 0x04, 0x00, 0x00, 0x00, 0x02, 0x1c, 0x04, 0x02, 0x03, 0x04, 0x05] := by
  decide +kernel

end Zvt.C11
