/-
  C18 — theorems are being added (see DESIGN.md §7 C18)
-/
import ZvtVerif.Client
namespace Zvt.C18
open Zvt

end Zvt.C18
