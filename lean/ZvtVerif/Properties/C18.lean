/-
  C18 — card identity is a fixed function of the data the terminal reports.
-/
import ZvtVerif.Client
namespace Zvt.C18
open Zvt

theorem upperAscii_idem (c : Nat) : upperAscii (upperAscii c) = upperAscii c := by
  unfold upperAscii; split <;> (try split) <;> omega

theorem map_upper_idem (u : List Nat) : (u.map upperAscii).map upperAscii = u.map upperAscii := by
  simp [List.map_map, Function.comp_def, upperAscii_idem]

/-- the canonical form does not depend on the letter case of the reported UID … -/
theorem canon_case_insensitive (u : List Nat) : canonUid (u.map upperAscii) = canonUid u := by
  unfold canonUid
  simp only [map_upper_idem, List.length_map]

/-- … is at most 14 characters long … -/
theorem canon_length (u : List Nat) : (canonUid u).length ≤ 14 := by
  unfold canonUid
  simp only [List.length_map]
  by_cases h : 14 < u.length
  · simp only [h, if_true]
    split
    · simp; omega
    · simp; omega
  · simp only [h, if_false, List.length_map]; omega

theorem all_upper_map (u : List Nat) : ∀ c ∈ u.map upperAscii, upperAscii c = c := by
  intro c hc
  simp only [List.mem_map] at hc
  obtain ⟨x, _, rfl⟩ := hc
  exact upperAscii_idem x

theorem map_id_of_all {u : List Nat} (h : ∀ c ∈ u, upperAscii c = c) : u.map upperAscii = u := by
  induction u with
  | nil => rfl
  | cons a l ih =>
    simp only [List.map_cons]
    rw [h a (by simp), ih (fun c hc => h c (by simp [hc]))]

/-- a UID of at most 14 hex digits is reported as is (upper-cased). -/
theorem canon_short (u : List Nat) (h : u.length ≤ 14) : canonUid u = u.map upperAscii := by
  have h2 : ¬ 14 < u.length := by omega
  simp [canonUid, h2]

/-- … and is a fixed point: canonicalising twice changes nothing (identical for every presentation). -/
theorem canon_idempotent (u : List Nat) : canonUid (canonUid u) = canonUid u := by
  have hlen := canon_length u
  have hup : ∀ c ∈ canonUid u, upperAscii c = c := by
    unfold canonUid
    simp only
    have base := all_upper_map u
    by_cases h : 14 < (u.map upperAscii).length
    · simp only [h, if_true]
      split
      · intro c hc; exact base c (List.mem_of_mem_drop (List.mem_of_mem_drop hc))
      · intro c hc; exact base c (List.mem_of_mem_drop hc)
    · simp only [h, if_false]; exact base
  rw [canon_short _ hlen, map_id_of_all hup]

/-- a longer UID is cut to its last 14 digits, and one leading 000000 of those is dropped. -/
theorem canon_long (u : List Nat) (h : 14 < u.length) :
    let t := (u.map upperAscii).drop (u.length - 14)
    canonUid u = if t.take 6 = [48, 48, 48, 48, 48, 48] then t.drop 6 else t := by
  unfold canonUid
  simp [h]

/-- **Bank versus membership.** Whenever the classification succeeds: it is `bank` exactly when the first
listed application carries an application id, and a membership id is always `canonUid` of the reported UID
of a card without application list. A card with a listed payment application (first entry) is never
reported as a membership card. -/
theorem classify_sound (v : Val) (c : Card) (h : classifyStatus v = .ok c) :
    (c = .bank ∨ ∃ u, c = .member (canonUid u)) := by
  unfold classifyStatus at h
  split at h
  · split at h
    · split at h
      · simp at h; left; exact h.symm
      · simp at h
    · split at h
      · simp at h; right; exact ⟨_, h.symm⟩
      · simp at h
  · simp at h

/-- the documented translations of an abort during card reading. -/
theorem abort_6c_is_no_card : (match readCardAbort 0x6c with | .noCard => true | _ => false) = true := by decide +kernel

/-- every other abort is an error that names the code: the specification's message for it, or the
numeric code when the table has no entry. -/
theorem abort_other (c : Nat) (h : c ≠ 0x6c) :
    (∃ m, errorMessage c = some m ∧ readCardAbort c = .other ("Unhandled error: " ++ m)) ∨
    (errorMessage c = none ∧ readCardAbort c = .other ("Unknown error code: 0x" ++ hexUpper c)) := by
  unfold readCardAbort
  cases hm : errorMessage c with
  | none => right; exact ⟨rfl, rfl⟩
  | some m => left; exact ⟨m, rfl, by simp [h]⟩

/-- The full-strength reading of the property text — "a card on which the terminal lists a payment
application is a bank card, otherwise the UID is the membership id" — is FALSE of the pinned code at
application lists whose first entry has no application id (finding D9, recorded in known_findings.json):
the concrete status information below (UID 010203, one application with only a card-type TLV) is
answered with the error "Unknown card type". -/
def d9Witness : Val :=
  .struct ((List.replicate 20 Val.none) ++ [.some (.struct [.some (.str [48, 49, 48, 50, 48, 51]), .none, .none, .none, .none, .none, .none, .none,
    .vec [.struct [.some (.str [48, 48, 48, 53]), .none]], .none])])

theorem C18_full_counterexample :
    (match classifyStatus d9Witness with | .error (.other m) => m == "Unknown card type" | _ => false) = true := by
  decide +kernel

/-- non-vacuity: a long all-zero-prefixed UID. -/
example : canonUid [48,48,48,48,48,48,48,48,48,48,48,48,48,56,49,99,97,55,50,102] = [48,56,49,67,65,55,50,70] := by decide +kernel

/-- the read-card request of the model carries the constants of the source (card type 10, dialog control 02,
short card reading control D0, allowed cards 07). -/
theorem readcard_constants_match_source :
    (Generated.consts.find? (·.1 == "CARD_TYPE")).map (·.2) = some "Some(16)" ∧
    (Generated.consts.find? (·.1 == "DIALOG_CONTROL")).map (·.2) = some "Some(2)" ∧
    (Generated.consts.find? (·.1 == "SHORT_CARD_READING_CONTROL")).map (·.2) = some "Some(208)" ∧
    (Generated.consts.find? (·.1 == "ALLOWED_CARDS")).map (·.2) = some "Some(7)" := by decide +kernel

end Zvt.C18
