/-
  C04 — packets are read from a byte stream exactly at APDU boundaries.
  What a Lean model cannot exhibit: the executor (wakers, `Pending`); the harness drives the real
  `read_exact` with a `Pending` between chunks — see DESIGN.md §12.
-/
import ZvtVerif.Transport
import ZvtVerif.Properties.C16
import ZvtVerif.Generated
namespace Zvt.C04
open Zvt

/-- `read_exact` over a chunked stream depends only on the concatenation of the chunks: it returns the
first `n` bytes and leaves exactly the rest, or fails iff fewer than `n` bytes arrive before the end. -/
theorem readExact_chunking (n : Nat) (cs : List Bytes) :
    (readExactChunks n cs).map (fun p => (p.1, p.2.flatten)) = readExactFlat n cs.flatten := by
  induction n generalizing cs with
  | zero => simp [readExactChunks, readExactFlat]
  | succ n ih =>
    induction cs with
    | nil => simp [readExactChunks, readExactFlat]
    | cons c cs ihc =>
      cases c with
      | nil => simpa [readExactChunks] using ihc
      | cons b c =>
        simp only [readExactChunks]
        have := ih (c :: cs)
        simp only [List.flatten_cons] at this ⊢
        cases h : readExactChunks n (c :: cs) with
        | none =>
          simp only [h, Option.map_none] at this
          simp only [Option.map_none]
          unfold readExactFlat at this ⊢
          split at this
          · rename_i hl; simp at hl ⊢; omega
          · simp at this
        | some p =>
          simp only [h, Option.map_some] at this
          simp only [Option.map_some]
          unfold readExactFlat at this ⊢
          split at this
          · simp at this
          · rename_i hl
            simp at this
            have hl' : ¬ ((b :: c ++ cs.flatten).length < n + 1) := by simp at hl ⊢; omega
            simp only [hl', if_false]
            simp [this.1, this.2]

/-- A complete packet — class, instr, the APDU length prefix the *writer* emits for the body length, the
body — is framed by the *reader* as exactly that packet, leaving exactly what follows: header agreement
for every body length 0..65535, both sides of the 254/255 switch. -/
theorem readFrame_exact (c i : UInt8) (body rest : Bytes) (h : body.length ≤ 65535) :
    ∃ p, LenKind.adpu.ser body.length = .ok p ∧
      readFrame (c :: i :: (p ++ body ++ rest)) = .packet (c :: i :: (p ++ body)) rest ∧
      p.length = (if body.length < 255 then 1 else 3) := by
  unfold LenKind.ser
  by_cases h1 : body.length < 0xff
  · refine ⟨[byte body.length], by simp [h1], ?_, by simp [show body.length < 255 from h1]⟩
    have hb : (byte body.length).toNat = body.length := byte_toNat_lt (by omega)
    have hne : byte body.length ≠ 0xff := by
      intro hc; have := congrArg UInt8.toNat hc; rw [hb] at this; simp at this; omega
    simp only [List.cons_append, List.nil_append, readFrame, hne, if_false, hb]
    have : ¬ ((body ++ rest).length < body.length) := by simp
    simp only [this, if_false, List.take_left', List.drop_left']
  · refine ⟨0xff :: leBytes 2 (body.length % 65536), by simp [h1], ?_, by simp [leBytes_length, show ¬ body.length < 255 from h1]⟩
    have a : (byte (body.length % 65536 % 256)).toNat = body.length % 256 := by rw [byte_toNat]; omega
    have b : (byte (body.length % 65536 / 256 % 256)).toNat = body.length / 256 := by rw [byte_toNat]; omega
    simp only [leBytes, List.cons_append, List.nil_append, readFrame, if_true, a, b]
    have e : body.length % 256 + 256 * (body.length / 256) = body.length := by omega
    rw [e]
    have : ¬ ((body ++ rest).length < body.length) := by simp
    simp only [this, if_false, List.take_left', List.drop_left']

/-- a connection that ends inside a packet never yields a packet. -/
theorem truncated_is_eof (s x : Bytes) (hx : x ≠ []) (h : readFrame (s ++ x) = .packet (s ++ x) [])
    : ∃ n, readFrame s = .eof n := by
  -- (s ++ x) is exactly one packet; a strict prefix s of it cannot be framed
  unfold readFrame at h ⊢
  match s, h with
  | [], _ => exact ⟨_, rfl⟩
  | [_], _ => exact ⟨_, rfl⟩
  | [_, _], _ => exact ⟨_, rfl⟩
  | a :: b :: l :: r, h =>
    simp only [List.cons_append] at h
    by_cases hl : l = 0xff
    · simp only [hl, if_true] at h ⊢
      match r, h with
      | [], _ => exact ⟨_, rfl⟩
      | [_], _ => exact ⟨_, rfl⟩
      | lo :: hi :: r', h =>
        simp only [List.cons_append] at h
        split at h
        · simp at h
        · rename_i hlen
          simp at h
          -- take n (r' ++ x) = r' ++ x  and drop n = []  ⇒ n = length (r' ++ x) > length r'
          have h1 := congrArg List.length h.1
          simp at h1
          have hxl : 0 < x.length := List.length_pos_iff.mpr hx
          have : r'.length < lo.toNat + 256 * hi.toNat := by omega
          simp [this]
    · simp only [hl, if_false] at h ⊢
      split at h
      · simp at h
      · simp at h
        have h1 := congrArg List.length h.1
        simp at h1
        have hxl : 0 < x.length := List.length_pos_iff.mpr hx
        have : r.length < l.toNat := by omega
        simp [this]

/-- a concatenation of packets is returned packet by packet, in order (one step; iterate). -/
theorem readPackets_step (e : EnumDef) (fuel : Nat) (c i : UInt8) (body rest : Bytes) (h : body.length ≤ 65535) :
    ∃ p, LenKind.adpu.ser body.length = .ok p ∧
      readPackets e (fuel + 1) (c :: i :: (p ++ body ++ rest)) =
        (match parseEnum e (c :: i :: (p ++ body)) with
          | .ok (k, v) => PktOutcome.ok k v (2 + p.length + body.length)
          | .error er => PktOutcome.zvtErr er (2 + p.length + body.length)) :: readPackets e fuel rest := by
  obtain ⟨p, hp, hf, _⟩ := readFrame_exact c i body rest h
  refine ⟨p, hp, ?_⟩
  simp only [readPackets, hf]
  cases parseEnum e (c :: i :: (p ++ body)) with
  | error er => simp; omega
  | ok kv => obtain ⟨k, v⟩ := kv; simp; omega

/-! ### k packets -/

/-- what the writer emits for a packet with control field `c i` and the given body. -/
def frameOf (pk : UInt8 × UInt8 × Bytes) : Bytes :=
  match LenKind.adpu.ser pk.2.2.length with
  | .ok p => pk.1 :: pk.2.1 :: (p ++ pk.2.2)
  | .error _ => []

/-- what one `read_packet::<T>()` must return for that packet. -/
def outcomeOf (e : EnumDef) (pk : UInt8 × UInt8 × Bytes) : PktOutcome :=
  match parseEnum e (frameOf pk) with
  | .ok (k, v) => .ok k v (frameOf pk).length
  | .error er => .zvtErr er (frameOf pk).length

/-- **Any number of packets.** The concatenation of the frames of `k` packets (bodies of any length up to
65535, short and extended headers mixed) followed by `tail` is read as exactly those `k` packets, in order,
each read consuming exactly its own frame, and reading continues on `tail` untouched. -/
theorem readPackets_many (e : EnumDef) : ∀ (pks : List (UInt8 × UInt8 × Bytes)) (fuel : Nat) (tail : Bytes),
    (∀ pk ∈ pks, pk.2.2.length ≤ 65535) →
    readPackets e (pks.length + fuel) ((pks.map frameOf).flatten ++ tail) =
      pks.map (outcomeOf e) ++ readPackets e fuel tail := by
  intro pks
  induction pks with
  | nil => intro fuel tail _; simp
  | cons pk pks ih =>
    intro fuel tail h
    obtain ⟨c, i, body⟩ := pk
    have hb : body.length ≤ 65535 := h (c, i, body) (by simp)
    obtain ⟨p, hp, hstep⟩ := readPackets_step e (pks.length + fuel) c i body ((pks.map frameOf).flatten ++ tail) hb
    have hfr : frameOf (c, i, body) = c :: i :: (p ++ body) := by simp [frameOf, hp]
    have hlen : (pks.length + 1) + fuel = (pks.length + fuel) + 1 := by omega
    simp only [List.map_cons, List.flatten_cons, List.length_cons, List.cons_append]
    rw [hlen, hfr]
    have e1 : c :: i :: (p ++ body) ++ ((pks.map frameOf).flatten ++ tail) =
        c :: i :: (p ++ body ++ ((pks.map frameOf).flatten ++ tail)) := by simp
    rw [List.append_assoc, e1, hstep, ih fuel tail (fun q hq => h q (by simp [hq]))]
    simp only [outcomeOf, hfr]
    cases parseEnum e (c :: i :: (p ++ body)) with
    | error er => simp; omega
    | ok kv => obtain ⟨k, v⟩ := kv; simp; omega

/-- non-vacuity: two packets and a dangling byte. -/
example : (readPackets Generated.io_Ack 5 [0x80, 0, 0, 0x80, 0, 0, 0x80]).length = 3 := by decide +kernel

end Zvt.C04
