/-
  Traffic.lean — property theorems about EVERYTHING the client puts on the wire, on every connection, for every
  terminal (script, faults, pace) — consumed by C07 (commit / cancel act on exactly that token's receipt), C08 (the one
  partial reversal carries the unused amount), C09 (nothing but the handshake, the command and acknowledgements), C19
  (no end-of-day and no pending query while another token is open; the clean-up only when idle).

  The predicate `Wrote P w w'` (Proofs/ClientWrites.lean): between the worlds `w` and `w'` the per-connection
  traffic only grew, and every packet added on any connection satisfies `P`.
-/
import ZvtVerif.Proofs.ClientWrites
import ZvtVerif.Proofs.BytesLemmas
import ZvtVerif.Properties.C07
namespace Zvt.Traffic
open Zvt

/-! ### control fields of the request packets -/

/-- the first two bytes of an encoded command are its class and instruction — if it could be encoded at all. -/
theorem encodeCmd_head (s : StructDef) (c : Nat × Nat) (v : Val) (b : Bytes) (hc : s.ctrl = some c)
    (h : encodeCmd s v = .ok b) : b.take 2 = tagEncBE (ctrlTag c) := by
  unfold encodeCmd at h
  rw [hc] at h
  cases v with
  | struct vs =>
    simp only [serTagged] at h
    split at h
    · cases h
    · split at h
      · cases h
      · next p _ l _ =>
        simp only [Except.ok.injEq] at h
        subst h
        simp only [tagPrefix, List.append_assoc]
        have hl : (tagEncBE (ctrlTag c)).length = 2 := by simp [tagEncBE, beBytes_length]
        rw [List.take_append_of_le_length (by omega), List.take_of_length_le (by omega)]
  | _ => cases h

/-- a request is empty (the encoder refused the value) or starts with the control field of its packet type. -/
theorem encodeReq_head (name : String) (v : Val) (c : Nat × Nat) (hc : (findStructG name).ctrl = some c) :
    encodeReq name v = [] ∨ (encodeReq name v).take 2 = tagEncBE (ctrlTag c) := by
  unfold encodeReq
  cases h : encodeCmd (findStructG name) v with
  | error e => left; rfl
  | ok b => right; exact encodeCmd_head _ c v b hc h

/-- `p` is an end-of-day request (06 50). -/
def IsEndOfDay (p : Bytes) : Prop := p.take 2 = [0x06, 0x50]

theorem ctrl_partialReversal : (findStructG "packets::PartialReversal").ctrl = some (0x06, 0x23) := by decide +kernel
theorem ctrl_preAuthReversal : (findStructG "packets::PreAuthReversal").ctrl = some (0x06, 0x25) := by decide +kernel
theorem ctrl_reservation : (findStructG "packets::Reservation").ctrl = some (0x06, 0x22) := by decide +kernel
theorem ctrl_registration : (findStructG "packets::Registration").ctrl = some (0x06, 0x00) := by decide +kernel
theorem ctrl_cvend : (findStructG "feig::packets::CVendFunctions").ctrl = some (0x0f, 0xa1) := by decide +kernel
theorem ctrl_readCard : (findStructG "packets::ReadCard").ctrl = some (0x06, 0xc0) := by decide +kernel

theorem not_eod_of_head {p : Bytes} {c : Nat × Nat} (h : p = [] ∨ p.take 2 = tagEncBE (ctrlTag c))
    (hne : tagEncBE (ctrlTag c) ≠ [0x06, 0x50]) : ¬ IsEndOfDay p := by
  intro he
  unfold IsEndOfDay at he
  rcases h with h | h
  · rw [h] at he; simp at he
  · rw [h] at he; exact hne he

theorem commitCmd_not_eod (cfg : Cfg) (t : List Nat) (r f : Nat) : ¬ IsEndOfDay (commitCmd cfg t r f) :=
  not_eod_of_head (encodeReq_head _ _ _ ctrl_partialReversal) (by decide)
theorem reversalCmd_not_eod (cfg : Cfg) (r : Nat) : ¬ IsEndOfDay (reversalCmd cfg r) :=
  not_eod_of_head (encodeReq_head _ _ _ ctrl_preAuthReversal) (by decide)
theorem reservationCmd_not_eod (cfg : Cfg) (t : List Nat) : ¬ IsEndOfDay (reservationCmd cfg t) :=
  not_eod_of_head (encodeReq_head _ _ _ ctrl_reservation) (by decide)
theorem registrationCmd_not_eod (cfg : Cfg) : ¬ IsEndOfDay (registrationCmd cfg) :=
  not_eod_of_head (encodeReq_head _ _ _ ctrl_registration) (by decide)
theorem sysInfoCmd_not_eod : ¬ IsEndOfDay sysInfoCmd :=
  not_eod_of_head (encodeReq_head _ _ _ ctrl_cvend) (by decide)
theorem readCardCmd_not_eod (cfg : Cfg) : ¬ IsEndOfDay (readCardCmd cfg) :=
  not_eod_of_head (encodeReq_head _ _ _ ctrl_readCard) (by decide)
theorem ack_not_eod : ¬ IsEndOfDay ackBytes := by unfold IsEndOfDay ackBytes; decide

theorem handshake_not_eod (cfg : Cfg) (p : Bytes) (h : p ∈ handshakePackets cfg) : ¬ IsEndOfDay p := by
  simp only [handshakePackets, List.mem_cons, List.not_mem_nil, or_false] at h
  rcases h with h | h | h | h
  · rw [h]; exact registrationCmd_not_eod cfg
  · rw [h]; exact ack_not_eod
  · rw [h]; exact sysInfoCmd_not_eod
  · rw [h]; exact ack_not_eod

/-! ### C09 / C05 at the client: one exchange -/

/-- **Every exchange of the client, with all its retries and reconnects**, for every sequence, caller loop, terminal
script, fault table and pace: on no connection — old, live, or opened meanwhile — is anything written but the command of
this exchange, acknowledgements, and the registration / identity request of a handshake. -/
theorem exchange_writes {σ ρ : Type} (cfg : Cfg) (seqName : String) (cmd : Bytes) (timeout : Nat)
    (step : σ → Item → Step σ ρ) (w : World) (s : σ) (h : ConnOK w) :
    WroteOnly (fun p => p = cmd ∨ p = ackBytes ∨ p ∈ handshakePackets cfg) w (runOp cfg seqName cmd timeout step w s).2 :=
  (wrote_runOp cfg seqName cmd timeout step w s h).only

/-! ### C07 / C08: begin, commit, cancel -/

/-- **begin** puts on the wire (besides acknowledgements and handshakes) only the reservation request for its own token
with the configured amount and currency; a refused begin (C07 guards) writes nothing at all. -/
theorem begin_writes (cfg : Cfg) (cl : Client) (t : List Nat) (w : World) (h : ConnOK w) :
    WroteOnly (fun p => p = reservationCmd cfg t ∨ p = ackBytes ∨ p ∈ handshakePackets cfg) w (beginTx cfg cl t w).2.2 :=
  (wrote_beginTx cfg cl t w h).only

/-- **commit while another token stays open**: the ONLY command on the wire is the partial reversal carrying the receipt
number recorded for this token and the unused amount — no pending query, no reversal, no end-of-day. -/
theorem commit_writes_while_open (cfg : Cfg) (cl : Client) (t : List Nat) (f : Nat) (w : World) (h : ConnOK w)
    (r : Nat) (hf : cl.txs.find? (·.1 = t) = some (t, r)) (hopen : cl.txs.filter (·.1 ≠ t) ≠ []) :
    WroteOnly (fun p => p = commitCmd cfg t r f ∨ p = ackBytes ∨ p ∈ handshakePackets cfg) w (commitTx cfg cl t f w).2.2 := by
  refine (wrote_commitTx cfg cl t f w h).only.mono ?_
  intro p hp
  rcases hp with (⟨r', hr', hp⟩ | ⟨he, _⟩) | hp | hp
  · rw [hf] at hr'; cases hr'; exact Or.inl hp
  · exact absurd he hopen
  · exact Or.inr (Or.inl hp)
  · exact Or.inr (Or.inr hp)

/-- **cancel while another token stays open**: the only command is the reversal of this token's receipt. -/
theorem cancel_writes_while_open (cfg : Cfg) (cl : Client) (t : List Nat) (w : World) (h : ConnOK w)
    (r : Nat) (hf : cl.txs.find? (·.1 = t) = some (t, r)) (hopen : cl.txs.filter (·.1 ≠ t) ≠ []) :
    WroteOnly (fun p => p = reversalCmd cfg r ∨ p = ackBytes ∨ p ∈ handshakePackets cfg) w (cancelTx cfg cl t w).2.2 := by
  refine (wrote_cancelTx cfg cl t w h).only.mono ?_
  intro p hp
  rcases hp with (⟨r', hr', hp⟩ | ⟨he, _⟩) | hp | hp
  · rw [hf] at hr'; cases hr'; exact Or.inl hp
  · exact absurd he hopen
  · exact Or.inr (Or.inl hp)
  · exact Or.inr (Or.inr hp)

/-- **commit / cancel of the last open token**: own command first kind, then only clean-up commands (pending query,
reversal of a reported receipt, end-of-day). -/
theorem commit_writes (cfg : Cfg) (cl : Client) (t : List Nat) (f : Nat) (w : World) (h : ConnOK w)
    (r : Nat) (hf : cl.txs.find? (·.1 = t) = some (t, r)) :
    WroteOnly (fun p => p = commitCmd cfg t r f ∨ CleanupCmd cfg p ∨ p = ackBytes ∨ p ∈ handshakePackets cfg) w
      (commitTx cfg cl t f w).2.2 := by
  refine (wrote_commitTx cfg cl t f w h).only.mono ?_
  intro p hp
  rcases hp with (⟨r', hr', hp⟩ | ⟨_, hc⟩) | hp | hp
  · rw [hf] at hr'; cases hr'; exact Or.inl hp
  · exact Or.inr (Or.inl hc)
  · exact Or.inr (Or.inr (Or.inl hp))
  · exact Or.inr (Or.inr (Or.inr hp))

theorem cancel_writes (cfg : Cfg) (cl : Client) (t : List Nat) (w : World) (h : ConnOK w)
    (r : Nat) (hf : cl.txs.find? (·.1 = t) = some (t, r)) :
    WroteOnly (fun p => p = reversalCmd cfg r ∨ CleanupCmd cfg p ∨ p = ackBytes ∨ p ∈ handshakePackets cfg) w
      (cancelTx cfg cl t w).2.2 := by
  refine (wrote_cancelTx cfg cl t w h).only.mono ?_
  intro p hp
  rcases hp with (⟨r', hr', hp⟩ | ⟨_, hc⟩) | hp | hp
  · rw [hf] at hr'; cases hr'; exact Or.inl hp
  · exact Or.inr (Or.inl hc)
  · exact Or.inr (Or.inr (Or.inl hp))
  · exact Or.inr (Or.inr (Or.inr hp))

/-- a commit / cancel for a token that is not open writes nothing (with `C07.*_unknown_no_traffic`: the world is unchanged). -/
theorem unknown_token_writes_nothing (cfg : Cfg) (cl : Client) (t : List Nat) (f : Nat) (w : World)
    (hf : cl.txs.find? (·.1 = t) = none) :
    (commitTx cfg cl t f w).2.2 = w ∧ (cancelTx cfg cl t w).2.2 = w := by
  rw [C07.commit_unknown_no_traffic cfg cl t f w hf, C07.cancel_unknown_no_traffic cfg cl t w hf]
  exact ⟨rfl, rfl⟩

/-! ### C19: end-of-day never over open transactions — on the wire, over whole call histories -/

/-- the calls of a transaction history. -/
inductive TxCall where
  | begin (token : List Nat)
  | commit (token : List Nat) (final : Nat)
  | cancel (token : List Nat)
  | readCard

def runTxCall (cfg : Cfg) (s : Client × World) : TxCall → Client × World
  | .begin t => ((beginTx cfg s.1 t s.2).2.1, (beginTx cfg s.1 t s.2).2.2)
  | .commit t f => ((commitTx cfg s.1 t f s.2).2.1, (commitTx cfg s.1 t f s.2).2.2)
  | .cancel t => ((cancelTx cfg s.1 t s.2).2.1, (cancelTx cfg s.1 t s.2).2.2)
  | .readCard => (s.1, (readCard cfg s.2).2)

/-- **No end-of-day request while a token stays open** — one call: if after the call's own token is closed another token
remains open (or the call is begin / read_card), no packet with control field 06 50 is written, on any connection,
whatever the terminal does. -/
theorem call_no_end_of_day (cfg : Cfg) (s : Client × World) (c : TxCall) (h : ConnOK s.2)
    (hopen : match c with
      | .commit t _ => s.1.txs.filter (·.1 ≠ t) ≠ []
      | .cancel t => s.1.txs.filter (·.1 ≠ t) ≠ []
      | _ => True) :
    WroteOnly (fun p => ¬ IsEndOfDay p) s.2 (runTxCall cfg s c).2 := by
  cases c with
  | begin t =>
    refine (begin_writes cfg s.1 t s.2 h).mono ?_
    intro p hp
    rcases hp with hp | hp | hp
    · rw [hp]; exact reservationCmd_not_eod cfg t
    · rw [hp]; exact ack_not_eod
    · exact handshake_not_eod cfg p hp
  | readCard =>
    refine (wrote_readCard cfg s.2 h).only.mono ?_
    intro p hp
    rcases hp with hp | hp | hp
    · rw [hp]; exact readCardCmd_not_eod cfg
    · rw [hp]; exact ack_not_eod
    · exact handshake_not_eod cfg p hp
  | commit t f =>
    simp only at hopen
    cases hf : s.1.txs.find? (·.1 = t) with
    | none =>
      simp only [runTxCall]
      rw [(unknown_token_writes_nothing cfg s.1 t f s.2 hf).1]
      exact WroteOnly.refl _ _
    | some e =>
      obtain ⟨t', r⟩ := e
      have ht : t' = t := by have := List.find?_some hf; simpa using this
      subst ht
      refine (commit_writes_while_open cfg s.1 t' f s.2 h r hf hopen).mono ?_
      intro p hp
      rcases hp with hp | hp | hp
      · rw [hp]; exact commitCmd_not_eod cfg t' r f
      · rw [hp]; exact ack_not_eod
      · exact handshake_not_eod cfg p hp
  | cancel t =>
    simp only at hopen
    cases hf : s.1.txs.find? (·.1 = t) with
    | none =>
      simp only [runTxCall]
      rw [(unknown_token_writes_nothing cfg s.1 t 0 s.2 hf).2]
      exact WroteOnly.refl _ _
    | some e =>
      obtain ⟨t', r⟩ := e
      have ht : t' = t := by have := List.find?_some hf; simpa using this
      subst ht
      refine (cancel_writes_while_open cfg s.1 t' s.2 h r hf hopen).mono ?_
      intro p hp
      rcases hp with hp | hp | hp
      · rw [hp]; exact reversalCmd_not_eod cfg r
      · rw [hp]; exact ack_not_eod
      · exact handshake_not_eod cfg p hp

theorem connOK_call (cfg : Cfg) (s : Client × World) (c : TxCall) (h : ConnOK s.2) : ConnOK (runTxCall cfg s c).2 := by
  cases c with
  | begin t => exact (wrote_beginTx cfg s.1 t s.2 h).ok
  | commit t f => exact (wrote_commitTx cfg s.1 t f s.2 h).ok
  | cancel t => exact (wrote_cancelTx cfg s.1 t s.2 h).ok
  | readCard => exact (wrote_readCard cfg s.2 h).ok

/-- a history in which every commit / cancel leaves another token open (evaluated along the run). -/
def NeverIdle (cfg : Cfg) : Client × World → List TxCall → Prop
  | _, [] => True
  | s, c :: cs =>
    (match c with
      | .commit t _ => s.1.txs.filter (·.1 ≠ t) ≠ []
      | .cancel t => s.1.txs.filter (·.1 ≠ t) ≠ []
      | _ => True) ∧ NeverIdle cfg (runTxCall cfg s c) cs

/-- **C19 over whole histories**: along any history of begin / commit / cancel / read_card calls in which no commit or
cancel closes the last open token, no end-of-day request is ever written — on any connection, for any terminal. -/
theorem history_no_end_of_day (cfg : Cfg) : ∀ (calls : List TxCall) (s : Client × World), ConnOK s.2 →
    NeverIdle cfg s calls → WroteOnly (fun p => ¬ IsEndOfDay p) s.2 (calls.foldl (runTxCall cfg) s).2 := by
  intro calls
  induction calls with
  | nil => intro s _ _; exact WroteOnly.refl _ _
  | cons c cs ih =>
    intro s h hn
    simp only [List.foldl_cons]
    exact (call_no_end_of_day cfg s c h hn.1).trans (ih _ (connOK_call cfg s c h) hn.2)

/-! ### the client's whole vocabulary, over arbitrary call histories -/

/-- everything the `Feig` client can ever put on the wire. -/
def ClientVocab (cfg : Cfg) (p : Bytes) : Prop :=
  p = ackBytes ∨ p ∈ handshakePackets cfg ∨ p = sysInfoCmd ∨ p = setTidCmd cfg ∨ p = initCmd cfg ∨ CleanupCmd cfg p ∨
  p = readCardCmd cfg ∨ (∃ t, p = reservationCmd cfg t) ∨ (∃ t r f, p = commitCmd cfg t r f)

theorem vocab_of_allowed {cfg : Cfg} {C : Bytes → Prop} (hC : ∀ p, C p → ClientVocab cfg p) :
    ∀ p, Allowed cfg C p → ClientVocab cfg p := by
  intro p hp
  rcases hp with h | h | h
  · exact hC p h
  · exact Or.inl h
  · exact Or.inr (Or.inl h)

theorem vocab_of_exchange {cfg : Cfg} {cmd : Bytes} (hc : ClientVocab cfg cmd) : ∀ p, ExchangeP cfg cmd p → ClientVocab cfg p := by
  intro p hp
  rcases hp with h | h | h
  · rw [h]; exact hc
  · exact Or.inl h
  · exact Or.inr (Or.inl h)

/-- one public call (configure / read_card / begin / commit / cancel): well-formedness is kept and only vocabulary is written. -/
theorem call_writes_vocab (cfg : Cfg) (s : Client × World) (c : ClientCall) (h : ConnOK s.2) :
    Wrote (ClientVocab cfg) s.2 (runClientCall cfg s c).2 := by
  cases c with
  | configure =>
    refine (wrote_configure cfg s.1 s.2 h).mono (vocab_of_allowed ?_)
    intro p hp
    rcases hp with hp | hp | hp | hp
    · exact Or.inr (Or.inr (Or.inl hp))
    · exact Or.inr (Or.inr (Or.inr (Or.inl hp)))
    · exact Or.inr (Or.inr (Or.inr (Or.inr (Or.inl hp))))
    · exact Or.inr (Or.inr (Or.inr (Or.inr (Or.inr (Or.inl hp)))))
  | readCard =>
    exact (wrote_readCard cfg s.2 h).mono (vocab_of_exchange (Or.inr (Or.inr (Or.inr (Or.inr (Or.inr (Or.inr (Or.inl rfl))))))))
  | begin t =>
    exact (wrote_beginTx cfg s.1 t s.2 h).mono (vocab_of_exchange (Or.inr (Or.inr (Or.inr (Or.inr (Or.inr (Or.inr (Or.inr (Or.inl ⟨t, rfl⟩)))))))))
  | commit t f =>
    refine (wrote_commitTx cfg s.1 t f s.2 h).mono (vocab_of_allowed ?_)
    intro p hp
    rcases hp with ⟨r, _, hp⟩ | ⟨_, hp⟩
    · exact Or.inr (Or.inr (Or.inr (Or.inr (Or.inr (Or.inr (Or.inr (Or.inr ⟨t, r, f, hp⟩)))))))
    · exact Or.inr (Or.inr (Or.inr (Or.inr (Or.inr (Or.inl hp)))))
  | cancel t =>
    refine (wrote_cancelTx cfg s.1 t s.2 h).mono (vocab_of_allowed ?_)
    intro p hp
    rcases hp with ⟨r, _, hp⟩ | ⟨_, hp⟩
    · exact Or.inr (Or.inr (Or.inr (Or.inr (Or.inr (Or.inl (Or.inr (Or.inl ⟨r, hp⟩)))))))
    · exact Or.inr (Or.inr (Or.inr (Or.inr (Or.inr (Or.inl hp)))))

/-- **The client never leaves its vocabulary**: after ANY history of public calls against ANY terminal, on every connection the
traffic has only grown, and every packet the client added — anywhere — is an acknowledgement, a handshake packet or one of its
own commands built from its configuration (identity request, set-terminal-id, initialisation, pending query, reversal, end-of-day,
read-card, a reservation for some token, a partial reversal for some token / receipt / amount). -/
theorem history_writes_vocab (cfg : Cfg) : ∀ (calls : List ClientCall) (s : Client × World), ConnOK s.2 →
    Wrote (ClientVocab cfg) s.2 (runClientCalls cfg s calls).2 := by
  intro calls
  induction calls with
  | nil => intro s h; exact Wrote.refl _ _ h
  | cons c cs ih =>
    intro s h
    have h1 := call_writes_vocab cfg s c h
    simp only [runClientCalls, List.foldl_cons]
    exact h1.trans (ih (runClientCall cfg s c) h1.ok)

/-- the initial world (no connection yet) is well-formed; so is every world reached by a history. -/
theorem connOK_initial (w : World) (h : w.conn = none) : ConnOK w := by
  intro c hc; rw [h] at hc; cases hc

/-- non-vacuity, kernel-evaluated on the model: against a healthy terminal (default replies; it issues receipt 1 for a
reservation) the history begin a · begin b · commit a · read_card never closes the last open token (`NeverIdle` holds: the commit
leaves b open), the commit is the third call, and on the one connection the client opened NO packet starts with 06 50 after the
start-up — while committing the LAST token (begin a · commit a) does request end-of-day. -/
example :
    let cfg : Cfg := { maxTx := 2, amount := 2500, currency := 978, password := 123456, readCardTimeout := 15,
                       serial := [65, 66], terminalId := [49] }
    let w : World := { serial := [0x41, 0x42, 0, 0, 0, 0, 0, 0], tid := [0x31, 0, 0, 0, 0, 0, 0, 0] }
    let h : List TxCall := [.begin [97], .begin [98], .commit [97] 100, .readCard]
    let s3 := [TxCall.begin [97], .begin [98]].foldl (runTxCall cfg) ({}, w)
    let sEnd := h.foldl (runTxCall cfg) ({}, w)
    let sIdle := [TxCall.begin [97], .commit [97] 100].foldl (runTxCall cfg) ({}, w)
    s3.1.txs.map (·.1) = [[98], [97]] ∧ (s3.1.txs.filter (·.1 ≠ [97]) ≠ []) ∧
    sEnd.1.txs.map (·.1) = [[98]] ∧
    ((sEnd.2.sentOn 0).filter (fun p => p.take 2 = [0x06, 0x50])).length = 0 ∧
    ((sIdle.2.sentOn 0).filter (fun p => p.take 2 = [0x06, 0x50])).length = 1 := by
  decide +kernel

/-- non-vacuity: two open tokens, committing one of them satisfies the hypothesis of `commit_writes_while_open`. -/
example : ([([97], 11), ([98], 12)] : List (List Nat × Nat)).find? (·.1 = [97]) = some ([97], 11) ∧
    ([([97], 11), ([98], 12)] : List (List Nat × Nat)).filter (·.1 ≠ [97]) ≠ [] := by decide

end Zvt.Traffic
