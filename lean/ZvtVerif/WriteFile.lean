/-
  WriteFile.lean — mirror of `WriteFile::into_stream` (zvt/src/feig/sequences.rs): announce the
  recognised files of the payload directory with their sizes, then answer every RequestForData with a
  WriteData block, against the scripted terminal of Sequence.lean. The file system is a parameter:
  `files : List (id × content)`, already restricted to recognised paths (`convert_dir`, table
  `Generated.fileIds`) and sorted by id (the Rust code iterates a HashMap; the harness sorts the
  announcement before comparing).
-/
import ZvtVerif.Sequence
namespace Zvt

def wfCmdStruct : StructDef := (Generated.shipped.find? (·.name = "feig::packets::WriteFile")).getD default
def wdStruct : StructDef := (Generated.shipped.find? (·.name = "feig::packets::WriteData")).getD default
def rfdStruct : StructDef := (Generated.shipped.find? (·.name = "feig::packets::RequestForData")).getD default
def tlvWriteDataStruct : StructDef := (Generated.shipped.find? (·.name = "feig::packets::tlv::WriteData")).getD default
def tlvFileStruct : StructDef := (Generated.shipped.find? (·.name = "feig::packets::tlv::File")).getD default
def wfEnum : EnumDef := (Generated.enums.find? (·.name = "feig::sequences::WriteFileResponse")).getD default

def fieldOfS (s : StructDef) (v : Val) (name : String) : Val :=
  match v with
  | .struct vs =>
    match (s.fields.zip vs).find? (fun p => p.1.name = name) with
    | some (_, x) => x
    | none => .none
  | _ => .none

/-- `File { file_id, file_offset, file_size, payload }` -/
def fileVal (id : Option Nat) (off : Option Nat) (size : Option Nat) (payload : Option Bytes) : Val :=
  .struct [(match id with | some i => .some (.num i) | none => .none),
           (match off with | some o => .some (.num o) | none => .none),
           (match size with | some s => .some (.num s) | none => .none),
           (match payload with | some p => .some (.raw p) | none => .none)]

/-- the announcement: password, and per file its id and size. -/
def wfAnnounce (password : Nat) (files : List (Nat × Bytes)) : Res Bytes :=
  encodeCmd wfCmdStruct (.struct [.num password,
    .some (.struct [.vec (files.map fun (id, c) => fileVal (some id) none (some (c.length % 2 ^ 32)) none)])])

/-- **the block that answers a request**: the file's bytes from `off`, at most `block` of them. -/
def wfBlock (content : Bytes) (off block : Nat) : Bytes := (content.drop off).take block

def wfData (id off : Nat) (data : Bytes) : Res Bytes :=
  encodeCmd wdStruct (.struct [.some (.struct [.some (fileVal (some id) (some off) none (some data))])])

def optNum : Val → Option Nat
  | .some (.num n) => some n
  | _ => none

inductive WfStep where
  | finish              -- completion / abort: acknowledge, yield, stop
  | data (pkt : Bytes)  -- answer with this WriteData packet, yield, go on
  | fail                -- IncompleteData: nothing is sent

/-- decision on one decoded reply of the upload. -/
def wfDecide (files : List (Nat × Bytes)) (block : Nat) (i : Nat) (v : Val) : WfStep :=
  match wfEnum.variants[i]? with
  | some ("RequestForData", _) =>
    match fieldOfS rfdStruct v "tlv" with
    | .some tlv =>
      match fieldOfS tlvWriteDataStruct tlv "file" with
      | .some file =>
        match optNum (fieldOfS tlvFileStruct file "file_id"), optNum (fieldOfS tlvFileStruct file "file_offset") with
        | some id, some off =>
          match files.find? (·.1 = id) with
          | some (_, content) =>
            match wfData id off (wfBlock content off block) with
            | .ok p => .data p
            | .error _ => .fail
          | none => .fail
        | _, _ => .fail
      | _ => .fail
    | _ => .fail
  | _ => .finish

def wfLoop (files : List (Nat × Bytes)) (block : Nat) : Nat → Term → List Ev
  | 0, _ => [.hang]
  | fuel + 1, t =>
    match t.readPkt with
    | (.hang, _, evs) => evs
    | (.eof, _, evs) => evs ++ [.e "io:eof", .fin]
    | (.pkt p, t', evs) =>
      match parseEnum wfEnum p with
      | .error er => evs ++ [.e (errName er), .fin]
      | .ok (i, v) =>
        match wfDecide files block i v with
        | .finish => evs ++ [.w ackBytes, .y i v, .fin]
        | .fail => evs ++ [.e "incomplete", .fin]
        | .data pkt => evs ++ [.w pkt, .y i v] ++ wfLoop files block fuel t'.release

def runWriteFile (files : List (Nat × Bytes)) (block password : Nat) (items : List Bytes) : List Ev :=
  if files.isEmpty then [.e "io:InvalidData", .fin]
  else
    match wfAnnounce password files with
    | .error _ => [.e "panic", .fin]
    | .ok cmd =>
      match writeWithAck cmd (Term.start items) with
      | (none, evs) => evs
      | (some t, evs) => evs ++ wfLoop files block (items.length + 2) t

end Zvt
