/-
  Client.lean — mirror of zvt_feig_terminal/src/stream.rs (`ResetSequence::into_stream_with_retry`,
  `inner::connect`) and zvt_feig_terminal/src/feig.rs (the `Feig` client), executed against the
  table-driven simulated terminal of the harness (harness/src/client.rs) on a virtual clock (seconds).

  Time only passes where the Rust code waits on a timer: the per-packet time-out, the connect
  time-out (`TIMEOUT`, 60 s, after the repair of defect D7) and the retry throttle (2 s).
-/
import ZvtVerif.Sequence
namespace Zvt

/-! ### the simulated terminal -/

inductive Fault where
  | close | nack | stall
  | garbage (b : Bytes)
  /-- the item is sent `n` pauses later than the terminal's pace would have it (`late:N`; with `gap = 0` no delay at all) -/
  | late (n : Nat)
  deriving Repr

structure ConnSt where
  id : Nat
  avail : Bytes := []          -- sent by the terminal, not yet consumed by the client
  pending : List Bytes := []   -- items of the current exchange not yet released
  sent : Nat := 0              -- number of items released so far (index for the fault table)
  stalled : Bool := false
  tclosed : Bool := false      -- the terminal dropped the connection
  /-- parallel to `avail`: at the first byte of each released item the number of terminal pauses (one per item,
  plus one per empty item before it) the client has to sit out before that byte is there; 0 elsewhere. -/
  marks : List Nat := []
  carry : Nat := 0             -- pauses of items that put no byte on the wire, owed by the next one
  eofOwed : Nat := 0           -- pauses before the end of the stream becomes visible (terminal closed)
  deriving Repr

/-- one entry of the terminal's per-connection log: what the harness prints as `open@t`, `refuse@t`, `stall@t`,
`rx:HEX` (a packet the client sent), `tclose@t` (the terminal hung up), `close@t` (the client hung up). -/
inductive LogE where
  | opened (t : Nat)
  | refuse (t : Nat)
  | stall (t : Nat)
  | rx (p : Bytes)
  | tclose (t : Nat)
  | close (t : Nat)
  deriving DecidableEq, Repr

structure World where
  now : Nat := 0
  queues : List (String × List (List Bytes)) := []
  faults : List ((Nat × Nat) × Fault) := []
  connects : List String := []
  serial : Bytes := []
  tid : Bytes := []
  logs : List (List LogE) := []
  conn : Option ConnSt := none
  /-- virtual seconds the terminal pauses before every item it sends (`gap=N`: a slow but talking terminal) -/
  gap : Nat := 0

def hexDigitCh (n : Nat) : Char := Char.ofNat (if n < 10 then 48 + n else 87 + n)
def hexStr (b : Bytes) : String :=
  if b.isEmpty then "-" else String.ofList (b.flatMap fun x => [hexDigitCh (x.toNat / 16), hexDigitCh (x.toNat % 16)])

def LogE.show : LogE → String
  | .opened t => s!"open@{t}"
  | .refuse t => s!"refuse@{t}"
  | .stall t => s!"stall@{t}"
  | .rx p => "rx:" ++ hexStr p
  | .tclose t => s!"tclose@{t}"
  | .close t => s!"close@{t}"

def World.log (w : World) (k : Nat) (s : LogE) : World :=
  { w with logs := w.logs.modify k (· ++ [s]) }

def kindOf (p : Bytes) : String :=
  match p with
  | a :: b :: rest =>
    let k := hexStr [a, b]
    if a = 0x06 ∧ b = 0x23 ∧ (rest.drop 1).take 3 = [0x87, 0xff, 0xff] then k ++ "q" else k
  | _ => "?"

def asciiBytes (s : String) : Bytes := s.toList.map fun c => byte c.toNat

def defaultReplies (w : World) (kind : String) : List Bytes :=
  if kind = "0fa1" then
    [[0x06, 0x0f, 37] ++ w.serial ++ asciiBytes "GER-APP-v2.0.9   " ++ w.tid ++ asciiBytes "24.4"]
  else if kind = "0623q" then [[0x06, 0x1e, 0x04, 0xb8, 0x87, 0xff, 0xff]]
  else if kind = "0622" then [[0x04, 0x0f, 0x03, 0x87, 0x00, 0x01], [0x06, 0x0f, 0x00]]
  else if kind = "0623" then [[0x04, 0x0f, 0x02, 0x27, 0x00], [0x06, 0x0f, 0x00]]
  else if kind = "06c0" then [[0x04, 0x0f, 0x0a, 0x27, 0x00, 0x06, 0x06, 0x4c, 0x04, 0xde, 0xad, 0xbe, 0xef]]
  else [[0x06, 0x0f, 0x00]]

def popQueue (qs : List (String × List (List Bytes))) (kind : String) :
    Option (List Bytes) × List (String × List (List Bytes)) :=
  match qs with
  | [] => (none, [])
  | (k, q) :: rest =>
    if k = kind then
      match q with
      | [] => (none, (k, []) :: rest)
      | r :: q' => (some r, (k, q') :: rest)
    else
      let (r, rest') := popQueue rest kind
      (r, (k, q) :: rest')

def lookupFault (fs : List ((Nat × Nat) × Fault)) (k j : Nat) : Option Fault :=
  match fs with
  | [] => none
  | ((a, b), f) :: rest => if a = k ∧ b = j then some f else lookupFault rest k j

/-- the terminal puts `b` on the wire after one more pause. -/
def ConnSt.put (c : ConnSt) (b : Bytes) : ConnSt :=
  match b with
  | [] => { c with carry := c.carry + 1 }
  | _ :: tl => { c with avail := c.avail ++ b, marks := c.marks ++ (c.carry + 1) :: tl.map (fun _ => 0), carry := 0 }

/-- the terminal releases up to `n` items of the current exchange (fault table applied per item). -/
def releaseItems : Nat → World → ConnSt → World × ConnSt
  | 0, w, c => (w, c)
  | n + 1, w, c =>
    if c.stalled ∨ c.tclosed then (w, c)
    else
      match c.pending with
      | [] => (w, c)
      | item :: rest =>
        let j := c.sent
        let c := { c with pending := rest, sent := j + 1 }
        match lookupFault w.faults c.id j with
        | none => releaseItems n w (c.put item)
        | some .nack => releaseItems n w (c.put [0x84, 0x9c, 0x00])
        | some (.garbage g) => releaseItems n w (c.put g)
        | some (.late k) => releaseItems n w ({ c with carry := c.carry + k }.put item)
        | some .stall => (w, { c with stalled := true, pending := [] })
        | some .close =>
          (w.log c.id (.tclose (w.now + w.gap * (c.marks.sum + c.carry + 1))),
           { c with tclosed := true, pending := [], eofOwed := c.carry + 1, carry := 0 })

/-- the terminal receives one APDU from the client. -/
def termRx (w : World) (c : ConnSt) (p : Bytes) : World × ConnSt :=
  let w := w.log c.id (.rx p)
  match p with
  | 0x80 :: 0x00 :: _ => releaseItems 1 w c
  | _ =>
    let kind := kindOf p
    let (r, qs) := popQueue w.queues kind
    let replies := match r with
      | some r => r
      | none => defaultReplies w kind
    releaseItems 2 { w with queues := qs } { c with pending := ackBytes :: replies }

/-! ### client-side primitives on the live connection -/

inductive RdRes where
  | pkt (p : Bytes)
  | eof
  | hang

/-- one `read_packet`: the packet / end of stream / nothing more will come, and the number of terminal pauses the
client sat out until the last byte it needed was there. -/
def connRead (c : ConnSt) : RdRes × Nat × ConnSt :=
  match readFrame c.avail with
  | .packet p rest =>
    let n := c.avail.length - rest.length
    (.pkt p, (c.marks.take n).sum, { c with avail := rest, marks := c.marks.drop n })
  | .eof _ =>
    if c.tclosed then (.eof, c.marks.sum + c.eofOwed, { c with avail := [], marks := [], eofOwed := 0 })
    else (.hang, 0, c)

/-- the client has waited through `k` pauses of the terminal. -/
def World.waited (w : World) (k : Nat) : World := { w with now := w.now + w.gap * k }

/-- `write_all` of one packet: fails when the terminal has dropped the connection. -/
def connWrite (w : World) (c : ConnSt) (p : Bytes) : Option (World × ConnSt) :=
  if c.tclosed then none else some (termRx w c p)

/-- the client drops the connection (`src.inner = None`, or the socket of a failed handshake). -/
def dropConn (w : World) (c : ConnSt) : World :=
  let w := if c.tclosed then w else w.log c.id (.close w.now)
  { w with conn := none }

/-! ### one `Sequence` stream, item by item -/

inductive SeqSt where
  | start | looping | done
  deriving Repr, DecidableEq

inductive Item where
  | ok (idx : Nat) (v : Val)
  | err
  deriving Repr

inductive NextOut where
  | item (i : Item)
  | ended
  | hang

structure SeqDesc where
  enum : EnumDef
  once : Bool
  finals : List String
  cmd : Bytes

/-- outcome of one `read_packet` under a time-out firing at `deadline`: what arrives later than that is never seen. -/
inductive RdBy where
  | pkt (p : Bytes) (w : World) (c : ConnSt)
  | eof (w : World) (c : ConnSt)
  | hang (c : ConnSt)

def readBy (deadline : Nat) (w : World) (c : ConnSt) : RdBy :=
  match connRead c with
  | (.hang, _, c) => .hang c
  | (.eof, k, c) => if deadline < (w.waited k).now then .hang c else .eof (w.waited k) c
  | (.pkt p, k, c) => if deadline < (w.waited k).now then .hang c else .pkt p (w.waited k) c

/-- one `stream.next()` of a `Sequence::into_stream`, awaited under a time-out that fires at `deadline` (virtual
time). Data that arrives later than that is never seen: the outcome is `hang`, as if it never came. With an
instantly answering terminal (`gap = 0`) the call takes no time. -/
def seqNext (d : SeqDesc) (deadline : Nat) (w : World) (c : ConnSt) (st : SeqSt) : NextOut × World × ConnSt × SeqSt :=
  match st with
  | .done => (.ended, w, c, .done)
  | .start =>
    match connWrite w c d.cmd with
    | none => (.item .err, w, c, .done)
    | some (w, c) =>
      match readBy deadline w c with
      | .hang c => (.hang, w, c, .done)
      | .eof w c => (.item .err, w, c, .done)
      | .pkt p w c =>
        match parseEnum Generated.io_Ack p with
        | .error _ => (.item .err, w, c, .done)
        | .ok _ =>
          -- first reply, same `next()` call
          match readBy deadline w c with
          | .hang c => (.hang, w, c, .done)
          | .eof w c => (.item .err, w, c, .done)
          | .pkt p w c =>
            match parseEnum d.enum p with
            | .error _ => (.item .err, w, c, .done)
            | .ok (i, v) =>
              match connWrite w c ackBytes with
              | none => (.item .err, w, c, .done)
              | some (w, c) => (.item (.ok i v), w, c, if d.once ∨ isFinalOf d.enum d.finals i then .done else .looping)
  | .looping =>
    match readBy deadline w c with
    | .hang c => (.hang, w, c, .done)
    | .eof w c => (.item .err, w, c, .done)
    | .pkt p w c =>
      match parseEnum d.enum p with
      | .error _ => (.item .err, w, c, .done)
      | .ok (i, v) =>
        match connWrite w c ackBytes with
        | none => (.item .err, w, c, .done)
        | some (w, c) => (.item (.ok i v), w, c, if d.once ∨ isFinalOf d.enum d.finals i then .done else .looping)

/-! ### configuration -/

structure Cfg where
  maxTx : Nat
  amount : Nat
  currency : Nat
  password : Nat
  readCardTimeout : Nat
  serial : List Nat
  terminalId : List Nat

def TIMEOUT : Nat := 60
/-- upper bound on the items of one attempt (a reply script is far shorter). -/
def ITEM_FUEL : Nat := 4096
def THROTTLE : Nat := 2
def ATTEMPTS : Nat := 20

/-- `to_lowercase` for the characters that can occur in a CP437-decoded serial (context-free). -/
def lowerCp (c : Nat) : Nat :=
  if 65 ≤ c ∧ c ≤ 90 then c + 32
  else if c = 199 then 231 else if c = 196 then 228 else if c = 197 then 229 else if c = 201 then 233
  else if c = 198 then 230 else if c = 214 then 246 else if c = 220 then 252 else if c = 209 then 241
  else if c = 915 then 947 else if c = 931 then 963 else if c = 934 then 966 else if c = 920 then 952
  else if c = 937 then 969 else c

def upperAscii (c : Nat) : Nat := if 97 ≤ c ∧ c ≤ 122 then c - 32 else c

def findStructG (name : String) : StructDef := (Generated.shipped.find? (·.name = name)).getD default
def findEnumG (name : String) : EnumDef := (Generated.enums.find? (·.name = name)).getD default

/-- field of a decoded struct value by name. -/
def fieldOf (s : StructDef) (v : Val) (name : String) : Val :=
  match v with
  | .struct vs =>
    match (s.fields.zip vs).find? (fun p => p.1.name = name) with
    | some (_, x) => x
    | none => .none
  | _ => .none

def seqDesc (name : String) (cmd : Bytes) : SeqDesc :=
  match Generated.sequences.find? (·.1 = name) with
  | some (_, _, outName, kind, finals) => { enum := findEnumG outName, once := kind = "once", finals := finals, cmd := cmd }
  | none => { enum := default, once := true, finals := [], cmd := cmd }

def encodeReq (sname : String) (v : Val) : Bytes :=
  match encodeCmd (findStructG sname) v with
  | .ok b => b
  | .error _ => []

/-! ### `inner::connect` -/

/-- run a `once` exchange during the handshake; `none` = hang (the world is the one at the moment the wait began). -/
def onceExchange (d : SeqDesc) (deadline : Nat) (w : World) (c : ConnSt) : Option Item × World × ConnSt :=
  match seqNext d deadline w c .start with
  | (.hang, w, c, _) => (none, w, c)
  | (.ended, w, c, _) => (some .err, w, c)
  | (.item i, w, c, _) => (some i, w, c)

def registrationCmd (cfg : Cfg) : Bytes :=
  encodeReq "packets::Registration" (.struct [.num cfg.password, .num 0xde, .some (.num cfg.currency), .none])

def sysInfoCmd : Bytes :=
  encodeReq "feig::packets::CVendFunctions" (.struct [.none, .num 1])

def strOf : Val → List Nat
  | .str cs => cs
  | _ => []

/-- `inner::connect` under the `TIMEOUT` guard: the new world and whether a vetted connection is live. -/
def connect (cfg : Cfg) (w : World) : World × Bool :=
  let t0 := w.now
  let k := w.logs.length
  let dir := w.connects.getD k "accept"
  if dir = "refuse" then ({ w with logs := w.logs ++ [[.refuse t0]] }, false)
  else if dir = "stall" then ({ w with logs := w.logs ++ [[.stall t0]], now := t0 + TIMEOUT }, false)
  else
    let w := { w with logs := w.logs ++ [[.opened t0]] }
    let c : ConnSt := { id := k }
    match onceExchange (seqDesc "sequences::Registration" (registrationCmd cfg)) (t0 + TIMEOUT) w c with
    | (none, w, c) => (dropConn { w with now := t0 + TIMEOUT } c, false)    -- hang: the TIMEOUT guard fires
    | (some .err, w, c) => (dropConn w c, false)
    | (some (.ok _ _), w, c) =>
      match onceExchange (seqDesc "feig::sequences::GetSystemInfo" sysInfoCmd) (t0 + TIMEOUT) w c with
      | (none, w, c) => (dropConn { w with now := t0 + TIMEOUT } c, false)
      | (some .err, w, c) => (dropConn w c, false)
      | (some (.ok i v), w, c) =>
        if i = 0 then
          let s := findStructG "feig::packets::CVendFunctionsEnhancedSystemInformationCompletion"
          let actual := (strOf (fieldOf s v "device_id")).map lowerCp
          if actual = cfg.serial.map lowerCp then ({ w with conn := some c }, true)
          else (dropConn w c, false)
        else (dropConn w c, false)

/-! ### `into_stream_with_retry` folded with the caller's loop -/

/-- the caller's `while let Some(r) = stream.next().await` body: continue with a new state or leave early. -/
inductive Step (σ ρ : Type) where
  | cont (s : σ)
  | ret (r : ρ)

/-- the items of one attempt on a live connection. Returns the new state / early result, the world, and
whether the attempt failed (`is_err`). -/
def runItems {σ ρ : Type} (d : SeqDesc) (timeout : Nat) (step : σ → Item → Step σ ρ) :
    Nat → World → ConnSt → SeqSt → σ → (Step σ ρ) × World × Bool
  | 0, w, c, _, s => (.cont s, { w with conn := some c }, false)
  | fuel + 1, w, c, st, s =>
    let t0 := w.now
    match seqNext d (t0 + timeout) w c st with
    | (.ended, w, c, _) => (.cont s, { w with conn := some c }, false)
    | (.hang, w, c, _) => (.cont s, dropConn { w with now := t0 + timeout } c, true)
    | (.item .err, w, c, _) =>
      match step s .err with
      -- a caller that leaves its loop ON the error item drops the stream before `src.inner = None` is reached
      -- (that statement only runs when the stream is polled again): the connection stays cached. No caller in
      -- feig.rs does this — every loop body `continue`s on an `Err` item — but the model says what the code would do.
      | .ret r => (.ret r, { w with conn := some c }, true)
      | .cont s' => (.cont s', dropConn w c, true)
    | (.item (.ok i v), w, c, st') =>
      match step s (.ok i v) with
      | .ret r => (.ret r, { w with conn := some c }, false)
      | .cont s' => runItems d timeout step fuel w c st' s'

/-- when the throttled retry stream yields its next item. -/
def throttleStart (prev : Option Nat) (now : Nat) : Nat :=
  match prev with
  | none => now
  | some p => max now (p + THROTTLE)

/-- `if src.inner.is_none() { connect }` -/
def ensureConn (cfg : Cfg) (w : World) : World × Bool :=
  match w.conn with
  | some _ => (w, true)
  | none => connect cfg w

/-- the retry loop: up to `ATTEMPTS` attempts, throttled. -/
def retryLoop {σ ρ : Type} (cfg : Cfg) (d : SeqDesc) (timeout : Nat) (step : σ → Item → Step σ ρ) :
    Nat → Option Nat → World → σ → (Step σ ρ) × World
  | 0, _, w, s => (.cont s, w)
  | n + 1, prevStart, w, s =>
    match ensureConn cfg { w with now := throttleStart prevStart w.now } with
    | (w1, false) =>
      match step s .err with
      | .ret r => (.ret r, w1)
      | .cont s' => retryLoop cfg d timeout step n (some (throttleStart prevStart w.now)) w1 s'
    | (w1, true) =>
      match w1.conn with
      | none => (.cont s, w1)
      | some c =>
        match runItems d timeout step ITEM_FUEL w1 c .start s with
        | (.ret r, w2, _) => (.ret r, w2)
        | (.cont s', w2, true) => retryLoop cfg d timeout step n (some (throttleStart prevStart w.now)) w2 s'
        | (.cont s', w2, false) => (.cont s', w2)

def runOp {σ ρ : Type} (cfg : Cfg) (seqName : String) (cmd : Bytes) (timeout : Nat)
    (step : σ → Item → Step σ ρ) (w : World) (s : σ) : (Step σ ρ) × World :=
  retryLoop cfg (seqDesc seqName cmd) timeout step ATTEMPTS none w s

/-! ### the `Feig` client -/

inductive CErr where
  | zvt (e : Err)
  | unexpectedPacket
  | activeMax | activeInUse
  | noCard
  | unknownToken (t : List Nat)
  | needsPin
  | other (msg : String)
  deriving Repr

abbrev CRes (α : Type) := Except CErr α

structure Client where
  txs : List (List Nat × Nat) := []     -- token -> receipt number
  deriving Repr

def numOf : Val → Option Nat
  | .some (.num n) => some n
  | .num n => some n
  | _ => none

def abortStruct := findStructG "packets::Abort"
def prAbortStruct := findStructG "packets::PartialReversalAbort"
def statusStruct := findStructG "packets::StatusInformation"

def errorCode (s : StructDef) (v : Val) : Nat := (numOf (fieldOf s v "error")).getD 0

def variantName (e : EnumDef) (i : Nat) : String := (e.variants[i]?.map (·.1)).getD "?"

/-- the caller's loop body of `get_system_info`. -/
def sysInfoStep (e : EnumDef) : Unit → Item → Step Unit (CRes Val) := fun _ it =>
  match it with
  | .err => .cont ()
  | .ok i v => if variantName e i = "Abort" then .ret (.error (.zvt (.aborted (errorCode abortStruct v)))) else .ret (.ok v)

/-- `get_system_info` -/
def getSystemInfo (cfg : Cfg) (w : World) : CRes Val × World :=
  match runOp cfg "feig::sequences::GetSystemInfo" sysInfoCmd TIMEOUT
      (sysInfoStep (findEnumG "feig::sequences::GetSystemInfoResponse")) w () with
  | (.ret r, w) => (r, w)
  | (.cont _, w) => (.error (.zvt .incomplete), w)

def isDigits (cs : List Nat) : Bool := !cs.isEmpty && cs.all fun c => 48 ≤ c ∧ c ≤ 57
def digitsVal (cs : List Nat) : Nat := cs.foldl (fun a c => a * 10 + (c - 48)) 0

/-- lift a decision on decoded packets to the caller's loop body (`Err` items are skipped with `continue`). -/
def liftStep (onOk : Nat → Val → Step Unit (CRes Unit)) : Unit → Item → Step Unit (CRes Unit) := fun _ it =>
  match it with
  | .err => .cont ()
  | .ok i v => onOk i v

def simpleOp (cfg : Cfg) (seqName : String) (cmd : Bytes) (w : World)
    (onOk : EnumDef → Nat → Val → Step Unit (CRes Unit)) : CRes Unit × World :=
  match runOp cfg seqName cmd TIMEOUT (liftStep (onOk (seqDesc seqName cmd).enum)) w () with
  | (.ret r, w) => (r, w)
  | (.cont _, w) => (.error (.zvt .incomplete), w)

/-- decisions of the individual operations on a decoded reply packet -/
def setTidDecide (e : EnumDef) (i : Nat) (v : Val) : Step Unit (CRes Unit) :=
  if variantName e i = "CompletionData" then .ret (.ok ())
  else .ret (.error (.zvt (.aborted (errorCode abortStruct v))))

def initDecide (e : EnumDef) (i : Nat) (v : Val) : Step Unit (CRes Unit) :=
  let n := variantName e i
  if n = "CompletionData" then .ret (.ok ())
  else if n = "Abort" then .ret (.error (.zvt (.aborted (errorCode abortStruct v))))
  else .cont ()

def reversalDecide (e : EnumDef) (i : Nat) (v : Val) : Step Unit (CRes Unit) :=
  let n := variantName e i
  if n = "CompletionData" then .ret (.ok ())
  else if n = "PartialReversalAbort" then .ret (.error (.zvt (.aborted (errorCode prAbortStruct v))))
  else .cont ()

def eodDecide (e : EnumDef) (i : Nat) (v : Val) : Step Unit (CRes Unit) :=
  let n := variantName e i
  if n = "CompletionData" then .ret (.ok ())
  else if n = "Abort" then
    let c := errorCode prAbortStruct v
    if c = 0xa0 then .ret (.ok ()) else .ret (.error (.zvt (.aborted c)))
  else .cont ()

/-- `set_terminal_id` -/
def setTerminalId (cfg : Cfg) (w : World) : CRes Unit × World :=
  match getSystemInfo cfg w with
  | (.error e, w) => (.error e, w)
  | (.ok info, w) =>
    let s := findStructG "feig::packets::CVendFunctionsEnhancedSystemInformationCompletion"
    if cfg.terminalId = strOf (fieldOf s info "terminal_id") then (.ok (), w)
    else if ¬ isDigits cfg.terminalId then (.error (.other "invalid digit found in string"), w)
    else
      let cmd := encodeReq "packets::SetTerminalId" (.struct [.num cfg.password, .some (.num (digitsVal cfg.terminalId))])
      simpleOp cfg "sequences::SetTerminalId" cmd w setTidDecide

/-- `initialize` -/
def initializeT (cfg : Cfg) (w : World) : CRes Unit × World :=
  let cmd := encodeReq "packets::Initialization" (.struct [.num cfg.password])
  simpleOp cfg "sequences::Initialization" cmd w initDecide

/-- `cancel_transaction_by_receipt_no` -/
def cancelByReceipt (cfg : Cfg) (receipt : Nat) (w : World) : CRes Unit × World :=
  let cmd := encodeReq "packets::PreAuthReversal" (.struct [.some (.num 0x40), .some (.num cfg.currency), .some (.num receipt)])
  simpleOp cfg "sequences::PreAuthReversal" cmd w reversalDecide

def pendingCmd : Bytes :=
  encodeReq "packets::PartialReversal" (.struct [.some (.num 0xffff), .none, .none, .none, .none])

/-- the caller's loop body of `get_pending`. -/
def pendingStep (e : EnumDef) : Unit → Item → Step Unit (CRes (List Nat)) := fun _ it =>
  match it with
  | .err => .cont ()
  | .ok i v =>
    if variantName e i = "PartialReversalAbort" then
      match numOf (fieldOf prAbortStruct v "receipt_no") with
      | none => .ret (.ok [])
      | some r => if r = 0xffff then .ret (.ok []) else .ret (.ok [r])
    else .ret (.error .unexpectedPacket)

/-- `get_pending` -/
def getPending (cfg : Cfg) (w : World) : CRes (List Nat) × World :=
  match runOp cfg "sequences::PartialReversal" pendingCmd TIMEOUT
      (pendingStep (findEnumG "sequences::PartialReversalResponse")) w () with
  | (.ret r, w) => (r, w)
  | (.cont _, w) => (.error (.zvt .incomplete), w)

def cancelAll (cfg : Cfg) : List Nat → World → CRes Unit × World
  | [], w => (.ok (), w)
  | r :: rs, w =>
    match cancelByReceipt cfg r w with
    | (.error e, w) => (.error e, w)
    | (.ok _, w) => cancelAll cfg rs w

/-- `end_of_day` (with `cancel_pending`, which forgets all tokens first). -/
def endOfDay (cfg : Cfg) (cl : Client) (w : World) : CRes Unit × Client × World :=
  let cl : Client := { txs := [] }
  match getPending cfg w with
  | (.error e, w) => (.error e, cl, w)
  | (.ok pend, w) =>
    match cancelAll cfg pend w with
    | (.error e, w) => (.error e, cl, w)
    | (.ok _, w) =>
      let cmd := encodeReq "packets::EndOfDay" (.struct [.num cfg.password])
      let (r, w) := simpleOp cfg "sequences::EndOfDay" cmd w eodDecide
      (r, cl, w)

/-- `configure` -/
def configure (cfg : Cfg) (cl : Client) (w : World) : CRes Unit × Client × World :=
  match setTerminalId cfg w with
  | (.error e, w) => (.error e, cl, w)
  | (.ok _, w) =>
    match initializeT cfg w with
    | (.error e, w) => (.error e, cl, w)
    | (.ok _, w) => endOfDay cfg cl w

/-- message of a result code (`ErrorMessages::from_u8` + `Display`). -/
def errorMessage (c : Nat) : Option String :=
  (Generated.errorTable.find? (·.1 = c)).map (·.2.2)

def hexUpper (n : Nat) : String :=
  let d := fun k => Char.ofNat (if k < 10 then 48 + k else 55 + k)
  if n < 16 then String.ofList [d n] else String.ofList [d (n / 16), d (n % 16)]

inductive Card where
  | bank
  | member (id : List Nat)
  deriving Repr

/-- canonical membership id: upper case; longer than 14 → last 14, minus a leading 000000. -/
def canonUid (uid : List Nat) : List Nat :=
  let u := uid.map upperAscii
  if u.length > 14 then
    let t := u.drop (u.length - 14)
    if t.take 6 = [48, 48, 48, 48, 48, 48] then t.drop 6 else t
  else u

def tlvStatusStruct := findStructG "packets::tlv::StatusInformation"
def subsStruct := findStructG "packets::tlv::Subs"

/-- the decision `read_card` takes on a status-information packet. -/
def classifyStatus (v : Val) : CRes Card :=
  match fieldOf statusStruct v "tlv" with
  | .some tlv =>
    match fieldOf tlvStatusStruct tlv "subs" with
    | .vec (sub0 :: _) =>
      match fieldOf subsStruct sub0 "application_id" with
      | .some _ => .ok .bank
      | _ => .error (.other "Unknown card type")
    | _ =>
      match fieldOf tlvStatusStruct tlv "uuid" with
      | .some (.str u) => .ok (.member (canonUid u))
      | _ => .error (.zvt .incomplete)
  | _ => .error (.zvt .incomplete)

/-- the decision `read_card` takes on an abort. -/
def readCardAbort (c : Nat) : CErr :=
  match errorMessage c with
  | none => .other ("Unknown error code: 0x" ++ hexUpper c)
  | some m => if c = 0x6c then .noCard else .other ("Unhandled error: " ++ m)

/-- `timeout_sec as u64 + 2` (after the repair of defect D6). -/
def readCardTimeoutOf (t : Nat) : Nat := t + 2

def readCardCmd (cfg : Cfg) : Bytes :=
  encodeReq "packets::ReadCard" (.struct [.num cfg.readCardTimeout, .some (.num 0x10), .some (.num 0x02),
    .some (.struct [.some (.num 0xd0), .some (.num 0x07)])])

/-- the caller's loop body of `read_card`. -/
def readCardStep (e : EnumDef) : Option Card → Item → Step (Option Card) (CRes Card) := fun s it =>
  match it with
  | .err => .cont s
  | .ok i v =>
    let n := variantName e i
    if n = "Abort" then .ret (.error (readCardAbort (errorCode abortStruct v)))
    else if n = "StatusInformation" then
      match classifyStatus v with
      | .ok c => .cont (some c)
      | .error er => .ret (.error er)
    else .cont s

/-- `read_card` -/
def readCard (cfg : Cfg) (w : World) : CRes Card × World :=
  match runOp cfg "sequences::ReadCard" (readCardCmd cfg) (readCardTimeoutOf cfg.readCardTimeout)
      (readCardStep (findEnumG "sequences::ReadCardResponse")) w none with
  | (.ret r, w) => (r, w)
  | (.cont (some c), w) => (.ok c, w)
  | (.cont none, w) => (.error (.zvt .incomplete), w)

def bmp60 (token : List Nat) : Val :=
  .some (.struct [.some (.struct [.str [65, 67], .str token])])

def reservationCmd (cfg : Cfg) (token : List Nat) : Bytes :=
  encodeReq "packets::Reservation" (.struct [.some (.num cfg.amount), .some (.num cfg.currency), .some (.num 0x40),
    .none, .none, .none, .none, .none, .none, .none, .none, .none, .none, bmp60 token])

/-- the decision `begin_transaction` takes on an abort. -/
def beginAbort (c : Nat) : CErr :=
  match errorMessage c with
  | none => .other ("Unknown error code: 0x" ++ hexUpper c)
  | some _ => if c = 0xfc then .needsPin else .zvt (.aborted c)

/-- how `begin_transaction` folds the outcome of the reservation exchange into the token map. -/
def beginFold (cl : Client) (token : List Nat) (res : Step (Option Nat) (CRes Unit) × World) : CRes Unit × Client × World :=
  match res with
  | (.ret r, w) => (r, cl, w)
  | (.cont none, w) => (.error (.zvt .incomplete), cl, w)
  | (.cont (some r), w) => (.ok (), { txs := (token, r) :: cl.txs.filter (·.1 ≠ token) }, w)

/-- the caller's loop body of `begin_transaction`. -/
def beginStep (e : EnumDef) : Option Nat → Item → Step (Option Nat) (CRes Unit) := fun s it =>
  match it with
  | .err => .cont s
  | .ok i v =>
    let n := variantName e i
    if n = "Abort" then .ret (.error (beginAbort (errorCode abortStruct v)))
    else if n = "StatusInformation" then
      match numOf (fieldOf statusStruct v "receipt_no") with
      | some r => .cont (some r)
      | none => .cont s
    else .cont s

/-- `begin_transaction` -/
def beginTx (cfg : Cfg) (cl : Client) (token : List Nat) (w : World) : CRes Unit × Client × World :=
  if cl.txs.length = cfg.maxTx then (.error .activeMax, cl, w)
  else if cl.txs.any (·.1 = token) then (.error .activeInUse, cl, w)
  else
    beginFold cl token
      (runOp cfg "sequences::Reservation" (reservationCmd cfg token) TIMEOUT
        (beginStep (findEnumG "sequences::AuthorizationResponse")) w none)

/-- what `cancel_transaction` / `commit_transaction` do after their own exchange: end-of-day iff no token is open. -/
def idleCleanup (cfg : Cfg) (cl : Client) (w : World) : CRes Unit × Client × World :=
  if cl.txs.isEmpty then endOfDay cfg cl w else (.ok (), cl, w)

/-- how `cancel_transaction` continues after the reversal exchange. -/
def cancelFold (cfg : Cfg) (cl : Client) (res : CRes Unit × World) : CRes Unit × Client × World :=
  match res with
  | (.error e, w) => (.error e, cl, w)
  | (.ok _, w) => idleCleanup cfg cl w

/-- `cancel_transaction` -/
def cancelTx (cfg : Cfg) (cl : Client) (token : List Nat) (w : World) : CRes Unit × Client × World :=
  match cl.txs.find? (·.1 = token) with
  | none => (.error (.unknownToken token), cl, w)
  | some (_, receipt) => cancelFold cfg { txs := cl.txs.filter (·.1 ≠ token) } (cancelByReceipt cfg receipt w)

structure Summary where
  terminalId : Option Nat
  amount : Option Nat
  trace : Option Nat
  date : Option Nat
  time : Option Nat
  deriving Repr

/-- `pre_authorization_amount.saturating_sub(amount as usize)` on a 64-bit target. -/
def reversalAmount (preauth final : Nat) : Nat := preauth - final

def commitCmd (cfg : Cfg) (token : List Nat) (receipt final : Nat) : Bytes :=
  encodeReq "packets::PartialReversal" (.struct [.some (.num receipt), .some (.num (reversalAmount cfg.amount final)),
    .some (.num 0x40), .some (.num cfg.currency), bmp60 token])

def summaryOf (v : Val) : Summary :=
  { terminalId := numOf (fieldOf statusStruct v "terminal_id"), amount := numOf (fieldOf statusStruct v "amount"),
    trace := numOf (fieldOf statusStruct v "trace_number"), date := numOf (fieldOf statusStruct v "date"),
    time := numOf (fieldOf statusStruct v "time") }

/-- the caller's loop body of `commit_transaction`. -/
def commitStep (e : EnumDef) : Option Val → Item → Step (Option Val) (CRes Summary) := fun s it =>
  match it with
  | .err => .cont s
  | .ok i v =>
    let n := variantName e i
    if n = "StatusInformation" then .cont (some v)
    else if n = "PartialReversalAbort" then .ret (.error (.zvt (.aborted (errorCode prAbortStruct v))))
    else .cont s

/-- how `commit_transaction` continues after the partial-reversal exchange. -/
def commitFold (cfg : Cfg) (cl : Client) (res : Step (Option Val) (CRes Summary) × World) : CRes Summary × Client × World :=
  match res with
  | (.ret r, w) => (r, cl, w)
  | (.cont st, w) =>
    match idleCleanup cfg cl w with
    | (.error er, cl, w) => (.error er, cl, w)
    | (.ok _, cl, w) =>
      match st with
      | none => (.error (.zvt .incomplete), cl, w)
      | some v => (.ok (summaryOf v), cl, w)

/-- `commit_transaction` -/
def commitTx (cfg : Cfg) (cl : Client) (token : List Nat) (final : Nat) (w : World) : CRes Summary × Client × World :=
  match cl.txs.find? (·.1 = token) with
  | none => (.error (.unknownToken token), cl, w)
  | some (_, receipt) =>
    commitFold cfg { txs := cl.txs.filter (·.1 ≠ token) }
      (runOp cfg "sequences::PartialReversal" (commitCmd cfg token receipt final) TIMEOUT
        (commitStep (findEnumG "sequences::PartialReversalResponse")) w none)

end Zvt
