/-
  Encoding.lean — mirror of zvt_builder/src/encoding.rs (`Default`, `BigEndian`, `Bcd`,
  `Hex`, `Utf8`, the two `Encoding<Tag>` impls, `Encoding<NaiveDateTime>`), of
  `PartialReversalReceiptNo` (zvt/src/packets.rs) and `Custom` (zvt/src/feig/packets/tlv.rs).

  Strings are lists of Unicode code points (`List Nat`).
-/
import ZvtVerif.Length
namespace Zvt

/-! ### Tags -/

/-- `Encoding<Tag> for Default::encode`: two bytes iff the high byte is 1F or FF, else the
low byte only (a high byte other than 1F/FF is silently dropped by `as u8`). -/
def tagEncDefault (t : Nat) : Bytes :=
  let hi := t / 256
  if hi = 0x1f ∨ hi = 0xff then beBytes 2 t else [byte t]

/-- `Encoding<Tag> for Default::decode`. -/
def tagDecDefault (b : Bytes) : Res (Nat × Bytes) :=
  match b with
  | [] => .error .incomplete
  | t :: rest =>
    if t.toNat = 0x1f ∨ t.toNat = 0xff then
      match rest with
      | [] => .error .incomplete
      | l :: rest' => .ok (t.toNat * 256 + l.toNat, rest')
    else .ok (t.toNat, rest)

/-- `Encoding<Tag> for BigEndian` (used for the class/instr control field). -/
def tagEncBE (t : Nat) : Bytes := beBytes 2 t
def tagDecBE (b : Bytes) : Res (Nat × Bytes) := intDecode true 2 b

/-! ### Packed BCD -/

/-- `bcd_integrals!::encode`: two decimal digits per byte, most significant first, no
padding (0 encodes as the empty string). -/
def bcdEnc (k : Nat) : Bytes :=
  if h : k = 0 then [] else bcdEnc (k / 100) ++ [byte ((k / 10 % 10) * 16 + k % 10)]
decreasing_by omega

/-- the same function by structural recursion on a fuel argument (kernel-evaluable; `bcdEncK_eq` in
Proofs/EncodingLemmas.lean shows `bcdEncK k = bcdEnc k`). -/
def bcdEncFuel : Nat → Nat → Bytes
  | 0, _ => []
  | fuel + 1, k => if k = 0 then [] else bcdEncFuel fuel (k / 100) ++ [byte ((k / 10 % 10) * 16 + k % 10)]

def bcdEncK (k : Nat) : Bytes := bcdEncFuel k k

/-- One step of `bcd_integrals!::decode` with checked arithmetic (after the repair of
defect D2): the new accumulator, or an error if it does not fit `w` bytes. -/
def bcdStep (w : Nat) (rv : Nat) (d : UInt8) : Res Nat :=
  let high := d.toNat / 16
  let low := d.toNat % 16
  let nx := if low ≠ 15 then rv * 100 + high * 10 + low else rv * 10 + high
  if nx < 256 ^ w then .ok nx else .error .incomplete

def bcdDecFrom (w : Nat) : Nat → Bytes → Res Nat
  | rv, [] => .ok rv
  | rv, d :: ds =>
    match bcdStep w rv d with
    | .error e => .error e
    | .ok nx => bcdDecFrom w nx ds

/-- `bcd_integrals!::decode`: consumes the whole input. -/
def bcdDec (w : Nat) (data : Bytes) : Res (Nat × Bytes) :=
  match bcdDecFrom w 0 data with
  | .error e => .error e
  | .ok n => .ok (n, [])

/-! ### `PartialReversalReceiptNo` -/

def prrnEnc (n : Nat) : Bytes :=
  if n = 0xffff then leBytes 2 n else bcdEncK n

def prrnDec (w : Nat) (b : Bytes) : Res (Nat × Bytes) :=
  match b with
  | b0 :: b1 :: rest =>
    if b0 = 0xff ∧ b1 = 0xff then .ok (0xffff, rest)
    else
      match bcdDec w [b0, b1] with
      | .error e => .error e
      | .ok (n, _) => .ok (n, rest)
  | _ => .error .incomplete

/-! ### Text -/

/-- Upper half of yore's CP437 table (bytes 0x80..0xFF); the lower half is the identity. -/
def cp437High : List Nat :=
  [199, 252, 233, 226, 228, 224, 229, 231, 234, 235, 232, 239, 238, 236, 196, 197, 201, 230, 198,
   244, 246, 242, 251, 249, 255, 214, 220, 162, 163, 165, 8359, 402, 225, 237, 243, 250, 241, 209,
   170, 186, 191, 8976, 172, 189, 188, 161, 171, 187, 9617, 9618, 9619, 9474, 9508, 9569, 9570,
   9558, 9557, 9571, 9553, 9559, 9565, 9564, 9563, 9488, 9492, 9524, 9516, 9500, 9472, 9532, 9566,
   9567, 9562, 9556, 9577, 9574, 9568, 9552, 9580, 9575, 9576, 9572, 9573, 9561, 9560, 9554, 9555,
   9579, 9578, 9496, 9484, 9608, 9604, 9612, 9616, 9600, 945, 223, 915, 960, 931, 963, 181, 964,
   934, 920, 937, 948, 8734, 966, 949, 8745, 8801, 177, 8805, 8804, 8992, 8993, 247, 8776, 176,
   8729, 183, 8730, 8319, 178, 9632, 160]

/-- `CP437.decode` of one byte. -/
def cpDecode (b : UInt8) : Nat :=
  if b.toNat < 128 then b.toNat else cp437High.getD (b.toNat - 128) 0

/-- position of `c` in a table, counted from `i`. -/
def idxIn (c : Nat) : List Nat → Nat → Option Nat
  | [], _ => none
  | x :: xs, i => if x = c then some i else idxIn c xs (i + 1)

/-- `CP437.encode` of one character (`none`: not in the repertoire; the Rust code
`unwrap`s, i.e. panics). -/
def cpEncode (c : Nat) : Option UInt8 :=
  if c < 128 then some (byte c)
  else
    match idxIn c cp437High 0 with
    | some i => some (byte (128 + i))
    | none => none

/-- `str.trim_end_matches('\0')`. -/
def trimNul (cs : List Nat) : List Nat :=
  (cs.reverse.dropWhile (· = 0)).reverse

/-- `Encoding<String> for Default::decode`: consumes everything. -/
def cpDecodeStr (b : Bytes) : List Nat := trimNul (b.map cpDecode)

def cpEncodeStr : List Nat → Res Bytes
  | [] => .ok []
  | c :: cs =>
    match cpEncode c with
    | none => .error (.panic "unwrap")
    | some b =>
      match cpEncodeStr cs with
      | .error e => .error e
      | .ok bs => .ok (b :: bs)

def hexDigit (n : Nat) : Nat := if n < 10 then 48 + n else 87 + n   -- '0'.. / 'a'..

/-- `data.encode_hex()`: lower-case. -/
def hexDecodeStr : Bytes → List Nat
  | [] => []
  | b :: bs => hexDigit (b.toNat / 16) :: hexDigit (b.toNat % 16) :: hexDecodeStr bs

/-- value of one hex digit as accepted by `hex::FromHex` (both cases). -/
def hexVal (c : Nat) : Option Nat :=
  if 48 ≤ c ∧ c ≤ 57 then some (c - 48)
  else if 97 ≤ c ∧ c ≤ 102 then some (c - 87)
  else if 65 ≤ c ∧ c ≤ 70 then some (c - 55)
  else none

/-- `Vec::from_hex(..).unwrap()`: odd length or a non-hex character panics. -/
def hexEncodeStr : List Nat → Res Bytes
  | [] => .ok []
  | [_] => .error (.panic "unwrap")
  | h :: l :: cs =>
    match hexVal h, hexVal l with
    | some hv, some lv =>
      match hexEncodeStr cs with
      | .error e => .error e
      | .ok bs => .ok (byte (hv * 16 + lv) :: bs)
    | _, _ => .error (.panic "unwrap")

/-! UTF-8 (mirror of `String::from_utf8` / `as_bytes`), written out so that it does not
depend on the Lean runtime's string representation. -/

def utf8EncodeChar (c : Nat) : Bytes :=
  if c < 0x80 then [byte c]
  else if c < 0x800 then [byte (0xc0 + c / 64), byte (0x80 + c % 64)]
  else if c < 0x10000 then [byte (0xe0 + c / 4096), byte (0x80 + c / 64 % 64), byte (0x80 + c % 64)]
  else [byte (0xf0 + c / 262144), byte (0x80 + c / 4096 % 64), byte (0x80 + c / 64 % 64), byte (0x80 + c % 64)]

def utf8Encode (cs : List Nat) : Bytes := cs.flatMap utf8EncodeChar

def isCont (b : UInt8) : Bool := 0x80 ≤ b.toNat ∧ b.toNat < 0xc0

/-- strict UTF-8 decoding: no overlong forms, no surrogates, nothing above U+10FFFF. -/
def utf8DecodeFuel : Nat → Bytes → Option (List Nat)
  | 0, _ => none
  | _ + 1, [] => some []
  | f + 1, b0 :: rest =>
    let n0 := b0.toNat
    if n0 < 0x80 then (utf8DecodeFuel f rest).map (n0 :: ·)
    else if 0xc2 ≤ n0 ∧ n0 < 0xe0 then
      match rest with
      | b1 :: r =>
        if isCont b1 then (utf8DecodeFuel f r).map (((n0 - 0xc0) * 64 + (b1.toNat - 0x80)) :: ·) else none
      | _ => none
    else if 0xe0 ≤ n0 ∧ n0 < 0xf0 then
      match rest with
      | b1 :: b2 :: r =>
        let c := (n0 - 0xe0) * 4096 + (b1.toNat - 0x80) * 64 + (b2.toNat - 0x80)
        if isCont b1 ∧ isCont b2 ∧ 0x800 ≤ c ∧ ¬ (0xd800 ≤ c ∧ c < 0xe000) then
          (utf8DecodeFuel f r).map (c :: ·) else none
      | _ => none
    else if 0xf0 ≤ n0 ∧ n0 < 0xf5 then
      match rest with
      | b1 :: b2 :: b3 :: r =>
        let c := (n0 - 0xf0) * 262144 + (b1.toNat - 0x80) * 4096 + (b2.toNat - 0x80) * 64 + (b3.toNat - 0x80)
        if isCont b1 ∧ isCont b2 ∧ isCont b3 ∧ 0x10000 ≤ c ∧ c < 0x110000 then
          (utf8DecodeFuel f r).map (c :: ·) else none
      | _ => none
    else none

def utf8Decode (b : Bytes) : Option (List Nat) := utf8DecodeFuel (b.length + 1) b

/-! ### Date-time (`Encoding<NaiveDateTime> for Default`, after the repairs D3/D4) -/

def isLeap (y : Nat) : Bool := (y % 4 = 0 ∧ y % 100 ≠ 0) ∨ y % 400 = 0

def daysInMonth (y m : Nat) : Nat :=
  if m = 2 then (if isLeap y then 29 else 28)
  else if m = 4 ∨ m = 6 ∨ m = 9 ∨ m = 11 then 30
  else if 1 ≤ m ∧ m ≤ 12 then 31 else 0

/-- chrono 0.4.31: `NaiveDate::from_ymd_opt` accepts years up to `i32::MAX >> 13`. -/
def maxYear : Nat := 262143

def validDate (y m d : Nat) : Bool := y ≤ maxYear ∧ 1 ≤ d ∧ d ≤ daysInMonth y m

def validTime (h mi s : Nat) : Bool := h < 24 ∧ mi < 60 ∧ s < 60

end Zvt
