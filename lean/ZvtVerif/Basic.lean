/-
  Basic.lean — byte strings, the error type of the Rust code (`ZVTError` plus the
  outcomes a Lean function cannot have by itself: a Rust panic and non-termination),
  and integer <-> byte-string conversions (mirror of `encode_integral!`).

  Import-free on purpose: everything under ZvtVerif/ that is not in Proofs/ or
  Properties/ is linked into the `driver` executable.
-/
namespace Zvt

abbrev Bytes := List UInt8

/-- `ZVTError` of zvt_builder/src/lib.rs, plus `panic` (a Rust panic: index out of
bounds, arithmetic overflow, `unwrap` on `None`/`Err`, explicit `panic!`) and
`outOfFuel` (the Rust loop would not terminate). The two extra constructors are what
gives the "decoding is total" theorems content. -/
inductive Err where
  | incomplete
  | missing (tags : List Nat)
  | nonImplemented
  | wrongTag (t : Nat)
  | duplicateTag (t : Nat)
  | aborted (c : Nat)
  | panic (kind : String)
  | outOfFuel
  deriving DecidableEq, Repr, Inhabited

abbrev Res (α : Type) := Except Err α

instance {ε α : Type} [DecidableEq ε] [DecidableEq α] : DecidableEq (Except ε α)
  | .ok a, .ok b => if h : a = b then isTrue (by rw [h]) else isFalse (by intro c; cases c; exact h rfl)
  | .error a, .error b => if h : a = b then isTrue (by rw [h]) else isFalse (by intro c; cases c; exact h rfl)
  | .ok _, .error _ => isFalse (by intro c; cases c)
  | .error _, .ok _ => isFalse (by intro c; cases c)

def Err.isPanic : Err → Bool
  | .panic _ => true
  | .outOfFuel => true
  | _ => false

def Res.isPanic {α} : Res α → Bool
  | .error e => e.isPanic
  | .ok _ => false

def byte (n : Nat) : UInt8 := UInt8.ofNat n

/-- `n.to_le_bytes()` for a `w`-byte integer. -/
def leBytes : Nat → Nat → Bytes
  | 0, _ => []
  | w + 1, n => byte (n % 256) :: leBytes w (n / 256)

/-- `n.to_be_bytes()` for a `w`-byte integer. -/
def beBytes (w n : Nat) : Bytes := (leBytes w n).reverse

/-- `from_le_bytes`. -/
def leVal : Bytes → Nat
  | [] => 0
  | b :: bs => b.toNat + 256 * leVal bs

/-- `from_be_bytes`. -/
def beVal (bs : Bytes) : Nat := leVal bs.reverse

/-- `encode_integral!`'s `decode`: needs `size` bytes, returns the rest. -/
def intDecode (be : Bool) (w : Nat) (data : Bytes) : Res (Nat × Bytes) :=
  if data.length < w then .error .incomplete
  else .ok ((if be then beVal else leVal) (data.take w), data.drop w)

def intEncode (be : Bool) (w n : Nat) : Bytes :=
  if be then beBytes w n else leBytes w n

end Zvt
