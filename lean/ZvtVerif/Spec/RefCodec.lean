/-
  RefCodec.lean — the REFERENCE ENCODER of the wire format, as a Lean function over a layout table
  (`StructDef`): how the ZVT / Feig specification describes a packet —

     <class> <instr> <APDU length> { <tag>? <length prefix>? <data> }*

  — written from the format description (decimal digit strings, shortest BER length, LLVAR digits,
  left zero padding, BCD digit pairs), not from the Rust code and not from the model of the Rust code
  (`Derive.lean`, `Encoding.lean`, `Length.lean`): it shares with them only the types (`StructDef`, `Val`),
  the CP437 code table and the UTF-8 encoder (both standard, both compared with the implementation
  on every run).  It is the Lean twin of `tools/refcodec.py`; the check of C03 runs both on the same
  values and compares the bytes (`ref TYPE VALUE` in the line protocol).

  `none` = the value is not representable in this layout (python: `NotRepresentable`).
-/
import ZvtVerif.Schema
namespace Zvt.Ref
open Zvt

/-! ### numbers as decimal digit strings -/

/-- decimal digits of `n`, most significant first; zero has none (`str(n) if n else ""`). Structural
recursion on a fuel argument so that the kernel can evaluate it. -/
def digitsFuel : Nat → Nat → List Nat
  | 0, _ => []
  | f + 1, n => if n = 0 then [] else digitsFuel f (n / 10) ++ [n % 10]

def digits (n : Nat) : List Nat := digitsFuel n n

/-- two digits per byte. -/
def pairs : List Nat → Bytes
  | a :: b :: r => byte (a * 16 + b) :: pairs r
  | _ => []

/-- a leading zero if the number of digits is odd. -/
def evenPad (d : List Nat) : List Nat := if d.length % 2 = 1 then 0 :: d else d

/-- packed BCD of a number: its decimal digits, two per byte, most significant first. -/
def bcd (n : Nat) : Bytes := pairs (evenPad (digits n))

/-- right-justify a digit string in a field of `k` digits (`str.rjust(k, "0")`). -/
def rjust (k : Nat) (d : List Nat) : List Nat := List.replicate (k - d.length) 0 ++ d

/-- right-justify a byte string in a field of `k` bytes (`bytes.rjust(k, b"\0")`). -/
def rjustBytes (k : Nat) (b : Bytes) : Bytes := List.replicate (k - b.length) 0 ++ b

/-! ### tag, length prefix -/

/-- a BMP / TLV number on the wire: one byte, or two bytes when the first is 1F or FF. -/
def tagBytes (t : Nat) : Option Bytes :=
  if t < 0x100 then
    if t = 0x1f ∨ t = 0xff then none else some [byte t]
  else if t / 256 = 0x1f ∨ t / 256 = 0xff then some [byte (t / 256), byte (t % 256)]
  else none

/-- BER-TLV length, shortest form. -/
def berLen (n : Nat) : Option Bytes :=
  if n < 128 then some [byte n]
  else if n < 256 then some [0x81, byte n]
  else if n < 65536 then some [0x82, byte (n / 256), byte (n % 256)]
  else none

def lengthPrefix : LenKind → Nat → Option Bytes
  | .empty, _ => some []
  | .temperature, _ => some []
  | .tlv, n => berLen n
  | .llv k, n => if n < 10 ^ k then some ((rjust k (digits n)).map fun d => byte (0xf0 + d)) else none
  | .fixed k, n => if n ≤ k then some (List.replicate (k - n) 0) else none     -- left padding with zero bytes
  | .adpu, n =>
    if n < 255 then some [byte n]
    else if n < 65536 then some [0xff, byte (n % 256), byte (n / 256)]
    else none
  | .unknown _, _ => none

/-! ### values -/

/-- `n.to_bytes(w, "little")`. -/
def intLE (w n : Nat) : Bytes := (List.range w).map fun i => byte (n / 256 ^ i % 256)

/-- `n.to_bytes(w, "big")`. -/
def intBE (w n : Nat) : Bytes := (List.range w).reverse.map fun i => byte (n / 256 ^ i % 256)

/-- one character in code page 437. -/
def cpChar (c : Nat) : Option UInt8 :=
  if c < 128 then some (byte c)
  else (cp437High.findIdx? (· == c)).map fun i => byte (128 + i)

def cpText : List Nat → Option Bytes
  | [] => some []
  | c :: cs =>
    match cpChar c, cpText cs with
    | some b, some bs => some (b :: bs)
    | _, _ => none

/-- a lower-case hex digit. -/
def hexNibble (c : Nat) : Option Nat :=
  if 48 ≤ c ∧ c ≤ 57 then some (c - 48) else if 97 ≤ c ∧ c ≤ 102 then some (c - 87) else none

def hexText : List Nat → Option Bytes
  | [] => some []
  | [_] => none
  | h :: l :: cs =>
    match hexNibble h, hexNibble l, hexText cs with
    | some a, some b, some r => some (byte (a * 16 + b) :: r)
    | _, _, _ => none

/-- the data bytes of a non-container value. -/
def leaf : Enc → Ty → Val → Option Bytes
  | .dflt, .int w, .num n => if n < 256 ^ w then some (intLE w n) else none
  | .bigEndian, .int w, .num n => if n < 256 ^ w then some (intBE w n) else none
  | .bcd, .int w, .num n => if n < 256 ^ w then some (bcd n) else none
  | .prrn, .int w, .num n => if n < 256 ^ w then (if n = 0xffff then some [0xff, 0xff] else some (bcd n)) else none
  | .dflt, .str, .str cs => cpText cs
  | .hex, .str, .str cs => hexText cs
  | .utf8, .str, .str cs => some (utf8Encode cs)
  | .custom, .bytes, .raw b => some b
  | .dflt, .dateTime, .dt d t =>
      some ([0x1f, 0x0e, 0x04] ++ rjustBytes 4 (bcd d) ++ [0x1f, 0x0f, 0x03] ++ rjustBytes 3 (bcd t))
  | _, _, _ => none

/-- `<TAG>? <LENGTH>? <DATA>`. -/
def triple (L : LenKind) (tag : Option Nat) (p : Option Bytes) : Option Bytes :=
  match p with
  | none => none
  | some p =>
    match lengthPrefix L p.length with
    | none => none
    | some l =>
      match tag with
      | none => some (l ++ p)
      | some t =>
        match tagBytes t with
        | none => none
        | some tb => some (tb ++ l ++ p)

def concatWith (f : Val → Option Bytes) : List Val → Option Bytes
  | [] => some []
  | v :: vs =>
    match f v, concatWith f vs with
    | some a, some b => some (a ++ b)
    | _, _ => none

mutual
/-- the bytes of one field value (an absent optional, an empty list and an empty byte string produce nothing;
every element of a list is a complete `<TAG><LENGTH><DATA>` of its own). -/
def field : Ty → LenKind → Enc → Option Nat → Val → Option Bytes
  | .opt t, L, E, tag, v =>
    match v with
    | .none => some []
    | .some x => field t L E tag x
    | _ => none
  | .vec t, L, E, tag, v =>
    match v with
    | .vec xs => concatWith (fun x => field t L E tag x) xs
    | _ => none
  | .bytes, L, E, tag, v =>
    match v with
    | .raw b => if b = [] then some [] else triple L tag (leaf E .bytes v)
    | _ => none
  | .struct fs, L, _, tag, v =>
    match v with
    | .struct vs => triple L tag (body fs vs)
    | _ => none
  | .int w, L, E, tag, v => triple L tag (leaf E (.int w) v)
  | .str, L, E, tag, v => triple L tag (leaf E .str v)
  | .dateTime, L, E, tag, v => triple L tag (leaf E .dateTime v)
termination_by structural t => t
/-- the fields of a packet or container, in the order of the table. -/
def body : List Field → List Val → Option Bytes
  | [], _ => some []
  | .mk _ tag L E ty :: fs, v :: vs =>
    match field ty L E tag v, body fs vs with
    | some a, some b => some (a ++ b)
    | _, _ => none
  | _ :: _, [] => none
termination_by structural fs => fs
end

/-- a command: class, instruction, APDU length, body; a plain container: just the body. -/
def encode (s : StructDef) (v : Val) : Option Bytes :=
  match v with
  | .struct vs =>
    match body s.fields vs with
    | none => none
    | some b =>
      match s.ctrl with
      | none => some b
      | some (c, i) =>
        if c < 256 ∧ i < 256 then
          match lengthPrefix .adpu b.length with
          | none => none
          | some l => some ([byte c, byte i] ++ l ++ b)
        else none
  | _ => none

end Zvt.Ref
