/-
  Derive.lean — the meaning of `#[derive(Zvt)]` and `#[derive(ZvtEnum)]` (zvt_derive/src/lib.rs)
  together with the `Option<T>` / `Vec<T>` / `Vec<u8>` overrides of `ZvtSerializerImpl`
  (zvt_builder/src/lib.rs, zvt/src/feig/packets/tlv.rs), as an interpreter over schemas.
-/
import ZvtVerif.Schema
namespace Zvt

/-- `Vec<T>::deserialize_tagged`: repeat while an element decodes (with the progress
guard added by the repair of defect D8). A Rust panic is not an `Err` and propagates. -/
def vecLoop (elem : Bytes → Res (Val × Bytes)) : Nat → Bytes → List Val → Res (Val × Bytes)
  | 0, _, _ => .error .outOfFuel
  | fuel + 1, bytes, items =>
    match elem bytes with
    | .error e => if e.isPanic then .error e else .ok (.vec items.reverse, bytes)
    | .ok (item, rest) =>
      if rest.length = bytes.length then .ok (.vec items.reverse, bytes)
      else vecLoop elem fuel rest (item :: items)

/-- The tag loop of the generated `decode`. `arm t bytes` is the `match tag.0` of the
macro: `none` for the `_ =>` arm, else the index of the first field with number `t` and the
result of its `deserialize_tagged(bytes, Some(Tag(t)))`. `acc`: decoded fields by index;
`seen`: `actual_tags`. -/
def tagLoop (arm : Nat → Bytes → Option (Nat × Res (Val × Bytes))) :
    Nat → Nat → Bytes → List (Nat × Val) → List Nat → Res (List (Nat × Val) × List Nat × Bytes)
  | 0, _, _, _, _ => .error .outOfFuel
  | fuel + 1, currLen, bytes, acc, seen =>
    if bytes.isEmpty ∨ currLen = bytes.length then .ok (acc, seen, bytes)
    else
      match tagDecDefault bytes with
      | .error _ => .ok (acc, seen, bytes)
      | .ok (t, _) =>
        match arm t bytes with
        | none => .ok (acc, seen, bytes)
        | some (idx, r) =>
          if seen.contains t then .error (.duplicateTag t)
          else
            match r with
            | .error e => .error e
            | .ok (v, rest) => tagLoop arm fuel bytes.length rest ((idx, v) :: acc) (t :: seen)

def insertSorted (x : Nat) : List Nat → List Nat
  | [] => [x]
  | y :: ys => if x < y then x :: y :: ys else if x = y then y :: ys else y :: insertSorted x ys

/-- sorted, duplicate-free (the Rust code collects a `HashSet<u16>` and sorts it). -/
def sortDedup (l : List Nat) : List Nat := l.foldr insertSorted []

/-- `required_tags`: numbers of tagged fields whose type is not `Option`/`Vec`. -/
def requiredTags (fs : List Field) : List Nat :=
  fs.filterMap fun f => if f.ty.isOptional then none else f.tag

/-- `<ty>::default()` for the tagged fields. -/
def Ty.dflt : Ty → Val
  | .int _ => .num 0
  | .str => .str []
  | .bytes => .raw []
  | .dateTime => .dt 19700101 0
  | .struct _ => .struct []     -- never observable: a mandatory field is either decoded or reported missing
  | .opt _ => .none
  | .vec _ => .vec []

def lookupIdx (i : Nat) : List (Nat × Val) → Option Val
  | [] => none
  | (j, v) :: r => if i = j then some v else lookupIdx i r

/-- build the struct value: positional fields from `pvals` in order, tagged fields from `acc`. -/
def assemble : List Field → List Val → List (Nat × Val) → Nat → List Val
  | [], _, _, _ => []
  | f :: fs, pvals, acc, i =>
    match f.tag with
    | none =>
      match pvals with
      | p :: ps => p :: assemble fs ps acc (i + 1)
      | [] => f.ty.dflt :: assemble fs [] acc (i + 1)
    | some _ => ((lookupIdx i acc).getD f.ty.dflt) :: assemble fs pvals acc (i + 1)

/-- `Vec<T>::serialize_tagged`: every element tagged on its own. -/
def serListWith (f : Val → Res Bytes) : List Val → Res Bytes
  | [] => .ok []
  | v :: vs =>
    match f v, serListWith f vs with
    | .ok a, .ok b => .ok (a ++ b)
    | .error e, _ => .error e
    | _, .error e => .error e

mutual
/-- `<ty as ZvtSerializerImpl<L, E>>::serialize_tagged(value, tag)` with the default tag encoding. -/
def Ty.ser : Ty → LenKind → Enc → Option Nat → Val → Res Bytes
  | .opt t, L, E, tag, v =>
    match v with
    | .none => .ok []
    | .some v' => Ty.ser t L E tag v'
    | _ => .error (.panic "ill-typed")
  | .vec t, L, E, tag, v =>
    match v with
    | .vec vs => serListWith (fun x => Ty.ser t L E tag x) vs
    | _ => .error (.panic "ill-typed")
  | .bytes, L, E, tag, v =>
    match v with
    | .raw b => if b.isEmpty then .ok [] else serTagged tagEncDefault L tag (leafEnc E .bytes v)
    | _ => .error (.panic "ill-typed")
  | .struct fs, L, _, tag, v =>
    match v with
    | .struct vs => serTagged tagEncDefault L tag (encFields fs vs)
    | _ => .error (.panic "ill-typed")
  | .int w, L, E, tag, v => serTagged tagEncDefault L tag (leafEnc E (.int w) v)
  | .str, L, E, tag, v => serTagged tagEncDefault L tag (leafEnc E .str v)
  | .dateTime, L, E, tag, v => serTagged tagEncDefault L tag (leafEnc E .dateTime v)
termination_by structural t => t
/-- the generated `encode`: all fields in declaration order. -/
def encFields : List Field → List Val → Res Bytes
  | [], _ => .ok []
  | .mk _ tag L E ty :: fs, v :: vs =>
    match Ty.ser ty L E tag v, encFields fs vs with
    | .ok a, .ok b => .ok (a ++ b)
    | .error e, _ => .error e
    | _, .error e => .error e
  | _ :: _, [] => .error (.panic "ill-typed")
termination_by structural fs => fs
end

/-- the generated `decode`, parametrised by the decoders of the positional prefix and of the tagged arms. -/
def decStructWith (decPosF : Bytes → Res (List Val × Bytes))
    (arm : Nat → Bytes → Option (Nat × Res (Val × Bytes))) (fs : List Field) (b : Bytes) : Res (Val × Bytes) :=
  match decPosF b with
  | .error e => .error e
  | .ok (pvals, rest) =>
    match tagLoop arm (rest.length + 2) (rest.length + 1) rest [] [] with
    | .error e => .error e
    | .ok (acc, seen, rest') =>
      let missing := sortDedup ((requiredTags fs).filter (fun t => ! seen.contains t))
      if missing.isEmpty then .ok (.struct (assemble fs pvals acc 0), rest')
      else .error (.missing missing)

mutual
/-- `<ty as ZvtSerializerImpl<L, E>>::deserialize_tagged(bytes, tag)`. -/
def Ty.de : Ty → LenKind → Enc → Option Nat → Bytes → Res (Val × Bytes)
  | .opt t, L, E, tag, b =>
    match tag with
    | some _ =>
      match Ty.de t L E tag b with
      | .error e => .error e
      | .ok (v, r) => .ok (.some v, r)
    | none =>
      match Ty.de t L E none b with
      | .error e => if e.isPanic then .error e else .ok (.none, b)
      | .ok (v, r) => .ok (.some v, r)
  | .vec t, L, E, tag, b => vecLoop (fun x => Ty.de t L E tag x) (b.length + 1) b []
  | .struct fs, L, _, tag, b =>
    deserTagged tagDecDefault L (fun p => decStructWith (fun x => decPos fs x) (fun t x => armFind fs t 0 x) fs p) tag b
  | .bytes, L, E, tag, b => deserTagged tagDecDefault L (leafDec E .bytes) tag b
  | .int w, L, E, tag, b => deserTagged tagDecDefault L (leafDec E (.int w)) tag b
  | .str, L, E, tag, b => deserTagged tagDecDefault L (leafDec E .str) tag b
  | .dateTime, L, E, tag, b => deserTagged tagDecDefault L (leafDec E .dateTime) tag b
termination_by structural t => t
/-- the positional (un-numbered) fields, in declaration order, whatever lies between them. -/
def decPos : List Field → Bytes → Res (List Val × Bytes)
  | [], b => .ok ([], b)
  | .mk _ tag L E ty :: fs, b =>
    match tag with
    | some _ => decPos fs b
    | none =>
      match Ty.de ty L E none b with
      | .error e => .error e
      | .ok (v, r) =>
        match decPos fs r with
        | .error e => .error e
        | .ok (vs, r') => .ok (v :: vs, r')
termination_by structural fs => fs
/-- the `match tag.0 { … }` arms: first field whose number is `t`. -/
def armFind : List Field → Nat → Nat → Bytes → Option (Nat × Res (Val × Bytes))
  | [], _, _, _ => none
  | .mk _ tag L E ty :: fs, t, i, b =>
    if tag = some t then some (i, Ty.de ty L E (some t) b) else armFind fs t (i + 1) b
termination_by structural fs => fs
end

/-- the generated `decode` of a struct. -/
def decStruct (fs : List Field) (b : Bytes) : Res (Val × Bytes) :=
  decStructWith (fun x => decPos fs x) (fun t x => armFind fs t 0 x) fs b

/-! ### Packets and commands -/

/-- `ZvtSerializer::zvt_serialize` for a type without control field. -/
def encodePlain (s : StructDef) (v : Val) : Res Bytes := Ty.ser (.struct s.fields) .empty .dflt none v
def decodePlain (s : StructDef) (b : Bytes) : Res (Val × Bytes) := Ty.de (.struct s.fields) .empty .dflt none b

def ctrlTag (c : Nat × Nat) : Nat := c.1 * 256 + c.2

/-- blanket `ZvtSerializer` impl for `ZvtCommand` types: class/instr big-endian as the tag, APDU length. -/
def encodeCmd (s : StructDef) (v : Val) : Res Bytes :=
  match s.ctrl, v with
  | some c, .struct vs => serTagged tagEncBE .adpu (some (ctrlTag c)) (encFields s.fields vs)
  | none, _ => encodePlain s v
  | _, _ => .error (.panic "ill-typed")

def decodeCmd (s : StructDef) (b : Bytes) : Res (Val × Bytes) :=
  match s.ctrl with
  | some c => deserTagged tagDecBE .adpu (fun p => decStruct s.fields p) (some (ctrlTag c)) b
  | none => decodePlain s b

/-- `#[derive(ZvtEnum)]::zvt_parse`: first variant whose control field equals the first two bytes. -/
def parseVariants : List (String × StructDef) → Nat → Nat → Nat → Bytes → Res (Nat × Val)
  | [], _, _, _, _ => .error (.wrongTag 0)
  | (_, s) :: vs, i, c0, c1, b =>
    if s.ctrl = some (c0, c1) then
      match decodeCmd s b with
      | .error e => .error e
      | .ok (v, _) => .ok (i, v)
    else parseVariants vs (i + 1) c0 c1 b

def parseEnum (e : EnumDef) (b : Bytes) : Res (Nat × Val) :=
  match b with
  | c0 :: c1 :: _ => parseVariants e.variants 0 c0.toNat c1.toNat b
  | _ => .error .incomplete

end Zvt
