/-
  Driver.lean — line protocol (one request per line, one response line) over the model.
  Imports model files only, so that it links into a `lean_exe`.
-/
import ZvtVerif.Derive
import ZvtVerif.Generated
import ZvtVerif.Sequence
import ZvtVerif.Client
import ZvtVerif.WriteFile
import ZvtVerif.Spec.Layout
import ZvtVerif.Spec.RefCodec
namespace Zvt.Driver
open Zvt

def hexDigitC (n : Nat) : Char := Char.ofNat (if n < 10 then 48 + n else 87 + n)

def hexOf (b : Bytes) : String :=
  if b.isEmpty then "-" else String.ofList (b.flatMap fun x => [hexDigitC (x.toNat / 16), hexDigitC (x.toNat % 16)])

def hexValC (c : Char) : Option Nat :=
  let n := c.toNat
  if 48 ≤ n ∧ n ≤ 57 then some (n - 48)
  else if 97 ≤ n ∧ n ≤ 102 then some (n - 87)
  else if 65 ≤ n ∧ n ≤ 70 then some (n - 55)
  else none

def parseHexChars : List Char → Option Bytes
  | [] => some []
  | [_] => none
  | h :: l :: r =>
    match hexValC h, hexValC l, parseHexChars r with
    | some a, some b, some rest => some (byte (a * 16 + b) :: rest)
    | _, _, _ => none

def parseHex (s : String) : Option Bytes :=
  if s = "-" then some [] else parseHexChars s.toList

def errKind : Err → String
  | .incomplete => "err incomplete"
  | .missing ts => "err missing:" ++ ",".intercalate (ts.map toString)
  | .nonImplemented => "err nonImplemented"
  | .wrongTag t => s!"err wrongTag:{t}"
  | .duplicateTag t => s!"err duplicateTag:{t}"
  | .aborted c => s!"err aborted:{c}"
  | .panic _ => "panic"
  | .outOfFuel => "hang"

/-! ### canonical value printing (must agree with harness/src/codec.rs `canon_debug`) -/

def strVal (cs : List Nat) : String := "s:" ++ hexOf (utf8Encode cs)

mutual
partial def showVal : Ty → Val → String
  | _, .num n => toString n
  | _, .str cs => strVal cs
  | _, .raw b => "[" ++ " ".intercalate (b.map fun x => toString x.toNat) ++ "]"
  | _, .dt d t => s!"dt:{d}:{t}"
  | _, .none => "none"
  | .opt t, .some v => "(some " ++ showVal t v ++ ")"
  | t, .some v => "(some " ++ showVal t v ++ ")"
  | .vec t, .vec vs => "[" ++ " ".intercalate (vs.map (showVal t)) ++ "]"
  | t, .vec vs => "[" ++ " ".intercalate (vs.map (showVal t)) ++ "]"
  | .struct fs, .struct vs => showFields fs vs
  | _, .struct _ => "{?}"
partial def showFields (fs : List Field) (vs : List Val) : String :=
  "{" ++ " ".intercalate ((fs.zip vs).map fun (f, v) => f.name ++ "=" ++ showVal f.ty v) ++ "}"
end

/-! ### value parsing (driver-only op `enc`) : tokens -/

def tokenize (s : String) : List String :=
  let flush (cur : List Char) (acc : List String) : List String :=
    if cur.isEmpty then acc else String.ofList cur.reverse :: acc
  let rec go (cs : List Char) (cur : List Char) (acc : List String) : List String :=
    match cs with
    | [] => (flush cur acc).reverse
    | c :: r =>
      if c = ' ' then go r [] (flush cur acc)
      else if c = '(' ∨ c = ')' ∨ c = '[' ∨ c = ']' ∨ c = '{' ∨ c = '}' then go r [] (String.ofList [c] :: flush cur acc)
      else go r (c :: cur) acc
  go s.toList [] []

def utf8ToCps (b : Bytes) : Option (List Nat) := utf8Decode b

mutual
partial def parseVal : Ty → List String → Option (Val × List String)
  | .opt t, "none" :: r => some (.none, r)
  | .opt t, "(" :: "some" :: r =>
    match parseVal t r with
    | some (v, ")" :: r') => some (.some v, r')
    | _ => none
  | .int _, tok :: r => tok.toNat?.map fun n => (.num n, r)
  | .str, tok :: r =>
    if tok.startsWith "s:" then
      match parseHex (tok.drop 2).toString with
      | some b => (utf8ToCps b).map fun cs => (.str cs, r)
      | none => none
    else none
  | .bytes, "[" :: r => parseNums r []
  | .dateTime, tok :: r =>
    match tok.splitOn ":" with
    | ["dt", d, t] => match d.toNat?, t.toNat? with
      | some d, some t => some (.dt d t, r)
      | _, _ => none
    | _ => none
  | .vec t, "[" :: r => parseList t r []
  | .struct fs, "{" :: r => parseFields fs r []
  | _, _ => none
partial def parseNums : List String → List UInt8 → Option (Val × List String)
  | "]" :: r, acc => some (.raw acc.reverse, r)
  | tok :: r, acc => match tok.toNat? with
    | some n => parseNums r (byte n :: acc)
    | none => none
  | [], _ => none
partial def parseList : Ty → List String → List Val → Option (Val × List String)
  | _, "]" :: r, acc => some (.vec acc.reverse, r)
  | t, toks, acc =>
    match parseVal t toks with
    | some (v, r) => parseList t r (v :: acc)
    | none => none
partial def parseFields : List Field → List String → List Val → Option (Val × List String)
  | [], "}" :: r, acc => some (.struct acc.reverse, r)
  | f :: fs, tok :: r, acc =>
    -- token is `name=FIRSTTOKEN` ; split at the first '='
    match tok.splitOn "=" with
    | n :: rest =>
      if n ≠ f.name then none else
      let first := "=".intercalate rest
      let toks := if first.isEmpty then r else first :: r
      match parseVal f.ty toks with
      | some (v, r') => parseFields fs r' (v :: acc)
      | none => none
    | [] => none
  | _, _, _ => none
end

def findStruct (name : String) : Option StructDef := Generated.shipped.find? (·.name = name)
def findEnum (name : String) : Option EnumDef := Generated.enums.find? (·.name = name)

def parseLen (s : String) : Option LenKind :=
  match s.splitOn ":" with
  | ["empty"] => some .empty
  | ["tlv"] => some .tlv
  | ["adpu"] => some .adpu
  | ["temperature"] => some .temperature
  | ["llv", n] => n.toNat?.map .llv
  | ["fixed", n] => n.toNat?.map .fixed
  | _ => none

def parseEnc (s : String) : Option Enc :=
  match s with
  | "dflt" => some .dflt | "be" => some .bigEndian | "bcd" => some .bcd | "hex" => some .hex
  | "utf8" => some .utf8 | "custom" => some .custom | "prrn" => some .prrn | _ => none

def intWidth (s : String) : Option Nat :=
  match s with
  | "u8" => some 1 | "u16" => some 2 | "u32" => some 4 | "u64" => some 8 | "usize" => some 8 | _ => none

def resBytes (r : Res Bytes) : String :=
  match r with
  | .ok b => "ok " ++ hexOf b
  | .error e => errKind e

def opEncEn (enc ty val : String) : String :=
  match parseEnc enc with
  | none => "bad-op"
  | some e =>
    if ty = "tag" then
      match val.toNat? with
      | some n => if n > 0xffff then "bad-op" else
          if e = .dflt then "ok " ++ hexOf (tagEncDefault n) else if e = .bigEndian then "ok " ++ hexOf (tagEncBE n) else "bad-op"
      | none => "bad-op"
    else if ty = "str" then
      match parseHex val with
      | some b => match utf8Decode b with
        | some cs => resBytes (leafEnc e .str (.str cs))
        | none => "bad-op"
      | none => "bad-op"
    else if ty = "bytes" then
      match parseHex val with
      | some b => resBytes (leafEnc e .bytes (.raw b))
      | none => "bad-op"
    else if ty = "dt" then
      match val.splitOn ":" with
      | [d, t] => match d.toNat?, t.toNat? with
        | some d, some t => resBytes (leafEnc e .dateTime (.dt d t))
        | _, _ => "bad-op"
      | _ => "bad-op"
    else
      match intWidth ty, val.toNat? with
      | some w, some n => if n < 256 ^ w then resBytes (leafEnc e (.int w) (.num n)) else "bad-op"
      | _, _ => "bad-op"

def showLeaf : Val → String
  | .num n => toString n
  | .str cs => strVal cs
  | .raw b => hexOf b
  | .dt d t => s!"dt:{d}:{t}"
  | _ => "?"

def opEncDe (enc ty : String) (b : Bytes) : String :=
  match parseEnc enc with
  | none => "bad-op"
  | some e =>
    if ty = "tag" then
      match (if e = .dflt then tagDecDefault b else tagDecBE b) with
      | .ok (t, r) => s!"ok {t} rem={hexOf r}"
      | .error er => errKind er
    else
      let t : Option Ty := if ty = "str" then some .str else if ty = "bytes" then some .bytes
        else if ty = "dt" then some .dateTime else (intWidth ty).map .int
      match t with
      | none => "bad-op"
      | some t =>
        match leafDec e t b with
        | .ok (v, r) => s!"ok {showLeaf v} rem={hexOf r}"
        | .error er => errKind er

def opDec (s : StructDef) (b : Bytes) : String :=
  match decodeCmd s b with
  | .error e => errKind e
  | .ok (v, rem) =>
    let re := match encodeCmd s v with
      | .ok x => hexOf x
      | .error _ => "panic"
    s!"ok {showVal (.struct s.fields) v} rem={hexOf rem} reenc={re}"

def opParse (e : EnumDef) (b : Bytes) : String :=
  match parseEnum e b with
  | .error er => errKind er
  | .ok (i, v) =>
    match e.variants[i]? with
    | some (n, s) => s!"ok {i} {n} {showVal (.struct s.fields) v}"
    | none => "ok ?"

def opEnc (s : StructDef) (toks : List String) : String :=
  match parseVal (.struct s.fields) toks with
  | some (v, []) => resBytes (encodeCmd s v)
  | _ => "bad-op"

/-- `ref TYPE VALUE`: the reference encoder of the format description (Spec/RefCodec.lean) on the FROZEN layout
table; answers `ok HEX` or `not-representable`. -/
def opRef (s : StructDef) (toks : List String) : String :=
  match parseVal (.struct s.fields) toks with
  | some (v, []) =>
    match Ref.encode s v with
    | some b => "ok " ++ hexOf b
    | none => "not-representable"
  | _ => "bad-op"

def errKindBare (e : Err) : String := errName e

def opRead (e : EnumDef) (chunks : List Bytes) : String :=
  let s := chunks.flatten
  let outs := readPackets e (s.length + 2) s
  " ; ".intercalate (outs.map fun o => match o with
    | .ok i v n => (match e.variants[i]? with
        | some (name, sd) => s!"ok {i} {name} {showVal (.struct sd.fields) v} n={n}"
        | none => "ok ?")
    | .zvtErr er n => (if er.isPanic then s!"panic n={n}" else s!"err {errKindBare er} n={n}")
    | .eof n => s!"err io:eof n={n}")

def mergeReads : List Ev → List Ev
  | .r a :: .r b :: rest => mergeReads (.r (a + b) :: rest)
  | x :: rest => x :: mergeReads rest
  | [] => []
termination_by l => l.length

def showEv (e : EnumDef) : Ev → String
  | .w b => "w:" ++ hexOf b
  | .r n => s!"r:{n}"
  | .y i v => (match e.variants[i]? with
      | some (name, sd) => s!"y:{i}:{name}:{showVal (.struct sd.fields) v}"
      | none => "y:?")
  | .e k => "e:" ++ k
  | .fin => "end"
  | .hang => "hang"

def opSeq (name : String) (input : Bytes) (items : List Bytes) : String :=
  match Generated.sequences.find? (·.1 = name) with
  | none => "bad-op"
  | some (_, inName, outName, kind, finals) =>
    match findStruct inName, findEnum outName with
    | some sIn, some eOut =>
      match decodeCmd sIn input with
      | .error _ => "bad-op"
      | .ok (v, _) =>
        match encodeCmd sIn v with
        | .error _ => "panic"
        | .ok cmd =>
          if kind = "once" ∨ kind = "loop" then
            " / ".intercalate ((mergeReads (runSeq eOut (kind = "once") finals cmd items)).map (showEv eOut))
          else "bad-op"
    | _, _ => "bad-op"

def parseItems (s : String) (sep : String) : Option (List Bytes) :=
  (s.splitOn sep).mapM parseHex

/-! ### `wf` op -/

/-- same deterministic content as harness/src/wf.rs `content` -/
def wfContent (size seed : Nat) : Bytes :=
  (List.range size).map fun i => byte ((seed * 31 + i * 7 + (i / 256) * 13 + (i / 65536)) % 256)

def insertById (x : Nat × Bytes) : List (Nat × Bytes) → List (Nat × Bytes)
  | [] => [x]
  | y :: ys => if x.1 < y.1 then x :: y :: ys else if x.1 = y.1 then x :: ys else y :: insertById x ys

def parseDir (s : String) : Option (List (Nat × Bytes)) :=
  if s = "-" then some [] else
  (s.splitOn ",").foldlM (fun acc f =>
    -- `path:size:seed[:l]`; `l` = the harness stores the file elsewhere and links to it (same content for the client)
    match (f.splitOn ":").take 3 with
    | [path, size, seed] =>
      match size.toNat?, seed.toNat? with
      | some sz, some sd =>
        match Generated.fileIds.find? (·.1 = path) with
        | some (_, id) => some (insertById (id, wfContent sz sd) acc)
        | none => some acc
      | _, _ => none
    | _ => none) []

def showEvWf : Ev → String
  | .y i v => (match wfEnum.variants[i]? with
      | some (name, sd) => s!"y:{i}:{name}:{showVal (.struct sd.fields) v}"
      | none => "y:?")
  | e => showEv wfEnum e

def opWf (block password : Nat) (dir : String) (items : List Bytes) : String :=
  match parseDir dir with
  | none => "bad-op"
  | some files => " / ".intercalate ((mergeReads (runWriteFile files block password items)).map showEvWf)

/-! ### `client` op -/

def parseKV (toks : List String) : List (String × String) :=
  toks.filterMap fun t => match t.splitOn "=" with
    | k :: rest => if rest.isEmpty then none else some (k, "=".intercalate rest)
    | [] => none

def kvGet (kv : List (String × String)) (k : String) : Option String := (kv.find? (·.1 = k)).map (·.2)

def strOfHex (h : String) : Option (List Nat) := (parseHex h).bind utf8Decode

def parseCfg (s : String) : Option Cfg :=
  let kv := parseKV ((s.splitOn " ").filter (· ≠ ""))
  match (kvGet kv "max").bind (·.toNat?), (kvGet kv "amount").bind (·.toNat?), (kvGet kv "currency").bind (·.toNat?),
        (kvGet kv "password").bind (·.toNat?), (kvGet kv "timeout").bind (·.toNat?),
        (kvGet kv "serial").bind strOfHex, (kvGet kv "tid").bind strOfHex with
  | some m, some a, some c, some p, some t, some ser, some tid =>
    some { maxTx := m, amount := a, currency := c, password := p, readCardTimeout := t, serial := ser,
           terminalId := if tid.isEmpty then [48, 48, 48, 48, 48, 48, 48, 48] else tid }
  | _, _, _, _, _, _, _ => none

def parseFault (s : String) : Option Fault :=
  if s = "close" then some .close else if s = "nack" then some .nack else if s = "stall" then some .stall
  else if s.startsWith "garbage:" then (parseHex (s.drop 8).toString).map .garbage
  else if s.startsWith "late:" then (s.drop 5).toString.toNat?.map .late else none

def parseScript (s : String) : Option World :=
  let toks := (s.splitOn " ").filter (fun t => t ≠ "" ∧ t ≠ "-")
  toks.foldlM (fun (w : World) tok =>
    if tok.startsWith "serial=" then (parseHex (tok.drop 7).toString).map fun b => { w with serial := b }
    else if tok.startsWith "tid=" then (parseHex (tok.drop 4).toString).map fun b => { w with tid := b }
    else if tok.startsWith "gap=" then ((tok.drop 4).toString.toNat?).map fun g => { w with gap := g }
    else if tok.startsWith "conn=" then some { w with connects := (tok.drop 5).toString.splitOn "," }
    else if tok.startsWith "r:" then
      match (tok.drop 2).toString.splitOn "=" with
      | [kind, lists] =>
        let entries := lists.splitOn "|"
        (entries.mapM fun e => if e = "-" then some [] else (e.splitOn "+").mapM parseHex).map fun q =>
          { w with queues := w.queues ++ [(kind, q)] }
      | _ => none
    else if tok.startsWith "f:" then
      match (tok.drop 2).toString.splitOn "=" with
      | [pos, what] =>
        match pos.splitOn ".", parseFault what with
        | [k, j], some f => match k.toNat?, j.toNat? with
          | some k, some j => some { w with faults := w.faults ++ [((k, j), f)] }
          | _, _ => none
        | _, _ => none
      | _ => none
    else none) ({} : World)

def showCErr : CErr → String
  | .zvt e => errName e
  | .unexpectedPacket => "unexpectedPacket"
  | .activeMax => "activeTx:max"
  | .activeInUse => "activeTx:inuse"
  | .noCard => "noCard"
  | .unknownToken t => "unknownToken:" ++ hexOf (utf8Encode t)
  | .needsPin => "needsPin"
  | .other m => "other:" ++ hexOf (utf8Encode (m.toList.map Char.toNat))

def showUnit (r : CRes Unit) : String :=
  match r with
  | .ok _ => "ok"
  | .error e => "err " ++ showCErr e

def decStr (n : Nat) : List Nat := (toString n).toList.map Char.toNat

def padZeros (w : Nat) (n : Nat) : List Nat :=
  let d := decStr n
  List.replicate (w - d.length) 48 ++ d

def showOptStr (o : Option (List Nat)) : String :=
  match o with
  | none => "none"
  | some cs => hexOf (utf8Encode cs)

def showOptNum (o : Option Nat) : String :=
  match o with
  | none => "none"
  | some n => toString n

def runCalls (cfg : Cfg) : List String → Client → World → List String → List String × World
  | [], _, w, acc => (acc.reverse, w)
  | call :: rest, cl, w, acc =>
    let fields := call.splitOn ":"
    let tok := (fields[1]?.bind strOfHex).getD []
    let (r, cl, w) : String × Client × World :=
      match fields[0]? with
      | some "new" => let (_, cl, w) := configure cfg {} w; ("ok", cl, w)
      | some "configure" => let (r, cl, w) := configure cfg cl w; (showUnit r, cl, w)
      | some "readcard" =>
        let (r, w) := readCard cfg w
        ((match r with
          | .ok .bank => "ok bank"
          | .ok (.member id) => "ok member:" ++ hexOf (utf8Encode id)
          | .error e => "err " ++ showCErr e), cl, w)
      | some "begin" => let (r, cl, w) := beginTx cfg cl tok w; (showUnit r, cl, w)
      | some "cancel" => let (r, cl, w) := cancelTx cfg cl tok w; (showUnit r, cl, w)
      | some "commit" =>
        let amount := (fields[2]?.bind (·.toNat?)).getD 0
        let (r, cl, w) := commitTx cfg cl tok amount w
        ((match r with
          | .ok s => s!"ok tid={showOptStr (s.terminalId.map decStr)} amount={showOptNum s.amount} trace={showOptNum s.trace} date={showOptStr (s.date.map (padZeros 4))} time={showOptStr (s.time.map (padZeros 6))}"
          | .error e => "err " ++ showCErr e), cl, w)
      | _ => ("bad-call", cl, w)
    runCalls cfg rest cl w (s!"{r}@{w.now}" :: acc)

def opClient (line : String) : String :=
  match (line.drop 7).toString.splitOn ";" with
  | [c, calls, script] =>
    match parseCfg c, parseScript script with
    | some cfg, some w =>
      let (res, w) := runCalls cfg ((calls.splitOn " ").filter (· ≠ "")) {} w []
      let w := match w.conn with
        | some c => dropConn w c
        | none => w
      let logs := w.logs.zipIdx.map fun (l, k) => s!"c{k}:" ++ ",".intercalate (l.map LogE.show)
      " | ".intercalate res ++ " || " ++ " | ".intercalate logs
    | _, _ => "bad-op"
  | _ => "bad-op"

def handle (line : String) : String :=
  if line.startsWith "client " then opClient line.trimAscii.toString else
  -- `seq@K` / `wf@K` (every client read limited to K bytes in the harness): the model does not depend on how the
  -- stream is cut into reads, so the suffix is dropped
  let toks := line.trimAscii.toString.splitOn " "
  let toks := match toks with
    | op :: rest => (op.splitOn "@").headD op :: rest
    | [] => []
  match toks with
  | ["len.ser", style, n] =>
    match parseLen style, n.toNat? with
    | some l, some n => resBytes (l.ser n)
    | _, _ => "bad-op"
  | ["len.de", style, hex] =>
    match parseLen style, parseHex hex with
    | some l, some b =>
      match l.de b with
      | .ok (n, r) => s!"ok {n} {hexOf r}"
      | .error e => errKind e
    | _, _ => "bad-op"
  | ["enc.en", enc, ty, val] => opEncEn enc ty val
  | ["enc.de", enc, ty, hex] =>
    match parseHex hex with
    | some b => opEncDe enc ty b
    | none => "bad-op"
  | ["dec", ty, hex] =>
    match findStruct ty, parseHex hex with
    | some s, some b => opDec s b
    | _, _ => "bad-op"
  | ["parse", en, hex] =>
    match findEnum en, parseHex hex with
    | some e, some b => opParse e b
    | _, _ => "bad-op"
  | ["read", en, chunks] =>
    match findEnum en, parseItems chunks "|" with
    | some e, some cs => opRead e cs
    | _, _ => "bad-op"
  | ["wf", block, password, dir, script] =>
    match block.toNat?, password.toNat?, (if script = "." then some [] else parseItems script ",") with
    | some b, some p, some items => opWf b p dir items
    | _, _, _ => "bad-op"
  | ["seq", name, input, script] =>
    match parseHex input, (if script = "." then some [] else parseItems script ",") with
    | some i, some items => opSeq name i items
    | _, _ => "bad-op"
  | "ref" :: ty :: rest =>
    match Spec.shipped.find? (·.name = ty) with
    | some s => opRef s (tokenize (" ".intercalate rest))
    | none => "bad-op"
  | "enc" :: ty :: rest =>
    match findStruct ty with
    | some s => opEnc s (tokenize (" ".intercalate rest))
    | none => "bad-op"
  | _ => "bad-op"

end Zvt.Driver
