/-
  Length.lean — mirror of zvt_builder/src/length.rs (`Empty`, `Fixed<N>`, `Tlv`,
  `LlvImpl<N>`, `Adpu`) and of `Temperature` in zvt/src/feig/packets/mod.rs.
  One Lean definition per Rust function; partial Rust operations are explicit
  (`.panic`), so "no panic" is a theorem and not true by construction.
-/
import ZvtVerif.Basic
namespace Zvt

inductive LenKind where
  | empty
  | fixed (n : Nat)
  | tlv
  | llv (digits : Nat)
  | adpu
  | temperature
  | unknown (name : String)
  deriving DecidableEq, Repr, Inhabited

/-- `LlvImpl<N>::serialize`, least significant digit first. -/
def llvSerRev : Nat → Nat → Bytes
  | 0, _ => []
  | n + 1, k => byte (0xf0 + k % 10) :: llvSerRev n (k / 10)

/-- `LlvImpl<N>::deserialize`: `N` bytes, low nibble of each is a decimal digit. -/
def llvDe : Nat → Nat → Bytes → Res (Nat × Bytes)
  | 0, acc, data => .ok (acc, data)
  | _ + 1, _, [] => .error .incomplete
  | n + 1, acc, d :: rest => llvDe n (acc * 10 + d.toNat % 16) rest

/-- `L::serialize(len)`. `Fixed<N>`: `vec![0; N - len]` (usize underflow panics);
`Tlv`: explicit `panic!("Unsupported length")` above 65535. -/
def LenKind.ser : LenKind → Nat → Res Bytes
  | .empty, _ => .ok []
  | .fixed n, len => if len ≤ n then .ok (List.replicate (n - len) 0) else .error (.panic "sub")
  | .tlv, len =>
      if len ≤ 127 then .ok [byte len]
      else if len ≤ 255 then .ok [0x81, byte len]
      else if len ≤ 65535 then .ok (0x82 :: beBytes 2 len)
      else .error (.panic "Unsupported length")
  | .llv n, len => .ok (llvSerRev n len).reverse
  | .adpu, len => if len < 0xff then .ok [byte len] else .ok (0xff :: leBytes 2 (len % 65536))
  | .temperature, _ => .ok []
  | .unknown _, _ => .error (.panic "unknown length type")

/-- `L::deserialize(bytes)`: the announced length and the bytes after the prefix. -/
def LenKind.de : LenKind → Bytes → Res (Nat × Bytes)
  | .empty, b => .ok (b.length, b)
  | .fixed n, b => if b.length < n then .error .incomplete else .ok (n, b)
  | .tlv, b =>
      match b with
      | [] => .error .incomplete
      | d :: rest =>
        if d.toNat ≤ 127 then .ok (d.toNat, rest)
        else if d.toNat = 0x81 then
          match rest with
          | [] => .error .incomplete
          | l :: rest' => .ok (l.toNat, rest')
        else if d.toNat = 0x82 then
          match rest with
          | h :: l :: rest' => .ok (h.toNat * 256 + l.toNat, rest')
          | _ => .error .incomplete
        else .error .nonImplemented
  | .llv n, b => llvDe n 0 b
  | .adpu, b =>
      match b with
      | [] => .error .incomplete
      | d :: rest =>
        if d.toNat = 0xff then intDecode false 2 rest
        else .ok (d.toNat, rest)
  | .temperature, b =>
      if b.length < 3 then .error .incomplete else .ok (min b.length 4, b)
  | .unknown _, _ => .error (.panic "unknown length type")

end Zvt
