import ZvtVerif.Driver
import ZvtVerif.LabGenerated

/-- C12 driver: `dec lab::NAME HEX` over the schemas of the generated lab structs. -/
def labHandle (line : String) : String :=
  match line.trimAscii.toString.splitOn " " with
  | ["dec", ty, hex] =>
    match Zvt.Lab.shipped.find? (·.name = ty), Zvt.Driver.parseHex hex with
    | some s, some b => Zvt.Driver.opDec s b
    | _, _ => "bad-op"
  | _ => "bad-op"

partial def labLoop (h : IO.FS.Stream) (out : IO.FS.Stream) : IO Unit := do
  let line ← h.getLine
  if line.isEmpty then return ()
  out.putStrLn (labHandle line)
  labLoop h out

def main : IO Unit := do
  let out ← IO.getStdout
  labLoop (← IO.getStdin) out
  out.flush
