import ZvtVerif.Driver

partial def loop (h : IO.FS.Stream) (out : IO.FS.Stream) : IO Unit := do
  let line ← h.getLine
  if line.isEmpty then return ()
  out.putStrLn (Zvt.Driver.handle line)
  loop h out

def main : IO Unit := do
  let out ← IO.getStdout
  loop (← IO.getStdin) out
  out.flush
