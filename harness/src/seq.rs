//! `seq` op: a real `Sequence::into_stream` against the scripted terminal, with an ordered event log.
use crate::codec::{canon_debug, hex_enc, Describe};
use crate::transport::anyhow_kind;
use std::fmt::Debug;
use std::future::Future;
use std::pin::Pin;
use std::sync::{Arc, Mutex};
use std::task::{Context, Poll};
use tokio::io::{AsyncRead, AsyncReadExt, AsyncWrite, AsyncWriteExt, DuplexStream, ReadBuf};
use tokio_stream::StreamExt;
use zvt::sequences::Sequence;
use zvt::{encoding, ZvtSerializer};

#[derive(Clone, Debug)]
pub enum Ev {
    W(Vec<u8>),
    R(usize),
    Other(String),
}

pub type Log = Arc<Mutex<Vec<Ev>>>;

/// "short read" mode of the recording transport: every read of the client returns at most this many bytes
/// (0 = no limit). Set per operation (`seq@K`, `wf@K`); a correct client must behave identically.
pub static MAX_READ: std::sync::atomic::AtomicUsize = std::sync::atomic::AtomicUsize::new(0);
/// `seq@K@D`: D virtual seconds pass before every piece of at most K bytes is handed to the client — a packet that trickles in,
/// with pauses INSIDE its header and body. The pause belongs to the connection, not to the read call: a client that gives a read up
/// and starts another one does not start the pause again.
pub static READ_PAUSE: std::sync::atomic::AtomicUsize = std::sync::atomic::AtomicUsize::new(0);

pub fn push(log: &Log, ev: Ev) {
    let mut l = log.lock().unwrap();
    match (&ev, l.last_mut()) {
        (Ev::R(n), Some(Ev::R(m))) => *m += n,
        (Ev::W(b), Some(Ev::W(a))) => a.extend_from_slice(b),
        _ => l.push(ev),
    }
}

pub fn render(log: &Log) -> String {
    log.lock()
        .unwrap()
        .iter()
        .map(|e| match e {
            Ev::W(b) => format!("w:{}", hex_enc(b)),
            Ev::R(n) => format!("r:{}", n),
            Ev::Other(s) => s.clone(),
        })
        .collect::<Vec<_>>()
        .join(" / ")
}

/// Recording wrapper around the client's end of the connection.
pub struct Rec<S> {
    pub inner: S,
    pub log: Log,
    pub nap: Option<Pin<Box<tokio::time::Sleep>>>,
    pub napped: bool,
}

impl<S: AsyncRead + Unpin> AsyncRead for Rec<S> {
    fn poll_read(mut self: Pin<&mut Self>, cx: &mut Context<'_>, buf: &mut ReadBuf<'_>) -> Poll<std::io::Result<()>> {
        let before = buf.filled().len();
        let k = MAX_READ.load(std::sync::atomic::Ordering::Relaxed);
        let d = READ_PAUSE.load(std::sync::atomic::Ordering::Relaxed);
        if d > 0 && !self.napped {
            if self.nap.is_none() {
                self.nap = Some(Box::pin(tokio::time::sleep(std::time::Duration::from_secs(d as u64))));
            }
            match self.nap.as_mut().unwrap().as_mut().poll(cx) {
                Poll::Pending => return Poll::Pending,
                Poll::Ready(()) => {
                    self.nap = None;
                    self.napped = true;
                }
            }
        }
        let r = if k > 0 && buf.remaining() > k {
            let mut tmp = vec![0u8; k];
            let mut rb = ReadBuf::new(&mut tmp);
            let r = Pin::new(&mut self.inner).poll_read(cx, &mut rb);
            if let Poll::Ready(Ok(())) = &r {
                buf.put_slice(rb.filled());
            }
            r
        } else {
            Pin::new(&mut self.inner).poll_read(cx, buf)
        };
        if let Poll::Ready(Ok(())) = &r {
            let n = buf.filled().len() - before;
            if n > 0 {
                push(&self.log, Ev::R(n));
                self.napped = false;
            }
        }
        r
    }
}

impl<S: AsyncWrite + Unpin> AsyncWrite for Rec<S> {
    fn poll_write(mut self: Pin<&mut Self>, cx: &mut Context<'_>, buf: &[u8]) -> Poll<std::io::Result<usize>> {
        let r = Pin::new(&mut self.inner).poll_write(cx, buf);
        if let Poll::Ready(Ok(n)) = &r {
            push(&self.log, Ev::W(buf[..*n].to_vec()));
        }
        r
    }
    fn poll_flush(mut self: Pin<&mut Self>, cx: &mut Context<'_>) -> Poll<std::io::Result<()>> {
        Pin::new(&mut self.inner).poll_flush(cx)
    }
    fn poll_shutdown(mut self: Pin<&mut Self>, cx: &mut Context<'_>) -> Poll<std::io::Result<()>> {
        Pin::new(&mut self.inner).poll_shutdown(cx)
    }
}

/// read one APDU from the client (None: the client closed / dropped the connection)
pub async fn read_apdu(s: &mut DuplexStream) -> Option<Vec<u8>> {
    let mut h = [0u8; 3];
    s.read_exact(&mut h).await.ok()?;
    let mut v = h.to_vec();
    let len = if h[2] == 0xff {
        let mut e = [0u8; 2];
        s.read_exact(&mut e).await.ok()?;
        v.extend_from_slice(&e);
        u16::from_le_bytes(e) as usize
    } else {
        h[2] as usize
    };
    let mut body = vec![0u8; len];
    s.read_exact(&mut body).await.ok()?;
    v.extend_from_slice(&body);
    Some(v)
}

/// The scripted terminal: after the command it releases two items (acknowledgement, first reply), after
/// every further packet of the client one item; when no item is left it shuts down its sending side and
/// keeps draining what the client sends.
pub async fn scripted_terminal(mut s: DuplexStream, items: Vec<Vec<u8>>) {
    let mut next = 0usize;
    let mut closed = false;
    if items.is_empty() {
        let _ = s.shutdown().await;
        closed = true;
    }
    let mut first = true;
    while read_apdu(&mut s).await.is_some() {
        let k = if first { 2 } else { 1 };
        first = false;
        for _ in 0..k {
            if next < items.len() {
                let _ = s.write_all(&items[next]).await;
                next += 1;
                if next >= items.len() && !closed {
                    let _ = s.shutdown().await;
                    closed = true;
                }
            }
        }
    }
}

pub fn run_seq<S>(input: &[u8], items: Vec<Vec<u8>>) -> String
where
    S: Sequence,
    S::Input: ZvtSerializer + Debug + Send + Sync,
    S::Output: Describe,
    encoding::Default: encoding::Encoding<S::Input>,
{
    let Ok((input, _)) = S::Input::zvt_deserialize(input) else { return "bad-op".into() };
    let rt = tokio::runtime::Builder::new_current_thread().enable_time().start_paused(true).build().unwrap();
    rt.block_on(async move {
        let (client, term) = tokio::io::duplex(1 << 22);
        let log: Log = Arc::new(Mutex::new(vec![]));
        let t = tokio::spawn(scripted_terminal(term, items));
        let mut tr = zvt::io::PacketTransport { source: Rec { inner: client, log: log.clone(), nap: None, napped: false } };
        {
            let mut stream = S::into_stream(&input, &mut tr);
            loop {
                let next = std::panic::AssertUnwindSafe(tokio::time::timeout(std::time::Duration::from_secs(86400), stream.next()));
                match futures::FutureExt::catch_unwind(next).await {
                    Err(_) => {
                        push(&log, Ev::Other("panic".into()));
                        break;
                    }
                    Ok(Err(_)) => {
                        push(&log, Ev::Other("hang".into()));
                        break;
                    }
                    Ok(Ok(None)) => {
                        push(&log, Ev::Other("end".into()));
                        break;
                    }
                    Ok(Ok(Some(Ok(v)))) => {
                        let (i, name, dbg) = v.describe();
                        push(&log, Ev::Other(format!("y:{}:{}:{}", i, name, canon_debug(&dbg))));
                    }
                    Ok(Ok(Some(Err(e)))) => push(&log, Ev::Other(format!("e:{}", anyhow_kind(&e)))),
                }
            }
        }
        drop(tr);
        t.abort();
        render(&log)
    })
}
