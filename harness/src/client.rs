//! `client` op: the real `Feig` client against a table-driven simulated terminal, on tokio's paused clock.
//!
//! Line:  client CFG ; CALLS ; TSCRIPT
//!   CFG     max=N amount=N currency=N password=N timeout=N serial=HEX tid=HEX
//!   CALLS   new | configure | readcard | begin:TOKENHEX | commit:TOKENHEX:AMOUNT | cancel:TOKENHEX   (space separated)
//!   TSCRIPT serial=HEX tid=HEX conn=accept,refuse,stall,..  r:KIND=PKT+PKT|PKT|-  f:K.J=close|nack|stall|garbage:HEX
//! Output: one result per call separated by " | ", then " || ", then one log per connection separated by " | ", then " || t=SECONDS".
use crate::codec::{hex_dec, hex_enc};
use crate::seq::read_apdu;
use crate::transport::anyhow_kind;
use std::collections::HashMap;
use std::sync::{Arc, Mutex};
use tokio::io::{AsyncReadExt, AsyncWriteExt, DuplexStream};
use zvt_feig_terminal::config::{Config, FeigConfig};
use zvt_feig_terminal::feig::{CardInfo, Feig};
use zvt_feig_terminal::verif_hook::{set_connector, ConnectOutcome};

#[derive(Clone, Debug)]
enum Fault {
    Close,
    Nack,
    Stall,
    /// the item is sent N pauses later than the terminal's pace would have it (`late:N`; no delay at all with gap = 0)
    Late(u64),
    Garbage(Vec<u8>),
}

#[derive(Default)]
struct Script {
    serial: Vec<u8>,
    tid: Vec<u8>,
    connects: Vec<String>,
    queues: HashMap<String, std::collections::VecDeque<Vec<Vec<u8>>>>,
    faults: HashMap<(usize, usize), Fault>,
    /// virtual seconds the terminal waits before it sends each item (`gap=N`; slow but talking terminal)
    gap: u64,
}

struct Shared {
    script: Script,
    logs: Vec<Vec<String>>,
    start: tokio::time::Instant,
}

fn now_s(sh: &Shared) -> u64 {
    (tokio::time::Instant::now() - sh.start).as_secs()
}

fn kind_of(p: &[u8]) -> String {
    let mut k = format!("{:02x}{:02x}", p[0], p[1]);
    if p[0] == 0x06 && p[1] == 0x23 && p.len() >= 6 && p[3..6] == [0x87, 0xff, 0xff] {
        k.push('q');
    }
    k
}

fn default_replies(kind: &str, sh: &Shared) -> Vec<Vec<u8>> {
    match kind {
        "0fa1" => {
            let mut b = vec![0x06, 0x0f, 37];
            b.extend_from_slice(&sh.script.serial);
            b.extend_from_slice(b"GER-APP-v2.0.9   ");
            b.extend_from_slice(&sh.script.tid);
            b.extend_from_slice(b"24.4");
            vec![b]
        }
        "0623q" => vec![vec![0x06, 0x1e, 0x04, 0xb8, 0x87, 0xff, 0xff]],
        "0622" => vec![vec![0x04, 0x0f, 0x03, 0x87, 0x00, 0x01], vec![0x06, 0x0f, 0x00]],
        "0623" => vec![vec![0x04, 0x0f, 0x02, 0x27, 0x00], vec![0x06, 0x0f, 0x00]],
        "06c0" => vec![vec![0x04, 0x0f, 0x0a, 0x27, 0x00, 0x06, 0x06, 0x4c, 0x04, 0xde, 0xad, 0xbe, 0xef]],
        _ => vec![vec![0x06, 0x0f, 0x00]],
    }
}

/// `n` bytes from the client, bytes that arrived while the terminal was pausing first
async fn read_n(pb: &mut Vec<u8>, s: &mut DuplexStream, n: usize) -> Option<Vec<u8>> {
    let mut v: Vec<u8> = pb.drain(..pb.len().min(n)).collect();
    if v.len() < n {
        let mut rest = vec![0u8; n - v.len()];
        s.read_exact(&mut rest).await.ok()?;
        v.extend_from_slice(&rest);
    }
    Some(v)
}

async fn read_apdu_pb(pb: &mut Vec<u8>, s: &mut DuplexStream) -> Option<Vec<u8>> {
    if pb.is_empty() {
        return read_apdu(s).await;
    }
    let mut v = read_n(pb, s, 3).await?;
    let len = if v[2] == 0xff {
        let e = read_n(pb, s, 2).await?;
        v.extend_from_slice(&e);
        u16::from_le_bytes([e[0], e[1]]) as usize
    } else {
        v[2] as usize
    };
    let body = read_n(pb, s, len).await?;
    v.extend_from_slice(&body);
    Some(v)
}

/// one connection of the simulated terminal
async fn serve(mut s: DuplexStream, k: usize, sh: Arc<Mutex<Shared>>) {
    let mut pending: std::collections::VecDeque<Vec<u8>> = Default::default();
    let mut sent = 0usize;
    let mut stalled = false;
    let mut pb: Vec<u8> = vec![];
    loop {
        let Some(p) = read_apdu_pb(&mut pb, &mut s).await else {
            let mut g = sh.lock().unwrap();
            let t = now_s(&g);
            g.logs[k].push(format!("close@{}", t));
            return;
        };
        let release;
        {
            let mut g = sh.lock().unwrap();
            g.logs[k].push(format!("rx:{}", hex_enc(&p)));
            if p[0] == 0x80 && p[1] == 0x00 {
                release = 1;
            } else {
                let kind = kind_of(&p);
                let replies = match g.script.queues.get_mut(&kind).and_then(|q| q.pop_front()) {
                    Some(r) => r,
                    None => default_replies(&kind, &g),
                };
                pending.clear();
                pending.push_back(vec![0x80, 0x00, 0x00]);
                for r in replies {
                    pending.push_back(r);
                }
                release = 2;
            }
        }
        for _ in 0..release {
            if stalled {
                break;
            }
            let Some(item) = pending.pop_front() else { break };
            let (fault, gap) = {
                let g = sh.lock().unwrap();
                (g.script.faults.get(&(k, sent)).cloned(), g.script.gap)
            };
            sent += 1;
            let gap = match fault {
                Some(Fault::Late(n)) => gap * (1 + n),
                _ => gap,
            };
            if gap > 0 {
                // the pause before the item; a client that hangs up meanwhile is noticed at once (the log
                // carries the moment the client closed, not the terminal's pace)
                let pause = tokio::time::sleep(std::time::Duration::from_secs(gap));
                tokio::pin!(pause);
                loop {
                    let mut one = [0u8; 1];
                    tokio::select! {
                        biased;
                        _ = &mut pause => break,
                        r = s.read(&mut one) => match r {
                            Ok(1) => pb.push(one[0]),
                            _ => {
                                let mut g = sh.lock().unwrap();
                                let t = now_s(&g);
                                g.logs[k].push(format!("close@{}", t));
                                return;
                            }
                        },
                    }
                }
            }
            match fault {
                None | Some(Fault::Late(_)) => {
                    let _ = s.write_all(&item).await;
                }
                Some(Fault::Nack) => {
                    let _ = s.write_all(&[0x84, 0x9c, 0x00]).await;
                }
                Some(Fault::Garbage(g)) => {
                    let _ = s.write_all(&g).await;
                }
                Some(Fault::Stall) => {
                    stalled = true;
                    pending.clear();
                }
                Some(Fault::Close) => {
                    let mut g = sh.lock().unwrap();
                    let t = now_s(&g);
                    g.logs[k].push(format!("tclose@{}", t));
                    return; // drops the stream
                }
            }
        }
    }
}

fn parse_script(s: &str) -> Option<Script> {
    let mut sc = Script::default();
    for tok in s.split_whitespace() {
        if let Some(v) = tok.strip_prefix("serial=") {
            sc.serial = hex_dec(v)?;
        } else if let Some(v) = tok.strip_prefix("tid=") {
            sc.tid = hex_dec(v)?;
        } else if let Some(v) = tok.strip_prefix("gap=") {
            sc.gap = v.parse().ok()?;
        } else if let Some(v) = tok.strip_prefix("conn=") {
            sc.connects = v.split(',').map(|x| x.to_string()).collect();
        } else if let Some(v) = tok.strip_prefix("r:") {
            let (kind, lists) = v.split_once('=')?;
            let mut q = std::collections::VecDeque::new();
            for entry in lists.split('|') {
                if entry == "-" {
                    q.push_back(vec![]);
                } else {
                    q.push_back(entry.split('+').map(hex_dec).collect::<Option<Vec<_>>>()?);
                }
            }
            sc.queues.insert(kind.to_string(), q);
        } else if let Some(v) = tok.strip_prefix("f:") {
            let (pos, what) = v.split_once('=')?;
            let (k, j) = pos.split_once('.')?;
            let f = match what {
                "close" => Fault::Close,
                "nack" => Fault::Nack,
                "stall" => Fault::Stall,
                x if x.starts_with("late:") => Fault::Late(x[5..].parse().ok()?),
                g => Fault::Garbage(hex_dec(g.strip_prefix("garbage:")?)?),
            };
            sc.faults.insert((k.parse().ok()?, j.parse().ok()?), f);
        } else if tok != "-" {
            return None;
        }
    }
    Some(sc)
}

fn parse_cfg(s: &str) -> Option<Config> {
    let mut c = Config::default();
    let mut f = FeigConfig::default();
    for tok in s.split_whitespace() {
        let (k, v) = tok.split_once('=')?;
        match k {
            "max" => c.transactions_max_num = v.parse().ok()?,
            "amount" => f.pre_authorization_amount = v.parse().ok()?,
            "currency" => f.currency = v.parse().ok()?,
            "password" => f.password = v.parse().ok()?,
            "timeout" => f.read_card_timeout = v.parse().ok()?,
            "serial" => c.feig_serial = String::from_utf8(hex_dec(v)?).ok()?,
            "tid" => c.terminal_id = String::from_utf8(hex_dec(v)?).ok()?,
            _ => return None,
        }
    }
    c.feig_config = f;
    Some(c)
}

fn res_unit(r: anyhow::Result<()>) -> String {
    match r {
        Ok(()) => "ok".into(),
        Err(e) => format!("err {}", anyhow_kind(&e)),
    }
}

pub fn run_client(line: &str) -> String {
    let parts: Vec<&str> = line.splitn(3, ';').collect();
    if parts.len() != 3 {
        return "bad-op".into();
    }
    let Some(cfg) = parse_cfg(parts[0].trim().strip_prefix("client").unwrap_or(parts[0]).trim()) else { return "bad-op".into() };
    let calls: Vec<String> = parts[1].split_whitespace().map(|s| s.to_string()).collect();
    let Some(script) = parse_script(parts[2].trim()) else { return "bad-op".into() };
    let rt = tokio::runtime::Builder::new_current_thread().enable_time().start_paused(true).build().unwrap();
    rt.block_on(async move {
        let sh = Arc::new(Mutex::new(Shared { script, logs: vec![], start: tokio::time::Instant::now() }));
        let sh2 = sh.clone();
        let handles: Arc<Mutex<Vec<tokio::task::JoinHandle<()>>>> = Arc::new(Mutex::new(vec![]));
        let handles2 = handles.clone();
        set_connector(Box::new(move |_addr| {
            let mut g = sh2.lock().unwrap();
            let k = g.logs.len();
            let dir = g.script.connects.get(k).cloned().unwrap_or("accept".into());
            let t = now_s(&g);
            match dir.as_str() {
                "refuse" => {
                    g.logs.push(vec![format!("refuse@{}", t)]);
                    ConnectOutcome::Refuse
                }
                "stall" => {
                    g.logs.push(vec![format!("stall@{}", t)]);
                    ConnectOutcome::Stall
                }
                _ => {
                    g.logs.push(vec![format!("open@{}", t)]);
                    let (client, term) = tokio::io::duplex(1 << 20);
                    drop(g);
                    handles2.lock().unwrap().push(tokio::spawn(serve(term, k, sh2.clone())));
                    ConnectOutcome::Accept(client)
                }
            }
        }));
        let mut results = vec![];
        let mut feig: Option<Feig> = None;
        let watchdog = std::time::Duration::from_secs(86400);
        for call in calls {
            let fields: Vec<&str> = call.split(':').collect();
            let fut = async {
                match (fields[0], feig.as_mut()) {
                    ("new", _) => match Feig::new(cfg.clone()).await {
                        Ok(f) => {
                            feig = Some(f);
                            "ok".to_string()
                        }
                        Err(e) => format!("err {}", anyhow_kind(&e)),
                    },
                    ("configure", Some(f)) => res_unit(f.configure().await),
                    ("readcard", Some(f)) => match f.read_card().await {
                        Ok(CardInfo::Bank) => "ok bank".into(),
                        Ok(CardInfo::MembershipCard(s)) => format!("ok member:{}", hex_enc(s.as_bytes())),
                        Err(e) => format!("err {}", anyhow_kind(&e)),
                    },
                    ("begin", Some(f)) => {
                        let tok = String::from_utf8(hex_dec(fields[1]).unwrap_or_default()).unwrap_or_default();
                        res_unit(f.begin_transaction(&tok).await)
                    }
                    ("cancel", Some(f)) => {
                        let tok = String::from_utf8(hex_dec(fields[1]).unwrap_or_default()).unwrap_or_default();
                        res_unit(f.cancel_transaction(&tok).await)
                    }
                    ("commit", Some(f)) => {
                        let tok = String::from_utf8(hex_dec(fields[1]).unwrap_or_default()).unwrap_or_default();
                        let amount: u64 = fields.get(2).and_then(|a| a.parse().ok()).unwrap_or(0);
                        match f.commit_transaction(&tok, amount).await {
                            Ok(s) => format!(
                                "ok tid={} amount={} trace={} date={} time={}",
                                s.terminal_id.map(|x| hex_enc(x.as_bytes())).unwrap_or("none".into()),
                                s.amount.map(|x| x.to_string()).unwrap_or("none".into()),
                                s.trace_number.map(|x| x.to_string()).unwrap_or("none".into()),
                                s.date.map(|x| hex_enc(x.as_bytes())).unwrap_or("none".into()),
                                s.time.map(|x| hex_enc(x.as_bytes())).unwrap_or("none".into())
                            ),
                            Err(e) => format!("err {}", anyhow_kind(&e)),
                        }
                    }
                    _ => "bad-call".to_string(),
                }
            };
            let guarded = std::panic::AssertUnwindSafe(tokio::time::timeout(watchdog, fut));
            let r = match futures::FutureExt::catch_unwind(guarded).await {
                Err(_) => "panic".to_string(),
                Ok(Err(_)) => "hang".to_string(),
                Ok(Ok(s)) => s,
            };
            let t = now_s(&sh.lock().unwrap());
            let stop = r == "hang" || r == "panic";
            results.push(format!("{}@{}", r, t));
            if stop {
                break;
            }
        }
        drop(feig);
        tokio::task::yield_now().await;
        for h in handles.lock().unwrap().iter() {
            h.abort();
        }
        zvt_feig_terminal::verif_hook::clear_connector();
        let g = sh.lock().unwrap();
        let logs: Vec<String> = g.logs.iter().enumerate().map(|(k, l)| format!("c{}:{}", k, l.join(","))).collect();
        format!("{} || {}", results.join(" | "), logs.join(" | "))
    })
}
