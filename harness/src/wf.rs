//! `wf` op: the real firmware upload `WriteFile::into_stream` against the scripted terminal.
//!   wf BLOCK PASSWORD DIR SCRIPT      DIR = path:size:seed,path:size:seed | -     SCRIPT as for `seq`
use crate::codec::{canon_debug, hex_enc, Describe};
use crate::seq::{push, render, scripted_terminal, Ev, Log, Rec};
use crate::transport::anyhow_kind;
use std::sync::atomic::{AtomicUsize, Ordering};
use std::sync::{Arc, Mutex};
use tokio_stream::StreamExt;
use zvt::ZvtSerializer;

static COUNTER: AtomicUsize = AtomicUsize::new(0);

pub fn content(size: usize, seed: usize) -> Vec<u8> {
    (0..size).map(|i| ((seed * 31 + i * 7 + (i >> 8) * 13 + (i >> 16)) & 0xff) as u8).collect()
}

/// rewrite the announcement so that the file list is sorted by id (the code iterates a HashMap)
fn canon_first_write(log: &Log) {
    let mut l = log.lock().unwrap();
    if let Some(Ev::W(b)) = l.first_mut() {
        if let Ok((mut p, rest)) = zvt::feig::packets::WriteFile::zvt_deserialize(b) {
            if rest.is_empty() {
                if let Some(t) = p.tlv.as_mut() {
                    t.files.sort_by_key(|f| f.file_id);
                }
                let again = p.zvt_serialize();
                if again.len() == b.len() {
                    *b = again;
                }
            }
        }
    }
}

pub fn run_wf(block: u32, password: usize, dir: &str, items: Vec<Vec<u8>>) -> String {
    let scratch = std::path::PathBuf::from(format!(
        "{}/../.build/scratch/wf-{}-{}",
        env!("CARGO_MANIFEST_DIR"),
        std::process::id(),
        COUNTER.fetch_add(1, Ordering::Relaxed)
    ));
    let _ = std::fs::remove_dir_all(&scratch);
    if std::fs::create_dir_all(&scratch).is_err() {
        return "bad-op".into();
    }
    if dir != "-" {
        for f in dir.split(',') {
            let parts: Vec<&str> = f.split(':').collect();
            // `path:size:seed[:l]` — with `l` the recognised path is a symbolic link to the file stored elsewhere
            if parts.len() != 3 && !(parts.len() == 4 && parts[3] == "l") {
                return "bad-op".into();
            }
            let p = scratch.join(parts[0]);
            if let Some(d) = p.parent() {
                let _ = std::fs::create_dir_all(d);
            }
            let (Ok(size), Ok(seed)) = (parts[1].parse::<usize>(), parts[2].parse::<usize>()) else { return "bad-op".into() };
            if parts.len() == 4 {
                let store = scratch.join("store");
                let _ = std::fs::create_dir_all(&store);
                let real = store.join(format!("blob-{}-{}", size, seed));
                if std::fs::write(&real, content(size, seed)).is_err() || std::os::unix::fs::symlink(&real, &p).is_err() {
                    return "bad-op".into();
                }
            } else if std::fs::write(&p, content(size, seed)).is_err() {
                return "bad-op".into();
            }
        }
    }
    let rt = tokio::runtime::Builder::new_current_thread().enable_time().start_paused(true).build().unwrap();
    let path = scratch.clone();
    let out = rt.block_on(async move {
        let (client, term) = tokio::io::duplex(1 << 22);
        let log: Log = Arc::new(Mutex::new(vec![]));
        let t = tokio::spawn(scripted_terminal(term, items));
        let mut tr = zvt::io::PacketTransport { source: Rec { inner: client, log: log.clone(), nap: None, napped: false } };
        {
            let mut stream = zvt::feig::sequences::WriteFile::into_stream(path, password, block, &mut tr);
            loop {
                let next = std::panic::AssertUnwindSafe(tokio::time::timeout(std::time::Duration::from_secs(86400), stream.next()));
                match futures::FutureExt::catch_unwind(next).await {
                    Err(_) => {
                        push(&log, Ev::Other("panic".into()));
                        break;
                    }
                    Ok(Err(_)) => {
                        push(&log, Ev::Other("hang".into()));
                        break;
                    }
                    Ok(Ok(None)) => {
                        push(&log, Ev::Other("end".into()));
                        break;
                    }
                    Ok(Ok(Some(Ok(v)))) => {
                        let (i, name, dbg) = v.describe();
                        push(&log, Ev::Other(format!("y:{}:{}:{}", i, name, canon_debug(&dbg))));
                    }
                    Ok(Ok(Some(Err(e)))) => push(&log, Ev::Other(format!("e:{}", anyhow_kind(&e)))),
                }
            }
        }
        drop(tr);
        t.abort();
        canon_first_write(&log);
        render(&log)
    });
    let _ = std::fs::remove_dir_all(&scratch);
    let _ = hex_enc(&[]);
    out
}
