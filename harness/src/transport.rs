//! `read` op: PacketTransport::read_packet over a chunked in-memory reader that returns Pending
//! (with a wake-up) between chunks and records how many bytes each call consumed.
use crate::codec::{canon_debug, err_kind, Describe};
use std::pin::Pin;
use std::sync::atomic::{AtomicUsize, Ordering};
use std::sync::Arc;
use std::future::Future;
use std::task::{Context, Poll};
use tokio::io::{AsyncRead, ReadBuf};
use zvt::ZvtParser;

pub struct Chunked {
    chunks: Vec<Vec<u8>>,
    idx: usize,
    off: usize,
    pend: bool,
    /// virtual seconds that pass between two chunks (`read@D`); 0: an immediate wake-up
    delay: u64,
    sleep: Option<Pin<Box<tokio::time::Sleep>>>,
    pub consumed: Arc<AtomicUsize>,
    pub polls: Arc<AtomicUsize>,
}

impl Chunked {
    pub fn new(chunks: Vec<Vec<u8>>) -> Self {
        Self { chunks, idx: 0, off: 0, pend: false, delay: crate::seq::MAX_READ.load(Ordering::Relaxed) as u64, sleep: None, consumed: Arc::new(AtomicUsize::new(0)), polls: Arc::new(AtomicUsize::new(0)) }
    }
}

impl AsyncRead for Chunked {
    fn poll_read(mut self: Pin<&mut Self>, cx: &mut Context<'_>, buf: &mut ReadBuf<'_>) -> Poll<std::io::Result<()>> {
        self.polls.fetch_add(1, Ordering::Relaxed);
        if self.pend {
            if self.delay == 0 {
                self.pend = false;
                cx.waker().wake_by_ref();
                return Poll::Pending;
            }
            // a pause of `delay` virtual seconds before the next chunk arrives
            if self.sleep.is_none() {
                self.sleep = Some(Box::pin(tokio::time::sleep(std::time::Duration::from_secs(self.delay))));
            }
            match self.sleep.as_mut().unwrap().as_mut().poll(cx) {
                Poll::Pending => return Poll::Pending,
                Poll::Ready(()) => {
                    self.sleep = None;
                    self.pend = false;
                }
            }
        }
        while self.idx < self.chunks.len() && self.off >= self.chunks[self.idx].len() {
            self.idx += 1;
            self.off = 0;
        }
        if self.idx >= self.chunks.len() {
            return Poll::Ready(Ok(())); // end of stream
        }
        let (idx, off) = (self.idx, self.off);
        let n = std::cmp::min(buf.remaining(), self.chunks[idx].len() - off);
        buf.put_slice(&self.chunks[idx][off..off + n]);
        self.off += n;
        self.consumed.fetch_add(n, Ordering::Relaxed);
        if self.off >= self.chunks[idx].len() {
            self.idx += 1;
            self.off = 0;
            self.pend = true; // the next poll finds nothing ready yet
        }
        Poll::Ready(Ok(()))
    }
}

pub fn anyhow_kind(e: &anyhow::Error) -> String {
    if let Some(z) = e.downcast_ref::<zvt::ZVTError>() {
        return err_kind(z);
    }
    if let Some(io) = e.downcast_ref::<std::io::Error>() {
        return match io.kind() {
            std::io::ErrorKind::UnexpectedEof => "io:eof".to_string(),
            k => format!("io:{:?}", k),
        };
    }
    if let Some(f) = e.downcast_ref::<zvt_feig_terminal::feig::Error>() {
        use zvt_feig_terminal::feig::Error::*;
        return match f {
            UnexpectedPacket => "unexpectedPacket".into(),
            ActiveTransaction(s) => format!("activeTx:{}", if s.starts_with("Maximum") { "max" } else { "inuse" }),
            NoCardPresented => "noCard".into(),
            UnknownToken(t) => format!("unknownToken:{}", crate::codec::hex_enc(t.as_bytes())),
            NeedsPinEntry => "needsPin".into(),
        };
    }
    let s = e.to_string();
    if s.starts_with("Failed to write") {
        return "io:write".to_string();
    }
    format!("other:{}", crate::codec::hex_enc(s.as_bytes()))
}

pub fn run_read<T: ZvtParser + Describe + Send>(chunks: Vec<Vec<u8>>) -> String {
    let rt = tokio::runtime::Builder::new_current_thread().enable_time().start_paused(true).build().unwrap();
    rt.block_on(async move {
        let reader = Chunked::new(chunks);
        let consumed = reader.consumed.clone();
        let mut tr = zvt::io::PacketTransport { source: reader };
        let mut out = vec![];
        loop {
            let before = consumed.load(Ordering::Relaxed);
            let r = std::panic::AssertUnwindSafe(tr.read_packet::<T>());
            let r = futures::FutureExt::catch_unwind(r).await;
            let n = consumed.load(Ordering::Relaxed) - before;
            match r {
                Err(_) => {
                    out.push(format!("panic n={}", n));
                    break;
                }
                Ok(Ok(v)) => {
                    let (i, name, dbg) = v.describe();
                    out.push(format!("ok {} {} {} n={}", i, name, canon_debug(&dbg), n));
                }
                Ok(Err(e)) => {
                    let k = anyhow_kind(&e);
                    out.push(format!("err {} n={}", k, n));
                    if k.starts_with("io:") {
                        break;
                    }
                }
            }
            if out.len() > 10000 {
                out.push("hang".into());
                break;
            }
        }
        out.join(" ; ")
    })
}
