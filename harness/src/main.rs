//! Correspondence harness: executes the line protocol against the real zvt code.
mod codec;
mod gen_dispatch;

use std::io::{BufRead, Write};

fn handle(line: &str) -> String {
    let parts: Vec<&str> = line.split_whitespace().collect();
    match parts.as_slice() {
        ["len.ser", style, n] => match n.parse::<usize>() {
            Ok(n) => codec::op_len_ser(style, n),
            Err(_) => "bad-op".into(),
        },
        ["len.de", style, hex] => match codec::hex_dec(hex) {
            Some(b) => codec::op_len_de(style, &b),
            None => "bad-op".into(),
        },
        ["enc.en", enc, ty, val] => codec::op_enc_en(enc, ty, val),
        ["enc.de", enc, ty, hex] => match codec::hex_dec(hex) {
            Some(b) => codec::op_enc_de(enc, ty, &b),
            None => "bad-op".into(),
        },
        ["dec", ty, hex] => match codec::hex_dec(hex) {
            Some(b) => gen_dispatch::dec(ty, &b).unwrap_or("bad-op".into()),
            None => "bad-op".into(),
        },
        ["parse", en, hex] => match codec::hex_dec(hex) {
            Some(b) => gen_dispatch::parse(en, &b).unwrap_or("bad-op".into()),
            None => "bad-op".into(),
        },
        _ => "bad-op".into(),
    }
}

fn main() {
    std::panic::set_hook(Box::new(|_| {}));
    let stdin = std::io::stdin();
    let stdout = std::io::stdout();
    let mut out = std::io::BufWriter::new(stdout.lock());
    for line in stdin.lock().lines() {
        let Ok(line) = line else { break };
        let res = handle(&line);
        writeln!(out, "{}", res).unwrap();
    }
    out.flush().unwrap();
}
