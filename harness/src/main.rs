//! Correspondence harness: executes the line protocol against the real zvt code.
mod client;
mod codec;
mod gen_dispatch;
mod seq;
mod transport;
mod wf;
use std::io::{BufRead, Write};
use std::sync::atomic::Ordering;
mod alloc;
use alloc::{ALLOCATED, DEC_ALLOC};

fn handle(line: &str) -> String {
    if line.starts_with("client ") {
        return client::run_client(line);
    }
    let mut parts: Vec<&str> = line.split_whitespace().collect();
    // `seq@K` / `wf@K`: the same operation with every client read limited to K bytes
    let mut max_read = 0usize;
    let mut read_pause = 0usize;
    if let Some(first) = parts.first().copied() {
        if let Some((op, k)) = first.split_once('@') {
            // `seq@K@D`: additionally D virtual seconds pass before every piece the client reads (a packet that trickles in)
            let (k, d) = k.split_once('@').unwrap_or((k, "0"));
            max_read = k.parse().unwrap_or(0);
            read_pause = d.parse().unwrap_or(0);
            parts[0] = op;
        }
    }
    seq::MAX_READ.store(max_read, std::sync::atomic::Ordering::Relaxed);
    seq::READ_PAUSE.store(read_pause, std::sync::atomic::Ordering::Relaxed);
    // `dec@1` / `parse@1`: the same decoder call with logging switched off (time / allocation probes on very large inputs
    // measure the decoder, not the Debug formatting of the whole remaining input in its log records)
    let quiet = max_read > 0 && matches!(parts.first().copied(), Some("dec") | Some("parse"));
    if std::env::var("HARNESS_NO_LOGGER").is_err() {
        log::set_max_level(if quiet { log::LevelFilter::Off } else { log::LevelFilter::Trace });
    }
    match parts.as_slice() {
        ["len.ser", style, n] => match n.parse::<usize>() {
            Ok(n) => codec::op_len_ser(style, n),
            Err(_) => "bad-op".into(),
        },
        ["len.de", style, hex] => match codec::hex_dec(hex) {
            Some(b) => codec::op_len_de(style, &b),
            None => "bad-op".into(),
        },
        ["enc.en", enc, ty, val] => codec::op_enc_en(enc, ty, val),
        ["enc.de", enc, ty, hex] => match codec::hex_dec(hex) {
            Some(b) => codec::op_enc_de(enc, ty, &b),
            None => "bad-op".into(),
        },
        ["dec", ty, hex] => match codec::hex_dec(hex) {
            Some(b) => gen_dispatch::dec(ty, &b).unwrap_or("bad-op".into()),
            None => "bad-op".into(),
        },
        ["parse", en, hex] => match codec::hex_dec(hex) {
            Some(b) => gen_dispatch::parse(en, &b).unwrap_or("bad-op".into()),
            None => "bad-op".into(),
        },
        ["read", en, chunks] => {
            let cs: Option<Vec<Vec<u8>>> = chunks.split('|').map(codec::hex_dec).collect();
            match cs {
                Some(cs) => gen_dispatch::read(en, cs).unwrap_or("bad-op".into()),
                None => "bad-op".into(),
            }
        }
        ["wf", block, password, dir, script] => {
            let items: Option<Vec<Vec<u8>>> = if *script == "." { Some(vec![]) } else { script.split(',').map(codec::hex_dec).collect() };
            match (block.parse::<u32>(), password.parse::<usize>(), items) {
                (Ok(b), Ok(p), Some(items)) => wf::run_wf(b, p, dir, items),
                _ => "bad-op".into(),
            }
        }
        ["seq", name, input, script] => {
            let items: Option<Vec<Vec<u8>>> = if *script == "." { Some(vec![]) } else { script.split(',').map(codec::hex_dec).collect() };
            match (codec::hex_dec(input), items) {
                (Some(i), Some(items)) => gen_dispatch::seq(name, &i, items).unwrap_or("bad-op".into()),
                _ => "bad-op".into(),
            }
        }
        _ => "bad-op".into(),
    }
}

/// A `log` backend at the most verbose level that evaluates every record (formats its arguments into a sink that
/// keeps nothing): code under test that misbehaves only when logging is switched on — a log argument that panics
/// or has a side effect — then misbehaves here as well. Nothing is printed.
struct EvalLogger;
struct NullSink;
impl std::fmt::Write for NullSink {
    fn write_str(&mut self, _s: &str) -> std::fmt::Result {
        Ok(())
    }
}
impl log::Log for EvalLogger {
    fn enabled(&self, _m: &log::Metadata) -> bool {
        true
    }
    fn log(&self, record: &log::Record) {
        let _ = std::fmt::write(&mut NullSink, *record.args());
    }
    fn flush(&self) {}
}
static LOGGER: EvalLogger = EvalLogger;

fn main() {
    std::panic::set_hook(Box::new(|_| {}));
    if std::env::var("HARNESS_NO_LOGGER").is_err() {
        let _ = log::set_logger(&LOGGER);
        log::set_max_level(log::LevelFilter::Trace);
    }
    let stdin = std::io::stdin();
    // The code under test prints progress with println! (WriteFile); keep the protocol channel clean:
    // answers go to a duplicate of the original stdout, fd 1 itself is pointed at /dev/null.
    let proto = unsafe {
        use std::os::unix::io::FromRawFd;
        let keep = libc::dup(1);
        let null = libc::open(b"/dev/null\0".as_ptr() as *const libc::c_char, libc::O_WRONLY);
        libc::dup2(null, 1);
        std::fs::File::from_raw_fd(keep)
    };
    let mut out = std::io::BufWriter::new(proto);
    let watchdog = std::env::var("HARNESS_NO_WATCHDOG").is_err();
    let stats = std::env::var("HARNESS_ALLOC_STATS").is_ok();
    let mut max_ratio = 0f64;
    let mut last_flush = std::time::Instant::now();
    for line in stdin.lock().lines() {
        let Ok(line) = line else { break };
        ALLOCATED.store(0, Ordering::Relaxed);
        DEC_ALLOC.store(0, Ordering::Relaxed);
        let started = std::time::Instant::now();
        let mut res = handle(&line);
        // watchdog: decoding may allocate only a small multiple of its input (bound calibrated on the unchanged
        // tree: the largest ratio observed is below 64 x input + 16 KiB, Debug formatting and re-encoding included)
        // DEC_ALLOC: bytes allocated by zvt_deserialize / zvt_parse alone (Debug formatting and re-encoding excluded)
        let used = DEC_ALLOC.load(Ordering::Relaxed);
        let bound = 64 * (line.len() / 2) + (16 << 10);
        if watchdog && (line.starts_with("dec ") || line.starts_with("parse ")) {
            if used > bound {
                res = format!("alloc-exceeded:{}", used);
            } else if started.elapsed().as_secs() >= 5 {
                res = "slow".to_string();
            }
        }
        if stats {
            max_ratio = max_ratio.max(used as f64 / (line.len() as f64 + 64.0));
        }
        writeln!(out, "{}", res).unwrap();
        // every answer is on the wire before the next operation starts: when an operation never returns, the runner sees
        // exactly which one (the line after the last answer) without bisecting
        if last_flush.elapsed().as_millis() >= 20 {
            out.flush().unwrap();
            last_flush = std::time::Instant::now();
        }
    }
    out.flush().unwrap();
    if stats {
        eprintln!("max alloc ratio (bytes allocated / (line length + 64)): {:.1}", max_ratio);
    }
}
