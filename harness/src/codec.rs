//! Codec operations of the line protocol: len.*, enc.*, dec, parse.
use std::fmt::Debug;
use std::panic::{catch_unwind, AssertUnwindSafe};
use zvt::encoding::{self, Encoding};
use zvt::length::{self, Length};
use zvt::{Tag, ZVTError, ZvtParser, ZvtSerializer};

pub fn hex_enc(b: &[u8]) -> String {
    if b.is_empty() {
        "-".to_string()
    } else {
        hex::encode(b)
    }
}

pub fn hex_dec(s: &str) -> Option<Vec<u8>> {
    if s == "-" {
        Some(vec![])
    } else {
        hex::decode(s).ok()
    }
}

pub fn err_kind(e: &ZVTError) -> String {
    match e {
        ZVTError::IncompleteData => "incomplete".into(),
        ZVTError::MissingRequiredTags(t) => format!("missing:{}", t.iter().map(|t| t.0.to_string()).collect::<Vec<_>>().join(",")),
        ZVTError::NonImplemented => "nonImplemented".into(),
        ZVTError::WrongTag(t) => format!("wrongTag:{}", t.0),
        ZVTError::DuplicateTag(t) => format!("duplicateTag:{}", t.0),
        ZVTError::Aborted(c) => format!("aborted:{}", c),
    }
}

fn guard<F: FnOnce() -> String>(f: F) -> String {
    match catch_unwind(AssertUnwindSafe(f)) {
        Ok(s) => s,
        Err(_) => "panic".to_string(),
    }
}

// ---------------------------------------------------------------- Debug -> canonical value

struct P<'a> {
    s: &'a [u8],
    i: usize,
}

impl<'a> P<'a> {
    fn ws(&mut self) {
        while self.i < self.s.len() && (self.s[self.i] == b' ' || self.s[self.i] == b'\n') {
            self.i += 1;
        }
    }
    fn peek(&self) -> u8 {
        if self.i < self.s.len() {
            self.s[self.i]
        } else {
            0
        }
    }
    fn eat(&mut self, c: u8) -> bool {
        self.ws();
        if self.peek() == c {
            self.i += 1;
            true
        } else {
            false
        }
    }
    fn ident(&mut self) -> String {
        self.ws();
        let st = self.i;
        while self.i < self.s.len() && (self.s[self.i].is_ascii_alphanumeric() || self.s[self.i] == b'_') {
            self.i += 1;
        }
        String::from_utf8_lossy(&self.s[st..self.i]).to_string()
    }
    fn string(&mut self) -> String {
        // at opening quote
        self.i += 1;
        let mut out = String::new();
        let text = std::str::from_utf8(&self.s[self.i..]).unwrap();
        let mut chars = text.char_indices();
        while let Some((k, c)) = chars.next() {
            match c {
                '"' => {
                    self.i += k + 1;
                    return out;
                }
                '\\' => {
                    let (_, e) = chars.next().unwrap();
                    match e {
                        'n' => out.push('\n'),
                        'r' => out.push('\r'),
                        't' => out.push('\t'),
                        '0' => out.push('\0'),
                        '\\' => out.push('\\'),
                        '"' => out.push('"'),
                        '\'' => out.push('\''),
                        'u' => {
                            chars.next(); // {
                            let mut v = 0u32;
                            for (_, h) in chars.by_ref() {
                                if h == '}' {
                                    break;
                                }
                                v = v * 16 + h.to_digit(16).unwrap();
                            }
                            out.push(char::from_u32(v).unwrap());
                        }
                        other => panic!("unknown escape {other}"),
                    }
                }
                c => out.push(c),
            }
        }
        panic!("unterminated string")
    }
    fn value(&mut self) -> String {
        self.ws();
        let c = self.peek();
        if c == b'"' {
            let s = self.string();
            return format!("s:{}", hex_enc(s.as_bytes()));
        }
        if c == b'[' {
            self.i += 1;
            let mut items = vec![];
            loop {
                self.ws();
                if self.eat(b']') {
                    break;
                }
                items.push(self.value());
                self.eat(b',');
            }
            return format!("[{}]", items.join(" "));
        }
        if c == b'+' || c.is_ascii_digit() {
            // number or date-time
            let st = self.i;
            if c == b'+' {
                self.i += 1;
            }
            while self.i < self.s.len() && (self.s[self.i].is_ascii_digit() || matches!(self.s[self.i], b'-' | b'T' | b':' | b'.')) {
                self.i += 1;
            }
            let t = std::str::from_utf8(&self.s[st..self.i]).unwrap();
            if let Some((d, tm)) = t.split_once('T') {
                let d = d.trim_start_matches('+');
                let mut parts: Vec<&str> = d.rsplitn(3, '-').collect();
                parts.reverse(); // y m d
                let date: u64 = parts[0].parse::<u64>().unwrap() * 10000 + parts[1].parse::<u64>().unwrap() * 100 + parts[2].parse::<u64>().unwrap();
                let tp: Vec<&str> = tm.split(':').collect();
                let time: u64 = tp[0].parse::<u64>().unwrap() * 10000 + tp[1].parse::<u64>().unwrap() * 100 + tp[2].split('.').next().unwrap().parse::<u64>().unwrap();
                return format!("dt:{}:{}", date, time);
            }
            return t.to_string();
        }
        let id = self.ident();
        match id.as_str() {
            "None" => "none".to_string(),
            "Some" => {
                self.eat(b'(');
                let v = self.value();
                self.eat(b')');
                format!("(some {})", v)
            }
            _ => {
                // struct: Name { f: v, .. } or unit-like `Name`
                self.ws();
                if self.eat(b'{') {
                    let mut fields = vec![];
                    loop {
                        self.ws();
                        if self.eat(b'}') {
                            break;
                        }
                        let f = self.ident();
                        self.eat(b':');
                        let v = self.value();
                        fields.push(format!("{}={}", f, v));
                        self.eat(b',');
                    }
                    format!("{{{}}}", fields.join(" "))
                } else {
                    "{}".to_string()
                }
            }
        }
    }
}

pub fn canon_debug(dbg: &str) -> String {
    let mut p = P { s: dbg.as_bytes(), i: 0 };
    p.value()
}

// ---------------------------------------------------------------- dec / parse

/// records how much the decoder call itself allocated
fn mark<T>(x: T) -> T {
    use std::sync::atomic::Ordering;
    crate::alloc::DEC_ALLOC.store(crate::alloc::ALLOCATED.load(Ordering::Relaxed), Ordering::Relaxed);
    x
}

pub fn run_dec<T>(bytes: &[u8]) -> String
where
    T: ZvtSerializer + Debug,
    encoding::Default: encoding::Encoding<T>,
{
    guard(|| match mark(T::zvt_deserialize(bytes)) {
        Err(e) => format!("err {}", err_kind(&e)),
        Ok((v, rem)) => {
            let val = canon_debug(&format!("{:?}", v));
            let rem = hex_enc(rem);
            let reenc = match catch_unwind(AssertUnwindSafe(|| v.zvt_serialize())) {
                Ok(b) => hex_enc(&b),
                Err(_) => "panic".to_string(),
            };
            format!("ok {} rem={} reenc={}", val, rem, reenc)
        }
    })
}

pub trait Describe {
    /// (variant index, variant name, Debug of the payload)
    fn describe(&self) -> (usize, &'static str, String);
}

pub fn run_parse<T: ZvtParser + Describe>(bytes: &[u8]) -> String {
    guard(|| match mark(T::zvt_parse(bytes)) {
        Err(e) => format!("err {}", err_kind(&e)),
        Ok(v) => {
            let (i, name, dbg) = v.describe();
            format!("ok {} {} {}", i, name, canon_debug(&dbg))
        }
    })
}

// ---------------------------------------------------------------- len.*

macro_rules! with_fixed {
    ($n:expr, $f:ident, $($a:expr),*) => {
        match $n {
            0 => $f::<length::Fixed<0>>($($a),*), 1 => $f::<length::Fixed<1>>($($a),*), 2 => $f::<length::Fixed<2>>($($a),*),
            3 => $f::<length::Fixed<3>>($($a),*), 4 => $f::<length::Fixed<4>>($($a),*), 5 => $f::<length::Fixed<5>>($($a),*),
            6 => $f::<length::Fixed<6>>($($a),*), 7 => $f::<length::Fixed<7>>($($a),*), 8 => $f::<length::Fixed<8>>($($a),*),
            9 => $f::<length::Fixed<9>>($($a),*), 10 => $f::<length::Fixed<10>>($($a),*), 11 => $f::<length::Fixed<11>>($($a),*),
            12 => $f::<length::Fixed<12>>($($a),*), 13 => $f::<length::Fixed<13>>($($a),*), 14 => $f::<length::Fixed<14>>($($a),*),
            15 => $f::<length::Fixed<15>>($($a),*), 16 => $f::<length::Fixed<16>>($($a),*), 17 => $f::<length::Fixed<17>>($($a),*),
            _ => "bad-op".to_string(),
        }
    };
}

fn len_ser<L: Length>(n: usize) -> String {
    guard(|| format!("ok {}", hex_enc(&L::serialize(n))))
}

fn len_de<L: Length>(b: &[u8]) -> String {
    guard(|| match L::deserialize(b) {
        Ok((n, rest)) => format!("ok {} {}", n, hex_enc(rest)),
        Err(e) => format!("err {}", err_kind(&e)),
    })
}

pub fn op_len_ser(style: &str, n: usize) -> String {
    match style {
        "empty" => len_ser::<length::Empty>(n),
        "tlv" => len_ser::<length::Tlv>(n),
        "adpu" => len_ser::<length::Adpu>(n),
        "llv:1" => len_ser::<length::LlvImpl<1>>(n),
        "llv:2" => len_ser::<length::LlvImpl<2>>(n),
        "llv:3" => len_ser::<length::LlvImpl<3>>(n),
        "llv:4" => len_ser::<length::LlvImpl<4>>(n),
        s if s.starts_with("fixed:") => {
            let k: usize = s[6..].parse().unwrap_or(99);
            with_fixed!(k, len_ser, n)
        }
        _ => "bad-op".to_string(),
    }
}

pub fn op_len_de(style: &str, b: &[u8]) -> String {
    match style {
        "empty" => len_de::<length::Empty>(b),
        "tlv" => len_de::<length::Tlv>(b),
        "adpu" => len_de::<length::Adpu>(b),
        "llv:1" => len_de::<length::LlvImpl<1>>(b),
        "llv:2" => len_de::<length::LlvImpl<2>>(b),
        "llv:3" => len_de::<length::LlvImpl<3>>(b),
        "llv:4" => len_de::<length::LlvImpl<4>>(b),
        s if s.starts_with("fixed:") => {
            let k: usize = s[6..].parse().unwrap_or(99);
            with_fixed!(k, len_de, b)
        }
        _ => "bad-op".to_string(),
    }
}

// ---------------------------------------------------------------- enc.*

fn int_en<E, T>(v: u64) -> String
where
    E: Encoding<T>,
    T: TryFrom<u64>,
{
    match T::try_from(v) {
        Ok(t) => guard(|| format!("ok {}", hex_enc(&E::encode(&t)))),
        Err(_) => "bad-op".to_string(),
    }
}

fn int_de<E, T>(b: &[u8]) -> String
where
    E: Encoding<T>,
    T: Into<u128> + Copy,
{
    guard(|| match E::decode(b) {
        Ok((v, rest)) => format!("ok {} rem={}", Into::<u128>::into(v), hex_enc(rest)),
        Err(e) => format!("err {}", err_kind(&e)),
    })
}

fn usize_de<E: Encoding<usize>>(b: &[u8]) -> String {
    guard(|| match E::decode(b) {
        Ok((v, rest)) => format!("ok {} rem={}", v, hex_enc(rest)),
        Err(e) => format!("err {}", err_kind(&e)),
    })
}

fn str_en<E: Encoding<String>>(hexutf8: &str) -> String {
    let Some(b) = hex_dec(hexutf8) else { return "bad-op".into() };
    let Ok(s) = String::from_utf8(b) else { return "bad-op".into() };
    guard(|| format!("ok {}", hex_enc(&E::encode(&s))))
}

fn str_de<E: Encoding<String>>(b: &[u8]) -> String {
    guard(|| match E::decode(b) {
        Ok((v, rest)) => format!("ok s:{} rem={}", hex_enc(v.as_bytes()), hex_enc(rest)),
        Err(e) => format!("err {}", err_kind(&e)),
    })
}

fn tag_en<E: Encoding<Tag>>(v: u64) -> String {
    if v > 0xffff {
        return "bad-op".into();
    }
    guard(|| format!("ok {}", hex_enc(&E::encode(&Tag(v as u16)))))
}

fn tag_de<E: Encoding<Tag>>(b: &[u8]) -> String {
    guard(|| match E::decode(b) {
        Ok((v, rest)) => format!("ok {} rem={}", v.0, hex_enc(rest)),
        Err(e) => format!("err {}", err_kind(&e)),
    })
}

pub fn op_enc_en(enc: &str, ty: &str, val: &str) -> String {
    use encoding::{Bcd, BigEndian, Default, Hex, Utf8};
    use zvt::feig::packets::tlv::Custom;
    use zvt::packets::PartialReversalReceiptNo as Prrn;
    let num = || val.parse::<u64>().ok();
    match (enc, ty) {
        ("dflt", "str") => str_en::<Default>(val),
        ("hex", "str") => str_en::<Hex>(val),
        ("utf8", "str") => str_en::<Utf8>(val),
        ("custom", "bytes") => match hex_dec(val) {
            Some(b) => guard(|| format!("ok {}", hex_enc(&<Custom as Encoding<Vec<u8>>>::encode(&b)))),
            None => "bad-op".into(),
        },
        ("dflt", "dt") => {
            let Some((d, t)) = val.split_once(':') else { return "bad-op".into() };
            let (Ok(d), Ok(t)) = (d.parse::<u32>(), t.parse::<u32>()) else { return "bad-op".into() };
            let Some(dt) = chrono::NaiveDate::from_ymd_opt((d / 10000) as i32, d / 100 % 100, d % 100).and_then(|x| x.and_hms_opt(t / 10000, t / 100 % 100, t % 100)) else {
                return "bad-op".into();
            };
            guard(|| format!("ok {}", hex_enc(&<Default as Encoding<chrono::NaiveDateTime>>::encode(&dt))))
        }
        _ => {
            let Some(v) = num() else { return "bad-op".into() };
            match (enc, ty) {
                ("dflt", "u8") => int_en::<Default, u8>(v),
                ("dflt", "u16") => int_en::<Default, u16>(v),
                ("dflt", "u32") => int_en::<Default, u32>(v),
                ("dflt", "u64") => int_en::<Default, u64>(v),
                ("dflt", "usize") => int_en::<Default, usize>(v),
                ("be", "u8") => int_en::<BigEndian, u8>(v),
                ("be", "u16") => int_en::<BigEndian, u16>(v),
                ("be", "u32") => int_en::<BigEndian, u32>(v),
                ("be", "u64") => int_en::<BigEndian, u64>(v),
                ("be", "usize") => int_en::<BigEndian, usize>(v),
                ("bcd", "u8") => int_en::<Bcd, u8>(v),
                ("bcd", "u16") => int_en::<Bcd, u16>(v),
                ("bcd", "u32") => int_en::<Bcd, u32>(v),
                ("bcd", "u64") => int_en::<Bcd, u64>(v),
                ("bcd", "usize") => int_en::<Bcd, usize>(v),
                ("prrn", "usize") => int_en::<Prrn, usize>(v),
                ("dflt", "tag") => tag_en::<Default>(v),
                ("be", "tag") => tag_en::<BigEndian>(v),
                _ => "bad-op".into(),
            }
        }
    }
}

pub fn op_enc_de(enc: &str, ty: &str, b: &[u8]) -> String {
    use encoding::{Bcd, BigEndian, Default, Hex, Utf8};
    use zvt::feig::packets::tlv::Custom;
    use zvt::packets::PartialReversalReceiptNo as Prrn;
    match (enc, ty) {
        ("dflt", "str") => str_de::<Default>(b),
        ("hex", "str") => str_de::<Hex>(b),
        ("utf8", "str") => str_de::<Utf8>(b),
        ("custom", "bytes") => guard(|| match <Custom as Encoding<Vec<u8>>>::decode(b) {
            Ok((v, rest)) => format!("ok {} rem={}", hex_enc(&v), hex_enc(rest)),
            Err(e) => format!("err {}", err_kind(&e)),
        }),
        ("dflt", "dt") => guard(|| match <Default as Encoding<chrono::NaiveDateTime>>::decode(b) {
            Ok((v, rest)) => format!("ok {} rem={}", canon_debug(&format!("{:?}", v)), hex_enc(rest)),
            Err(e) => format!("err {}", err_kind(&e)),
        }),
        ("dflt", "u8") => int_de::<Default, u8>(b),
        ("dflt", "u16") => int_de::<Default, u16>(b),
        ("dflt", "u32") => int_de::<Default, u32>(b),
        ("dflt", "u64") => int_de::<Default, u64>(b),
        ("dflt", "usize") => usize_de::<Default>(b),
        ("be", "u8") => int_de::<BigEndian, u8>(b),
        ("be", "u16") => int_de::<BigEndian, u16>(b),
        ("be", "u32") => int_de::<BigEndian, u32>(b),
        ("be", "u64") => int_de::<BigEndian, u64>(b),
        ("be", "usize") => usize_de::<BigEndian>(b),
        ("bcd", "u8") => int_de::<Bcd, u8>(b),
        ("bcd", "u16") => int_de::<Bcd, u16>(b),
        ("bcd", "u32") => int_de::<Bcd, u32>(b),
        ("bcd", "u64") => int_de::<Bcd, u64>(b),
        ("bcd", "usize") => usize_de::<Bcd>(b),
        ("prrn", "usize") => usize_de::<Prrn>(b),
        ("dflt", "tag") => tag_de::<Default>(b),
        ("be", "tag") => tag_de::<BigEndian>(b),
        _ => "bad-op".into(),
    }
}
