use std::alloc::{GlobalAlloc, Layout, System};
use std::sync::atomic::{AtomicUsize, Ordering};

/// Counting allocator: bytes requested since the last reset (allocation watchdog of C02).
pub struct Counting;
pub static ALLOCATED: AtomicUsize = AtomicUsize::new(0);
/// bytes allocated by the decoder call alone, recorded by codec::run_dec / run_parse
pub static DEC_ALLOC: AtomicUsize = AtomicUsize::new(0);

unsafe impl GlobalAlloc for Counting {
    unsafe fn alloc(&self, l: Layout) -> *mut u8 {
        ALLOCATED.fetch_add(l.size(), Ordering::Relaxed);
        System.alloc(l)
    }
    unsafe fn dealloc(&self, p: *mut u8, l: Layout) {
        System.dealloc(p, l)
    }
    unsafe fn realloc(&self, p: *mut u8, l: Layout, n: usize) -> *mut u8 {
        ALLOCATED.fetch_add(n.saturating_sub(l.size()), Ordering::Relaxed);
        System.realloc(p, l, n)
    }
}

#[global_allocator]
pub static GLOBAL: Counting = Counting;

