//! C12: line-protocol binary over randomly generated `#[derive(Zvt)]` structs (src/lab.rs, generated),
//! compiled with the working-tree zvt_derive. Only the `dec` op.
#[path = "../../harness/src/alloc.rs"]
mod alloc;
#[path = "../../harness/src/codec.rs"]
mod codec;
mod gen_dispatch;
mod lab;
mod transport {
    pub fn run_read<T>(_: Vec<Vec<u8>>) -> String {
        "bad-op".into()
    }
}
mod seq {}

use std::io::{BufRead, Write};

fn main() {
    std::panic::set_hook(Box::new(|_| {}));
    let stdin = std::io::stdin();
    let stdout = std::io::stdout();
    let mut out = std::io::BufWriter::new(stdout.lock());
    for line in stdin.lock().lines() {
        let Ok(line) = line else { break };
        let parts: Vec<&str> = line.split_whitespace().collect();
        let res = match parts.as_slice() {
            ["dec", ty, hex] => match codec::hex_dec(hex) {
                Some(b) => gen_dispatch::dec(ty, &b).unwrap_or("bad-op".into()),
                None => "bad-op".into(),
            },
            _ => "bad-op".into(),
        };
        writeln!(out, "{}", res).unwrap();
    }
    out.flush().unwrap();
}
