use num_traits::FromPrimitive;

fn main() {
    for c in 0u16..=255 {
        if let Some(v) = zvt::constants::ErrorMessages::from_u8(c as u8) {
            println!("{}\t{:?}\t{}", c, v, v);
        }
    }
}
