"""Shared machinery of ./check: translate, prove, audit, build, correspond, verdict, evidence."""
import fcntl, hashlib, json, os, random, re, shutil, subprocess, sys, time

VERIF = os.path.dirname(os.path.dirname(os.path.abspath(__file__)))
REPO = os.environ.get("ZVT_REPO", "/repo")
LEAN = os.path.join(VERIF, "lean")
BUILD = os.path.join(VERIF, ".build")
GEN = os.path.join(BUILD, "gen")
ALLOWED_AXIOMS = {"propext", "Classical.choice", "Quot.sound"}
NCPU = os.cpu_count() or 4

ENV = dict(os.environ)
ENV.update({"CARGO_NET_OFFLINE": "true", "CARGO_TERM_COLOR": "never"})


def log(*a):
    print("[check]", *a, file=sys.stderr, flush=True)


class Lock:
    def __enter__(self):
        os.makedirs(BUILD, exist_ok=True)
        self.f = open(os.path.join(BUILD, "lock"), "w")
        fcntl.flock(self.f, fcntl.LOCK_EX)
        return self

    def __exit__(self, *a):
        fcntl.flock(self.f, fcntl.LOCK_UN)
        self.f.close()


def run(cmd, cwd=None, inp=None, timeout=None, env=None):
    p = subprocess.run(cmd, cwd=cwd, input=inp, capture_output=True, text=True, timeout=timeout, env=env or ENV)
    return p.returncode, p.stdout, p.stderr


# ----------------------------------------------------------------------------- translate

def cargo_build(crate, release=False, features=None):
    d = os.path.join(VERIF, crate)
    shutil.copyfile(os.path.join(REPO, "Cargo.lock"), os.path.join(d, "Cargo.lock"))
    cmd = ["cargo", "build", "--offline"] + (["--release"] if release else [])
    t = time.time()
    rc, out, err = run(cmd, cwd=d)
    return rc, err, time.time() - t


def translate():
    """Rebuild the translator if needed and re-run it on /repo. Returns (schema dict | None, problems)."""
    rc, err, _ = cargo_build("extract", release=True)
    if rc != 0:
        return None, ["translator does not build: " + err[-2000:]]
    os.makedirs(GEN, exist_ok=True)
    rc, out, err = run([os.path.join(VERIF, "extract/target/release/extract"), REPO,
                        os.path.join(LEAN, "ZvtVerif/Generated.lean"), os.path.join(GEN, "schema.json"),
                        os.path.join(VERIF, "harness/src/gen_dispatch.rs")])
    if rc != 0:
        return None, ["translator failed: " + (out + err)[-2000:]]
    schema = json.load(open(os.path.join(GEN, "schema.json")))
    if any(p.startswith(("ErrorMessages", "no Display message", "constants.rs")) for p in schema.get("problems", [])):
        # the result-code table is declared in a way the static reader does not understand: obtain it by RUNNING the code
        rc, err, _ = cargo_build("tablegen")
        if rc == 0:
            rc, out, err = run([os.path.join(VERIF, "tablegen/target/debug/tablegen")])
        if rc == 0 and out.strip():
            tsv = os.path.join(GEN, "errors.tsv")
            open(tsv, "w").write(out)
            rc, out, err = run([os.path.join(VERIF, "extract/target/release/extract"), REPO,
                                os.path.join(LEAN, "ZvtVerif/Generated.lean"), os.path.join(GEN, "schema.json"),
                                os.path.join(VERIF, "harness/src/gen_dispatch.rs")], env=dict(ENV, ZVT_ERRORS_TSV=tsv))
            if rc != 0:
                return None, ["translator failed: " + (out + err)[-2000:]]
            schema = json.load(open(os.path.join(GEN, "schema.json")))
            schema["error_table_obtained_by_running_the_code"] = True
    return schema, list(schema.get("problems", []))


# ----------------------------------------------------------------------------- prove + audit

def theorem_names(module):
    """theorem names (fully qualified) declared in a Properties module, in order."""
    path = os.path.join(LEAN, module.replace(".", "/") + ".lean")
    src = open(path).read()
    ns = []
    names = []
    for line in src.splitlines():
        m = re.match(r"\s*namespace\s+(\S+)", line)
        if m:
            ns.append(m.group(1))
        m = re.match(r"\s*end\s+(\S+)\s*$", line)
        if m and ns and ns[-1] == m.group(1):
            ns.pop()
        m = re.match(r"\s*(?:private\s+|protected\s+)?theorem\s+([A-Za-z_][A-Za-z0-9_'.]*)", line)
        if m:
            names.append(".".join(ns + [m.group(1)]))
    return names, src


FORBIDDEN = re.compile(r"\b(sorry|admit|native_decide|bv_decide|implemented_by|unsafe)\b|^\s*axiom\s|maxHeartbeats\s+0")


def strip_comments(src):
    src = re.sub(r"/-.*?-/", "", src, flags=re.S)
    src = re.sub(r"--.*", "", src)
    return src


def forbidden_hits():
    hits = []
    for root, _, files in os.walk(os.path.join(LEAN, "ZvtVerif")):
        for f in files:
            if f.endswith(".lean"):
                p = os.path.join(root, f)
                for i, line in enumerate(strip_comments(open(p).read()).splitlines()):
                    if FORBIDDEN.search(line):
                        hits.append(f"{os.path.relpath(p, LEAN)}:{i+1}: {line.strip()}")
    return hits


def prove(modules, recheck=False):
    """lake build the property modules; audit axioms of every theorem in them; with `recheck` the compiled modules are
    additionally replayed by leanchecker (Lean's independent re-checker of .olean files).
    Returns dict(obligations=[{name, ok, axioms}], build_ok, build_log, failed=[names])"""
    res = {"obligations": [], "build_ok": True, "build_log": "", "failed": []}
    t = time.time()
    rc, out, err = run(["lake", "build"] + modules, cwd=LEAN)
    res["build_s"] = round(time.time() - t, 1)
    res["build_log"] = (out + err)[-6000:]
    names = []
    for m in modules:
        n, _ = theorem_names(m)
        names += [(m, x) for x in n]
    if rc != 0:
        res["build_ok"] = False
        # find which theorems failed: error lines carry file:line; map to the enclosing theorem
        bad = set()
        for m in modules:
            path = os.path.join(LEAN, m.replace(".", "/") + ".lean")
            rel = os.path.relpath(path, LEAN)
            src = open(path).read().splitlines()
            for mm in re.finditer(re.escape(rel) + r":(\d+):\d+: error", out + err):
                ln = int(mm.group(1))
                cur = None
                for i in range(min(ln, len(src)) - 1, -1, -1):
                    t2 = re.match(r"\s*(?:private\s+)?(?:theorem|example|def|instance|lemma)\s*([A-Za-z_][A-Za-z0-9_'.]*)?", src[i])
                    if t2:
                        cur = t2.group(1) or f"example@{i+1}"
                        break
                bad.add((m, cur))
        # errors in imported modules (model / lemma files / Generated)
        for mm in re.finditer(r"(ZvtVerif/[A-Za-z0-9_/]+\.lean):(\d+):\d+: error", out + err):
            if not any(mm.group(1) == m.replace(".", "/") + ".lean" for m in modules):
                bad.add((mm.group(1), f"line {mm.group(2)}"))
        res["failed"] = sorted(f"{m}:{n}" for m, n in bad) or ["build failed (see log)"]
        for m, n in names:
            res["obligations"].append({"name": n, "ok": False, "axioms": None})
        return res
    # audit
    audit = "\n".join(f"import {m}" for m in modules) + "\n" + "\n".join(f"#print axioms {n}" for _, n in names) + "\n"
    ap = os.path.join(BUILD, "Audit_%s.lean" % hashlib.md5(audit.encode()).hexdigest()[:8])
    open(ap, "w").write(audit)
    rc, out, err = run(["lake", "env", "lean", ap], cwd=LEAN)
    txt = out + err
    ax = {}
    for mm in re.finditer(r"'([^']+)' depends on axioms: \[([^\]]*)\]", txt, flags=re.S):
        ax[mm.group(1)] = [a.strip() for a in mm.group(2).replace("\n", " ").split(",") if a.strip()]
    for mm in re.finditer(r"'([^']+)' does not depend on any axioms", txt):
        ax[mm.group(1)] = []
    for m, n in names:
        a = ax.get(n)
        ok = a is not None and set(a) <= ALLOWED_AXIOMS
        res["obligations"].append({"name": n, "ok": ok, "axioms": a})
        if not ok:
            res["failed"].append(f"{m}:{n} axioms={a}")
    hits = forbidden_hits()
    if hits:
        res["failed"] += ["forbidden construct: " + h for h in hits]
    if recheck:
        for m in modules:
            rc, out, err = run(["lake", "env", "leanchecker", m], cwd=LEAN)
            res.setdefault("leanchecker", {})[m] = rc
            if rc != 0:
                res["failed"].append(f"leanchecker rejects {m}: {(out + err)[-300:]}")
    return res


# ----------------------------------------------------------------------------- build + run

def build_driver():
    rc, out, err = run(["lake", "build", "driver"], cwd=LEAN)
    return rc == 0, (out + err)[-4000:]


def build_harness(release=False):
    rc, err, secs = cargo_build("harness", release=release)
    return rc == 0, err[-6000:], secs


def driver_bin():
    return os.path.join(LEAN, ".lake/build/bin/driver")


def harness_bin(release=False):
    # ZVT_HARNESS_BIN: run another build of the same harness (e.g. one instrumented for coverage, tools/coverage.sh)
    if os.environ.get("ZVT_HARNESS_BIN") and not release:
        return os.environ["ZVT_HARNESS_BIN"]
    return os.path.join(VERIF, "harness/target", "release" if release else "debug", "harness")


STALL_S = 90          # a process that answers nothing for this long (no byte of output) is taken to hang in its current operation
MAX_HANGS = 3         # after that many operations of one shard that never return, the rest of the shard is not run ("unanswered")


def _run_once(binary, lines, timeout, stall=None):
    """one process; returns (answers, status) with status in ok|died|timeout|stalled; answers may be shorter than lines.
    The harness flushes its answers at least every 20 ms of work, so when nothing at all arrives for STALL_S seconds the
    operation after the last complete answer is the one that does not return."""
    import tempfile
    with tempfile.TemporaryFile("w+") as fin, tempfile.NamedTemporaryFile("w+") as fout:
        fin.write("\n".join(lines) + "\n")
        fin.seek(0)
        p = subprocess.Popen([binary], stdin=fin, stdout=fout, stderr=subprocess.DEVNULL, text=True, env=ENV)
        status = "ok"
        t0 = time.time()
        last_size, last_change = -1, time.time()
        while True:
            try:
                p.wait(timeout=1.0)
                break
            except subprocess.TimeoutExpired:
                pass
            now = time.time()
            size = os.path.getsize(fout.name)
            if size != last_size:
                last_size, last_change = size, now
            if now - t0 > timeout:
                status = "timeout"
            elif now - last_change > (stall or STALL_S) and "harness" in os.path.basename(binary):
                status = "stalled"
            if status != "ok":
                p.kill()
                p.wait()
                break
        fout.seek(0)
        data = fout.read()
        out = data.split("\n")
        complete = data.endswith("\n")
        if out and out[-1] == "":
            out.pop()
        elif out and not complete:
            out.pop()          # a half-written last line
        if status == "ok" and len(out) < len(lines):
            status = "died"
        return out, status


HANGS_SEEN = {"n": 0}      # operations that did not return, over the whole check run


def _run_shard(binary, lines, timeout):
    """answers for all lines; an operation that kills the process is answered `died`, one that does not return `hang`;
    after MAX_HANGS such operations the remaining ones of the shard are answered `unanswered` (not run). Once a check run has
    met hangs, later batches give up after the first one per shard and wait less long for it."""
    answers = []
    rest = lines
    hangs = 0
    while rest:
        impatient = HANGS_SEEN["n"] >= MAX_HANGS
        out, status = _run_once(binary, rest, timeout, stall=30 if impatient else STALL_S)
        if status == "ok":
            return answers + out
        # the process flushes complete answers only; the operation after the last answer is the culprit. A process that was
        # killed for being silent may have answers in its buffer that never reached us: at most 20 ms worth, re-run below.
        done = out[: len(rest) - 1] if len(out) >= len(rest) else out
        answers += done
        culprit = rest[len(done)]
        # make sure it is this operation alone (and not lost buffered answers): run it in a process of its own
        one, st1 = _run_once(binary, [culprit], min(timeout, (30 if impatient else STALL_S) + 15), stall=30 if impatient else STALL_S)
        if st1 == "ok" and len(one) == 1:
            answers.append(one[0])
        else:
            answers.append("died" if st1 == "died" else "hang")
            hangs += 1
            if st1 != "died":
                HANGS_SEEN["n"] += 1
        rest = rest[len(done) + 1:]
        if (hangs >= MAX_HANGS or (impatient and hangs >= 1)) and rest:
            return answers + ["unanswered"] * len(rest)
    return answers


def run_lines(binary, lines, shards=1, timeout=1800):
    """feed lines to a line-protocol binary (sharded over processes); returns one answer per line"""
    if not lines:
        return []
    import threading
    shards = max(1, min(shards, len(lines) // 2000 + 1))
    chunks = [lines[i::shards] for i in range(shards)]
    results = [None] * shards

    def work(i):
        results[i] = _run_shard(binary, chunks[i], timeout)

    th = [threading.Thread(target=work, args=(i,)) for i in range(shards)]
    for t in th:
        t.start()
    for t in th:
        t.join()
    out = [None] * len(lines)
    for s in range(shards):
        r, c = results[s], chunks[s]
        if len(r) < len(c):
            r = r + ["died"] * (len(c) - len(r))
        for k in range(len(c)):
            out[s + k * shards] = r[k]
    return out


def hexs(b):
    return b.hex() if b else "-"


def unhex(s):
    return b"" if s == "-" else bytes.fromhex(s)


# ----------------------------------------------------------------------------- verdict / evidence

def known_findings():
    p = os.path.join(VERIF, "known_findings.json")
    try:
        return [f for f in json.load(open(p))["findings"] if f.get("status") == "known"]
    except Exception:
        return []


def write_replay(prop, name, obj):
    d = os.path.join(VERIF, "replays")
    os.makedirs(d, exist_ok=True)
    p = os.path.join(d, f"{prop}-{name}.json")
    json.dump(obj, open(p, "w"), indent=1)
    return os.path.relpath(p, VERIF)


def write_evidence(prop, tier, seed, coverage, assumptions, wall, violations):
    d = os.path.join(VERIF, "evidence")
    os.makedirs(d, exist_ok=True)
    ev = {"property_id": prop, "tier": tier, "seed": seed, "level": "proof", "coverage": coverage,
          "assumptions": assumptions, "wall_s": round(wall, 2), "violations": violations}
    json.dump(ev, open(os.path.join(d, f"{prop}.json"), "w"), indent=1)


TRUSTED_BASE = [
    "Lean 4.33 kernel; axioms allowed: propext, Classical.choice, Quot.sound (audited per theorem with #print axioms); no native_decide/bv_decide/sorry/axiom",
    "translator /verif/extract (syn): attribute tables, reply enums, sequence shapes, result-code table, file ids, constants are regenerated from /repo on every run",
    "hand-written Lean model of zvt_builder / zvt_derive / io / sequences / stream / feig algorithms, tied to the Rust code by differential execution (harness vs driver) on this run's inputs",
    "Rust harness + python generators/oracles of /verif; rustc, tokio, chrono, yore, hex as used by the repository",
]
