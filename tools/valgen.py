"""Type-directed generation of canonical values (DESIGN.md §5.1) from a layout / schema, and their
canonical text form (identical to what harness and driver print)."""
from . import refcodec as R

CP437 = [bytes([b]).decode("cp437") for b in range(256)]


def hexs(b):
    return b.hex() if b else "-"


def show(layout, ty, v):
    k = ty["k"]
    if k == "opt":
        return "none" if v is None else "(some " + show(layout, ty["t"], v) + ")"
    if k == "vec":
        return "[" + " ".join(show(layout, ty["t"], x) for x in v) + "]"
    if k == "int":
        return str(v)
    if k == "str":
        return "s:" + hexs(v.encode())
    if k == "bytes":
        return "[" + " ".join(str(x) for x in v) + "]"
    if k == "dt":
        return f"dt:{v[0]}:{v[1]}"
    if k == "struct":
        s = layout["by_name"][ty["name"]]
        return "{" + " ".join(f["name"] + "=" + show(layout, f["ty"], v[f["name"]]) for f in s["fields"]) + "}"
    raise ValueError(k)


def max_payload(style, cap=None):
    if style.startswith("fixed:"):
        return int(style[6:])
    if style == "llv:2":
        return 99
    if style == "llv:3":
        return 999
    if style.startswith("llv:"):
        return 10 ** int(style[4:]) - 1
    if style == "tlv":
        return 65535
    return None   # empty / temperature: delimited by the surrounding container


def days_in_month(y, m):
    if m == 2:
        return 29 if (y % 4 == 0 and y % 100 != 0) or y % 400 == 0 else 28
    return 30 if m in (4, 6, 9, 11) else 31


class Gen:
    def __init__(self, layout, rng, big=False, small=False):
        self.layout, self.rng, self.big, self.small = layout, rng, big, small

    def length_choice(self, lo, hi):
        """a length in lo..hi biased to the ends"""
        r = self.rng
        if hi <= lo:
            return lo
        if self.small:
            return r.randint(lo, min(hi, lo + 2))
        c = r.random()
        if c < 0.15:
            return lo
        if c < 0.3:
            return hi if (self.big or hi <= 40) else r.choice([min(hi, 40), min(hi, 130), min(hi, 260)])
        if c < 0.4:
            return max(lo, (hi if (self.big or hi <= 40) else min(hi, 260)) - 1)
        if c < 0.5:
            return min(hi, lo + 1)
        return r.randint(lo, min(hi, 24))

    def num(self, top):
        r = self.rng
        c = r.random()
        if c < 0.1:
            return 0
        if c < 0.2:
            return top - 1
        if c < 0.3:
            return min(top - 1, 1)
        if c < 0.6:
            k = r.randint(1, max(1, len(str(top - 1))))
            return min(top - 1, max(0, 10 ** k + r.choice([-1, 0, 1])))
        if c < 0.8:
            return r.randrange(top)
        return r.randrange(min(top, 10 ** r.randint(1, 6)))

    def leaf(self, field, ty, last_positional_greedy=False):
        r = self.rng
        k, enc, style = ty["k"], field["encoding"], field["length"]
        mp = max_payload(style)
        if k == "int":
            top = 256 ** ty["w"]
            if enc == "bcd":
                if mp is not None and mp < 10:
                    top = min(top, 100 ** mp)
                return self.num(top)
            if enc == "prrn":
                return 0xffff if r.random() < 0.3 else self.num(10000)
            return self.num(top)
        if k == "str":
            if enc == "hex":
                hi = mp if mp is not None else 40
                n = hi if style.startswith("fixed:") else self.length_choice(0, hi)
                return bytes(r.randrange(256) for _ in range(n)).hex()
            if enc == "utf8":
                hi = mp if mp is not None else 40
                out = ""
                want = self.length_choice(0, hi)
                while True:
                    c = r.choice(["a", "Z", "0", " ", "é", "€", "😀", "\x00", "\x7f", "ß", "́"]) if r.random() < 0.5 else chr(r.randint(32, 126))
                    if len((out + c).encode()) > want:
                        break
                    out += c
                return out
            # CP437 text; must not end in NUL; fixed: exactly N characters; temperature: 3 or 4
            if style == "temperature":
                n = r.choice([3, 4])
            elif style.startswith("fixed:"):
                n = mp
            else:
                n = self.length_choice(0, mp if mp is not None else 40)
            s = [CP437[r.randrange(256)] if r.random() < 0.5 else chr(r.randint(32, 126)) for _ in range(n)]
            if s and s[-1] == "\0":
                s[-1] = "x"
            return "".join(s)
        if k == "bytes":
            n = self.length_choice(1, mp if mp is not None else 40)
            return bytes(r.randrange(256) for _ in range(n))
        if k == "dt":
            y = r.choice([0, 1, 99, 100, 999, 1000, 1999, 2023, 2024, 9999, r.randint(0, 9999)])
            m = r.randint(1, 12)
            d = r.choice([1, days_in_month(y, m), r.randint(1, days_in_month(y, m))])
            return (y * 10000 + m * 100 + d, r.choice([0, 235959, r.randint(0, 23) * 10000 + r.randint(0, 59) * 100 + r.randint(0, 59)]))
        raise ValueError(k)

    def value(self, field, ty, p_none=0.35):
        r = self.rng
        k = ty["k"]
        if k == "opt":
            if r.random() < p_none:
                return None
            return self.value(field, ty["t"])
        if k == "vec":
            n = r.choice([0, 1, 2, 2, 3, r.randint(0, 6)]) if not self.small else r.choice([0, 1])
            return [self.value(field, ty["t"]) for _ in range(n)]
        if k == "struct":
            return self.struct(self.layout["by_name"][ty["name"]])
        return self.leaf(field, ty)

    def struct(self, s, p_none=0.35):
        """a canonical value of struct s. Positional optionals: `None` is canonical only when the field's own
        decoder fails on what follows, so they are filled back to front with that check."""
        v = {}
        fields = s["fields"]
        for f in fields:
            v[f["name"]] = self.value(f, f["ty"], p_none)
        return self.repair(s, v)

    def repair(self, s, v):
        fields = s["fields"]
        # repair positional optionals back to front
        for i in range(len(fields) - 1, -1, -1):
            f = fields[i]
            if f["tag"] is None and f["ty"]["k"] == "opt" and v[f["name"]] is None:
                try:
                    following = b"".join(R.field_bytes(self.layout, g, g["ty"], v[g["name"]]) for g in fields[i + 1:])
                except R.NotRepresentable:
                    continue          # the whole value is not representable; the caller's `fits` drops it
                if not self.absent_is_canonical(f, following):
                    v[f["name"]] = self.value(f, f["ty"]["t"])
        return v

    def absent_is_canonical(self, f, following):
        """does the decoder of positional optional field f fail on `following`?"""
        style, enc, inner = f["length"], f["encoding"], f["ty"]["t"]
        if style.startswith("fixed:"):
            return len(following) < int(style[6:])
        if style == "empty" and inner["k"] == "int" and enc in ("dflt", "be"):
            return len(following) < inner["w"]
        if style == "tlv":
            # the BER length parser itself fails: nothing left, a length byte 80 / 83..FF, or more announced than there is
            if len(following) == 0 or following[0] == 0x80 or following[0] >= 0x83:
                return True
            if following[0] <= 0x7f:
                n, h = following[0], 1
            elif following[0] == 0x81:
                if len(following) < 2:
                    return True
                n, h = following[1], 2
            else:
                if len(following) < 3:
                    return True
                n, h = following[1] * 256 + following[2], 3
            return n > len(following) - h
        if style.startswith("llv:"):
            k = int(style[4:])
            if len(following) < k:
                return True
            n = 0
            for d in following[:k]:
                n = n * 10 + (d & 0x0f)
            return n > len(following) - k
        if style == "empty" and inner["k"] == "struct" and len(following) == 0 and any(
                g["tag"] is not None and g["ty"]["k"] not in ("opt", "vec", "bytes") for g in self.layout["by_name"][inner["name"]]["fields"]):
            return True      # the nested decoder reports the missing mandatory field
        return False     # conservative: treat as "would be read as present"


def fits(layout, s, v):
    """value is encodable by the reference encoder and a command body stays within 65535 bytes"""
    try:
        b = R.encode(layout, s, v)
    except R.NotRepresentable:
        return None
    if len(b) > 65535 + 5:
        return None
    return b
