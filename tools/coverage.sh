#!/bin/bash
# usage: tools/coverage.sh [Cnn ...]   — which lines of /repo do the quick-tier correspondences execute?
# A development aid, not a check: it builds the harness with `-C instrument-coverage` (nightly's llvm-tools) against a scratch
# worktree of /repo's HEAD, runs the quick checks with that binary (ZVT_HARNESS_BIN), and prints per-file line coverage of the
# library crates plus the uncovered source lines. Lines no correspondence executes are where a change could hide from the tie;
# they are either unreachable through the public API, encoder-side panics outside the canonical domain, or a gap to close.
# Scratch lives under /tmp and /root (removed at the end); nothing a registered check needs.
set -u
V=/verif; W=/tmp/covrepo; H=/root/covharness; OUT=${COV_OUT:-/root/cov}
LLVM=$(dirname "$(find /root/.rustup/toolchains/nightly-x86_64-unknown-linux-gnu -name llvm-cov | head -1)")
[ -x "$LLVM/llvm-cov" ] || { echo "no llvm-cov in the nightly toolchain"; exit 2; }
[ -z "$(git -C /repo status --porcelain)" ] || { echo "/repo not clean"; exit 2; }
git -C /repo worktree remove --force $W 2>/dev/null; git -C /repo worktree add -q --detach $W HEAD || exit 2
rm -rf $H $OUT; mkdir -p $H $OUT
cp -r $V/harness/src $V/harness/Cargo.toml $H/; sed -i "s#/repo/#$W/#" $H/Cargo.toml; cp /repo/Cargo.lock $H/
(cd $H && RUSTFLAGS="-C instrument-coverage" CARGO_NET_OFFLINE=true cargo +nightly build --offline 2>&1 | tail -1) || exit 2
mkdir -p $V/.build/ev-save; cp $V/evidence/*.json $V/.build/ev-save/
for c in ${@:-C01 C02 C03 C04 C05 C06 C07 C08 C09 C10 C11 C13 C14 C15 C16 C17 C18 C19 C20}; do
  ZVT_HARNESS_BIN=$H/target/debug/harness LLVM_PROFILE_FILE="$OUT/$c-%p-%8m.profraw" $V/check $c --tier quick 2>&1 | tail -1
done
cp $V/.build/ev-save/*.json $V/evidence/
$LLVM/llvm-profdata merge -sparse $OUT/*.profraw -o $OUT/all.profdata || exit 2
$LLVM/llvm-cov report $H/target/debug/harness -instr-profile=$OUT/all.profdata --ignore-filename-regex='(\.cargo|rustc|covharness)' 2>/dev/null | tee $OUT/report.txt
$LLVM/llvm-cov show $H/target/debug/harness -instr-profile=$OUT/all.profdata --ignore-filename-regex='(\.cargo|rustc|covharness)' --show-line-counts-or-regions 2>/dev/null > $OUT/show.txt
# uncovered lines (count 0) per file
awk '/^\/tmp\/covrepo/ {f=$0} /^ +[0-9]+\| +0\|/ {print f ": " $0}' $OUT/show.txt > $OUT/uncovered.txt
echo "uncovered lines: $(wc -l < $OUT/uncovered.txt) (see $OUT/uncovered.txt)"
git -C /repo worktree remove --force $W; rm -rf $H
