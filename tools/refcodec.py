"""Reference encoder: assembles the bytes of a packet from a layout table (tag number, length-prefix
style, value encoding per field) the way the ZVT / Feig specification describes the format. Shares no code
with the Rust implementation or the Lean model. Values: int | str | bytes | (date, time) | None | list | dict."""


class NotRepresentable(Exception):
    pass


def bcd(n):
    s = str(n) if n else ""
    if len(s) % 2:
        s = "0" + s
    return bytes(int(s[i]) * 16 + int(s[i + 1]) for i in range(0, len(s), 2))


def tag_bytes(t):
    if t < 0x100:
        if t in (0x1f, 0xff):
            raise NotRepresentable("tag")
        return bytes([t])
    if (t >> 8) not in (0x1f, 0xff):
        raise NotRepresentable("tag")
    return bytes([t >> 8, t & 255])


def ber_len(n):
    if n < 128:
        return bytes([n])
    if n < 256:
        return bytes([0x81, n])
    if n < 65536:
        return bytes([0x82, n >> 8, n & 255])
    raise NotRepresentable("tlv length")


def length_prefix(style, payload):
    n = len(payload)
    if style in ("empty", "temperature"):
        return b""
    if style == "tlv":
        return ber_len(n)
    if style.startswith("llv:"):
        k = int(style[4:])
        if n >= 10 ** k:
            raise NotRepresentable("llv length")
        return bytes(0xf0 | int(c) for c in str(n).rjust(k, "0"))
    if style.startswith("fixed:"):
        k = int(style[6:])
        if n > k:
            raise NotRepresentable("fixed length")
        return bytes(k - n)      # left padding with zero bytes
    if style == "adpu":
        if n < 255:
            return bytes([n])
        if n < 65536:
            return bytes([0xff, n & 255, n >> 8])
        raise NotRepresentable("apdu length")
    raise NotRepresentable("length style " + style)


def payload(layout, field, ty, v):
    enc = field["encoding"]
    k = ty["k"]
    if k == "int":
        w = ty["w"]
        if not (0 <= v < 256 ** w):
            raise NotRepresentable("int range")
        if enc == "dflt":
            return v.to_bytes(w, "little")
        if enc == "be":
            return v.to_bytes(w, "big")
        if enc == "bcd":
            return bcd(v)
        if enc == "prrn":
            return b"\xff\xff" if v == 0xffff else bcd(v)
    if k == "str":
        if enc == "dflt":
            try:
                return v.encode("cp437")
            except UnicodeEncodeError:
                raise NotRepresentable("cp437")
        if enc == "hex":
            return bytes.fromhex(v)
        if enc == "utf8":
            return v.encode()
    if k == "bytes" and enc == "custom":
        return v
    if k == "dt" and enc == "dflt":
        d, t = v
        return b"\x1f\x0e\x04" + bcd(d).rjust(4, b"\0") + b"\x1f\x0f\x03" + bcd(t).rjust(3, b"\0")
    if k == "struct" and enc == "dflt":
        return body(layout, layout["by_name"][ty["name"]], v)
    raise NotRepresentable(f"{k}/{enc}")


def field_bytes(layout, field, ty, v):
    """<TAG>? <LENGTH>? <DATA> of one field value (None / [] produce nothing)."""
    k = ty["k"]
    if k == "opt":
        return b"" if v is None else field_bytes(layout, field, ty["t"], v)
    if k == "vec":
        return b"".join(field_bytes(layout, field, ty["t"], x) for x in v)
    if k == "bytes" and len(v) == 0:
        return b""
    p = payload(layout, field, ty, v)
    t = b"" if field["tag"] is None else tag_bytes(field["tag"])
    return t + length_prefix(field["length"], p) + p


def body(layout, struct, v):
    return b"".join(field_bytes(layout, f, f["ty"], v[f["name"]]) for f in struct["fields"])


def encode(layout, struct, v):
    """a command: class, instr, APDU length, body; a plain container: just the body."""
    b = body(layout, struct, v)
    if struct["ctrl"] is None:
        return b
    return bytes(struct["ctrl"]) + length_prefix("adpu", b) + b


def load_layout(obj):
    obj = dict(obj)
    obj["by_name"] = {s["name"]: s for s in obj["structs"]}
    return obj
