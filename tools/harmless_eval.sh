#!/bin/bash
# usage: harmless_eval.sh <patch> <label>  -- applies a behaviour-preserving patch to /repo, runs ALL quick checks, restores /repo and the evidence.
# Prints one line per check that raised an alarm; "label: clean" if none did.
P=$1; L=$2; V=/verif
[ -z "$(git -C /repo status --porcelain)" ] || { echo "/repo not clean"; exit 2; }
git -C /repo apply "$P" || { echo "$L: patch does not apply"; exit 2; }
rm -rf $V/.build/ev-save; mkdir -p $V/.build/ev-save; cp $V/evidence/*.json $V/.build/ev-save/
bad=0
for c in C01 C02 C03 C04 C05 C06 C07 C08 C09 C10 C11 C12 C13 C14 C15 C16 C17 C18 C19 C20; do
  out=$($V/check $c --tier quick 2>&1); rc=$?
  if [ $rc -ne 0 ] || echo "$out" | grep -q "^VIOLATION"; then bad=1; echo "$L: $c rc=$rc $(echo "$out" | grep -E '^VIOLATION|INFRA' | head -2 | cut -c1-300)"; cp $V/replays/$c-*.json $V/.build/ 2>/dev/null; fi
done
git -C /repo checkout -- . ; git -C /repo clean -fdq
cp $V/.build/ev-save/*.json $V/evidence/
[ $bad = 0 ] && echo "$L: clean"
