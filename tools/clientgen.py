"""Generators and the abstract specification for the terminal-client checks (C07-C10, C18-C20).

`Abs` is the minutes-to-read specification of the client for runs WITHOUT transport faults: a map from
tokens to receipt numbers plus the order of sub-exchanges; from a call history and the scripted terminal
outcomes it computes the expected result of every call and the exact sequence of packets the client must
send (requests assembled with the independent reference encoder from the frozen specification table)."""
import json, os
from . import common as C, refcodec as R, structs as S


def hx(b):
    return b.hex() if b else "-"


class Packets:
    """request / reply packets assembled from the specification layout"""

    def __init__(self, spec):
        self.spec = spec

    def enc(self, name, **fields):
        s = self.spec["by_name"][name]
        v = {}
        for f in s["fields"]:
            k = f["ty"]["k"]
            v[f["name"]] = fields.get(f["name"], [] if k == "vec" else None)
        return R.encode(self.spec, s, v)

    # ---- requests (what the client must send)
    def registration(self, cfg):
        return self.enc("packets::Registration", password=cfg["password"], config_byte=0xde, currency=cfg["currency"])

    def sysinfo(self):
        return self.enc("feig::packets::CVendFunctions", instr=1)

    def set_tid(self, cfg):
        return self.enc("packets::SetTerminalId", password=cfg["password"], terminal_id=int(cfg["tid"]))

    def init(self, cfg):
        return self.enc("packets::Initialization", password=cfg["password"])

    def pending_query(self):
        return self.enc("packets::PartialReversal", receipt_no=0xffff)

    def preauth_reversal(self, cfg, receipt):
        return self.enc("packets::PreAuthReversal", payment_type=0x40, currency=cfg["currency"], receipt_no=receipt)

    def end_of_day(self, cfg):
        return self.enc("packets::EndOfDay", password=cfg["password"])

    def read_card(self, cfg):
        return self.enc("packets::ReadCard", timeout_sec=cfg["timeout"], card_type=0x10, dialog_control=2,
                        tlv={"card_reading_control": 0xd0, "card_type": 7})

    def bmp60(self, token):
        return {"bmp_data": {"bmp_prefix": "AC", "bmp_data": token}}

    def reservation(self, cfg, token):
        return self.enc("packets::Reservation", amount=cfg["amount"], currency=cfg["currency"], payment_type=0x40, tlv=self.bmp60(token))

    def commit(self, cfg, token, receipt, final):
        return self.enc("packets::PartialReversal", receipt_no=receipt, amount=max(0, cfg["amount"] - final), payment_type=0x40,
                        currency=cfg["currency"], tlv=self.bmp60(token))

    # ---- replies (what the simulated terminal sends)
    def completion(self):
        return bytes([0x06, 0x0f, 0x00])

    def abort(self, code):
        return bytes([0x06, 0x1e, 0x01, code])

    def pr_abort(self, code, receipt=None):
        return self.enc("packets::PartialReversalAbort", error=code, receipt_no=receipt)

    def intermediate(self, status=0x0a):
        return bytes([0x04, 0xff, 0x01, status])

    def status(self, **fields):
        s = self.spec["by_name"]["packets::StatusInformation"]
        v = {f["name"]: None for f in s["fields"]}
        v.update(fields)
        if v.get("tlv") is not None:
            t = self.spec["by_name"]["packets::tlv::StatusInformation"]
            tv = {f["name"]: ([] if f["ty"]["k"] == "vec" else None) for f in t["fields"]}
            tv.update(v["tlv"])
            v["tlv"] = tv
        return R.encode(self.spec, s, v)

    def sysinfo_reply(self, serial, tid, temp=b"24.4"):
        body = serial + b"GER-APP-v2.0.9   " + tid + temp
        return bytes([0x06, 0x0f, len(body)]) + body

    def print_line(self, text="x"):
        return self.enc("packets::PrintLine", attribute=0, text=text)

    def print_text_block(self, lines=("receipt", "line 2")):
        return self.enc("packets::PrintTextBlock", tlv={"receipt_type": 1, "lines": {"lines": list(lines), "eol": None}})


ACK = bytes([0x80, 0, 0])


def cfg_str(cfg):
    return (f"max={cfg['max']} amount={cfg['amount']} currency={cfg['currency']} password={cfg['password']} timeout={cfg['timeout']} "
            f"serial={hx(cfg['serial'].encode())} tid={hx(cfg['tid'].encode())}")


def script_str(cfg, queues=None, faults=None, connects=None, tserial=None, ttid=None):
    parts = [f"serial={hx((tserial if tserial is not None else cfg['serial']).encode('cp437'))}",
             f"tid={hx((ttid if ttid is not None else cfg['tid']).encode('cp437'))}"]
    if connects:
        parts.append("conn=" + ",".join(connects))
    for kind, q in (queues or {}).items():
        if q:
            parts.append(f"r:{kind}=" + "|".join("+".join(p.hex() for p in entry) if entry else "-" for entry in q))
    for (k, j), f in (faults or {}).items():
        parts.append(f"f:{k}.{j}={f}")
    return " ".join(parts)


def op_line(cfg, calls, script):
    return f"client {cfg_str(cfg)} ; {' '.join(calls)} ; {script}"


def parse_out(line):
    """-> (results [(text, time)], logs {k: [entries]})"""
    if " || " not in line:
        return None, None
    res, logs = line.split(" || ", 1)
    results = []
    for r in res.split(" | "):
        t, _, tm = r.rpartition("@")
        results.append((t, int(tm) if tm.isdigit() else -1))
    ld = {}
    for l in logs.split(" | "):
        if ":" in l:
            k, _, body = l.partition(":")
            ld[int(k[1:])] = body.split(",") if body else []
    return results, ld


def default_cfg(**kw):
    c = {"max": 1, "amount": 2500, "currency": 978, "password": 123456, "timeout": 15, "serial": "17FD1E3C", "tid": "52523535"}
    c.update(kw)
    return c


# ------------------------------------------------------------------------------------------ abstract specification

FINALS = {"0622": (0x060f, 0x061e), "0623": (0x060f, 0x061e), "0623q": (0x060f, 0x061e), "0625": (0x060f, 0x061e), "0650": (0x060f, 0x061e),
          "0693": (0x060f, 0x061e), "06c0": (0x040f, 0x061e)}
ERROR_CODES = None


def error_table(spec):
    return {e["code"]: e["message"] for e in spec["errors"]}


class Abs:
    """Specification of the client on a fault-free connection. Terminal outcomes are taken from per-kind FIFO
    queues of reply lists (same tables the simulated terminal uses); an empty queue means the default reply."""

    def __init__(self, spec, cfg, queues, tserial=None, ttid=None):
        self.P = Packets(spec)
        self.cfg = cfg
        self.q = {k: list(v) for k, v in (queues or {}).items()}
        self.open = {}            # token -> receipt
        self.tx = []              # packets the client is expected to send, in order
        self.errors = error_table(spec)
        self.trigger = []         # trigger[j] = index in tx of the client packet that makes the terminal release item j
        self.is_ack = []          # is_ack[j]: item j is the acknowledgement of a command
        self.exch_start = []      # indices in tx where an exchange (command) starts
        self.tserial = tserial if tserial is not None else cfg["serial"]
        self.ttid = ttid if ttid is not None else cfg["tid"]
        # an empty configured terminal id is replaced by 00000000 when the client is created (stream.rs)
        if not cfg["tid"]:
            self.cfg = dict(cfg, tid="00000000")

    # -- terminal side
    def replies(self, kind):
        if self.q.get(kind):
            return self.q[kind].pop(0)
        P = self.P
        if kind == "0fa1":
            return [P.sysinfo_reply(self.tserial.encode("cp437"), self.ttid.encode("cp437"))]
        if kind == "0623q":
            return [bytes([0x06, 0x1e, 0x04, 0xb8, 0x87, 0xff, 0xff])]
        if kind == "0622":
            return [bytes([0x04, 0x0f, 0x03, 0x87, 0x00, 0x01]), P.completion()]
        if kind == "0623":
            return [bytes([0x04, 0x0f, 0x02, 0x27, 0x00]), P.completion()]
        if kind == "06c0":
            return [bytes([0x04, 0x0f, 0x0a, 0x27, 0x00, 0x06, 0x06, 0x4c, 0x04, 0xde, 0xad, 0xbe, 0xef])]
        return [P.completion()]

    def exchange(self, kind, cmd, once=False, stop=None):
        """send cmd; returns the replies the client consumes (up to and including the first final one, or where
        the caller leaves early: stop(reply) -> True)"""
        cmd_idx = len(self.tx)
        self.tx.append(cmd)
        self.exch_start.append(cmd_idx)
        out = []
        allr = self.replies(kind)
        # terminal items of this exchange and the client packet that triggers their release
        self.trigger.append(cmd_idx)                       # the acknowledgement
        self.is_ack.append(True)
        if allr:
            self.trigger.append(cmd_idx)                   # the first reply is released together with it
            self.is_ack.append(False)
        for m, r in enumerate(allr):
            self.tx.append(ACK)
            if m + 1 < len(allr):
                self.trigger.append(len(self.tx) - 1)      # the next reply is released by this acknowledgement
                self.is_ack.append(False)
            out.append(r)
            ctrl = r[0] * 256 + r[1]
            if once or ctrl in FINALS.get(kind, (0x060f, 0x061e)) or (stop and stop(r)):
                break
        return out

    # -- client operations
    def connect(self):
        self.exchange("0600", self.P.registration(self.cfg), once=True)
        self.exchange("0fa1", self.P.sysinfo(), once=True)

    def aborted(self, code):
        return f"err aborted:{code}"

    def set_terminal_id(self):
        r = self.exchange("0fa1", self.P.sysinfo(), once=True)[0]
        if r[:2] == b"\x06\x1e":
            return self.aborted(r[3])
        if self.ttid == self.cfg["tid"]:
            return "ok"
        r = self.exchange("061b", self.P.set_tid(self.cfg), once=True)[0]
        return "ok" if r[:2] == b"\x06\x0f" else self.aborted(r[3])

    def initialize(self):
        for r in self.exchange("0693", self.P.init(self.cfg)):
            if r[:2] == b"\x06\x0f":
                return "ok"
            if r[:2] == b"\x06\x1e":
                return self.aborted(r[3])
        return "err incomplete"

    def cancel_by_receipt(self, receipt):
        for r in self.exchange("0625", self.P.preauth_reversal(self.cfg, receipt)):
            if r[:2] == b"\x06\x0f":
                return "ok"
            if r[:2] == b"\x06\x1e":
                return self.aborted(r[3])
        return "err incomplete"

    def end_of_day(self):
        self.open.clear()
        rs = self.exchange("0623q", self.P.pending_query())
        r = rs[-1]
        # the answer to the pending query is an abort packet carrying the dangling receipt number (FFFF: none)
        pending = []
        if r[:2] == b"\x06\x1e" and len(r) >= 7 and r[4] == 0x87 and r[5:7] != b"\xff\xff":
            pending = [int(r[5:7].hex())]
        for p in pending:
            res = self.cancel_by_receipt(p)
            if res != "ok":
                return res
        for r in self.exchange("0650", self.P.end_of_day(self.cfg)):
            if r[:2] == b"\x06\x0f":
                return "ok"
            if r[:2] == b"\x06\x1e":
                return "ok" if r[3] == 0xa0 else self.aborted(r[3])
        return "err incomplete"

    def configure(self):
        for step in (self.set_terminal_id, self.initialize, self.end_of_day):
            r = step()
            if r != "ok":
                return r
        return "ok"

    def new(self):
        self.connect()
        self.configure()
        return "ok"

    def other(self, msg):
        return "err other:" + msg.encode().hex()

    def begin(self, token):
        if len(self.open) == self.cfg["max"]:
            return "err activeTx:max"
        if token in self.open:
            return "err activeTx:inuse"
        receipt = None
        for r in self.exchange("0622", self.P.reservation(self.cfg, token)):
            if r[:2] == b"\x06\x1e":
                code = r[3]
                if code not in self.errors:
                    return self.other("Unknown error code: 0x%X" % code)
                return "err needsPin" if code == 0xfc else self.aborted(code)
            if r[:2] == b"\x04\x0f":
                rn = status_field(r, 0x87, 2)
                if rn is not None:
                    receipt = int(rn.hex())
        if receipt is None:
            return "err incomplete"
        self.open[token] = receipt
        return "ok"

    def cancel(self, token):
        if token not in self.open:
            return "err unknownToken:" + hx(token.encode())
        receipt = self.open.pop(token)
        r = self.cancel_by_receipt(receipt)
        if r != "ok":
            return r
        if not self.open:
            return self.end_of_day()
        return "ok"

    def commit(self, token, final):
        if token not in self.open:
            return "err unknownToken:" + hx(token.encode())
        receipt = self.open.pop(token)
        status = None
        for r in self.exchange("0623", self.P.commit(self.cfg, token, receipt, final)):
            if r[:2] == b"\x06\x1e":
                return self.aborted(r[3])
            if r[:2] == b"\x04\x0f":
                status = r
        if not self.open:
            e = self.end_of_day()
            if e != "ok":
                return e
        if status is None:
            return "err incomplete"
        def num(tag, n):
            x = status_field(status, tag, n)
            return None if x is None else int(x.hex())
        tid, amount, trace, date, time = num(0x29, 4), num(0x04, 6), num(0x0b, 3), num(0x0d, 2), num(0x0c, 3)
        s = lambda x: "none" if x is None else x.encode().hex()
        return (f"ok tid={s(None if tid is None else str(tid))} amount={'none' if amount is None else amount} trace={'none' if trace is None else trace} "
                f"date={s(None if date is None else '%04d' % date)} time={s(None if time is None else '%06d' % time)}")

    def read_card(self, classify):
        card = None
        for r in self.exchange("06c0", self.P.read_card(self.cfg)):
            if r[:2] == b"\x06\x1e":
                code = r[3]
                if code not in self.errors:
                    return self.other("Unknown error code: 0x%X" % code)
                if code == 0x6c:
                    return "err noCard"
                return self.other("Unhandled error: " + self.errors[code])
            if r[:2] == b"\x04\x0f":
                card = classify(r)
                if card.startswith("err"):
                    return card
        return card if card is not None else "err incomplete"


# fixed-width BMP fields of StatusInformation that may precede the ones we read (tag -> (kind, width))
BMP = {0x04: 6, 0x0b: 3, 0x0c: 3, 0x0d: 2, 0x0e: 2, 0x17: 2, 0x19: 1, 0x27: 1, 0x29: 4, 0x2a: 15, 0x3b: 8, 0x87: 2, 0x49: 2, 0x8a: 1, 0x8c: 1}


def status_field(pkt, tag, width):
    """value bytes of a fixed-width BMP field of a StatusInformation packet built by Packets.status (None if absent)"""
    body = pkt[3:] if pkt[2] != 0xff else pkt[5:]
    i = 0
    while i < len(body):
        t = body[i]
        if t in BMP:
            if t == tag:
                return body[i + 1:i + 1 + BMP[t]]
            i += 1 + BMP[t]
        elif t in (0x22, 0x23, 0x8b):
            n = (body[i + 1] & 15) * 10 + (body[i + 2] & 15)
            i += 3 + n
        elif t in (0x3c, 0x60):
            n = (body[i + 1] & 15) * 100 + (body[i + 2] & 15) * 10 + (body[i + 3] & 15)
            i += 4 + n
        else:
            return None
    return None


def expected_log(abs_tx):
    return ["rx:" + p.hex() for p in abs_tx]
