"""reply scripts for the sequence checks (C05, C06)"""
import itertools
from . import common as C, structs as S, valgen as V, refcodec as R


def alphabet(spec, g, rng, enum, reps=2):
    """for each variant of the reply enum: a few canonical packets (bytes, shown value)"""
    out = []
    for i, v in enumerate(enum["variants"]):
        s = spec["by_name"][v["ty"]]
        got = []
        for _ in range(60):
            val = g.struct(s, rng.choice([0.4, 0.8, 1.0]))
            b = V.fits(spec, s, val)
            if b is not None and len(b) < 80 and b not in [x[0] for x in got]:
                got.append((b, i, v["name"], V.show(spec, {"k": "struct", "name": s["name"]}, val)))
            if len(got) >= reps:
                break
        out.append(got)
    return out


def sequences(spec):
    enums = {e["name"]: e for e in spec["enums"]}
    for s in spec["sequences"]:
        yield s, enums[s["output"]], spec["by_name"][s["input"]]


def command(spec, g, rng, sin):
    for _ in range(50):
        v = g.struct(sin, rng.choice([0.3, 0.7]))
        b = V.fits(spec, sin, v)
        if b is not None and len(b) < 120:
            return b
    raise RuntimeError("no command for " + sin["name"])


def expected_events(cmd, ack_len, replies, finals, once):
    """events of a run over decodable replies (list of (bytes, idx, name, shown)); stops after the first final"""
    ev = [f"w:{cmd.hex()}", f"r:{ack_len}"]
    done = False
    for b, i, n, shown in replies:
        # consecutive reads are merged by the recorder: the acknowledgement and the first reply are read back to back
        if ev[-1].startswith("r:"):
            ev[-1] = "r:" + str(int(ev[-1][2:]) + len(b))
        else:
            ev.append(f"r:{len(b)}")
        ev += ["w:800000", f"y:{i}:{n}:{shown}"]
        if once or n in finals:
            done = True
            break
    return ev, done


def commands(spec, g, rng, sin, n=4):
    """a pool of commands for one sequence: random canonical ones, and ones in which EVERY field is present and every number is
    small (0, 1, 2) — command fields that ask the terminal to limit something (number of status informations, time-outs) then
    actually bite against scripts of three and more replies"""
    pool = [command(spec, g, rng, sin) for _ in range(n)]
    for k in (0, 1, 2):
        v = g.struct(sin, 0.0)

        def small(ty, x):
            if x is None:
                return x
            kk = ty["k"]
            if kk == "opt":
                return small(ty["t"], x)
            if kk == "int":
                return k
            if kk == "vec":
                return [small(ty["t"], e) for e in x]
            if kk == "struct":
                st = spec["by_name"][ty["name"]]
                return {f["name"]: small(f["ty"], x[f["name"]]) for f in st["fields"]}
            return x
        v = {f["name"]: small(f["ty"], v[f["name"]]) for f in sin["fields"]}
        b = V.fits(spec, sin, v)
        if b is not None and len(b) < 200:
            pool.append(b)
    # sentinels: every number at the largest value its field can carry (receipt number FFFF = "query", amounts 99…9, bytes FF) —
    # all fields present, and each optional number field on its own (the pending-receipt query of the terminal client is
    # `06 23 03 87 FF FF`: a partial reversal that carries nothing but the receipt number FFFF)
    def top(f, ty):
        if ty["k"] == "opt":
            return top(f, ty["t"])
        if ty["k"] != "int":
            return None
        if f["encoding"] == "prrn":
            return 0xffff
        if f["encoding"] == "bcd":
            n = int(f["length"].split(":")[1]) if f["length"].startswith("fixed:") else 2
            return min(10 ** (2 * n) - 1, 256 ** ty["w"] - 1)
        return 256 ** ty["w"] - 1
    full = g.struct(sin, 0.0)
    allv = dict(full)
    for f in sin["fields"]:
        t = top(f, f["ty"])
        if t is not None:
            allv[f["name"]] = t
            if f["ty"]["k"] == "opt":
                only = {ff["name"]: (None if ff["ty"]["k"] == "opt" else [] if ff["ty"]["k"] == "vec" else full[ff["name"]]) for ff in sin["fields"]}
                only[f["name"]] = t
                b = V.fits(spec, sin, only)
                if b is not None and len(b) < 200 and b not in pool:
                    pool.append(b)
    b = V.fits(spec, sin, allv)
    if b is not None and len(b) < 200 and b not in pool:
        pool.append(b)
    return pool
