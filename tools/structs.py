"""helpers shared by the struct-level property modules (C01 C02 C03 C13 C14 C15)"""
import json, os
from . import common as C, refcodec as R, valgen as V


def load_spec(plus=None):
    """the frozen specification table; with `plus` (the table translated from the source on this run) also the packet
    types, reply enums and exchanges the source has ON TOP of the specification — so that additions are exercised too
    (what the specification names always comes from the frozen table)"""
    obj = json.load(open(os.path.join(C.VERIF, "spec/layout.json")))
    if plus is not None:
        for key in ("structs", "enums", "sequences"):
            have = {x["name"] for x in obj.get(key, [])}
            for x in plus.get(key, []):
                if x["name"] not in have and not (key == "sequences" and x.get("kind") not in ("once", "loop")):
                    obj[key].append(x)
    return R.load_layout(obj)


def load_schema(schema):
    return R.load_layout(schema)


def layout_diff(schema, spec):
    """differences between the translated table and the frozen specification table"""
    diffs = []
    a = {s["name"]: s for s in schema["structs"]}
    b = {s["name"]: s for s in spec["structs"]}
    for n in sorted(set(a) | set(b)):
        if n not in a:
            diffs.append({"struct": n, "what": "missing in source"}); continue
        if n not in b:
            diffs.append({"struct": n, "what": "not in specification table"}); continue
        if a[n]["ctrl"] != b[n]["ctrl"]:
            diffs.append({"struct": n, "what": "control field", "source": a[n]["ctrl"], "spec": b[n]["ctrl"]})
        fa, fb = a[n]["fields"], b[n]["fields"]
        if [f["name"] for f in fa] != [f["name"] for f in fb]:
            diffs.append({"struct": n, "what": "field list / order", "source": [f["name"] for f in fa], "spec": [f["name"] for f in fb]})
            continue
        for x, y in zip(fa, fb):
            for k in ("tag", "length", "encoding", "ty"):
                if x[k] != y[k]:
                    diffs.append({"struct": n, "field": x["name"], "what": k, "source": x[k], "spec": y[k]})
    return diffs


def gen_cases(layout, rng, per_type, big=False, names=None):
    """yield (struct, value, ref_bytes) for canonical values of every struct"""
    g = V.Gen(layout, rng, big=big)
    for s in layout["structs"]:
        if names and s["name"] not in names:
            continue
        made = 0
        tries = 0
        while made < per_type and tries < per_type * 4:
            tries += 1
            p_none = rng.choice([0.0, 0.2, 0.35, 0.6, 0.9, 1.0])
            v = g.struct(s, p_none)
            b = V.fits(layout, s, v)
            if b is None:
                continue
            made += 1
            yield s, v, b
            if not s["fields"]:
                break
        for v in extra_values(layout, g, s, rng):
            b = V.fits(layout, s, v)
            if b is not None:
                yield s, v, b


def _from_raw(f, raw):
    """the number whose fixed-length encoding under f's value encoding is `raw` (None: there is none)"""
    w, enc = f["ty"]["t"]["w"], f["encoding"]
    if enc == "bcd":
        if any((x >> 4) > 9 or (x & 15) > 9 for x in raw):
            return None
        n = int(raw.hex())
    elif enc == "be":
        n = int.from_bytes(raw, "big")
    elif enc == "dflt":
        n = int.from_bytes(raw, "little")
    else:
        return None
    return n if n < 256 ** w else None


def extra_values(layout, g, s, rng):
    """values the random generator is unlikely to hit: (1) vectors just above 256 elements; (2) a present positional
    optional whose bytes look like the start of a tagged field that may follow it (tag byte, then the exact number of
    bytes that are left)."""
    fields = s["fields"]
    for f in fields:
        if f["ty"]["k"] == "vec":
            g2 = V.Gen(layout, rng, small=True)
            for n in (256, 257, 300):
                v = g2.struct(s, 1.0)
                v[f["name"]] = [g2.value(f, f["ty"]["t"], 1.0) for _ in range(n)]
                yield g2.repair(s, v)
    for i, f in enumerate(fields):
        if f["tag"] is None and f["ty"]["k"] == "opt" and f["ty"]["t"]["k"] == "int" and f["length"].startswith("fixed:"):
            N = int(f["length"][6:])
            if N < 2:
                continue
            tags = sorted({x["tag"] for x in fields[i + 1:] if x["tag"] is not None and x["tag"] < 256} | {0x06})
            for p_none in (1.0, 0.5, 0.0):
                v = g.struct(s, p_none)
                try:
                    following = b"".join(R.field_bytes(layout, x, x["ty"], v[x["name"]]) for x in fields[i + 1:])
                except R.NotRepresentable:
                    continue
                for t in tags:
                    for L in sorted({N - 2 + len(following), len(following)}):
                        val = _from_raw(f, bytes([t, L & 255]) + bytes(N - 2)) if L < 256 else None
                        if val is not None:
                            v2 = dict(v)
                            v2[f["name"]] = val
                            yield g.repair(s, v2)


def shape(layout, ty, v):
    """coarse shape of a value for the distribution report"""
    k = ty["k"]
    if k == "opt":
        return "N" if v is None else "S" + shape(layout, ty["t"], v)
    if k == "vec":
        return f"V{min(len(v),3)}"
    if k == "struct":
        s = layout["by_name"][ty["name"]]
        return "{" + "".join(shape(layout, f["ty"], v[f["name"]]) for f in s["fields"]) + "}"
    return "."


def apdu_switch(layout, rng):
    """PrintLine bodies on both sides of the short/extended APDU length switch"""
    ops, want = [], []
    s = layout["by_name"].get("packets::PrintLine")
    if s:
        for n in (252, 253, 254, 255, 256, 257, 1000, 65534):
            text = "".join(chr(rng.randint(33, 126)) for _ in range(n))
            v = {"attribute": rng.randrange(256), "text": text}
            b = V.fits(layout, s, v)
            if b is None:
                continue
            ops.append(f"dec {s['name']} {C.hexs(b)}")
            want.append(f"ok {V.show(layout, {'k': 'struct', 'name': s['name']}, v)} rem=- reenc={C.hexs(b)}")
    s = layout["by_name"].get("packets::StatusInformation")
    if s:
        g = V.Gen(layout, rng)
        for n in range(244, 262):
            v = g.struct(s, 1.0)
            v["additional_text"] = "".join(chr(rng.randint(33, 126)) for _ in range(n))
            v["result_code"] = 0
            b = V.fits(layout, s, v)
            if b is None:
                continue
            ops.append(f"dec {s['name']} {C.hexs(b)}")
            want.append(f"ok {V.show(layout, {'k': 'struct', 'name': s['name']}, v)} rem=- reenc={C.hexs(b)}")
    return ops, want


# ------------------------------------------------------------------ nested containers (C13, C14)
def tagged_suffix(t):
    """the tagged fields of struct t form a suffix of its field list (so that their encodings can be rearranged)"""
    fs = t["fields"]
    ft = next((i for i, f in enumerate(fs) if f["tag"] is not None), None)
    return ft is not None and all(f["tag"] is not None for f in fs[ft:])


def inner_struct(layout, f):
    ty = f["ty"]["t"] if f["ty"]["k"] == "opt" else f["ty"]
    return layout["by_name"][ty["name"]] if ty["k"] == "struct" else None


def sites(layout, t, v, depth):
    """paths [(struct, field, value of that struct)] to nested structs reachable through tagged fields that are present"""
    for f in t["fields"]:
        u = inner_struct(layout, f)
        if u is None or f["tag"] is None or v[f["name"]] is None:
            continue
        yield [(t, f, v)], u, v[f["name"]]
        if depth > 1:
            for path, w, wv in sites(layout, u, v[f["name"]], depth - 1):
                yield [(t, f, v)] + path, w, wv


def wrap(layout, path, inner_body):
    """body of the outermost struct of `path` with the innermost container's body replaced by inner_body"""
    b = inner_body
    for t, f, v in reversed(path):
        try:
            fb = R.tag_bytes(f["tag"]) + R.length_prefix(f["length"], b) + b
            b = b"".join(fb if g is f else R.field_bytes(layout, g, g["ty"], v[g["name"]]) for g in t["fields"])
        except R.NotRepresentable:
            return None
    return b


def groups_of(layout, u, uv):
    """(bytes of the positional part, [(field, bytes)] of the present tagged fields) of value uv of struct u"""
    fs = u["fields"]
    ft = next(i for i, f in enumerate(fs) if f["tag"] is not None)
    upos = b"".join(R.field_bytes(layout, f, f["ty"], uv[f["name"]]) for f in fs[:ft])
    groups = [(f, R.field_bytes(layout, f, f["ty"], uv[f["name"]])) for f in fs[ft:]]
    return upos, [(f, gb) for f, gb in groups if gb]
