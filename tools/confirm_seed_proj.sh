#!/bin/bash
# confirms a seeded change whose demonstration is a stand-alone cargo project <out>/demo with path
# dependencies on the scratch worktree /tmp/seed/<ID>
OUT=$1; ID=$2; WT=/tmp/seed/$ID
LOG=$OUT/CONFIRM.txt; : > $LOG
cd $WT || exit 2
git checkout -q -- . ; git clean -fdq
echo "== demo on unchanged tree" >> $LOG
(cd $OUT/demo && cp $WT/Cargo.lock . && timeout 1500 cargo test --offline 2>&1 | grep -E "^test result|panicked|error(\[|:)" | head -5) >> $LOG
git apply $OUT/patch.diff >> $LOG 2>&1 || echo "PATCH DOES NOT APPLY" >> $LOG
echo "== workspace tests with patch" >> $LOG
timeout 1800 cargo test --workspace --no-fail-fast --offline 2>&1 | grep -E "^test result|error(\[|:)" | awk '/test result/ {p+=$4; f+=$6} /error/ {print} END {print "passed=" p " failed=" f}' >> $LOG
echo "== demo with patch" >> $LOG
(cd $OUT/demo && timeout 1500 cargo test --offline 2>&1 | grep -E "^test result|panicked|error(\[|:)" | head -5) >> $LOG
git checkout -q -- .
cat $LOG
