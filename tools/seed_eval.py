#!/usr/bin/env python3
"""Applies every seeded change under /verif/seeded to /repo, runs the quick check of the property it targets,
records the outcome in seeded/<id>/meta.json, and undoes the change. Never commits anything in /repo."""
import json, os, re, subprocess, sys, time
V = os.path.dirname(os.path.dirname(os.path.abspath(__file__)))
only = sys.argv[1:]
rows = []
for d in sorted(os.listdir(os.path.join(V, "seeded"))):
    sd = os.path.join(V, "seeded", d)
    if not os.path.isfile(os.path.join(sd, "patch.diff")) or (only and d not in only):
        continue
    prop = d.split("-")[0]
    am = {}
    try:
        am = json.load(open(os.path.join(sd, "agent_meta.json")))
    except Exception:
        pass
    assert subprocess.run(["git", "-C", "/repo", "status", "--porcelain"], capture_output=True, text=True).stdout.strip() == "", "/repo not clean"
    subprocess.run(["git", "-C", "/repo", "apply", os.path.join(sd, "patch.diff")], check=True)
    t = time.time()
    ev = os.path.join(V, "evidence", prop + ".json")
    saved = open(ev).read() if os.path.exists(ev) else None      # the evidence of the unchanged tree is restored afterwards
    try:
        p = subprocess.run([os.path.join(V, "check"), prop, "--tier", "quick"], cwd=V, capture_output=True, text=True, timeout=3600)
    finally:
        subprocess.run(["git", "-C", "/repo", "checkout", "--", "."], check=True)
        subprocess.run(["git", "-C", "/repo", "clean", "-fdq"], check=True)       # files a seeded change ADDS
        if saved is not None:
            open(ev, "w").write(saved)
    viol = [l for l in p.stdout.splitlines() if l.startswith("VIOLATION")]
    meta = {
        "property": prop,
        "summary": am.get("summary"),
        "needs_to_manifest": am.get("needs_to_manifest"),
        "files_changed": am.get("files_changed"),
        "confirmed": open(os.path.join(sd, "CONFIRM.txt")).read() if os.path.exists(os.path.join(sd, "CONFIRM.txt")) else None,
        "check_run": f"git -C /repo apply seeded/{d}/patch.diff && ./check {prop} --tier quick ; git -C /repo checkout -- .",
        "check_exit": p.returncode,
        "check_violation_line": viol[0][:400] if viol else None,
        "detected": bool(viol) and p.returncode == 1,
        "detected_with_failing_input": bool(viol) and "no-failing-input-found" not in viol[0],
        "wall_s": round(time.time() - t, 1),
    }
    json.dump(meta, open(os.path.join(sd, "meta.json"), "w"), indent=1)
    rows.append((d, meta["detected"], meta["detected_with_failing_input"], meta["wall_s"]))
    print(d, meta["detected"], meta["detected_with_failing_input"], meta["wall_s"], flush=True)
