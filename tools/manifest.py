#!/usr/bin/env python3
"""Regenerates /verif/MANIFEST.json from the table below (run after claiming / unclaiming a property)."""
import json, os
V = os.path.dirname(os.path.dirname(os.path.abspath(__file__)))
props = [json.loads(l) for l in open(os.path.join(V, "properties.jsonl"))]

CLAIMED = {
 # id: (design_ref, technique, level text, level note)
 "C17": ("§7 C17", "Lean 4 theorems over the encoding model (LE/BE, packed BCD incl. overflow characterisation, tags, hex, CP437 table by kernel decide, receipt numbers) + exhaustive/boundary differential correspondence",
         "Proved in Lean for all values and widths: integer round trips, BCD decode∘encode = id, digits 0-9 only, MSD first, the decoder returns the unbounded digit value iff it fits the width and IncompleteData otherwise (no wrapped value), F padding, leading zeros, tag round trip and shape, hex both directions, CP437 byte round trip (256-entry table by decide +kernel), receipt number with FFFF sentinel. Model tied to encoding.rs exhaustively for u8/u16/tags/CP437 and at all boundaries for wider types.",
         "Trusted: Lean kernel (+ propext, Quot.sound, Classical.choice), hand model of encoding.rs validated against the Rust code on each run, python reference oracles."),
 "C16": ("§7 C16", "Lean 4 theorems over the length-prefix model (round trip with arbitrary trailer, shortest form, truncation, injectivity, parser totality) + exhaustive differential correspondence model/Rust",
         "Proved in Lean for every length of every style (no bound): ser/de round trip with arbitrary trailing data, shortest form with the 128/256 and 255 switch points, truncated prefix => IncompleteData, injectivity, no parser panic. The model is tied to length.rs by running both on every representable length and every 0..2-byte (thorough: 3-byte) string.",
         "Trusted: Lean kernel (+ propext, Quot.sound, Classical.choice), the hand model of length.rs validated exhaustively against the Rust code on each run, harness/driver/line protocol."),
}

NOT_YET = "check not built yet (construction in progress, see DESIGN.md section 12)"

m = {
 "version": 1,
 "setup_cmd": "cd /verif && ./setup.sh",
 "hooks": {
  "guard": "zvt_verif",
  "enable": "cargo feature `zvt_verif` of zvt_feig_terminal; /verif/harness enables it through its path dependency on /repo/zvt_feig_terminal",
  "baseline_off_cmd": "cd /repo && cargo test --workspace --no-fail-fast --offline",
  "source_commits": ["6a39f9c"],
  "add_only": False,
 },
 "engines": [
  {"name": "lean-model", "path": "lean/", "serves_properties": sorted(CLAIMED), "kind_free_text": "Lean 4 model + property theorems (lake project ZvtVerif), import-free driver executable"},
  {"name": "extract", "path": "extract/", "serves_properties": sorted(CLAIMED), "kind_free_text": "syn-based translator: /repo sources -> Generated.lean, schema.json, harness dispatch"},
  {"name": "harness", "path": "harness/", "serves_properties": sorted(CLAIMED), "kind_free_text": "Rust line-protocol harness calling the real zvt code in-process (differential correspondence)"},
 ],
 "checks": [],
 "notes": "All checks: ./check <ID> --tier quick|thorough. See DESIGN.md.",
 "not_applicable": [],
}
for p in props:
    i = p["id"]
    if i in CLAIMED:
        ref, tech, text, note = CLAIMED[i]
        m["checks"].append({
         "property_id": i,
         "quick_cmd": f"./check {i} --tier quick",
         "thorough_cmd": f"./check {i} --tier thorough",
         "evidence_file": f"/verif/evidence/{i}.json",
         "replay_cmd_template": f"./check {i} --replay {{path}}",
         "engine": "lean-model",
         "level_claimed": {"category": "proof", "text": text, "design_ref": ref},
         "level_note": note,
         "technique": tech,
        })
    else:
        m["not_applicable"].append({"property_id": i, "reason": NOT_YET})
json.dump(m, open(os.path.join(V, "MANIFEST.json"), "w"), indent=1)
print("claimed:", sorted(CLAIMED))
