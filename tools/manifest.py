#!/usr/bin/env python3
"""Regenerates /verif/MANIFEST.json from the table below (run after claiming / unclaiming a property)."""
import json, os
V = os.path.dirname(os.path.dirname(os.path.abspath(__file__)))
props = [json.loads(l) for l in open(os.path.join(V, "properties.jsonl"))]

CLAIMED = {
 # id: (design_ref, technique, level text, level note)
 "C17": ("§7 C17", "Lean 4 theorems over the encoding model (LE/BE, packed BCD incl. overflow characterisation, tags, hex, CP437 table by kernel decide, receipt numbers) + exhaustive/boundary differential correspondence",
         "Proved in Lean for all values and widths: integer round trips, BCD decode∘encode = id, digits 0-9 only, MSD first, the decoder returns the unbounded digit value iff it fits the width and IncompleteData otherwise (no wrapped value), F padding, leading zeros, tag round trip and shape, hex both directions, CP437 byte round trip (256-entry table by decide +kernel), receipt number with FFFF sentinel. Model tied to encoding.rs exhaustively for u8/u16/tags/CP437 and at all boundaries for wider types.",
         "Trusted: Lean kernel (+ propext, Quot.sound, Classical.choice), hand model of encoding.rs validated against the Rust code on each run, python reference oracles."),
 "C03": ("§7 C03", "kernel-decided equality of the table translated from the source with the frozen specification table (55 structs, 17 enums) + reference-encoded packets decoded/re-encoded by the Rust code",
         "Lean: `Generated.shipped = Spec.shipped` (every control field; every field's position, name, tag number, length style, encoding, type) and the same for reply enums, decided in the kernel on every run against the freshly translated table, via a Boolean structural equality proved sound. Both directions on bytes: an independent python reference encoder interprets the frozen table; the Rust code must decode those bytes into exactly the named fields and re-encode them identically (all 55 types, canonical domain, APDU 253..257/65535 bodies).",
         "Trusted: Lean kernel, the translator (cross-checked: a mistranslation makes model and Rust disagree), the frozen specification table (hand-reviewed, see DESIGN 5.4), the python reference encoder, Debug-output parser. The generic theorem `impl encode = reference encode` is not yet proved in Lean (C01 work in progress); the byte-level agreement is differential."),
 "C04": ("§7 C04", "Lean 4 theorems: read_exact over chunks depends only on the concatenation; writer/reader header agreement and exact framing for every body length; truncated packet => EOF; packet-by-packet induction step + differential correspondence over chunkings",
         "Proved for all streams and all chunkings: `readExact_chunking` (result = first n bytes of the concatenation, rest preserved, failure iff too short), `readFrame_exact` (for every body length 0..65535 the prefix Adpu::serialize writes is framed by the reader as exactly that packet, 3-byte header below 255 and 5-byte from 255), `truncated_is_eof`, `readPackets_step`. Correspondence: real read_packet over an AsyncRead that returns Pending between chunks: every end position x every chunking of short streams, extended-header packets cut at every header position, header agreement for 600+ lengths (thorough: all 65536).",
         "Partial w.r.t. the executor: waker/Pending handling of tokio's read_exact is exercised by the harness, not modelled. Trusted: Lean kernel, hand model of io.rs validated by differential execution, tokio."),
 "C05": ("§7 C05", "Lean 4 theorem giving the exact event trace of every loop sequence on every well-formed script (any number of non-final replies, final reply, arbitrary junk behind it) + kernel-decided coverage of the translated sequence table + differential correspondence of ordered event logs",
         "Proved for every reply enum, final set, command and script `ack, p1..pk (non-final, decodable), f (final) ++ junk`: trace = write cmd, read ack, (read p_i, write 80 00 00, yield p_i)*, read f, write 80 00 00, yield f, end — each packet answered exactly once before it is yielded and before the next read, arrival order, stop at the first final packet, zero bytes of junk read. The final sets and kinds (once/loop) are re-extracted from the into_stream bodies on every run (translator recognises the loop shape token by token) and `decide`d to be covered. Correspondence: real into_stream of all 17 sequences against a scripted in-memory terminal, scripts bounded-exhaustive to depth 3 (thorough 5).",
         "Trusted: Lean kernel, translator (sequence shapes), hand model of the scripted terminal and of the loop body validated by differential execution, tokio duplex. WriteFile is covered under C11."),
 "C06": ("§7 C06", "Lean 4 shape theorem for EVERY reply script (no well-formedness assumption): rounds then exactly one closing; at most one error, no write after it, an uninterpretable packet is never acknowledged; Ack parser accepts only 80 00 + fault-injection correspondence",
         "Proved for every enum, final set, command and arbitrary script: the trace is `write cmd` then either a failed acknowledgement phase (one error, nothing written) or `read ack`, complete rounds, and one closing among {end after a yield, [read] error end, hang}; hence countErr <= 1 and writesAfterFirstErr = 0 (`one_error_then_silence`); `ack_only_8000`. Correspondence: all 17 sequences x valid prefixes x {NACK, foreign control field, undecodable body, truncated packet, EOF} instead of the ack and at every later position.",
         "Trusted: Lean kernel, translator, hand model validated by differential execution. `hang` (silence on an open connection) is bounded by the caller's time-out: C10."),
 "C07": ("§7 C07", "Lean 4 theorems on the client model for EVERY world (terminal script, faults, time): refused calls touch nothing; begin adds at most exactly token->receipt and only on success; commit/cancel close exactly their token; map invariant (one entry per token) and bound (<= max) preserved + differential correspondence of call histories against an abstract token-map specification",
         "Proved: `begin_refused_no_traffic`, `commit/cancel_unknown_no_traffic` (world unchanged: no traffic, no time), `begin_post`, `commit_post`, `cancel_post`, `begin_inv/commit_inv/cancel_inv`, `begin_bound`, `commit_uses_own_receipt` — independent of what the terminal does, because they concern the guards and the fold of the exchange outcome. Correspondence: the real Feig client (hook zvt_verif, tokio paused clock) vs the Lean model vs the python abstract specification: all histories up to depth 2 x max 0..3, 5000 of depth 3 (thorough: depth 4), random walks to depth 40, results and every byte sent compared.",
         "Trusted: Lean kernel, hand model of feig.rs/stream.rs validated by differential execution on this run, the simulated terminal (same ~80 lines in harness and model), python abstract spec + reference encoder."),
 "C08": ("§7 C08", "Lean 4 theorems: released amount = saturating pre - final (never negative/wrapped/greater), request field lists of commit and reservation (definitional + kernel-evaluated layouts), summary = projection of the last status information, byte-exact kernel-evaluated example + byte-for-byte differential check of requests against the reference encoder",
         "Proved for all inputs: `reversal_amount` (= satSub64, <= pre, + final = pre when final <= pre, 0 otherwise), `reversal_amount_fits`, `commit_request_fields`, `reservation_request_fields`, `request_layouts` (decide), `summary_fields`; a concrete commit is evaluated in the kernel down to the bytes on the wire. Correspondence: 14 pre-authorisation amounts x finals {0,1,equal,+-1,2^32,2^62,2^63-1,2^63,2^63+1,u64::MAX-1294,u64::MAX-1,u64::MAX,random} x currencies x CP437 tokens x receipts: requests on the wire equal the packets assembled from the specification table, summary equals the reported fields.",
         "Trusted: as C07. The statement 'bytes on the wire carry these fields' for ALL values relies on C01/C03 (encoder = specification layout), which are differential + partially proved."),
 "C09": ("§7 C09", "Lean 4 theorems about the retry/connection model for every script: a failed attempt (error item or time-out) leaves no live connection, a good one keeps the same connection, a live connection is reused without handshake, no connection => handshake, no switch inside an exchange; kernel-evaluated wrong-serial run + exhaustive single-fault injection at every item of every exchange",
         "Proved: `failed_attempt_drops_connection`, `good_attempt_keeps_connection`, `live_connection_is_reused`, `no_connection_means_handshake`, `same_connection_within_exchange`; a wrong-serial handshake is evaluated in the kernel (registered, identity asked, dropped, no command). Correspondence: 5 call histories x {close, NACK, garbage, silence} at EVERY item the terminal sends (handshake included), wrong/case-different serials, refused/stalled connects, sampled multi-fault runs; oracle on the terminal's per-connection logs (fault-free prefix only on the failed connection, every other connection starts with registration + identity check, exactly one reconnect).",
         "Trusted: as C07; tokio DuplexStream semantics for close/EOF."),
 "C10": ("§7 C10", "Lean 4 theorems bounding virtual time: stream.next() takes no time, handshake <= TIMEOUT, attempt <= one packet time-out, every exchange with retries <= ATTEMPTS x (THROTTLE + TIMEOUT + timeout) for every terminal behaviour; read_card timeout = t+2 without overflow and >= 2 for all 256 configuration values; + stall injection at every item on tokio's paused clock with exact time-stamp comparison",
         "Proved for every script/fault table: `exchange_bounded` (induction over the retry loop), `connect_bounded`, `attempt_bounded`, `readCard_bounded` (<= 6380 s for every read_card_timeout 0..255), `begin_bounded`, `timeout_no_overflow`. The model has no hang outcome above the sequence level. Correspondence: a stall at every item of every exchange x read_card_timeout {0,1,15,253,254,255} (thorough: all 256), mute terminals over 70 connections; every call must return under a one-virtual-day watchdog and results, traffic and virtual time stamps must equal the model's exactly.",
         "Partial w.r.t. the executor: tokio's timer wheel / wakers are exercised by the harness, not modelled. Trusted: as C07; tokio paused clock and Throttle semantics (first item at once, next not before previous + 2 s)."),
 "C18": ("§7 C18", "Lean 4 theorems on the classification function: canonical UID is case-insensitive, idempotent, <= 14 chars, = last 14 minus one leading 000000; classification is bank or canonUid(uid); abort 6C => no card, others => error naming the code; counter-example to the full-strength statement (finding D9) proved by kernel evaluation + differential check over UIDs/application lists/all 256 abort codes",
         "Proved: `canon_case_insensitive`, `canon_idempotent`, `canon_length`, `canon_short`, `canon_long`, `classify_sound`, `abort_6c_is_no_card`, `abort_other`. `C18_full_counterexample` shows (by decide) that the property's literal reading fails for application lists whose first entry has no application id: listed as KNOWN FINDING D9 (the check prints KNOWN-FINDING and fails only for other violations). Correspondence: UID absent/0..20 bytes with zero runs, lists with/without ids, 0..3 intermediate statuses, all 256 abort codes, against a python specification of the literal property.",
         "Trusted: as C07."),
 "C19": ("§7 C19", "Lean 4 theorems: while a token is open the post-exchange step is the identity on the world (no packet at all); when idle it is end_of_day; order of clean-up (pending query, then reversal of each reported receipt stopping at the first failure, then end-of-day); A0 tolerated + differential check of the exact packet sequence against the abstract specification",
         "Proved for every world: `no_cleanup_while_open`, `cleanup_when_idle`, `commit_then_cleanup`/`commit_abort_no_cleanup`, `cancel_then_cleanup`/`cancel_failed_no_cleanup`, `endOfDay_order`, `cancelAll_single`, `eod_outcome`. Correspondence: histories over 1-2 tokens x finishing outcome x dangling receipt {absent, FFFF, 17, 9999} x reversal outcome x end-of-day outcome (completion, 50+ abort codes; thorough all 256): exact request sequence and results.",
         "Trusted: as C07."),
 "C20": ("§7 C20", "Lean 4 theorems for ALL result codes on the decision every operation takes on a decoded abort (never success; identifies the code; exactly the three documented translations); kernel-decided equality of the translated code/message table with the specification's + 256 codes x every operation/sub-exchange x abort position differential check",
         "Proved: `errorTable_eq_spec` (decide, 79 rows), `readCard_abort`, `begin_abort`, `commit_abort`, `reversal_abort`, `init_abort`, `setTid_abort`, `eod_abort`, `documented_codes`, `abort_never_success`. That an abort packet reaches the decision for every position in the reply script is carried by the sequence model (C05) and the correspondence: 256 codes x {read card, begin, commit, cancel, pending reversal, end-of-day while going idle, configure: system info, set terminal id, initialisation, pending reversal, end-of-day} x positions; plus an identification check on the implementation's results alone.",
         "Trusted: as C07."),
 "C11": ("§7 C11", "Lean 4 theorems: kernel-decided equality/distinctness of the translated path->file-id table, the answer block is exactly content[off..off+block) (length, element-wise, empty at EOF, tiling), bad requests never send data, valid request answered with id/offset/block, kernel-evaluated byte-exact answer + differential check of the real upload over generated payload directories",
         "Proved for every file content, offset and block size: `block_exact`, `block_empty_at_eof`, `blocks_tile`; `unknown_id_fails`, `missing_id_fails`, `valid_request_answer`, `empty_directory`; `fileIds_eq_spec`, `fileIds_distinct` (decide). Correspondence: 300 (thorough 1500) payload directories (subsets of the 21 recognised paths + unrelated files, sizes 0..70000/200 KiB) x block sizes x request scripts (random, sequential, round-robin over files, continuing in another file, at/after EOF, unknown ids, missing fields) ending in completion/abort/EOF; real WriteFile::into_stream vs model vs packets assembled by the reference encoder from the files' bytes.",
         "Trusted: Lean kernel, translator (file-id table), hand model of WriteFile::into_stream validated by differential execution, read_at semantics on regular files, the announcement is compared as a set (sorted by id)."),
 "C14": ("§7 C14", "Lean 4 theorems: suffix-independence of every delimiting length style, of the generic tag/length/data triple, of every command decoder and nested container, for arbitrary (not only canonical) inputs + differential correspondence with suffixes",
         "Proved for all inputs, all schemas: if a packet (APDU) or a field under fixed/LLVAR/LLLVAR/BER-TLV length decodes, then with any bytes appended it decodes to the same value and the remainder is the old remainder followed by exactly those bytes (`cmd_suffix`, `field_suffix`, `deserTagged_append`, `lenDe_append`). Correspondence: canonical packets of all command types x suffixes (all 256 single bytes, valid packets, random) and junk spliced into the body behind the last container.",
         "Trusted: Lean kernel, hand model of lib.rs/length.rs/derive validated by differential execution, harness."),
 "C15": ("§7 C15", "Lean 4 theorems about the reply-dispatch loop (soundness, completeness w.r.t. the variant's own decoder, rejection outside the reply set, short input) for every enum and every control field + kernel-decided distinctness of shipped control fields + exhaustive 65,536-pair correspondence",
         "Proved for every enum definition and all inputs: a returned variant has exactly the input's control field and the content its own packet decoder yields; the first matching variant decides value or error; a control field outside the reply set is an error whatever the body; < 2 bytes is IncompleteData. `decide` shows no shipped variant is shadowed. Correspondence: all 17 enums x all 65,536 (class, instr) pairs, valid/foreign/random/long/inconsistently framed bodies, compared with the variant type's own zvt_deserialize.",
         "Trusted: Lean kernel, translator (enum tables regenerated each run), hand model of the zvt_enum macro validated exhaustively, harness."),
 "C16": ("§7 C16", "Lean 4 theorems over the length-prefix model (round trip with arbitrary trailer, shortest form, truncation, injectivity, parser totality) + exhaustive differential correspondence model/Rust",
         "Proved in Lean for every length of every style (no bound): ser/de round trip with arbitrary trailing data, shortest form with the 128/256 and 255 switch points, truncated prefix => IncompleteData, injectivity, no parser panic. The model is tied to length.rs by running both on every representable length and every 0..2-byte (thorough: 3-byte) string.",
         "Trusted: Lean kernel (+ propext, Quot.sound, Classical.choice), the hand model of length.rs validated exhaustively against the Rust code on each run, harness/driver/line protocol."),
}

NOT_YET = "check not built yet (construction in progress, see DESIGN.md section 12)"

m = {
 "version": 1,
 "setup_cmd": "cd /verif && ./setup.sh",
 "hooks": {
  "guard": "zvt_verif",
  "enable": "cargo feature `zvt_verif` of zvt_feig_terminal; /verif/harness enables it through its path dependency on /repo/zvt_feig_terminal",
  "baseline_off_cmd": "cd /repo && cargo test --workspace --no-fail-fast --offline",
  "source_commits": ["6a39f9c"],
  "add_only": False,
 },
 "engines": [
  {"name": "lean-model", "path": "lean/", "serves_properties": sorted(CLAIMED), "kind_free_text": "Lean 4 model + property theorems (lake project ZvtVerif), import-free driver executable"},
  {"name": "extract", "path": "extract/", "serves_properties": sorted(CLAIMED), "kind_free_text": "syn-based translator: /repo sources -> Generated.lean, schema.json, harness dispatch"},
  {"name": "harness", "path": "harness/", "serves_properties": sorted(CLAIMED), "kind_free_text": "Rust line-protocol harness calling the real zvt code in-process (differential correspondence)"},
 ],
 "checks": [],
 "notes": "All checks: ./check <ID> --tier quick|thorough. See DESIGN.md.",
 "not_applicable": [],
}
for p in props:
    i = p["id"]
    if i in CLAIMED:
        ref, tech, text, note = CLAIMED[i]
        m["checks"].append({
         "property_id": i,
         "quick_cmd": f"./check {i} --tier quick",
         "thorough_cmd": f"./check {i} --tier thorough",
         "evidence_file": f"/verif/evidence/{i}.json",
         "replay_cmd_template": f"./check {i} --replay {{path}}",
         "engine": "lean-model",
         "level_claimed": {"category": "proof", "text": text, "design_ref": ref},
         "level_note": note,
         "technique": tech,
        })
    else:
        m["not_applicable"].append({"property_id": i, "reason": NOT_YET})
json.dump(m, open(os.path.join(V, "MANIFEST.json"), "w"), indent=1)
print("claimed:", sorted(CLAIMED))
