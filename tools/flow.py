"""The per-property flow: translate -> prove -> build -> correspond -> verdict -> evidence."""
import importlib, json, os, random, sys, time
from . import common as C


class Ctx:
    def __init__(self, prop, tier, seed, schema):
        self.prop, self.tier, self.seed, self.schema = prop, tier, seed, schema
        self.rng = random.Random(seed)
        self.release = False

    def harness(self, lines, release=False):
        return C.run_lines(C.harness_bin(release), lines, shards=C.NCPU)

    def driver(self, lines):
        return C.run_lines(C.driver_bin(), lines, shards=C.NCPU)

    def pair(self, lines):
        """run the same lines through implementation and model; returns (impl, model) outputs"""
        import threading
        res = {}
        t1 = threading.Thread(target=lambda: res.__setitem__("h", self.harness(lines)))
        t2 = threading.Thread(target=lambda: res.__setitem__("d", self.driver(lines)))
        t1.start(); t2.start(); t1.join(); t2.join()
        # operations the runner gave up on after several operations of their shard never returned (those are answered `hang`
        # and fail the check): not evaluated — they take the model's answer so that no further finding is invented for them
        h = list(res["h"])
        n = 0
        for i, a in enumerate(h):
            if a == "unanswered" and i < len(res["d"]):
                h[i] = res["d"][i]; n += 1
        if n:
            self.unanswered = getattr(self, "unanswered", 0) + n
            C.log(f"{n} operations not run after repeated hangs in their shard")
        return h, res["d"]


def history_check(ctx, out, ops, impl, what):
    """The answer to an operation must not depend on what the process did before (the codec is a pure function — the Lean model is).
    The operations are run again in ANOTHER order, chosen so that look-alike inputs sit next to each other in one process (sorted by
    operation and by the payload without its leading zero bytes, shorter first; then the same backwards), and every answer must be the
    one of the first run. Catches state that survives a call: caches, memo tables, statics shared by generic instantiations."""
    if C.HANGS_SEEN["n"]:
        return      # operations of this run did not return: that is the finding; no further passes
    def key(i):
        f = ops[i].split(" ")
        payload = f[-1] if len(f) > 1 else ""
        stripped = payload
        while stripped.startswith("00"):
            stripped = stripped[2:]
        return (f[0], stripped, len(payload), " ".join(f[1:-1]))
    order = sorted(range(len(ops)), key=key)
    n = 0
    for perm in (order, order[::-1]):
        lines = [ops[i] for i in perm]
        # contiguous shards, so that neighbours in this order really are neighbours in one process
        k = max(1, min(C.NCPU, len(lines) // 4000 + 1))
        size = (len(lines) + k - 1) // k
        parts = [lines[j:j + size] for j in range(0, len(lines), size)]
        import threading
        res = [None] * len(parts)
        th = [threading.Thread(target=lambda j=j: res.__setitem__(j, C.run_lines(C.harness_bin(False), parts[j], shards=1))) for j in range(len(parts))]
        for t in th: t.start()
        for t in th: t.join()
        again = [a for part in res for a in part]
        for pos, (i, a) in enumerate(zip(perm, again)):
            if a != impl[i] and a != "unanswered":
                n += 1
                if n <= 20:
                    prev = lines[pos - 1] if pos > 0 else "(first operation of the process)"
                    out.oracle_failures.append({"op": ops[i], "observed": a[:400], "expected": impl[i], "ops_before": [prev] if pos > 0 else [],
                                                "note": f"observed directly after `{prev[:200]}` in the same process; expected = the answer of the first run",
                                                "key": ops[i][:200], "what": f"{what}: the answer to an operation depends on what the process did before (hidden state across calls)"})
    out.count("re-run in look-alike order (history independence)", 2 * len(ops))


def release_check(ctx, out, ops, impl, what):
    """The same operations through the RELEASE build of the harness (no overflow checks, no debug assertions): the answers must be
    those of the dev build. Catches behaviour that depends on the build profile (wrapping arithmetic, side effects inside
    debug_assert!). The property module must set NEEDS_RELEASE = True so that the flow builds that harness."""
    if C.HANGS_SEEN["n"]:
        return
    rel = ctx.harness(ops, release=True)
    n = 0
    for o, a, r in zip(ops, impl, rel):
        if r != a and r != "unanswered":
            n += 1
            if n <= 20:
                out.oracle_failures.append({"op": o, "observed": r[:400], "expected": a, "release": True, "note": "observed = release build, expected = dev build", "key": o[:200],
                                            "what": f"{what}: the release build (no overflow checks / debug assertions) does not answer like the dev build"})
    out.count("also in the release build", len(ops))


class Outcome:
    """what a property module's run() reports"""
    def __init__(self):
        self.evaluations = 0
        self.nontrivial = set()      # keys of distinct non-trivial cases
        self.rule = ""
        self.samples = []
        self.disagreements = []      # dict(op=, impl=, model=, family=)
        self.oracle_failures = []    # dict(op=, observed=, expected=, what=, key=)
        self.distribution = {}
        self.exhaustive = False
        self.notes = []

    def count(self, key, n=1):
        self.distribution[key] = self.distribution.get(key, 0) + n

    def compare(self, family, ops, impl, model, limit=20):
        for o, a, b in zip(ops, impl, model):
            if a != b:
                if len(self.disagreements) < limit:
                    self.disagreements.append({"family": family, "op": o, "impl": a, "model": b})
                else:
                    self.disagreements_more = getattr(self, "disagreements_more", 0) + 1


def replay(ctx, prop, rp, built):
    """re-run the operations recorded in a replay file on implementation and model"""
    if not built:
        print(f"VIOLATION property={prop} replay=- cannot build harness/driver for replay no-failing-input-found")
        return 1
    items = rp.get("failing", []) + rp.get("disagreements", [])
    ops = [i["op"] for i in items if "op" in i]
    if not ops:
        print("replay file names a broken obligation, no operations to re-run:", rp.get("broken_obligations"))
        return 0
    if hasattr(ctx, "replay_runner"):
        impl, model = ctx.replay_runner(ops)
    else:
        impl, model = ctx.pair(ops)
    impl = list(impl)
    for k, it in enumerate(items):
        # findings that need more than the operation itself: its predecessor in the same process / the release build
        if it.get("ops_before") or it.get("release"):
            lines = list(it.get("ops_before") or []) + [it["op"]]
            impl[k] = C.run_lines(C.harness_bin(bool(it.get("release"))), lines, shards=1)[-1]
    bad = 0
    for it, a, b in zip(items, impl, model):
        exp = it.get("expected")
        status = "ok"
        if exp is not None and not str(exp).startswith("ok …") and a != exp:
            status = "PROPERTY-FAILS"
        elif a != b:
            status = "MODEL-DIFFERS"
        if status != "ok":
            bad += 1
        print(f"{status}: {it['op'][:200]}\n   impl:  {a[:300]}\n   model: {b[:300]}\n   expected: {exp}")
    if bad:
        print(f"VIOLATION property={prop} replay=(replayed) {bad} of {len(ops)} recorded operations still fail")
    return 1 if bad else 0


def problem_category(p):
    """which translated table a translator problem belongs to"""
    if p.startswith("sequence ") or "into_stream" in p or p.startswith("trait Sequence"):
        return "sequences"
    if p.startswith("convert_dir"):
        return "fileids"
    if p.startswith("ErrorMessages") or p.startswith("no Display message") or p.startswith("constants.rs"):
        return "errors"
    if p.startswith("cannot read") or p.startswith("cannot parse") or p.startswith("translator "):
        return "all"
    return "structs"


def main(argv):
    import argparse
    ap = argparse.ArgumentParser()
    ap.add_argument("prop")
    ap.add_argument("--tier", default=os.environ.get("VERIF_TIER", "quick"))
    ap.add_argument("--replay")
    a = ap.parse_args(argv)
    prop = a.prop.upper()
    seed = int(os.environ.get("VERIF_SEED", "1"))
    tier = a.tier if a.tier in ("quick", "thorough") else "quick"
    mod = importlib.import_module(f"tools.props.{prop.lower()}")
    t0 = time.time()
    violations = []   # (text, replay_path)
    known = []
    with C.Lock():
        schema, problems = C.translate()
        C.log(f"translate: {len(problems)} problems")
        proof = C.prove(mod.LEAN_MODULES, recheck=(tier == "thorough"))
        C.log(f"prove: build_ok={proof['build_ok']} obligations={len(proof['obligations'])} failed={proof['failed'][:3]} ({proof.get('build_s')} s)")
        ok_d, log_d = C.build_driver()
        ok_h, log_h, secs_h = C.build_harness()
        need_release = getattr(mod, "NEEDS_RELEASE", False)
        ok_r = True
        if need_release and ok_h:
            ok_r, log_r, _ = C.build_harness(release=True)
        C.log(f"build: driver={ok_d} harness={ok_h} ({secs_h:.0f} s)")
        out = Outcome()
        broken = []   # names of broken obligations / ties
        # a construct the translator cannot translate breaks the tie of the properties that consume that table, not of all
        relevant = getattr(mod, "TRANSLATED", {"structs", "sequences", "errors", "fileids"})
        other_problems = [p for p in problems if problem_category(p) not in relevant and problem_category(p) != "all"]
        problems = [p for p in problems if p not in other_problems]
        if problems:
            broken += ["translator: " + p for p in problems]
        if proof["failed"]:
            broken += ["theorem: " + f for f in proof["failed"]]
        if not ok_d:
            broken.append("model driver does not build (model no longer type-checks against Generated.lean?): " + log_d[-400:])
        if not ok_h or not ok_r:
            broken.append("correspondence harness does not build against the working tree: " + (log_h if not ok_h else log_r)[-600:])
        ctx = Ctx(prop, tier, seed, schema)
        ctx.broken = broken
        if a.replay:
            if hasattr(mod, "prepare_replay"):
                ctx.replay_runner = mod.prepare_replay(ctx)
            return replay(ctx, prop, json.load(open(a.replay)), ok_d and ok_h)
        if schema is not None and ok_h and ok_r and (ok_d or getattr(mod, "IMPL_ONLY_OK", False)):
            ctx.model_ok = ok_d
            # a broken obligation escalates the search to the thorough generators
            ctx.search_tier = "thorough" if (broken or tier == "thorough") else "quick"
            try:
                mod.run(ctx, out)
            except Exception as ex:
                if not broken:
                    raise
                import traceback
                out.notes.append("correspondence aborted after a broken obligation: " + traceback.format_exc()[-600:])
        else:
            out.notes.append("correspondence not run: " + "; ".join(broken)[:300])

    # ---------------- verdict
    kf = [f for f in C.known_findings() if f.get("property") == prop]

    def is_known(key):
        for f in kf:
            if f.get("key") and key and f["key"] in key:
                return f
        return None

    seen_known = set()
    real_failures = []
    for f in out.oracle_failures:
        k = is_known(f.get("key") or f.get("op"))
        if k:
            if k["key"] not in seen_known:
                seen_known.add(k["key"])
                known.append(k)
        else:
            real_failures.append(f)
    if real_failures:
        f0 = real_failures[0]
        path = C.write_replay(prop, "oracle", {"property": prop, "kind": "property oracle fails on the implementation", "seed": seed,
                                                "failing": real_failures[:10], "broken_obligations": broken})
        violations.append((f"{f0.get('what','')}", path, False))
    elif out.disagreements:
        d0 = out.disagreements[0]
        path = C.write_replay(prop, "disagreement", {"property": prop, "kind": "model/implementation correspondence broken; no property-failing input found",
                                                      "seed": seed, "correspondence_family": d0["family"], "disagreements": out.disagreements[:10],
                                                      "broken_obligations": broken})
        violations.append((f"correspondence {d0['family']} broken at op `{d0['op'][:120]}`", path, True))
    elif broken:
        path = C.write_replay(prop, "obligation", {"property": prop, "kind": "proof obligation / tie no longer checks; no property-failing input found",
                                                    "seed": seed, "broken_obligations": broken, "build_log": proof["build_log"][-3000:]})
        violations.append((broken[0][:200], path, True))

    for k in known:
        print(f"KNOWN-FINDING: property={prop} {k['what']} [{k['key']}]")
    for what, path, nofail in violations:
        print(f"VIOLATION property={prop} replay={path} {what}" + (" no-failing-input-found" if nofail else ""))

    # ---------------- evidence
    obl = proof["obligations"]
    cov = {
        "obligations": max(1, len(obl)),
        "discharged": sum(1 for o in obl if o["ok"]),
        "checker_cmd": "cd /verif/lean && lake build " + " ".join(mod.LEAN_MODULES) + " && lake env lean <Audit.lean with #print axioms per theorem>",
        "trusted_base": C.TRUSTED_BASE + getattr(mod, "TRUSTED_EXTRA", []),
        "theorems": [{"name": o["name"], "axioms": o["axioms"]} for o in obl],
        "broken_obligations": broken,
        "translator_problems": problems,
        "translator_problems_in_tables_this_property_does_not_use": other_problems,
        "evaluations": out.evaluations,
        "distinct_nontrivial": len(out.nontrivial) if isinstance(out.nontrivial, set) else int(out.nontrivial),
        "rule": out.rule,
        "samples": out.samples[:12] or ["(none)"],
        "exhaustive": out.exhaustive,
        "distribution": out.distribution,
        "disagreements": len(out.disagreements) + getattr(out, "disagreements_more", 0),
        "oracle_failures": len(out.oracle_failures),
        "known_findings_hit": [k["key"] for k in known],
        "notes": out.notes,
        "leanchecker": proof.get("leanchecker"),
    }
    C.write_evidence(prop, tier, seed, cov, getattr(mod, "ASSUMPTIONS", []), time.time() - t0, len(violations))
    C.log(f"{prop} {tier}: evaluations={out.evaluations} nontrivial={cov['distinct_nontrivial']} disagreements={cov['disagreements']} oracle_failures={len(out.oracle_failures)} violations={len(violations)} wall={time.time()-t0:.1f}s")
    return 1 if violations else 0
