#!/bin/bash
# usage: ingest_seed.sh <PROP> <suffix>   e.g. C01 b : confirms /tmp/seed/out-<PROP><suffix> and stores it as seeded/<PROP>-<suffix>
set -u
P=$1; S=$2; OUT=/tmp/seed/out-$P$S; V=/verif
if [ -d $OUT/demo ]; then $V/tools/confirm_seed_proj.sh $OUT $P$S; else $V/tools/confirm_seed.sh $OUT $P$S; fi
D=$V/seeded/$P-$S; mkdir -p $D
cp $OUT/patch.diff $OUT/RUN.md $OUT/CONFIRM.txt $D/ 2>/dev/null
cp $OUT/meta.json $D/agent_meta.json 2>/dev/null
cp $OUT/demo_*.rs $D/ 2>/dev/null
if [ -d $OUT/demo ]; then rsync -a --exclude target --exclude Cargo.lock $OUT/demo $D/; fi
