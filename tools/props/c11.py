"""C11 — firmware upload sends exactly the requested bytes of the right file."""
from .. import common as C, structs as S, clientgen as G, refcodec as R

LEAN_MODULES = ["ZvtVerif.Properties.C11"]
TRANSLATED = {"structs", "fileids"}      # translated tables this property consumes (a translator problem elsewhere does not break its tie)
ASSUMPTIONS = ["payload directories are created under /verif/.build/scratch and removed after each case",
               "read_at on a regular file (or a symbolic link to one; one payload entry in four is a link) returns min(len, size - offset) bytes",
               "the announced list is compared as a set (sorted by id): the code iterates a HashMap"]


def content(size, seed):
    return bytes(((seed * 31 + i * 7 + (i >> 8) * 13 + (i >> 16)) & 0xff) for i in range(size))


def gen_cases(spec, P, rng, n_dirs, thorough, wellformed=False):
    """upload cases: (ops, expected event logs, kinds). `wellformed`: only valid data requests over several files,
    ended by completion or abort with bytes queued behind it (the part of C05 that concerns the upload loop)."""
    table = {f["path"]: f["id"] for f in spec["file_ids"]}
    paths = sorted(table)
    # files that are NOT part of an update: other names, and recognised paths one directory too deep / under a look-alike
    # directory / with another case or an extra suffix (a payload tree with a backup copy in it)
    unrelated = ["README.txt", "firmware/readme", "app8/update.spec", "app0/update.tar", "kernel.gz",
                 "backup/firmware/kernel.gz", "old/app1/update.tar.gz", "firmware/firmware/rootfs.gz", "x/y/app0/update.spec",
                 "firmware/kernel.gz.bak", "Firmware/kernel.gz", "app1/update.spec/update.spec"]
    ops, want, kinds = [], [], []
    ack = bytes([0x80, 0, 0])
    for d in range(n_dirs):
        k = rng.choice([2, 3, 5, len(paths)]) if wellformed else rng.choice([0, 1, 1, 2, 3, 5, len(paths)])
        chosen = rng.sample(paths, min(k, len(paths)))
        files = {}
        desc = []
        max_size = 200 * 1024 if thorough and d % 50 == 0 else (8192 if d % 10 else 70000)
        for p in chosen:
            # sizes around the BER length boundaries of the three nested TLV lengths of a data answer (payload, +11, +13)
            size = rng.choice([0, 1, 2, 255, 256, 1000, rng.randint(0, max_size), rng.randint(110, 132), rng.randint(238, 260)] +
                              ([66000, 70000, 131072 + 5] if max_size >= 70000 else []))
            seed = rng.randrange(1000)
            files[table[p]] = content(size, seed)
            # one entry in four is a symbolic link to the payload file (staged release trees): same size, same bytes
            desc.append(f"{p}:{size}:{seed}" + (":l" if rng.random() < 0.25 else ""))
        for u in rng.sample(unrelated, rng.randint(0, 3)):
            if any(d0.split(":")[0].startswith(u + "/") or u.startswith(d0.split(":")[0] + "/") for d0 in desc):
                continue        # a path cannot be a file and a directory at once
            desc.append(f"{u}:{rng.randint(0, 50)}:{rng.randrange(100)}")
        rng.shuffle(desc)
        block = rng.choice([1, 7, 100, 1024, 32768, rng.randint(1, 32768), rng.randint(110, 132), rng.randint(238, 260)])
        password = rng.choice([0, 123456, 999999])
        # request script
        items = [ack]
        ev = []
        ids = sorted(files)
        announce = P.enc("feig::packets::WriteFile", password=password,
                         tlv={"files": [{"file_id": i, "file_offset": None, "file_size": len(files[i]), "payload": None} for i in ids]})
        stopped = False
        if not files:
            expected = "e:io:InvalidData / end"
        else:
            ev = [f"w:{announce.hex()}", "r:3"]
            # request plan: random requests, or a structured walk (sequential per file, round-robin over files,
            # continuing in another file at the offset where the previous block ended)
            plan = []
            mode = rng.choice(["sequential", "roundrobin", "continue", "jump"]) if wellformed else rng.choice(["random", "random", "sequential", "roundrobin", "continue", "jump"])
            if mode == "random":
                for _ in range(rng.randint(0, 6)):
                    plan.append(None)
            elif mode == "jump":
                # the SAME (largest) file at unaligned offsets, forwards and backwards: the start, then offsets just inside / at / just
                # behind multiples of the block size and of 4 KiB / 64 KiB windows, then back — whatever was read before, each answer
                # is the block at the requested offset
                fid = max(ids, key=lambda i: len(files[i]))
                n = len(files[fid])
                plan.append((fid, 0))
                for _k in range(rng.randint(2, 5)):
                    w = rng.choice([block, 4096, 65536, block * max(1, 65536 // block), block * max(1, 4096 // block)])
                    base = w * rng.randint(1, 2)
                    o = rng.choice([base - rng.randint(1, max(1, block)), base - 1, base, base + 1, rng.randint(0, max(0, n))])
                    plan.append((fid, max(0, o)))
            elif mode == "sequential":
                for fid in ids[:3]:
                    for k in range(rng.randint(1, 3)):
                        plan.append((fid, k * block))
            elif mode == "roundrobin":
                for k in range(rng.randint(1, 3)):
                    for fid in ids[:3]:
                        plan.append((fid, k * block))
            else:
                pos = rng.choice([0, block])
                for _k in range(rng.randint(2, 6)):
                    fid = rng.choice(ids)
                    plan.append((fid, pos))
                    pos += len(files[fid][pos:pos + block])
            if rng.random() < 0.3 and not wellformed:
                plan.insert(rng.randint(0, len(plan)), None)
            for planned in plan:
                kind = rng.choice(["req", "req", "req", "req", "unknown", "noid", "nooffset", "nofile", "notlv"]) if planned is None else "req"
                fid = rng.choice(ids)
                n = len(files[fid])
                off = rng.choice([0, 1, max(0, n - 1), n, n + 1, n + 1000, rng.randint(0, n + 10), (rng.randint(0, n) // block) * block,
                                  rng.choice([0x7fffffff, 0x80000000, 0xffffffff, 0xffffffff - block, 0xffffffff - block + 1, 0x100000000 - rng.randint(1, 70000)])])
                if planned is not None:
                    fid, off = planned
                if kind == "unknown":
                    fid = rng.choice([x for x in range(256) if x not in files])
                f = {"file_id": fid, "file_offset": off, "file_size": None, "payload": None}
                if kind == "noid": f["file_id"] = None
                if kind == "nooffset": f["file_offset"] = None
                tlv = {"file": f}
                if kind == "nofile": tlv = {"file": None}
                req = P.enc("feig::packets::RequestForData", tlv=None if kind == "notlv" else tlv)
                items.append(req)
                shown = show_req(kind, f)
                if ev[-1].startswith("r:"):
                    ev[-1] = "r:" + str(int(ev[-1][2:]) + len(req))
                else:
                    ev.append(f"r:{len(req)}")
                if kind == "req":
                    data = files[fid][off:off + block]
                    wd = P.enc("feig::packets::WriteData", tlv={"file": {"file_id": fid, "file_offset": off, "file_size": None, "payload": data}})
                    ev += [f"w:{wd.hex()}", f"y:1:RequestForData:{shown}"]
                else:
                    ev += ["e:incomplete", "end"]
                    stopped = True
                    break
            if not stopped:
                fin = rng.choice(["completion", "abort"]) if wellformed else rng.choice(["completion", "abort", "eof"])
                if fin == "eof":
                    ev += ["e:io:eof", "end"]
                else:
                    pk = P.completion() if fin == "completion" else P.abort(rng.randrange(256))
                    items.append(pk + bytes(rng.randrange(256) for _ in range(rng.choice([0, 0, 3]))))
                    if ev[-1].startswith("r:"):
                        ev[-1] = "r:" + str(int(ev[-1][2:]) + len(pk))
                    else:
                        ev.append(f"r:{len(pk)}")
                    ev.append("w:800000")
                    ev.append("y:0:CompletionData:{result_code=none status_byte=none terminal_id=none currency=none}" if fin == "completion"
                              else f"y:2:Abort:{{error={pk[3]}}}")
                    ev.append("end")
            expected = " / ".join(ev)
        ops.append(f"wf {block} {password} {','.join(desc) if desc else '-'} " + ",".join(i.hex() for i in items))
        want.append(expected)
        kinds.append(f"files{min(len(files), 3)}")
    return ops, want, kinds


def run(ctx, out):
    spec = S.load_spec()
    P = G.Packets(spec)
    rng = ctx.rng
    thorough = ctx.search_tier == "thorough"
    n_dirs = 1500 if thorough else 300
    paths = sorted(f["path"] for f in spec["file_ids"])
    ops, want, kinds = gen_cases(spec, P, rng, n_dirs, thorough)
    impl, model = ctx.pair(ops)
    out.compare("wf", ops, impl, model)
    out.evaluations = len(ops)
    for o, r, w, kd in zip(ops, impl, want, kinds):
        out.count(kd)
        out.nontrivial.add(o)
        if r != w:
            i = next((j for j in range(min(len(r), len(w))) if r[j] != w[j]), min(len(r), len(w)))
            out.oracle_failures.append({"op": o[:400], "observed": "…" + r[max(0, i - 60):i + 200], "expected": "…" + w[max(0, i - 60):i + 200], "key": o[:200],
                                        "what": "firmware upload: announced list is not exactly the recognised files with their sizes / a data request is not answered with that id, offset and the file's bytes / a bad request does not end the upload with an error"})
    out.rule = (f"{n_dirs} payload directories (any subset of the {len(paths)} recognised paths plus unrelated files, a quarter of the entries symbolic links to the payload, sizes 0..70000 (thorough: 200 KiB), deterministic content) x block sizes {{1,7,100,1024,32768,random, 110..132, 238..260 (BER length boundaries of the nested containers)}} x request scripts "
                "(0..6 requests: valid at offsets 0/1/size-1/size/size+1/beyond/random/block-aligned/around 2^31 and 2^32 - block, repeated and overlapping, unknown id, missing id / offset / file / TLV) ending in completion, abort or end of connection. "
                "The real WriteFile::into_stream against the scripted terminal; expected announcement and WriteData packets assembled by the reference encoder from the files' bytes. implementation = model = expectation")
    out.samples = [ops[1][:300], {"op": ops[-1][:200], "impl": impl[-1][:300]}]


def show_req(kind, f):
    def o(x):
        return "none" if x is None else f"(some {x})"
    if kind == "notlv":
        return "{tlv=none}"
    if kind == "nofile":
        return "{tlv=(some {file=none})}"
    return "{tlv=(some {file=(some {file_id=" + o(f["file_id"]) + " file_offset=" + o(f["file_offset"]) + " file_size=none payload=none})})}"
