"""C14 — a decoded packet depends only on the bytes inside its announced length."""
from .. import common as C, structs as S, valgen as V, refcodec as R

LEAN_MODULES = ["ZvtVerif.Properties.C14"]
TRANSLATED = {"structs"}      # translated tables this property consumes (a translator problem elsewhere does not break its tie)
ASSUMPTIONS = ["canonical value domain of DESIGN.md §5.1 for the packets that are extended by a suffix"]


def known_tags(s):
    return {f["tag"] for f in s["fields"] if f["tag"] is not None}


def run(ctx, out):
    layout = S.load_schema(ctx.schema)
    rng = ctx.rng
    thorough = ctx.search_tier == "thorough"
    per = 400 if thorough else 40
    cmds = [s for s in layout["structs"] if s["ctrl"] is not None]
    packets = []
    for s, v, b in S.gen_cases(layout, rng, per, names={s["name"] for s in cmds}):
        packets.append((s, v, b))
    for s, v, b in S.gen_cases(layout, rng, 2, big=True, names={s["name"] for s in cmds}):
        packets.append((s, v, b))
    o2, _ = S.apdu_switch(layout, rng)
    valid = [b for _, _, b in packets[:: max(1, len(packets) // 40)]]
    ops, want, kinds = [], [], []
    for k, (s, v, b) in enumerate(packets):
        shown = V.show(layout, {"k": "struct", "name": s["name"]}, v)
        sufs = [b"", bytes([rng.randrange(256)]), rng.choice(valid), bytes(rng.randrange(256) for _ in range(rng.randint(2, 64)))]
        if k % 25 == 0 or thorough and k % 5 == 0:
            sufs += [bytes([x]) for x in range(256)]
        for x in sufs:
            ops.append(f"dec {s['name']} {C.hexs(b + x)}")
            want.append(f"ok {shown} rem={C.hexs(x)} reenc={C.hexs(b)}")
            kinds.append("top:" + ("empty" if not x else "1byte" if len(x) == 1 else "packet" if x in valid else "random"))
        # junk inside the APDU body behind the last (nested) container: never disturbs what was decoded
        tags = known_tags(s)
        greedy_last = bool(s["fields"]) and s["fields"][-1]["tag"] is None and s["fields"][-1]["length"] in ("empty", "temperature")
        absent_pos = any(f["tag"] is None and f["ty"]["k"] == "opt" and v[f["name"]] is None for f in s["fields"])
        if not greedy_last and not absent_pos:
            first = rng.choice([t for t in range(0, 255) if t not in tags and t not in (0x1f, 0xff) and not any((tt >> 8) == t for tt in tags)])
            junk = bytes([first]) + bytes(rng.randrange(256) for _ in range(rng.randint(0, 8)))
            if k % 3 == 0:
                # filler-looking junk: one or several 00 bytes (BER-TLV "padding"), bare or followed by more — the format of this
                # library knows no filler: they are bytes beyond the last container and must come back untouched
                junk = bytes(rng.randint(1, 4)) + rng.choice([b"", bytes(rng.randrange(256) for _ in range(rng.randint(1, 4)))])
            body = b[2 + (1 if b[2] != 0xff else 3):]
            nb = body + junk
            if len(nb) < 65536:
                pkt = b[:2] + R.length_prefix("adpu", nb) + nb
                after = bytes(rng.randrange(256) for _ in range(rng.randint(0, 4)))
                ops.append(f"dec {s['name']} {C.hexs(pkt + after)}")
                want.append(f"ok {shown} rem={C.hexs(junk + after)} reenc={C.hexs(b)}")
                kinds.append("inner-junk")
    # behind every NESTED element: each tagged element of each nested container (1-3 levels down) is moved to the front of its
    # container, so that its siblings follow it — it must consume exactly its own length and hand the siblings back to the container
    n_sib = 0
    for k, (s, v, b) in enumerate(packets):
        if n_sib > (20000 if thorough else 3000):
            break
        shown = V.show(layout, {"k": "struct", "name": s["name"]}, v)
        for path, u, uv in S.sites(layout, s, v, 3):
            if not S.tagged_suffix(u) or any(f["tag"] is None and f["ty"]["k"] == "opt" and uv[f["name"]] is None for f in u["fields"]):
                continue
            upos, groups = S.groups_of(layout, u, uv)
            for i in range(1, len(groups)):
                order = [i] + [j for j in range(len(groups)) if j != i]
                body = S.wrap(layout, path, upos + b"".join(groups[j][1] for j in order))
                if body is None or len(body) > 65535:
                    continue
                pkt = b[:2] + R.length_prefix("adpu", body) + body
                x = bytes(rng.randrange(256) for _ in range(rng.choice([0, 3])))
                ops.append(f"dec {s['name']} {C.hexs(pkt + x)}")
                want.append(f"ok {shown} rem={C.hexs(x)} reenc={C.hexs(b)}")
                kinds.append("nested-sibling")
                n_sib += 1
    # the APDU-switch packets with a suffix
    for o in o2:
        name, hx = o.split()[1], o.split()[2]
        x = bytes(rng.randrange(256) for _ in range(3))
        ops.append(f"dec {name} {hx}{x.hex()}")
        want.append(None)
        kinds.append("apdu-switch")
    # the same at the packet reader: a packet followed, in the SAME read chunk, by another packet / by dangling bytes —
    # what lies behind the announced length stays in the stream for the next read
    enum = next(e for e in layout["enums"] if e["name"] == "sequences::AuthorizationResponse")
    variants = [(i, vv["name"], layout["by_name"][vv["ty"]]) for i, vv in enumerate(enum["variants"])]
    gg = V.Gen(layout, rng)

    def reply():
        while True:
            i, n, st = rng.choice(variants)
            vv = gg.struct(st, rng.choice([0.3, 0.7, 1.0]))
            bb = V.fits(layout, st, vv)
            if bb is not None and len(bb) < 300:
                return bb, f"ok {i} {n} {V.show(layout, {'k': 'struct', 'name': st['name']}, vv)} n={len(bb)}"

    for _ in range(200 if thorough else 40):
        pk = [reply() for _ in range(rng.randint(2, 4))]
        tail = bytes(rng.randrange(256) for _ in range(rng.choice([0, 0, 1, 2])))
        ops.append(f"read {enum['name']} {C.hexs(b''.join(p for p, _ in pk) + tail)}")
        want.append(" ; ".join([o for _, o in pk] + [f"err io:eof n={len(tail)}"]))
        kinds.append("reader:one-chunk")
        # … and with the FIRST packet arriving in two pieces, the second piece in one chunk with everything that follows:
        # a reader that collects a body piece by piece must still stop at the announced length
        p0 = pk[0][0]
        hdr = 5 if p0[2] == 0xff else 3
        if len(p0) - hdr >= 2:
            for c in sorted({hdr, hdr + 1, rng.randrange(hdr + 1, len(p0)), len(p0) - 1}):
                if hdr <= c < len(p0):
                    whole = b"".join(p for p, _ in pk) + tail
                    ops.append(f"read {enum['name']} {C.hexs(whole[:c])}|{C.hexs(whole[c:])}")
                    want.append(" ; ".join([o for _, o in pk] + [f"err io:eof n={len(tail)}"]))
                    kinds.append("reader:split-body")
    impl, model = ctx.pair(ops)
    from ..flow import history_check
    history_check(ctx, out, ops, impl, "packet decoder")
    out.compare("dec+suffix", ops, impl, model)
    out.evaluations = len(ops)
    for o, r, w, kd in zip(ops, impl, want, kinds):
        out.count(kd)
        out.nontrivial.add(o)
        if w is None:
            if not (r.startswith("ok ") and " rem=" + o.split()[2][-6:] + " " in r):
                out.oracle_failures.append({"op": o[:200] + "…", "observed": r[-200:], "expected": "… rem=<the 3 appended bytes> …", "key": o[:120],
                                            "what": "suffix after a packet around the APDU length switch is not handed back untouched"})
        elif r != w:
            i = next((j for j in range(min(len(r), len(w))) if r[j] != w[j]), min(len(r), len(w)))
            out.oracle_failures.append({"op": o, "observed": "…" + r[max(0, i - 60):i + 200], "expected": "…" + w[max(0, i - 60):i + 200], "key": o[:160],
                                        "what": f"appended bytes ({kd}) change the decoded value or are not handed back untouched"})
    out.rule = (f"{len(packets)} canonical packets of all {len(cmds)} command types x suffixes (empty, single bytes incl. all 256 for every 25th packet, valid packets, random up to 64 bytes) and junk spliced "
                "(a foreign tag number incl. 00, or 1-4 filler-looking 00 bytes) into the APDU body behind the last container; every element of every nested container (1-3 levels down) moved in front of its siblings; at the packet reader, 2-4 reply packets (+ dangling bytes) delivered in ONE chunk — also with the first packet's body split and its second piece in one chunk with the rest — are returned one by one; value, remainder (= suffix) and re-encoding compared with the no-suffix result on the implementation, and implementation = model. "
                "non-trivial = distinct (packet, suffix) inputs")
    out.samples = [ops[1][:300], {"op": ops[-1][:120], "impl": impl[-1][-120:]}]
