"""C01 — every packet value survives serialise -> deserialise unchanged."""
from .. import common as C, structs as S, valgen as V

LEAN_MODULES = ["ZvtVerif.Properties.C01"]
NEEDS_RELEASE = True
TRANSLATED = {"structs"}      # translated tables this property consumes (a translator problem elsewhere does not break its tie)
ASSUMPTIONS = ["canonical value domain of DESIGN.md §5.1", "Rust values are observed through their Debug output"]


def run(ctx, out):
    layout = S.load_schema(ctx.schema)
    thorough = ctx.search_tier == "thorough"
    per = 3000 if thorough else 200
    ops, want, meta = [], [], []
    for s, v, b in S.gen_cases(layout, ctx.rng, per, big=False):
        ops.append(f"dec {s['name']} {C.hexs(b)}")
        want.append(f"ok {V.show(layout, {'k': 'struct', 'name': s['name']}, v)} rem=- reenc={C.hexs(b)}")
        meta.append((s["name"], len(b)))
    # length-style maxima and the APDU 254/255/256 switch
    for s, v, b in S.gen_cases(layout, ctx.rng, 40 if thorough else 6, big=True):
        ops.append(f"dec {s['name']} {C.hexs(b)}")
        want.append(f"ok {V.show(layout, {'k': 'struct', 'name': s['name']}, v)} rem=- reenc={C.hexs(b)}")
        meta.append((s["name"], len(b)))
    ops2, want2 = S.apdu_switch(layout, ctx.rng)
    ops += ops2; want += want2; meta += [("apdu-switch", 0)] * len(ops2)
    impl, model = ctx.pair(ops)
    from ..flow import history_check, release_check
    history_check(ctx, out, ops, impl, "packet decoder")
    release_check(ctx, out, ops, impl, "packet codec")
    out.compare("dec", ops, impl, model)
    out.evaluations = len(ops)
    for o, r, w, m in zip(ops, impl, want, meta):
        out.count(m[0])
        out.nontrivial.add(o)
        if r != w:
            out.oracle_failures.append({"op": o, "observed": r[:400], "expected": w[:400], "key": o[:160],
                                        "what": f"{m[0]}: serialise -> deserialise does not return the value (or bytes are left over / re-encoding differs)"})
    sizes = sorted(m[1] for m in meta)
    out.distribution["encoded_size_min_median_max"] = [sizes[0], sizes[len(sizes) // 2], sizes[-1]]
    out.rule = (f"type-directed canonical values of all {len(layout['structs'])} derive(Zvt) types from the translated schema ({per} per type, every Option both ways, Vec lengths 0..6, "
                "numbers at digit-count boundaries, CP437/hex/UTF-8 text up to the length-style limits, APDU bodies 253..257 and 65535); reference-encoded, "
                "decoded and re-encoded by the Rust code and by the model; non-trivial = distinct encoded packets")
    out.samples = [ops[3][:300], {"op": ops[len(ops)//2][:200], "impl": impl[len(ops)//2][:300]}]


