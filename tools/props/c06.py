"""C06 — a failed exchange yields exactly one error, then silence."""
import itertools
from .. import common as C, structs as S, valgen as V, seqgen as G, refcodec as R

LEAN_MODULES = ["ZvtVerif.Properties.C06", "ZvtVerif.Properties.C06C"]
TRANSLATED = {"structs", "sequences"}      # translated tables this property consumes (a translator problem elsewhere does not break its tie)
ASSUMPTIONS = ["scripted terminal as in C05; a truncated packet is always followed by the end of the connection"]


def undecodable(spec, s):
    """a body the packet type s certainly rejects"""
    f0 = s["fields"][0] if s["fields"] else None
    if f0 is None:
        return None
    if f0["tag"] is None and f0["ty"]["k"] not in ("opt", "vec"):
        return b""                                   # mandatory positional field, nothing there
    for f in s["fields"]:
        if f["tag"] is not None and f["ty"]["k"] != "vec":
            t = f["tag"]
            return bytes([t]) if t < 256 else bytes([t >> 8, t & 255])   # a tag without its value
    return None


_DUP = {}


def duplicate_last(spec, s, g):
    if s["name"] not in _DUP:
        _DUP[s["name"]] = _duplicate_last(spec, s, g)
    return _DUP[s["name"]]


def _duplicate_last(spec, s, g):
    """a body with EVERY tagged field of s present and one of them repeated at the very end: the type's own decoder
    rejects it (DuplicateTag) — also when the repetition comes after all fields have been seen"""
    fields = s["fields"]
    tagged = [f for f in fields if f["tag"] is not None]
    if not tagged or any(f["tag"] is None and f["length"] == "empty" and f["ty"]["k"] in ("str", "struct") for f in fields):
        return None
    for _ in range(20):
        v = g.struct(s, 0.0)
        try:
            parts = [R.field_bytes(spec, f, f["ty"], v[f["name"]]) for f in fields]
        except R.NotRepresentable:
            continue
        groups = [(f, b) for f, b in zip(fields, parts) if f["tag"] is not None]
        if any(not b for _, b in groups):
            continue           # an empty Vec: not every tagged field is present
        rep = [b for f, b in groups if f["ty"]["k"] != "vec"]
        if not rep:
            return None
        body = b"".join(parts) + rep[-1]
        if len(body) < 255:
            return body
    return None


def faults(rng, enum_ctrls, letters, spec=None, enum=None, g=None):
    """fault items: (kind, bytes)"""
    fs = []
    # negative acknowledgements: 84 9C (what this terminal family sends) always, and one other code
    fs.append(("nack", bytes([0x84, 0x9c, 0x00])))
    fs.append(("nack", bytes([0x84, rng.choice([0x00, 0x83, 0xff, 0x6c, rng.randrange(256)]), 0x00])))
    while True:
        c = (rng.randrange(256), rng.randrange(256))
        if c not in enum_ctrls and c != (0x80, 0x00):
            break
    body = bytes(rng.randrange(256) for _ in range(rng.randint(0, 4)))
    fs.append(("foreign", bytes(c) + bytes([len(body)]) + body))
    # an acknowledgement (80 00) where a reply is expected, bare and with a body: outside every reply set
    fs.append(("ack-as-reply", bytes([0x80, 0x00, 0x00])))
    fs.append(("ack-as-reply", bytes([0x80, 0x00, len(body)]) + body))
    # a well-formed reply of this very command where the ACKNOWLEDGEMENT is expected (used at the ack position only)
    fs.append(("reply-at-ack", rng.choice(letters)[0]))
    # malformed body: a known control field with a body that cannot be decoded (TLV container announcing more than present)
    cands = []
    for v in enum["variants"]:
        sv = spec["by_name"][v["ty"]]
        u = undecodable(spec, sv)
        if u is not None:
            cands.append(bytes(sv["ctrl"]) + bytes([len(u)]) + u)
        if g is not None:
            u2 = duplicate_last(spec, sv, g)
            if u2 is not None:
                fs.append(("malformed-duplicate", bytes(sv["ctrl"]) + bytes([len(u2)]) + u2))
    if cands:
        fs.append(("malformed", rng.choice(cands)))
    # truncated packet: a valid one cut short (connection ends inside it)
    b = rng.choice(letters)[0]
    if len(b) > 3:
        fs.append(("truncated", b[: rng.randint(1, len(b) - 1)]))
    fs.append(("truncated", bytes([0x06])))
    # … and one that announces an extended length (CC II FF lo hi …), cut inside / right behind the five header bytes
    v = rng.choice(enum["variants"])
    ctrl = bytes(spec["by_name"][v["ty"]]["ctrl"])
    n = rng.choice([255, 256, 300, 4096])
    ext = ctrl + bytes([0xff, n & 255, n >> 8]) + bytes(rng.randrange(256) for _ in range(3))
    for cut in (3, 4, 5, rng.randint(6, 8)):
        fs.append(("truncated-extended", ext[:cut]))
    fs.append(("eof", None))
    return fs


def check_shape(events, prefix_events):
    """property oracle on the implementation's event log alone"""
    ev = events.split(" / ")
    errs = [i for i, e in enumerate(ev) if e.startswith("e:")]
    if len(errs) != 1:
        return f"{len(errs)} errors reported"
    i = errs[0]
    if ev[i + 1:] != ["end"]:
        return "something happens after the error: " + " / ".join(ev[i + 1:])[:80]
    if any(e.startswith("w:") for e in ev[i:]):
        return "a write after the failure"
    if ev[i - 1].startswith("w:") and i - 1 > 0:
        # the last thing before the error must not be an acknowledgement of the faulty packet:
        # every w:800000 must be followed by its y:
        return "the faulty packet was acknowledged"
    if sum(1 for e in ev if e == "w:800000") != sum(1 for e in ev if e.startswith("y:")):
        return "acknowledgements and yielded packets do not pair up"
    if any(e in ("panic", "hang") for e in ev):
        return "panic/hang"
    return None


def run(ctx, out):
    spec = S.load_spec(plus=ctx.schema)        # reply alphabets, kinds and final sets from the frozen specification table
    rng = ctx.rng
    thorough = ctx.search_tier == "thorough"
    depth = 3 if not thorough else 4
    g = V.Gen(spec, rng)
    ops, want_prefix, kinds = [], [], []
    ack = bytes([0x80, 0, 0])
    for s, enum, sin in G.sequences(spec):
        once = s["kind"] == "once"
        finals = s["finals"]
        alpha = G.alphabet(spec, g, rng, enum, reps=2)
        letters = [x for grp in alpha for x in grp]
        ctrls = {tuple(spec["by_name"][v["ty"]]["ctrl"]) for v in enum["variants"]}
        nonfinal = [x for x in letters if x[2] not in finals] if not once else []
        cmd = G.command(spec, g, rng, sin)
        prefixes = [()]
        for d in range(1, depth):
            ps = list(itertools.product(nonfinal, repeat=d))
            if len(ps) > (400 if thorough else 60):
                ps = rng.sample(ps, 400 if thorough else 60)
            prefixes += ps
        for pre in prefixes:
            # fault instead of the acknowledgement (only once per sequence and fault kind), and at every later position
            positions = (["ack"] if not pre else []) + ["after"]
            for pos in positions:
                for kind, fb in faults(rng, ctrls, letters, spec, enum, g):
                    if (kind == "ack-as-reply" and pos == "ack") or (kind == "reply-at-ack" and pos != "ack"):
                        continue          # at the acknowledgement position 80 00 IS the expected packet; a reply at a reply position is no fault
                    if pos == "ack":
                        items = [] if fb is None else [fb]
                        good = []
                        # a truncated / eof ack: connection ends; nack/foreign/malformed: error on the ack parser
                    else:
                        items = [ack] + [x[0] for x in pre] + ([] if fb is None else [fb])
                        good = list(pre)
                    if fb is not None and not kind.startswith("truncated") and rng.random() < 0.5:
                        items.append(rng.choice(letters)[0])       # something else queued behind the fault
                    k = rng.choice([0, 0, 0, 1, 2, 5])          # a share with short reads (every client read limited to k bytes)
                    # … some of those with 6 / 61 virtual seconds before every piece (a packet that trickles in): same outcome
                    tag = ("@%d" % k if k else "") + ("@%d" % rng.choice([6, 61]) if k and rng.random() < 0.4 else "")
                    ops.append(f"seq{tag} {s['name']} {cmd.hex()} " + (",".join(i.hex() for i in items) if items else "."))
                    if pos == "ack":
                        want_prefix.append([f"w:{cmd.hex()}"])
                    else:
                        ev, _ = G.expected_events(cmd, 3, good, [], False)
                        want_prefix.append(ev)
                    kinds.append(f"{kind}@{'ack' if pos == 'ack' else len(pre)}")
    impl, model = ctx.pair(ops)
    out.compare("seq(fault)", ops, impl, model)
    out.evaluations = len(ops)
    for o, r, pre, kd in zip(ops, impl, want_prefix, kinds):
        out.count(kd.split("@")[0])
        out.nontrivial.add(o)
        why = check_shape(r, pre)
        ev = r.split(" / ")
        # the valid prefix must have been processed normally (the last expected read may be merged with the read of the faulty packet)
        if why is None:
            exp = list(pre)
            got = ev[: len(exp)]
            if exp and exp[-1].startswith("r:") and len(got) == len(exp) and got[-1].startswith("r:"):
                if got[:-1] != exp[:-1] or int(got[-1][2:]) < int(exp[-1][2:]):
                    why = "valid prefix of the exchange was not processed as specified"
            elif got != exp:
                why = "valid prefix of the exchange was not processed as specified"
        if why:
            out.oracle_failures.append({"op": o[:400], "observed": r[:500], "expected": " / ".join(pre) + " / [r:n] / e:<kind> / end", "key": o[:200],
                                        "what": f"{o.split()[1]} with fault {kd}: {why}"})
    out.rule = (f"all {len(spec['sequences'])} exchanges x valid reply prefixes up to depth {depth - 1} x fault kinds (NACK 84xx, foreign control field, an acknowledgement 80 00 at a reply position, a valid reply at the acknowledgement position, undecodable body — a tag without value, or all tagged fields present and one repeated at the end —, truncated packet + close (also cut inside / right behind an extended-length header CC II FF lo hi), EOF; half of the runs with every read of the client limited to 1, 2 or 5 bytes) "
                "instead of the acknowledgement and at every later position, optionally with more data queued behind the fault; oracle on the implementation's event log: exactly one error, nothing but `end` after it, "
                "no write after the failure, every 80 00 00 pairs with a yielded packet (the faulty packet is not acknowledged), valid prefix processed normally; implementation = model. non-trivial = distinct (sequence, prefix, fault)")
    out.samples = [ops[0][:300], {"op": ops[len(ops)//2][:200], "impl": impl[len(ops)//2][:300]}]
