"""C10 — no terminal stall or configuration value can hang a client call."""
from .. import common as C, structs as S, clientgen as G
from .c09 import baseline, HISTORIES, VARIANTS
from .c07 import run_histories

LEAN_MODULES = ["ZvtVerif.Properties.C10"]
TRANSLATED = {"structs", "sequences", "errors"}      # translated tables this property consumes (a translator problem elsewhere does not break its tie)
ASSUMPTIONS = ["time is tokio's paused clock (virtual seconds); a one-virtual-day watchdog turns a real hang into the outcome `hang`",
               "what the Lean model cannot exhibit: the executor (timer wheel, wakers) — exercised by the harness"]

ATTEMPTS, THROTTLE, TIMEOUT = 20, 2, 60


def run(ctx, out):
    spec = S.load_spec()
    rng = ctx.rng
    thorough = ctx.search_tier == "thorough"
    ops, meta = [], []
    timeouts = range(256) if thorough else [0, 1, 15, 253, 254, 255]
    # a stall at every item of every exchange of every operation, on the first connection
    for calls, mx in HISTORIES:
        for t in ([15] if "readcard" not in calls else timeouts):
            cfg = G.default_cfg(max=mx, timeout=t)
            a = baseline(spec, cfg, calls)
            for j in range(len(a.trigger)):
                ops.append(G.op_line(cfg, calls, G.script_str(cfg, None, {(0, j): "stall"})))
                meta.append((cfg, calls, f"stall@{j}", 1))
    # start-up variants: the terminal reports another terminal id (06 1B exchange), the configured terminal id is empty
    for calls, mx, var in VARIANTS:
        cfg = G.default_cfg(max=mx, timeout=15)
        if "cfg_tid" in var:
            cfg = dict(cfg, tid=var["cfg_tid"])
        ttid = var.get("ttid")
        a = baseline(spec, cfg, calls, None, ttid)
        for j in range(len(a.trigger)):
            ops.append(G.op_line(cfg, calls, G.script_str(cfg, None, {(0, j): "stall"}, None, None, ttid)))
            meta.append((cfg, calls, f"variant-stall@{j}", 1))
    # the same against a CHATTY terminal: every exchange whose reply set has them is answered with two intermediate statuses before
    # its final packet, so that there are stall positions BETWEEN two reply packets of an exchange (not only before the first reply)
    P = G.Packets(spec)
    def chatty(cfg):
        a0 = G.Abs(spec, cfg, {}, None, None)
        # (read_card's reply set has no print packets; the others get an intermediate status, a print line and a print text block)
        return {kind: [([P.intermediate(), P.intermediate()] if kind == "06c0" else [P.intermediate(), P.print_line("chatty"), P.print_text_block()]) + a0.replies(kind)] * 60
                for kind in ("06c0", "0693", "0650", "0622", "0623", "0625")}
    for calls, mx in HISTORIES:
        for t in ([15] if "readcard" not in calls else ([0, 15, 255] if not thorough else timeouts)):
            cfg = G.default_cfg(max=mx, timeout=t)
            q = chatty(cfg)
            a = baseline(spec, cfg, calls, q)
            for j in range(len(a.trigger)):
                ops.append(G.op_line(cfg, calls, G.script_str(cfg, q, {(0, j): "stall"})))
                meta.append((cfg, calls, f"chatty-stall@{j}", 1))
    # a LATE answer instead of silence: the terminal pauses 7 s before every packet and 70 s before item j, then carries on
    for calls, mx in HISTORIES:
        for t in ((15, 0) if "readcard" in calls else (15,)):
            cfg = G.default_cfg(max=mx, timeout=t)
            q = chatty(cfg)
            a = baseline(spec, cfg, calls, q)
            for j in range(len(a.trigger)):
                ops.append(G.op_line(cfg, calls, G.script_str(cfg, q, {(0, j): "late:9"}) + " gap=7"))
                meta.append((cfg, calls, f"late@{j}", 1))
    # a terminal that falls silent at item j and stays silent at the same place of the retried exchange on every later connection:
    # the retry budget of THAT exchange has to end the call
    for calls, mx in HISTORIES:
        cfg = G.default_cfg(max=mx, timeout=15)
        a = baseline(spec, cfg, calls)
        for j in range(len(a.trigger)):
            start = max(s0 for s0 in a.exch_start if s0 <= a.trigger[j])
            first = min(i for i in range(len(a.trigger)) if a.trigger[i] >= start)
            off = j - first
            hs = 0 if a.exch_start.index(start) < 2 and j < 4 else 4       # the first two exchanges of connection 0 are the handshake itself
            faults = {(0, j): "stall"} | {(k, hs + off): "stall" for k in range(1, 1500)}
            ops.append(G.op_line(cfg, calls, G.script_str(cfg, None, faults)))
            meta.append((cfg, calls, f"persistent-stall@{j}", 1500))
    # stalls while connecting / registering on several consecutive connections, and a terminal that is mute for ever
    for t in timeouts:
        cfg = G.default_cfg(timeout=t)
        calls = ["new", "readcard", "begin:61"]
        for conn, faults in ((["stall"], {}), (["stall"] * 3, {}), ([], {(0, 0): "stall"}), ([], {(0, 1): "stall", (1, 2): "stall", (2, 3): "stall"}),
                             ([], {(k, 0): "stall" for k in range(70)}), (["stall"] * 70, {}),
                             ([], {(0, 12): "stall", (1, 4): "stall"}), ([], {(k, 5): "stall" for k in range(1, 70)} | {(0, 12): "stall"})):
            ops.append(G.op_line(cfg, calls, G.script_str(cfg, None, faults, conn)))
            meta.append((cfg, calls, "connect-stalls", max(1, len(conn), len(faults))))
    # a SLOW terminal (5 virtual seconds before every packet) that also falls silent at item j: the reconnect handshake then takes
    # 20 s — longer than read_card's packet time-out of 17 s / 7 s, shorter than the 60 s handshake guard
    for calls, mx in HISTORIES:
        for t in ((15, 5) if "readcard" in calls else (15,)):
            cfg = G.default_cfg(max=mx, timeout=t)
            a = baseline(spec, cfg, calls)
            for j in range(len(a.trigger)):
                ops.append(G.op_line(cfg, calls, G.script_str(cfg, None, {(0, j): "stall"}) + " gap=5"))
                meta.append((cfg, calls, f"slow-stall@{j}", 1))
    # a terminal that keeps reporting a pending pre-authorisation (receipt 5 / 9999) and falls silent in every reversal exchange for it
    # (after the acknowledgement, or after an intermediate status), while it answers handshakes and pending queries normally
    for calls in (["new"], ["new", "configure"], ["new", "begin:61", "cancel:61"], ["new", "begin:61", "commit:61:100"], ["new", "readcard", "begin:61"]):
        for receipt in (5, 9999):
            for silent in ([], [P.intermediate()]):
                cfg = G.default_cfg(timeout=15)
                q = {"0623q": [[P.pr_abort(0xb8, receipt)]] * 100, "0625": [silent] * 1500}
                ops.append(G.op_line(cfg, calls, G.script_str(cfg, q)))
                meta.append((cfg, calls, "pending-never-reversed", 1500))
    impl, model = ctx.pair(ops)
    out.compare("client(stalls)", ops, impl, model)
    out.evaluations = len(ops)
    for o, r, (cfg, calls, kd, n) in zip(ops, impl, meta):
        out.count(kd.split("@")[0])
        out.nontrivial.add(o)
        results, logs = G.parse_out(r)
        if results is None or len(results) != len(calls) or any(x[0] in ("hang", "panic") for x in results):
            out.oracle_failures.append({"op": o, "observed": r[:300], "expected": "every call returns", "key": o[:300],
                                        "what": f"a public client operation does not return (or panics) when the terminal falls silent ({kd}, read_card_timeout={cfg['timeout']})"})
            continue
        # elapsed virtual time per call within the retry budget: attempts x (connect guard + throttle + (replies+1) x packet time-out);
        # a call consists of at most 6 sub-exchanges (configure) with at most 4 items each
        per_packet = max(TIMEOUT, cfg["timeout"] + 2)
        bound = 6 * ATTEMPTS * (TIMEOUT + THROTTLE + 5 * per_packet)
        prev = 0
        for (res, t) in results:
            if t - prev > bound:
                out.oracle_failures.append({"op": o, "observed": f"{t - prev} s", "expected": f"<= {bound} s", "key": o[:300], "what": "a call exceeds the bound fixed by retry budget and per-packet time-out"})
            prev = t
        # the time-out never collapses to zero: a stalled read_card exchange costs at least 2 virtual seconds per attempt
        if kd.startswith("stall@") and "readcard" in calls and results[-1][1] == 0 and cfg["timeout"] >= 0:
            pass
    # a HEALTHY terminal (answers at once, and again pausing 1 s before every packet) under every read_card_timeout value: a
    # time-out computation that overflows or collapses to zero for one configuration value makes the calls fail although the
    # terminal answers — results and traffic must be those of the specification, whatever the value
    healthy = [(G.default_cfg(max=mx, timeout=t), calls, {}, None, None) for calls, mx in HISTORIES if "readcard" in calls
               for t in (range(256) if thorough else [0, 1, 2, 3, 15, 100, 127, 128, 253, 254, 255])]
    run_histories(ctx, out, healthy, "healthy terminal x read_card_timeout")
    # (the first item of an exchange arrives after two pauses — acknowledgement, then the reply — so the pause must stay below half
    # the packet time-out `timeout + 2`: 1 s for the values from 1 on; with the value 0 a pause of 1 s IS the time-out, a tie)
    run_histories(ctx, out, [h for h in healthy if h[0]["timeout"] in (1, 2, 255)], "healthy but slow terminal x read_card_timeout", gap=1)
    out.count("healthy terminal x read_card_timeout", len(healthy))
    out.rule = ("a stall (terminal silent, connection open) at EVERY item of every exchange of 5 call histories (handshake included) x read_card_timeout in {0,1,15,253,254,255} (thorough: 0..255); the same against a chatty terminal (two intermediate statuses before every final packet: stalls BETWEEN two reply packets of an exchange); the same with the terminal silent at that place of the retried exchange on all 1500 later connections (a client without a retry budget then needs more than the one-virtual-day watchdog) (the retry budget of each exchange must end the call); a late answer (70 s) at every item of a chatty terminal pausing 7 s before every packet; the single stalls again with a terminal that pauses 5 s before every packet (reconnect handshakes of 20 s); stalled connects, "
                "stalls during registration on consecutive connections, a terminal that is mute for ever (70 connections); a terminal that reports a pending pre-authorisation at every query and never completes its reversal. Oracle: every call returns (no hang under a one-virtual-day watchdog, no panic) within "
                "6 x 20 x (60 + 2 + 5 x max(60, timeout+2)) virtual seconds; implementation = model EXACTLY in results, traffic and virtual time stamps (so a time-out that overflowed or collapsed to 0 would show); plus every history containing read_card against a HEALTHY terminal for read_card_timeout in {0,1,2,3,15,100,127,128,253,254,255} (thorough: 0..255), and for {1,2,255} against a healthy terminal that pauses 1 s before every packet: results and traffic = specification")
    out.samples = [ops[7][:400], {"op": ops[-1][:300], "impl": impl[-1][:300]}]
