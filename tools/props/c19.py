"""C19 — going idle triggers clean-up; end-of-day never runs over open transactions."""
import itertools
from .. import common as C, structs as S, clientgen as G
from .c07 import run_histories, tok

LEAN_MODULES = ["ZvtVerif.Properties.C19", "ZvtVerif.Properties.Traffic"]
TRANSLATED = {"structs", "sequences", "errors"}      # translated tables this property consumes (a translator problem elsewhere does not break its tie)
ASSUMPTIONS = ["fault-free transport; oracle = abstract specification (clientgen.Abs): exact packet sequence incl. pending query, reversal of the reported receipt, end-of-day"]


def run(ctx, out):
    spec = S.load_spec()
    P = G.Packets(spec)
    rng = ctx.rng
    thorough = ctx.search_tier == "thorough"
    tokens = ["a", "b"]
    ok_begin = lambda r: [P.status(receipt_no=r, result_code=0), P.completion()]
    ok_commit = [P.status(result_code=0, amount=5), P.completion()]
    no_status_commit = [P.completion()]
    cases = []
    # receipt reported by the pending query (None: field absent); 11 and 12 are the receipt numbers the reservations of these
    # histories were made under — the terminal may well report the very pre-authorisation that was just committed / cancelled
    pendings = [None, 0xffff, 17, 9999, 11, 12]
    eods = [[P.completion()], [P.pr_abort(0xa0)], [P.pr_abort(0x6c)], [P.intermediate(), P.print_line("eod"), P.completion()]]
    codes = range(256)        # every abort code, in both tiers: the set of tolerated refusals must be exactly {A0}
    for c in codes:
        eods.append([P.pr_abort(c)])
    histories = []
    # single transaction: begin, then commit/cancel (completed / aborted / commit completed without status information)
    for fin in ("commit", "cancel"):
        for outcome in ("ok", "abort", "nostatus"):
            if fin == "cancel" and outcome == "nostatus":
                continue
            histories.append(([f"begin:{tok('a')}", f"{fin}:{tok('a')}" + (":7" if fin == "commit" else "")], fin, outcome, 1))
    # two transactions: the first commit/cancel leaves one open (no clean-up), the second goes idle
    for f1, f2 in itertools.product(("commit", "cancel"), repeat=2):
        histories.append(([f"begin:{tok('a')}", f"begin:{tok('b')}", f"{f1}:{tok('a')}" + (":7" if f1 == "commit" else ""),
                           f"{f2}:{tok('b')}" + (":9" if f2 == "commit" else "")], f2, "ok", 2))
    # earlier begins that FAILED must not count as open: aborted outright, completed without receipt number, receipt reported and then aborted
    failed_begins = {"abort": [P.abort(0x6c)], "noreceipt": [P.status(result_code=0), P.completion()],
                     "receipt_abort": [P.status(receipt_no=77, result_code=0), P.abort(0x6c)]}
    for fb, reply in failed_begins.items():
        for fin in ("commit", "cancel"):
            histories.append(([f"begin:{tok('a')}", f"begin:{tok('b')}", f"{fin}:{tok('b')}" + (":7" if fin == "commit" else "")], fin, "ok", 2, reply))
    for h in histories:
        calls, fin, outcome, mx = h[:4]
        first_begin = h[4] if len(h) > 4 else None
        for pend in pendings:
            for rev in ("ok", "abort"):
                if pend in (None, 0xffff) and rev == "abort":
                    continue
                for eod in (eods if outcome == "ok" and pend in (None, 17) and rev == "ok" else eods[:3]):
                    q = {"0622": ([first_begin, ok_begin(12)] if first_begin is not None else [ok_begin(11), ok_begin(12)]),
                         "0623q": [[P.pr_abort(0xb8, 0xffff)], [P.pr_abort(0xb8, pend)]],         # 1st: start-up, 2nd: when going idle
                         "0650": [[P.completion()], eod],
                         "0625": [], "0623": []}
                    fin_reply = {"ok": ok_commit, "abort": [P.pr_abort(0xb4)], "nostatus": no_status_commit}[outcome]
                    for c in calls:
                        if c.startswith("commit"):
                            q["0623"].append(fin_reply if c == calls[-1] else ok_commit)
                        if c.startswith("cancel"):
                            q["0625"].append([P.completion()] if (c != calls[-1] or outcome != "abort") else [P.pr_abort(0xb5)])
                    if pend not in (None, 0xffff):
                        q["0625"].append([P.completion()] if rev == "ok" else [P.pr_abort(0xb5)])
                    cases.append((G.default_cfg(max=mx), ["new"] + calls, q, None, None))
    # two tokens open, the FIRST finishing exchange refused with each of the 256 abort codes (B8 = "pre-authorisation not found" included):
    # whatever the code, nothing of the clean-up (pending query, reversal of other receipts, end-of-day) may run while the second token is open
    for code in range(256):
        for f1 in ("cancel", "commit"):
            f2 = ("cancel", "commit")[(code + (f1 == "commit")) % 2]
            calls = [f"begin:{tok('a')}", f"begin:{tok('b')}", f"{f1}:{tok('a')}" + (":7" if f1 == "commit" else ""), f"{f2}:{tok('b')}" + (":9" if f2 == "commit" else "")]
            q = {"0622": [ok_begin(11), ok_begin(12)], "0623q": [[P.pr_abort(0xb8, 0xffff)], [P.pr_abort(0xb8, 17 if code % 3 == 0 else 0xffff)]],
                 "0650": [[P.completion()], [P.completion()]], "0625": [], "0623": []}
            q["0625" if f1 == "cancel" else "0623"].append([P.pr_abort(code)])
            q["0625" if f2 == "cancel" else "0623"].append([P.completion()] if f2 == "cancel" else ok_commit)
            q["0625"].append([P.completion()])
            cases.append((G.default_cfg(max=2), ["new"] + calls, q, None, None))
    ops, impl = run_histories(ctx, out, cases, "idle clean-up")
    # the same against a SLOW but talking terminal (14 virtual seconds before every packet — the whole clean-up then lasts minutes,
    # every single packet stays below the 60 s packet time-out): the clean-up must run to its end and report its outcome all the same
    slow = ctx.rng.sample(cases, min(len(cases), 400 if ctx.search_tier == "thorough" else 120))
    # (14 s is the largest pause the 60 s guard around the four-packet connection handshake allows: 4 x 14 = 56 s)
    run_histories(ctx, out, slow, "idle clean-up, slow terminal (14 s before every packet)", gap=14)
    out.count("slow-terminal", len(slow))
    # the pending query answered with something that is NOT the abort the protocol prescribes (a completion, a status information,
    # an intermediate status first): the clean-up stops there with an error — in particular no end-of-day is requested over a ledger the
    # client could not inspect. implementation = model; oracle on the implementation: the finishing call fails, 06 50 is not sent after it
    odd_ops, odd_meta = [], []
    for fin in ("commit", "cancel"):
        for reply in ([P.completion()], [P.status(result_code=0)], [P.intermediate(), P.pr_abort(0xb8, 0xffff)], [P.print_line("x"), P.pr_abort(0xb8, 17)]):
            cfg = G.default_cfg(max=1)
            calls = ["new", f"begin:{tok('a')}", f"{fin}:{tok('a')}" + (":5" if fin == "commit" else "")]
            q = {"0622": [ok_begin(11)], "0623q": [[P.pr_abort(0xb8, 0xffff)], reply], "0623": [ok_commit], "0625": [[P.completion()]], "0650": [[P.completion()], [P.completion()]]}
            odd_ops.append(G.op_line(cfg, calls, G.script_str(cfg, q)))
            odd_meta.append((fin, reply))
    oi, om = ctx.pair(odd_ops)
    out.compare("client(pending query answered oddly)", odd_ops, oi, om)
    out.evaluations += len(odd_ops)
    for o, r, (fin, reply) in zip(odd_ops, oi, odd_meta):
        out.nontrivial.add(o)
        out.count("pending query answered with another packet")
        results, logs = G.parse_out(r)
        rx = [e for e in (logs or {}).get(0, []) if e.startswith("rx:")]
        n_eod = sum(1 for e in rx if e.startswith("rx:0650"))
        if results is None or len(results) != 3 or results[-1][0].startswith("ok") or n_eod != 1:
            out.oracle_failures.append({"op": o, "observed": r[:600], "expected": "the finishing call fails; exactly one 06 50 (the one of the start-up)", "key": o[:300],
                                        "what": "idle clean-up: the pending query was not answered with an abort, yet the call succeeds / end-of-day is requested"})
    # explicit shape oracle on the implementation's traffic: end-of-day (06 50) never while another token is open
    out.rule = ("histories begin..commit/cancel over 1 and 2 tokens x outcome of the finishing exchange (completed, aborted, commit completed without status information) x dangling pre-authorisation reported by the pending query "
                f"(absent, FFFF, 17, 9999, and the receipt numbers 11 / 12 of the transactions of the history itself) x reversal outcome x end-of-day outcome (completion, completion after intermediate packets, {len(list(codes))} abort codes incl. A0). The client must send exactly: finishing request, "
                "pending query 06 23 FFFF, reversal 06 25 of the reported receipt, 06 50 — each only after the previous one succeeded, nothing of it while a token is open — and report A0 as success and any other refusal as error. "
                "A sample of all that against a slow terminal (14 s before every packet: the clean-up lasts minutes, no packet is late). Two tokens open and the first finishing exchange refused with each of the 256 abort codes: no clean-up before the second token is finished. implementation = model = specification")
    out.samples = [ops[3][:500], {"op": ops[-1][:200], "impl": impl[-1][:300]}]
