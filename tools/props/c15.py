"""C15 — replies are dispatched solely by their class and instruction bytes."""
from .. import common as C, structs as S, valgen as V, refcodec as R, seqgen as G

LEAN_MODULES = ["ZvtVerif.Properties.C15"]
TRANSLATED = {"structs", "sequences"}      # translated tables this property consumes (a translator problem elsewhere does not break its tie)
ASSUMPTIONS = ["reply table (enum -> variants -> control field) taken from the frozen specification table"]


def long_bodies(spec, s, g, rng):
    """bodies of 255 bytes and more for packet types that can carry long text"""
    outb = []
    for f in s["fields"]:
        t = f["ty"]["t"] if f["ty"]["k"] == "opt" else f["ty"]
        if t["k"] == "str" and f["encoding"] == "dflt" and f["length"] in ("llv:3", "empty", "tlv"):
            for n in (255, 300):
                v = g.struct(s, 1.0)
                v[f["name"]] = "".join(chr(rng.randint(33, 126)) for _ in range(n))
                try:
                    outb.append(R.body(spec, s, v))
                except R.NotRepresentable:
                    pass
            break
    return outb


def run(ctx, out):
    spec = S.load_spec(plus=ctx.schema)
    rng = ctx.rng
    thorough = ctx.search_tier == "thorough"
    g = V.Gen(spec, rng)
    ops, meta = [], []   # meta: (enum, c0, c1, kind)
    enums = spec["enums"]
    for e in enums:
        vs = [(v["name"], spec["by_name"][v["ty"]]) for v in e["variants"]]
        ctrl_of = {tuple(s["ctrl"]): (i, n, s) for i, (n, s) in reversed(list(enumerate(vs)))}
        # valid bodies per variant
        bodies = {}
        for n, s in vs:
            bs = []
            for _ in range(6 if thorough else 3):
                for _t in range(20):
                    v = g.struct(s, rng.choice([0.0, 0.5, 1.0]))
                    try:
                        b = R.body(spec, s, v)
                    except R.NotRepresentable:
                        continue
                    if len(b) < 255:
                        bs.append(b); break
            bodies[n] = bs or [b""]
        first_body = bodies[vs[0][0]][0]
        for c0 in range(256):
            for c1 in range(256):
                key = (c0, c1)
                hdr = bytes([c0, c1])
                ops.append("placeholder")
                meta.append((e["name"], c0, c1, "empty"))
                # the bare control field: two bytes, no length byte at all
                ops.append(f"parse {e['name']} {c0:02x}{c1:02x}")
                meta.append((e["name"], c0, c1, "bare"))
                if key in ctrl_of or thorough or (c0 * 256 + c1) % 7 == 0:
                    cand = [(n, b) for n in bodies for b in bodies[n]] if key in ctrl_of else [(vs[0][0], first_body)]
                    for n, b in cand:
                        ops.append(f"parse {e['name']} {C.hexs(hdr + bytes([len(b)]) + b)}")
                        meta.append((e["name"], c0, c1, "body:" + n))
                    if key in ctrl_of:
                        # inconsistent framing: junk behind the packet, announced length longer than the body, extended length form
                        _, tn, ts = ctrl_of[key]
                        for b in bodies[tn][:2]:
                            ops.append(f"parse {e['name']} {C.hexs(hdr + bytes([len(b)]) + b + bytes([rng.randrange(256) for _ in range(rng.randrange(1, 5))]))}")
                            meta.append((e["name"], c0, c1, "trailing"))
                            ops.append(f"parse {e['name']} {C.hexs(hdr + bytes([len(b) + 1 + rng.randrange(3)]) + b)}")
                            meta.append((e["name"], c0, c1, "truncated"))
                            ops.append(f"parse {e['name']} {C.hexs(hdr + bytes([0xff, len(b) & 255, len(b) >> 8]) + b)}")
                            meta.append((e["name"], c0, c1, "extended-form"))
                        for lb in long_bodies(spec, ts, g, rng):
                            ops.append(f"parse {e['name']} {C.hexs(hdr + R.length_prefix('adpu', lb) + lb)}")
                            meta.append((e["name"], c0, c1, "long"))
                        for _ in range(8):
                            b = bytes(rng.randrange(256) for _ in range(rng.randrange(0, 12)))
                            ops.append(f"parse {e['name']} {C.hexs(hdr + bytes([len(b)]) + b)}")
                            meta.append((e["name"], c0, c1, "random"))
        for b in (b"", b"\x06", b"\x80"):
            ops.append(f"parse {e['name']} {C.hexs(b)}")
            meta.append((e["name"], None, None, "short"))
    # fix the 'empty' ops: header + zero length byte
    ops = [o if m[3] != "empty" else f"parse {m[0]} {m[1]:02x}{m[2]:02x}00" for o, m in zip(ops, meta)]
    impl, model = ctx.pair(ops)
    from ..flow import history_check
    history_check(ctx, out, ops[::5], impl[::5], "reply parser")
    out.compare("parse", ops, impl, model)
    out.evaluations = len(ops)
    # oracle: compare with the variant type's own decoder (implementation alone)
    dec_ops, dec_idx = [], []
    table = {e["name"]: {tuple(spec["by_name"][v["ty"]]["ctrl"]): (i, v["name"], v["ty"]) for i, v in reversed(list(enumerate(e["variants"])))} for e in enums}
    for k, (o, m) in enumerate(zip(ops, meta)):
        if m[3] == "short":
            if impl[k] != "err incomplete":
                out.oracle_failures.append({"op": o, "observed": impl[k], "expected": "err incomplete", "key": o, "what": "input shorter than two bytes is not reported as incomplete"})
            continue
        t = table[m[0]].get((m[1], m[2]))
        if t is None:
            out.count("outside-reply-set")
            if not impl[k].startswith("err"):
                out.oracle_failures.append({"op": o, "observed": impl[k][:200], "expected": "err …", "key": o[:100],
                                            "what": f"{m[0]}: control field {m[1]:02x} {m[2]:02x} is outside the reply set but a packet was returned"})
        else:
            out.count("in-reply-set:" + m[3].split(":")[0])
            out.nontrivial.add(o)
            dec_ops.append(f"dec {t[2]} {o.split()[2]}")
            dec_idx.append((k, t))
    dec_impl = ctx.harness(dec_ops)
    out.evaluations += len(dec_ops)
    for (k, t), d in zip(dec_idx, dec_impl):
        r = impl[k]
        if d.startswith("ok "):
            val = d[3:d.rindex(" rem=")]
            w = f"ok {t[0]} {t[1]} {val}"
        else:
            w = d
        if r != w:
            out.oracle_failures.append({"op": ops[k], "observed": r[:300], "expected": w[:300], "key": ops[k][:100],
                                        "what": f"{meta[k][0]}: reply parser does not return exactly what the variant's own packet type decodes"})
    # at the exchange level: an acknowledgement (80 00) whose BODY is a complete, valid reply packet of the command. The only
    # packets received are that acknowledgement and the real replies; the body must not surface as a reply of its own.
    sops, swant = [], []
    for sq, enum, sin in G.sequences(spec):
        if sq["name"].endswith("WriteFile"):
            continue
        once, finals = sq["kind"] == "once", sq["finals"]
        letters = [x for grp in G.alphabet(spec, g, rng, enum, reps=2) for x in grp]
        fin = [x for x in letters if once or x[2] in finals]
        non = [x for x in letters if not once and x[2] not in finals]
        cmd = G.command(spec, g, rng, sin)
        for body in [x[0] for x in letters]:
            for ack in (bytes([0x80, 0x00, len(body)]) + body, bytes([0x80, 0x00, 0xff, len(body), 0]) + body):
                good = ([rng.choice(non)] if non and rng.random() < 0.5 else []) + [rng.choice(fin)]
                sops.append(f"seq {sq['name']} {cmd.hex()} " + ",".join(i.hex() for i in [ack] + [x[0] for x in good]))
                ev, _ = G.expected_events(cmd, len(ack), good, finals, once)
                swant.append(" / ".join(ev + ["end"]))
    simpl, smodel = ctx.pair(sops)
    out.compare("seq(ack with body)", sops, simpl, smodel)
    out.evaluations += len(sops)
    for o, r, w in zip(sops, simpl, swant):
        out.count("ack-with-body")
        out.nontrivial.add(o)
        if r != w:
            out.oracle_failures.append({"op": o[:400], "observed": r[:400], "expected": w[:400], "key": o[:200],
                                        "what": "an acknowledgement carrying a body is not consumed as ONE packet: its body is taken for a reply (or the exchange fails)"})
    # at the packet reader: a reply delivered in pieces with long silences (31 s, 61 s) at a cut inside the header, the length or the
    # body is still dispatched on ITS control field — never on bytes from the middle of the packet
    rops, plain = [], []
    for e in enums:
        for v in e["variants"]:
            sv = spec["by_name"][v["ty"]]
            for _ in range(2):
                try:
                    b = R.encode(spec, sv, g.struct(sv, rng.choice([0.0, 0.5])))
                except R.NotRepresentable:
                    continue
                if len(b) < 4 or len(b) > 300:
                    continue
                for cutp in sorted({1, 2, 3, min(4, len(b) - 1), len(b) // 2, len(b) - 1}):
                    for pause in (31, 61):
                        rops.append(f"read@{pause} {e['name']} {C.hexs(b[:cutp])}|{C.hexs(b[cutp:])}")
                        plain.append(f"read {e['name']} {C.hexs(b)}")
    rimpl, rmodel = ctx.pair(rops)
    pimpl = ctx.harness(plain)
    out.compare("read(pauses)", rops, rimpl, rmodel)
    out.evaluations += len(rops) * 2
    for o, r, w in zip(rops, rimpl, pimpl):
        out.count("reader-with-silences")
        out.nontrivial.add(o)
        if r != w:
            out.oracle_failures.append({"op": o[:300], "observed": r[:300], "expected": w[:300], "key": o[:200],
                                        "what": "a reply delivered in two pieces with a long silence in between is not dispatched like the same reply delivered at once"})
    out.exhaustive = True
    out.rule = ("all reply enums x all 65,536 (class, instr) pairs with an empty body and as a bare two-byte input without length byte; for control fields inside the reply set also valid bodies of every variant of the enum and random bodies "
                "(thorough: a valid body for every pair); inputs shorter than two bytes. Oracle: outside the reply set => error; inside => identical to the variant type's own zvt_deserialize. "
                "At the exchange level, for every sequence: an acknowledgement 80 00 whose body is a complete valid reply packet (short and extended length form) followed by the real replies — the body never surfaces as a reply. "
                "At the packet reader: two canonical packets per variant, cut at 6 positions, 31 s / 61 s of silence at the cut: same outcome as delivered at once. "
                "non-trivial = ops whose control field is in the reply set")
    out.samples = [ops[10], ops[1551], {"op": dec_ops[3][:120], "impl": dec_impl[3][:200]}]
