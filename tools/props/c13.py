"""C13 — tagged fields: any order accepted, duplicates and missing fields reported."""
import itertools, os, random, shutil
from .. import common as C, structs as S, valgen as V, refcodec as R, labgen as L

LEAN_MODULES = ["ZvtVerif.Properties.C13", "ZvtVerif.Properties.C13S"]
TRANSLATED = {"structs"}      # translated tables this property consumes (a translator problem elsewhere does not break its tie)
ASSUMPTIONS = ["canonical value domain of DESIGN.md §5.1", "a Vec field's consecutive elements form one group"]


def frame(s, body):
    if s["ctrl"] is None:
        return body
    return bytes(s["ctrl"]) + R.length_prefix("adpu", body) + body


def is_optional(ty):
    return ty["k"] in ("opt", "vec", "bytes")


def default_of(layout, ty):
    k = ty["k"]
    if k == "opt":
        return None
    if k == "vec":
        return []
    return None


def top_level_mutations(layout, structs, rng, per, max_perm, add):
    """permutations / duplicates / removed mandatory groups / foreign tags for the tagged fields of every struct of `structs`"""
    for s in structs:
        sty = {"k": "struct", "name": s["name"]}
        # positional fields must precede the tagged ones for the tagged part to be a suffix of the body
        fields = s["fields"]
        first_tagged = next(i for i, f in enumerate(fields) if f["tag"] is not None)
        if any(f["tag"] is None for f in fields[first_tagged:]):
            continue
        tags = {f["tag"] for f in fields if f["tag"] is not None}
        foreign_pool = [t for t in list(range(0, 255)) + [0x1f01, 0x1f7e, 0xff33] if t not in tags and t not in (0x1f, 0xff) and not any((tt >> 8) == t for tt in tags if tt > 255)]
        g = V.Gen(layout, rng)
        made = 0
        tries = 0
        while made < per and tries < per * 5:
            tries += 1
            v = g.struct(s, rng.choice([0.0, 0.1, 0.3, 0.6]))
            if V.fits(layout, s, v) is None:
                continue
            if any(f["tag"] is None and f["ty"]["k"] == "opt" and v[f["name"]] is None for f in fields):
                # an absent positional optional is only canonical w.r.t. the bytes that follow it; rearranging them leaves the domain
                for f in fields:
                    if f["tag"] is None and f["ty"]["k"] == "opt" and v[f["name"]] is None:
                        v[f["name"]] = g.value(f, f["ty"]["t"])
                if V.fits(layout, s, v) is None:
                    continue
            made += 1
            pos = b"".join(R.field_bytes(layout, f, f["ty"], v[f["name"]]) for f in fields[:first_tagged])
            groups = []   # (field, bytes)
            for f in fields[first_tagged:]:
                gb = R.field_bytes(layout, f, f["ty"], v[f["name"]])
                if gb:
                    groups.append((f, gb))
            canon = pos + b"".join(gb for _, gb in groups)
            shown = V.show(layout, sty, v)
            ok_line = f"ok {shown} rem=- reenc={C.hexs(frame(s, canon))}"
            n = len(groups)
            # --- permutations
            if n <= max_perm:
                perms = list(itertools.permutations(range(n)))
                if made > 6 and n > 3:
                    perms = rng.sample(perms, min(len(perms), 24))
            else:
                perms = [tuple(rng.sample(range(n), n)) for _ in range(24)] + [tuple(reversed(range(n)))]
            for p in perms:
                add(s, pos + b"".join(groups[i][1] for i in p), ok_line, f"perm{min(n, 7)}")
            # --- duplicates: a second copy of group i at every non-adjacent position
            for i, (f, gb) in enumerate(groups):
                for j in range(n + 1):
                    if f["ty"]["k"] == "vec" and j in (i, i + 1):
                        continue      # adjacent elements of a Vec belong to the same group
                    seq = [x[1] for x in groups]
                    seq.insert(j, gb)
                    add(s, pos + b"".join(seq), f"err duplicateTag:{f['tag']}", "duplicate")
            # --- missing mandatory fields: every non-empty subset (<= 3 mandatory fields) removed
            mand = [i for i, (f, _) in enumerate(groups) if not is_optional(f["ty"])]
            for r in range(1, len(mand) + 1):
                for sub in itertools.combinations(mand, r):
                    seq = [x[1] for i, x in enumerate(groups) if i not in sub]
                    miss = sorted(groups[i][0]["tag"] for i in sub)
                    add(s, pos + b"".join(seq), "err missing:" + ",".join(map(str, miss)), "missing")
            # --- a tag the type does not know, before group j
            if foreign_pool and not (s["fields"][-1]["length"] == "empty" and False):
                for j in range(n + 1):
                  # the filler-looking values 00 and FE, and a random one; bare (directly followed by the next group) and with bytes behind
                  for u, extra in [(x, e) for x in ([0x00] if 0 in foreign_pool else []) + [rng.choice(foreign_pool)] for e in (0, rng.randint(1, 5))]:
                    junk = (bytes([u]) if u < 256 else bytes([u >> 8, u & 255])) + bytes(rng.randrange(256) for _ in range(extra))
                    seq = [x[1] for x in groups]
                    rest = junk + b"".join(seq[j:])
                    body = pos + b"".join(seq[:j]) + rest
                    # expected: the value of the groups before j, everything from the foreign tag on handed back;
                    # or the missing-fields error if a mandatory field lies behind the foreign tag
                    v2 = dict(v)
                    miss = []
                    for f, _ in groups[j:]:
                        if is_optional(f["ty"]):
                            v2[f["name"]] = default_of(layout, f["ty"])
                        else:
                            miss.append(f["tag"])
                    # mandatory fields that were absent from the start cannot occur: v is canonical
                    if miss:
                        exp = "err missing:" + ",".join(map(str, sorted(miss)))
                    else:
                        canon2 = pos + b"".join(seq[:j])
                        exp = f"ok {V.show(layout, sty, v2)} rem={C.hexs(rest)} reenc={C.hexs(frame(s, canon2))}"
                    add(s, body, exp, "foreign")

WHAT = {"duplicate": "a tag occurring twice is not rejected as a duplicate naming that tag",
        "missing": "absent mandatory tagged fields are not all named (sorted) in the error",
        "foreign": "an unknown tag disturbs fields already decoded / is not handed back with the bytes following it"}


def lab_structs(seed, thorough, plain_names=False):
    rng = random.Random(seed * 104729 + 13)
    return L.generate(rng, 80 if thorough else 30, tag_heavy=True, plain_names=plain_names)


def lab_binaries():
    from . import c12 as C12
    return os.path.join(C12.LAB, "target/debug/derive_lab"), os.path.join(C.LEAN, ".lake/build/bin/labdriver")


def build_lab(structs):
    """translate + compile the generated structs with the working-tree macro and build the schema-interpreter driver for them"""
    from . import c12 as C12
    tschema, err = C12.build_lab(structs)
    if err:
        return "translator failed on the lab source: " + err
    shutil.copyfile(os.path.join(C.REPO, "Cargo.lock"), os.path.join(C12.LAB, "Cargo.lock"))
    rc, o, e = C.run(["cargo", "build", "--offline"], cwd=C12.LAB)
    if rc != 0:
        return "generated well-formed structs must compile: " + e[-1200:]
    rc, o, e = C.run(["lake", "build", "labdriver"], cwd=C.LEAN)
    if rc != 0:
        return "labdriver: " + (o + e)[-600:]
    return None


def lab_family(ctx, out, thorough):
    """the same families for USER-DEFINED structs (the macro is what C13 is about, not the shipped packets): tag-heavy random structs
    whose numbers include confusable ones (XX / 1FXX / FFXX with the same XX; numbers differing in one high bit)"""
    structs, tops = lab_structs(ctx.seed, thorough)
    err = build_lab(structs)
    if err:
        out.disagreements.append({"family": "derive_lab (C13)", "op": "build the generated structs", "impl": err, "model": ""})
        # search on: the same structs with neutral field names (a field name captured by the macro's own locals is a compile error)
        structs, tops = lab_structs(ctx.seed, thorough, plain_names=True)
        if build_lab(structs):
            return
        ctx.lab_plain_names = True
    layout = R.load_layout({"structs": structs})
    rng = random.Random(ctx.seed + 77)
    ops, want, kinds = [], [], []

    def add(s, body, expected, kind):
        if len(body) > 65535:
            return
        ops.append(f"dec {s['name']} {C.hexs(frame(s, body))}")
        want.append(expected)
        kinds.append("lab-" + kind)

    cand = [layout["by_name"][n] for n in tops if any(f["tag"] is not None for f in layout["by_name"][n]["fields"])]
    top_level_mutations(layout, cand, rng, 12 if thorough else 5, 4, add)
    hb, db = lab_binaries()
    impl = C.run_lines(hb, ops, shards=C.NCPU)
    model = C.run_lines(db, ops, shards=C.NCPU)
    out.compare("dec(lab: permuted/duplicated/pruned/spliced)", ops, impl, model)
    out.evaluations += len(ops)
    n_conf = sum(1 for s in cand if len({f["tag"] & 0xff for f in s["fields"] if f["tag"] is not None}) < len([f for f in s["fields"] if f["tag"] is not None]))
    out.distribution["lab structs"] = len(cand)
    out.distribution["lab structs with numbers sharing their low byte"] = n_conf
    for o, r, w, kd in zip(ops, impl, want, kinds):
        out.count(kd)
        out.nontrivial.add(o)
        if r != w:
            i = next((j for j in range(min(len(r), len(w))) if r[j] != w[j]), min(len(r), len(w)))
            sdef = layout["by_name"][o.split()[1]]
            out.oracle_failures.append({"op": o, "observed": "…" + r[max(0, i - 80):i + 160], "expected": "…" + w[max(0, i - 80):i + 160], "key": o[:160],
                                        "what": f"user-defined struct {sdef['name']} with tagged fields {[hex(f['tag']) for f in sdef['fields'] if f['tag'] is not None]}: "
                                                + WHAT.get(kd[4:], "tagged fields in a different order do not decode to the same value")})


def prepare_replay(ctx):
    """ops on `lab::` structs go to the regenerated lab binaries, everything else to harness and driver"""
    structs, _ = lab_structs(ctx.seed, ctx.tier == "thorough")
    if build_lab(structs):
        structs, _ = lab_structs(ctx.seed, ctx.tier == "thorough", plain_names=True)
        build_lab(structs)
    hb, db = lab_binaries()

    def runner(ops):
        lab = [o for o in ops if " lab::" in o]
        rest = [o for o in ops if " lab::" not in o]
        ri, rm = ctx.pair(rest) if rest else ([], [])
        li, lm = (C.run_lines(hb, lab), C.run_lines(db, lab)) if lab else ([], [])
        a, b = iter(zip(ri, rm)), iter(zip(li, lm))
        res = [next(b) if " lab::" in o else next(a) for o in ops]
        return [x for x, _ in res], [y for _, y in res]
    return runner


def run(ctx, out):
    layout = S.load_schema(ctx.schema)
    rng = ctx.rng
    thorough = ctx.search_tier == "thorough"
    per = 300 if thorough else 40
    max_perm = 6 if thorough else 5
    ops, want, kinds = [], [], []

    def add(s, body, expected, kind):
        if len(body) > 65535:
            return
        ops.append(f"dec {s['name']} {C.hexs(frame(s, body))}")
        want.append(expected)
        kinds.append(kind)

    structs = [s for s in layout["structs"] if any(f["tag"] is not None for f in s["fields"])]
    top_level_mutations(layout, structs, rng, per, max_perm, add)
    # --- the same faults one to three nesting levels down: inside a struct held in a tagged (optional) field of the enclosing type.
    # The error of the nested decoder must surface; the enclosing field must not silently read as absent.
    tagged_suffix = S.tagged_suffix
    sites = lambda t, v, depth: S.sites(layout, t, v, depth)
    wrap = lambda path, inner_body: S.wrap(layout, path, inner_body)

    n_nested = 0
    for s in structs:
        g = V.Gen(layout, rng)
        for _ in range(per // 2):
            v = g.struct(s, rng.choice([0.0, 0.1, 0.3]))
            if V.fits(layout, s, v) is None:
                continue
            for path, u, uv in sites(s, v, 3):
                if not tagged_suffix(u):
                    continue
                if any(f["tag"] is None and f["ty"]["k"] == "opt" and uv[f["name"]] is None for f in u["fields"]):
                    continue        # an absent positional optional is canonical only w.r.t. what follows it
                upos, groups = S.groups_of(layout, u, uv)
                n = len(groups)
                muts = []
                # the groups of the nested container in another order (every group in turn first; reversed; a random order)
                if n >= 2 and V.fits(layout, s, v) is not None:
                    canon_full = frame(s, R.body(layout, s, v))
                    okl = f"ok {V.show(layout, {'k': 'struct', 'name': s['name']}, v)} rem=- reenc={C.hexs(canon_full)}"
                    orders = [list(range(k, n)) + list(range(k)) for k in range(1, n)] + [list(reversed(range(n))), rng.sample(range(n), n)]
                    for o in orders:
                        if o != list(range(n)):
                            muts.append((upos + b"".join(groups[i][1] for i in o), okl, "nested-perm"))
                for i, (f, gb) in enumerate(groups):
                    for j in range(n + 1):
                        if not (f["ty"]["k"] == "vec" and j in (i, i + 1)):
                            seq = [x[1] for x in groups]
                            seq.insert(j, gb)
                            muts.append((upos + b"".join(seq), f"err duplicateTag:{f['tag']}", "nested-duplicate"))
                mand = [i for i, (f, _) in enumerate(groups) if not is_optional(f["ty"])]
                for r in range(1, len(mand) + 1):
                    for sub in itertools.combinations(mand, r):
                        seq = [x[1] for i, x in enumerate(groups) if i not in sub]
                        miss = sorted(groups[i][0]["tag"] for i in sub)
                        muts.append((upos + b"".join(seq), "err missing:" + ",".join(map(str, miss)), "nested-missing"))
                for mb, exp, kd in (muts if len(muts) <= 16 else rng.sample(muts, 16)):
                    body = wrap(path, mb)
                    if body is not None:
                        add(s, body, exp, kd)
                        n_nested += 1
    # --- the date-time container (tag 34: date 1F0E + time 1F0F, decoded by hand-written code, not by the derive macro): every sequence
    # of up to 4 elements over {date, time, another date, another time, unknown tag 1F10, unknown tag 45}
    rp = layout["by_name"].get("packets::tlv::ReceiptPrintoutCompletion")
    if rp is not None:
        el = {"D": bytes.fromhex("1f0e0420230405"), "T": bytes.fromhex("1f0f03123456"), "d": bytes.fromhex("1f0e0419991231"), "t": bytes.fromhex("1f0f03000000"),
              "F": bytes.fromhex("1f1003123456"), "f": bytes.fromhex("450100")}
        val = {"D": 20230405, "d": 19991231, "T": 123456, "t": 0}
        for n in range(0, 5):
            for seq in itertools.product("DTdtFf", repeat=n):
                body = b"".join(el[c] for c in seq)
                date = time = None
                exp = None
                rest = b""
                for i, c in enumerate(seq):
                    if c in "Ff":
                        rest = b"".join(el[x] for x in seq[i:])
                        break
                    if c in "Dd":
                        if date is not None:
                            exp = "err duplicateTag:7950"; break
                        date = val[c]
                    else:
                        if time is not None:
                            exp = "err duplicateTag:7951"; break
                        time = val[c]
                if exp is None:
                    if date is None or time is None:
                        exp = "err incomplete"
                    else:
                        canon = b"\x34\x0d" + R.tag_bytes(0x1f0e) + b"\x04" + R.bcd(date).rjust(4, b"\0") + R.tag_bytes(0x1f0f) + b"\x03" + R.bcd(time).rjust(3, b"\0")
                        exp = f"ok {{terminal_id=none device_information=none date_time=(some dt:{date}:{time})}} rem={C.hexs(rest)} reenc={C.hexs(canon)}"
                ops.append(f"dec {rp['name']} {C.hexs(bytes([0x34]) + R.ber_len(len(body)) + body)}")
                want.append(exp)
                kinds.append("date-time-container")
    impl, model = ctx.pair(ops)
    out.compare("dec(permuted/duplicated/pruned/spliced)", ops, impl, model)
    out.evaluations = len(ops)
    for o, r, w, kd in zip(ops, impl, want, kinds):
        out.count(kd)
        out.nontrivial.add(o)
        if r != w:
            i = next((j for j in range(min(len(r), len(w))) if r[j] != w[j]), min(len(r), len(w)))
            out.oracle_failures.append({"op": o, "observed": "…" + r[max(0, i - 80):i + 160], "expected": "…" + w[max(0, i - 80):i + 160], "key": o[:160],
                                        "what": {"duplicate": "a tag occurring twice is not rejected as a duplicate naming that tag",
                                                 "missing": "absent mandatory tagged fields are not all named (sorted) in the error",
                                                 "date-time-container": "date-time container: date and time in either order are not accepted / a repeated or absent element is not reported / an unknown element changes the decoded value",
                                                 "nested-perm": "the tagged fields of a nested container in a different order do not decode to the same value",
                                                 "nested-duplicate": "a tag occurring twice inside a nested container is not rejected as a duplicate naming that tag",
                                                 "nested-missing": "mandatory tagged fields absent from a nested container are not reported (sorted) in the error",
                                                 "foreign": "an unknown tag disturbs fields already decoded / is not handed back with the bytes following it"}.get(kd, "tagged fields in a different order do not decode to the same value")})
    lab_family(ctx, out, thorough)
    out.rule = (f"canonical values of the {len(structs)} types with tagged fields ({per} each): all permutations of the encoded tagged-field groups up to {max_perm} present groups (24 sampled above / after the 6th value), "
                "a duplicate of every group at every non-adjacent position, every non-empty subset of mandatory groups removed, a foreign tag (00 and a random unknown number, each bare and followed by random bytes) spliced in before every group; other orders, duplicates and removed mandatory groups also inside containers one to three nesting levels down (reached through present tagged fields). "
                "The hand-written date-time container (tag 34): all 1 555 sequences of up to 4 elements over {date, time, second date, second time, two unknown tags}. The first four families again on 30 (thorough: 80) randomly generated USER-DEFINED structs compiled with the working-tree derive macro: mostly tagged, half of the fields mandatory, numbers that differ only in their prefix byte (XX / 1FXX / FFXX) or in one high bit. Expected outcomes computed from the value alone; implementation = model = expectation. non-trivial = distinct inputs")
    out.samples = [ops[0][:200], {"op": ops[len(ops)//2][:160], "impl": impl[len(ops)//2][:200], "kind": kinds[len(ops)//2]}]
