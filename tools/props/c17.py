"""C17 — scalar, text and tag encodings round-trip over their whole domain."""
from .. import common as C

LEAN_MODULES = ["ZvtVerif.Properties.C17"]
NEEDS_RELEASE = True
TRANSLATED = set()      # translated tables this property consumes (a translator problem elsewhere does not break its tie)
ASSUMPTIONS = ["usize is 64 bit", "python's cp437 codec is the independent reference for the CP437 repertoire"]
WIDTH = {"u8": 1, "u16": 2, "u32": 4, "u64": 8, "usize": 8}


def bcd_ref(n):
    s = str(n) if n else ""
    if len(s) % 2:
        s = "0" + s
    return bytes(int(s[i]) * 16 + int(s[i + 1]) for i in range(0, len(s), 2))


def bcd_val(b):
    v = 0
    for x in b:
        hi, lo = x >> 4, x & 15
        v = v * 100 + hi * 10 + lo if lo != 15 else v * 10 + hi
    return v


def bcd_boundary(w):
    """BCD digit strings around the largest value of a w-byte integer: the maximum and its neighbours, and every way of reaching
    / passing it with a final F-padded digit (…d F) or a final digit pair"""
    top = 256 ** w
    out = set()
    for d in range(-3, 120):
        v = top - 1 + d
        out.add(bcd_ref(v))
        s = str(v)
        if len(s) % 2:
            out.add(bytes(int(s[i]) * 16 + (int(s[i + 1]) if i + 1 < len(s) else 15) for i in range(0, len(s), 2)))
    for base in ((top - 1) // 10, (top - 1) // 10 - 1, (top - 1) // 10 + 1, (top - 1) // 100, (top - 1) // 100 + 1):
        for last in range(16):
            for pad in ("f", "0", "9", "ff"):
                s = str(base) + "%x" % last + pad
                if len(s) % 2:
                    s = "0" + s
                out.add(bytes.fromhex(s))
    return sorted(out)


def tag_representable(t):
    return (t < 256 and t not in (0x1f, 0xff)) or (t >> 8) in (0x1f, 0xff)


def run(ctx, out):
    rng = ctx.rng
    thorough = ctx.search_tier == "thorough"
    ops, want = [], []

    def add(op, expected=None):
        ops.append(op)
        want.append(expected)

    # ---- integers: u8/u16 exhaustively, wider at digit-count / byte boundaries + random
    vals = {"u8": list(range(256)), "u16": list(range(65536))}
    for ty, w in (("u32", 4), ("u64", 8), ("usize", 8)):
        top = 256 ** w
        s = {0, 1, top - 1, top - 2, top // 2}
        for k in range(1, 21):
            for d in (-1, 0, 1):
                v = 10 ** k + d
                if 0 <= v < top:
                    s.add(v)
        for k in range(1, w):
            for d in (-1, 0, 1):
                s.add(256 ** k + d)
        for _ in range(4000 if thorough else 600):
            s.add(rng.randrange(top) >> rng.randrange(0, 8 * w))
        vals[ty] = sorted(s)
    for ty, vs in vals.items():
        w = WIDTH[ty]
        for v in vs:
            add(f"enc.en dflt {ty} {v}", "ok " + C.hexs(v.to_bytes(w, "little")))
            add(f"enc.en be {ty} {v}", "ok " + C.hexs(v.to_bytes(w, "big")))
            add(f"enc.en bcd {ty} {v}", "ok " + C.hexs(bcd_ref(v)))
            tail = bytes([v & 255]) if v % 3 == 0 else b""
            add(f"enc.de dflt {ty} {C.hexs(v.to_bytes(w, 'little') + tail)}", f"ok {v} rem={C.hexs(tail)}")
            add(f"enc.de be {ty} {C.hexs(v.to_bytes(w, 'big') + tail)}", f"ok {v} rem={C.hexs(tail)}")
            add(f"enc.de bcd {ty} {C.hexs(bcd_ref(v))}", f"ok {v} rem=-")
            out.nontrivial.add((ty, v))
        # truncated integers
        for k in range(w):
            add(f"enc.de dflt {ty} {C.hexs(bytes(k))}", "err incomplete")
            add(f"enc.de be {ty} {C.hexs(bytes(k))}", "err incomplete")
    # ---- BCD decoding of arbitrary digit strings incl. F nibbles and overflow, every length 0..11
    nibs = [0, 1, 5, 9, 0xf, 0xa]
    for ty, w in WIDTH.items():
        top = 256 ** w
        cases = set()
        for ln in range(0, 12):
            for _ in range(400 if thorough else 60):
                b = bytes((rng.choice(nibs) << 4) | rng.choice(nibs) for _ in range(ln))
                cases.add(b)
            cases.add(bytes([0x99] * ln))
            cases.add(bytes([0x00] * ln))
            if ln:
                cases.add(bytes([0x12] * (ln - 1) + [0x3f]))
        # around the maximum of the type
        cases.update(bcd_boundary(w))
        if ty == "u8":
            cases.update(bytes([a]) for a in range(256))
            cases.update(bytes([a, b]) for a in range(256) for b in range(256))
        for b in sorted(cases):
            v = bcd_val(b)
            add(f"enc.de bcd {ty} {C.hexs(b)}", f"ok {v} rem=-" if v < top else "err incomplete")
            out.nontrivial.add((ty, "bcd", b))
    # ---- tags: all 65536 values, both encodings
    for t in range(65536):
        if tag_representable(t):
            enc = bytes([t >> 8, t & 255]) if (t >> 8) in (0x1f, 0xff) else bytes([t])
            add(f"enc.en dflt tag {t}", "ok " + C.hexs(enc))
            add("enc.de dflt tag " + C.hexs(enc + bytes([7])), f"ok {t} rem=07")
            out.nontrivial.add(("tag", t))
        else:
            add(f"enc.en dflt tag {t}", None)
        add(f"enc.en be tag {t}", "ok " + C.hexs(bytes([t >> 8, t & 255])))
        add(f"enc.de be tag {C.hexs(bytes([t >> 8, t & 255]))}", f"ok {t} rem=-")
        add(f"enc.de dflt tag {C.hexs(bytes([t >> 8, t & 255]))}", None)
    for b in (b"", b"\x1f", b"\xff"):
        add(f"enc.de dflt tag {C.hexs(b)}", "err incomplete")
    # ---- CP437: every byte in every position of short strings (trailing NUL is stripped by the decoder)
    for pos in range(3):
        for x in range(256):
            b = bytearray(b"AzB"[: pos + 1])
            b[pos] = x
            b = bytes(b) + (b"" if pos == 2 else b"!")
            text = b.decode("cp437").rstrip("\0")
            add(f"enc.de dflt str {C.hexs(b)}", f"ok s:{C.hexs(text.encode())} rem=-")
            if not b.decode("cp437").endswith("\0"):
                add(f"enc.en dflt str {C.hexs(b.decode('cp437').encode())}", "ok " + C.hexs(b))
            out.nontrivial.add(("cp437", pos, x))
    # every PAIR of bytes (65,536), and byte strings that happen to be well-formed UTF-8 (2-, 3-, 4-byte sequences, mixed with ASCII):
    # CP437 text is CP437 text whatever else its bytes could be read as
    def cp(b):
        text = b.decode("cp437").rstrip("\0")
        add(f"enc.de dflt str {C.hexs(b)}", f"ok s:{C.hexs(text.encode())} rem=-")
        if not b.decode("cp437").endswith("\0"):
            add(f"enc.en dflt str {C.hexs(b.decode('cp437').encode())}", "ok " + C.hexs(b))
    for x in range(256):
        for y in range(256):
            cp(bytes([x, y]))
    for _ in range(3000 if thorough else 400):
        u = "".join(rng.choice(["a", "Z", " ", "ä", "ö", "ß", "é", "€", "中", "😀", "\u0080", "\u07ff", "\u0800", "\uffff", "\U0010ffff", chr(rng.randint(0x80, 0x2fff))]) for _ in range(rng.randint(1, 6)))
        cp(u.encode("utf-8"))
        out.nontrivial.add(("cp437-utf8-shaped", u))
    add("enc.en dflt str e282ac", "panic")     # the euro sign is not in the repertoire: unwrap() on the encoder side
    # ---- hex strings up to 64 bytes
    for ln in list(range(0, 20)) + [31, 32, 33, 63, 64]:
        for _ in range(30 if thorough else 6):
            b = bytes(rng.randrange(256) for _ in range(ln))
            add(f"enc.de hex str {C.hexs(b)}", f"ok s:{C.hexs(b.hex().encode())} rem=-")
            add(f"enc.en hex str {C.hexs(b.hex().encode())}", "ok " + C.hexs(b))
            out.nontrivial.add(("hex", b))
    for x in range(256):
        add(f"enc.de hex str {x:02x}", f"ok s:{C.hexs(('%02x' % x).encode())} rem=-")
    # ---- receipt number encoding
    for n in list(range(0, 10000, 7 if not thorough else 1)) + [9999, 0xffff]:
        enc = bytes([0xff, 0xff]) if n == 0xffff else bcd_ref(n)
        add(f"enc.en prrn usize {n}", "ok " + C.hexs(enc))
        padded = bytes(2 - len(enc)) + enc
        add("enc.de prrn usize " + C.hexs(padded + bytes([0x99])), f"ok {n} rem=99")
        out.nontrivial.add(("prrn", n))
    for b in (b"", b"\x12", b"\xff"):
        add(f"enc.de prrn usize {C.hexs(b)}", "err incomplete")
    # ---- utf8 / custom
    for s in ("", "abc", "GER-APP-v2.0.9", "é€😀", "\0x"):
        add(f"enc.en utf8 str {C.hexs(s.encode())}", "ok " + C.hexs(s.encode()))
        add(f"enc.de utf8 str {C.hexs(s.encode())}", f"ok s:{C.hexs(s.encode())} rem=-")
    for b in (b"\xff", b"\xc0\x80", b"\xed\xa0\x80", b"\xf4\x90\x80\x80", b"\xe2\x82", b"\x80"):
        add(f"enc.de utf8 str {C.hexs(b)}", "err incomplete")

    impl, model = ctx.pair(ops)
    from ..flow import history_check, release_check
    history_check(ctx, out, ops, impl, "value encoding")
    release_check(ctx, out, ops, impl, "value encoding")
    out.compare("enc", ops, impl, model)
    out.evaluations += len(ops)
    for o, r, w in zip(ops, impl, want):
        out.count(" ".join(o.split()[:3]) + ":" + r.split()[0])
        if w is not None and r != w:
            out.oracle_failures.append({"op": o, "observed": r, "expected": w, "key": o,
                                        "what": "encoding does not round-trip / digits that do not fit are not an error"})
        elif r in ("panic", "died", "hang") and o.startswith("enc.de"):
            out.oracle_failures.append({"op": o, "observed": r, "expected": "ok … | err …", "key": o, "what": "decoder panics"})
    out.exhaustive = True
    out.rule = ("u8/u16 and all 65536 tags exhaustively (encode, decode with trailer, BCD); u32/u64/usize at every decimal digit-count and byte boundary plus random; "
                "BCD digit strings of every length 0..11 with digit/F/A nibbles and the 120 values around each type's maximum; all 256 CP437 bytes at 3 positions, all 65 536 byte pairs and byte strings that are well-formed UTF-8 as CP437 text; hex up to 64 bytes; receipt numbers; "
                "each compared implementation = model = independent python reference. non-trivial = distinct (type, value) / byte strings")
    out.samples = [ops[5], ops[400001], {"op": ops[-20], "impl": impl[-20], "model": model[-20]}]
