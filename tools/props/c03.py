"""C03 — shipped packets use the wire layout the ZVT / Feig specification assigns."""
from .. import common as C, structs as S, valgen as V

LEAN_MODULES = ["ZvtVerif.Properties.C03"]
TRANSLATED = {"structs"}      # translated tables this property consumes (a translator problem elsewhere does not break its tie)
ASSUMPTIONS = ["spec/layout.json and Spec/Layout.lean are the frozen, hand-reviewed specification table (DESIGN.md §5.4)",
               "canonical value domain of DESIGN.md §5.1"]


def run(ctx, out):
    spec = S.load_spec()
    thorough = ctx.search_tier == "thorough"
    diffs = S.layout_diff(ctx.schema, spec)
    out.distribution["layout_differences"] = len(diffs)
    if diffs:
        out.notes.append({"layout_differences": diffs[:10]})
    extra = [d["struct"] for d in diffs if d.get("what") == "not in specification table"]
    if extra:
        out.notes.append({"types_without_specification_entry (not judged by C03; generic theorems and C01/C02 apply)": extra})
    changed = sorted({d["struct"] for d in diffs if d.get("what") != "not in specification table"})
    # users of changed structs are affected too
    def uses(s, name, depth=0):
        def t(ty):
            return (ty["k"] == "struct" and (ty["name"] == name or uses(spec["by_name"][ty["name"]], name, depth + 1))) or (ty["k"] in ("opt", "vec") and t(ty["t"]))
        return depth < 6 and any(t(f["ty"]) for f in s["fields"])
    affected = set(changed)
    for n in changed:
        for s in spec["structs"]:
            if uses(s, n):
                affected.add(s["name"])
    per = 2500 if thorough else 150
    ops, want, names = [], [], []
    ref_ops, ref_want = [], []
    def add(s, v, b):
        # the Lean twin of the reference encoder (Spec/RefCodec.lean, the one the theorem `layout_implemented` is about)
        ref_ops.append(f"ref {s['name']} {V.show(spec, {'k': 'struct', 'name': s['name']}, v)}")
        ref_want.append("ok " + C.hexs(b))
        ops.append(f"dec {s['name']} {C.hexs(b)}")
        want.append(f"ok {V.show(spec, {'k': 'struct', 'name': s['name']}, v)} rem=- reenc={C.hexs(b)}")
        names.append(s["name"])
    for s, v, b in S.gen_cases(spec, ctx.rng, per):
        add(s, v, b)
    # constructive search: many more values for the structs whose layout differs (every field set)
    if affected:
        for s, v, b in S.gen_cases(spec, ctx.rng, 1500, names=affected):
            add(s, v, b)
    for s, v, b in S.gen_cases(spec, ctx.rng, 30 if thorough else 5, big=True):
        add(s, v, b)
    o2, w2 = S.apdu_switch(spec, ctx.rng)
    ops += o2; want += w2; names += ["apdu-switch"] * len(o2)
    impl, model = ctx.pair(ops)
    from ..flow import history_check
    history_check(ctx, out, ops, impl, "packet decoder")
    out.compare("dec(ref-encoded)", ops, impl, model)
    # reference encoder in python (oracle of this check) = reference encoder in Lean (subject of the theorem)
    ref_got = ctx.driver(ref_ops)
    out.compare("refcodec.py = Spec/RefCodec.lean", ref_ops, ref_want, ref_got)
    out.distribution["reference_encoder_twins_compared"] = len(ref_ops)
    out.evaluations = len(ops) + len(ref_ops)
    for o, r, w, n in zip(ops, impl, want, names):
        out.count(n)
        out.nontrivial.add(o)
        if r != w:
            out.oracle_failures.append({"op": o, "observed": r[:400], "expected": w[:400], "key": o[:160],
                                        "what": f"{n}: bytes assembled from the specification layout do not decode into the named fields / do not re-encode identically"})
    out.rule = (f"canonical values of all {len(spec['structs'])} types generated from the FROZEN specification table ({per} per type + maxima), encoded by the independent python reference encoder "
                "(tag, length style, value encoding, class/instr/APDU length), then decoded and re-encoded by the Rust code: field names, values, empty remainder and identical bytes required; "
                "every value is also encoded by the Lean reference encoder (Spec/RefCodec.lean, proved equal to the model of the serialiser: layout_implemented) and must give the same bytes as the python one; the translated table is diffed against the frozen table and differing structs get 1500 extra values. non-trivial = distinct packets")
    out.samples = [ops[7][:300], {"op": ops[len(ops)//3][:160], "impl": impl[len(ops)//3][:300]}]
