"""C08 — commit releases exactly the unused part of the pre-authorisation."""
from .. import common as C, structs as S, clientgen as G
from .c07 import run_histories, tok

LEAN_MODULES = ["ZvtVerif.Properties.C08", "ZvtVerif.Properties.Traffic"]
TRANSLATED = {"structs", "sequences", "errors"}      # translated tables this property consumes (a translator problem elsewhere does not break its tie)
ASSUMPTIONS = ["fault-free transport; requests are compared byte for byte with packets assembled by the independent reference encoder from the frozen specification table",
               "64-bit usize"]
CP437 = [bytes([b]).decode("cp437") for b in range(1, 256)]


def run(ctx, out):
    spec = S.load_spec()
    P = G.Packets(spec)
    rng = ctx.rng
    thorough = ctx.search_tier == "thorough"
    U64 = 2 ** 64 - 1
    cases = []
    n_limit = 0
    n_multi = 0
    pre_amounts = [0, 1, 99, 100, 2500, 10 ** 6, 10 ** 11, 10 ** 12 - 1] + [rng.randrange(10 ** 12) for _ in range(6)]
    n_random = 40 if thorough else 6
    for pre in pre_amounts:
        finals = {0, 1, pre, max(0, pre - 1), pre + 1, pre * 2 + 7, 2 ** 32, 2 ** 62, 2 ** 63 - 1, 2 ** 63, 2 ** 63 + 1, U64 - 1294, U64 - 1, U64}
        finals |= {rng.randrange(U64 + 1) for _ in range(n_random)} | {rng.randrange(pre + 1) for _ in range(n_random)}
        for final in sorted(finals):
            cur = rng.choice([752, 826, 978])
            token = "".join(rng.choice(CP437) for _ in range(rng.randint(0, 12))) if rng.random() < 0.7 else rng.choice(["", "x", "A" * 60])
            receipt = rng.choice([1, 9, 10, 99, 100, 999, 1000, 9999, rng.randint(1, 9999)])
            cfg = G.default_cfg(amount=pre, currency=cur, password=rng.choice([0, 1, 123456, 999999]))
            st = dict(result_code=0)
            if rng.random() < 0.8:
                st.update(amount=rng.choice([0, 1, final % 10 ** 12, 10 ** 12 - 1]), trace_number=rng.choice([0, 7, 999999]),
                          date=rng.choice([0, 101, 517, 1231, 9999]), time=rng.choice([0, 1, 134530, 235959, 999999]),
                          terminal_id=rng.choice([0, 1, 52523535, 99999999]))
            for k in list(st):
                if rng.random() < 0.15 and k != "result_code":
                    del st[k]
            resv = [P.intermediate(), P.status(receipt_no=receipt, result_code=0), P.completion()]
            if rng.random() < 0.35:
                # the terminal reports a receipt number, then another one (the one the reservation completes under),
                # then a status without receipt number: the latest reported number is the reservation's
                other = (receipt % 9999) + 1
                resv = [P.status(receipt_no=other, result_code=0), P.intermediate(), P.status(receipt_no=receipt, result_code=0),
                        P.status(result_code=0), P.completion()]
            commit_reply = [P.status(**st), P.print_line("receipt"), P.completion()]
            if rng.random() < 0.4:
                # several status packets within the partial reversal: earlier ones report other figures (with / without a receipt
                # number), the LAST one is what the summary reproduces — whether or not it carries a receipt number
                def other():
                    o = dict(result_code=0, amount=rng.choice([0, 1, 1234, 10 ** 12 - 1]), trace_number=rng.choice([1, 8, 123456]),
                             date=rng.choice([102, 1130]), time=rng.choice([2, 101010]), terminal_id=rng.choice([3, 12345678]))
                    if rng.random() < 0.6:
                        o["receipt_no"] = rng.choice([receipt, (receipt % 9999) + 1])
                    for kk in list(o):
                        if rng.random() < 0.2 and kk != "result_code":
                            del o[kk]
                    return o
                last = dict(st)
                if rng.random() < 0.3:
                    last["receipt_no"] = receipt
                commit_reply = [P.status(**other()), P.intermediate()] + ([P.status(**other())] if rng.random() < 0.4 else []) + \
                               [P.status(**last), P.print_line("receipt"), P.completion()]
                n_multi += 1
            queues = {"0622": [resv],
                      "0623": [commit_reply]}
            if rng.random() < 0.4:
                # the end-of-day job that follows the commit reports the DAY's totals in a status information of its own (as the
                # recorded terminal trace does): the summary handed back is the partial reversal's, not the day's
                day = dict(result_code=0, amount=rng.choice([958, 0, 10 ** 12 - 1]), trace_number=rng.choice([2, 424242]), date=rng.choice([103, 1231]),
                           time=rng.choice([3, 235958]), terminal_id=rng.choice([4, 87654321]))
                queues["0650"] = [[P.completion()], [P.intermediate(), P.status(**day), P.print_line("totals"), P.completion()]]
            calls = ["new", f"begin:{tok(token)}", f"commit:{tok(token)}:{final}"]
            if rng.random() < 0.3:
                # the card is read first and reports its own pre-authorisation limit (tag 1F0B), below / at / above the configured
                # amount: the reservation is still made for the configured amount, which is what the commit releases from
                limit = rng.choice([0, 1, max(0, pre - 1), pre // 2, pre, pre + 1, 1000, 10000])
                uid = bytes(rng.randrange(1, 256) for _ in range(rng.randint(4, 10))).hex()
                queues["06c0"] = [[P.intermediate(), P.status(result_code=0, tlv={"uuid": uid, "maximum_pre_autorisation": limit})]]
                calls.insert(1, "readcard")
                n_limit += 1
            cases.append((cfg, calls, queues, None, None))
    # two reservations; the commit of the first is REFUSED with an abort that names the second one's receipt number (and, for
    # comparison, its own / FFFF / none): the token is closed, a repeated commit sends nothing, and the second token's commit
    # still goes against its own receipt for its own unused amount
    for pre in (2500, 10 ** 6):
        for final in (0, 1000, pre, pre + 5):
            for named in (42, 17, 0xffff, None):
                cfg = G.default_cfg(max=2, amount=pre)
                q = {"0622": [[P.status(receipt_no=17, result_code=0), P.completion()], [P.status(receipt_no=42, result_code=0), P.completion()]],
                     "0623": [[P.pr_abort(0xb8, named)], [P.status(result_code=0, amount=final), P.completion()], [P.status(result_code=0, amount=5), P.completion()]]}
                calls = ["new", f"begin:{tok('A')}", f"begin:{tok('B')}", f"commit:{tok('A')}:{final}", f"commit:{tok('A')}:{final}", f"commit:{tok('B')}:{max(0, final - 1)}"]
                cases.append((cfg, calls, q, None, None))
    ops, impl = run_histories(ctx, out, cases, "begin + commit")
    out.count("commit with several status packets", n_multi)
    out.count("card read first (own limit)", n_limit)
    out.rule = ("pre-authorisation amounts {0, 1, 99, 100, 2500, 10^6, 10^11, 10^12-1, random} x final amounts {0, 1, equal, off-by-one either side, 2^32, 2^62, 2^63-1, 2^63, 2^63+1, u64::MAX-1294, u64::MAX-1, u64::MAX, random}; "
                "currencies SEK/GBP/EUR, CP437 tokens of length 0..60, receipt numbers 1..9999 (also reported twice with different values: the latest counts), status fields over their ranges / absent; in 40 % of the commits the terminal sends two or three status packets with different figures, with and without receipt number (the last one counts); in 30 % of the histories the card is read first and reports its own pre-authorisation limit (tag 1F0B) below / at / above the configured amount. Also: two reservations, the first commit refused with an abort naming the OTHER reservation's receipt, then repeated. The reservation and partial-reversal requests on the wire must equal, byte for byte, "
                "the packets assembled from the specification (amount = max(0, pre - final), currency, receipt, AC + token) and the summary must reproduce the reported fields. implementation = model = specification")
    out.samples = [ops[3][:400], {"op": ops[-1][:200], "impl": impl[-1][:300]}]
