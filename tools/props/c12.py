"""C12 — the derive macro implements the declared layout for any user-defined struct."""
import json, os, random, shutil, time
from .. import common as C, structs as S, valgen as V, refcodec as R, labgen as L

LEAN_MODULES = ["ZvtVerif.Properties.C12"]
TRANSLATED = {"structs"}      # translated tables this property consumes (a translator problem elsewhere does not break its tie)
ASSUMPTIONS = ["well-formedness conditions of DESIGN.md §5.2 (positional before tagged, distinct representable tags, delimiting/exact rules)",
               "the generated crate is compiled with the working-tree zvt_derive / zvt_builder"]
LAB = os.path.join(C.VERIF, "derive_lab")


def build_lab(structs):
    open(os.path.join(LAB, "src/lab.rs"), "w").write(L.rust_source(structs))
    os.makedirs(C.GEN, exist_ok=True)
    rc, out, err = C.run([os.path.join(C.VERIF, "extract/target/release/extract"), "--lab", os.path.join(LAB, "src/lab.rs"),
                          os.path.join(C.LEAN, "ZvtVerif/LabGenerated.lean"), os.path.join(C.GEN, "lab_schema.json"), os.path.join(LAB, "src/gen_dispatch.rs")])
    if rc != 0:
        return None, "translator failed on the lab source: " + (out + err)[-500:]
    # the generated dispatch refers to parse/read/seq helpers that the lab binary does not have: keep only `dec`
    p = os.path.join(LAB, "src/gen_dispatch.rs")
    src = open(p).read()
    src = src[: src.index("pub fn parse(")].replace("use crate::codec::{run_dec, run_parse, Describe};", "use crate::codec::run_dec;")
    open(p, "w").write(src)
    return json.load(open(os.path.join(C.GEN, "lab_schema.json"))), None


def norm_schema(structs):
    return {s["name"]: {"ctrl": s["ctrl"], "fields": [(f["name"], json.dumps(f["ty"], sort_keys=True), f["tag"], f["length"], f["encoding"]) for f in s["fields"]]} for s in structs}


def run(ctx, out):
    rng = random.Random(ctx.seed * 7919 + 12)
    thorough = ctx.search_tier == "thorough"
    n_top = 600 if thorough else 150
    structs, tops = L.generate(rng, n_top)
    t0 = time.time()
    tschema, err = build_lab(structs)
    if err:
        out.oracle_failures.append({"op": "extract --lab", "observed": err, "expected": "translation", "key": "lab-extract", "what": "translator self-check failed"})
        return
    shutil.copyfile(os.path.join(C.REPO, "Cargo.lock"), os.path.join(LAB, "Cargo.lock"))
    rc, o, e = C.run(["cargo", "build", "--offline"], cwd=LAB)
    if rc != 0:
        out.disagreements.append({"family": "derive_lab build", "op": "cargo build derive_lab", "impl": e[-1500:], "model": "generated well-formed structs must compile"})
        # search on with neutral field names (same structs otherwise): a field name captured by the macro's own locals is a compile error
        rng = random.Random(ctx.seed * 7919 + 12)
        structs, tops = L.generate(rng, n_top, plain_names=True)
        tschema, err = build_lab(structs)
        if err:
            return
    # translator self-check: what the translator reads from the generated source == what the generator meant
    a, b = norm_schema(structs), norm_schema(tschema["structs"])
    diff = [n for n in a if a[n] != b.get(n)] + [n for n in b if n not in a]
    out.distribution["translator_selfcheck_structs"] = len(a)
    if diff or tschema.get("problems"):
        out.disagreements.append({"family": "translator self-check", "op": "extract(lab.rs)", "impl": json.dumps(b.get(diff[0]) if diff else tschema.get("problems"))[:300],
                                  "model": json.dumps(a.get(diff[0]) if diff else None)[:300]})
    shutil.copyfile(os.path.join(C.REPO, "Cargo.lock"), os.path.join(LAB, "Cargo.lock"))
    rc, o, e = C.run(["cargo", "build", "--offline"], cwd=LAB)
    if rc != 0:
        out.disagreements.append({"family": "derive_lab build", "op": "cargo build derive_lab", "impl": e[-1500:], "model": "generated well-formed structs must compile"})
        return
    rc, o, e = C.run(["lake", "build", "labdriver"], cwd=C.LEAN)
    if rc != 0:
        out.disagreements.append({"family": "labdriver build", "op": "lake build labdriver", "impl": (o + e)[-800:], "model": ""})
        return
    out.notes.append(f"lab: {len(structs)} structs ({n_top} top level) generated, translated, compiled in {time.time() - t0:.0f} s")
    layout = R.load_layout({"structs": structs})
    ops, want, kinds = [], [], []
    per = 60 if thorough else 25
    vr = random.Random(ctx.seed + 5)
    for s, v, b in S.gen_cases(layout, vr, per, names=set(tops)):
        shown = V.show(layout, {"k": "struct", "name": s["name"]}, v)
        ops.append(f"dec {s['name']} {C.hexs(b)}")
        want.append(f"ok {shown} rem=- reenc={C.hexs(b)}")
        kinds.append("canonical")
        # malformed: truncations and a few substitutions (implementation = model only)
        if len(ops) % 5 == 0 and len(b) > 0:
            for k in (range(len(b)) if len(b) <= 300 else range(0, len(b), len(b) // 100)):
                ops.append(f"dec {s['name']} {C.hexs(b[:k])}"); want.append(None); kinds.append("truncation")
            for _ in range(6):
                m = bytearray(b); m[vr.randrange(len(m))] = vr.choice([0, 0x1f, 0x81, 0x82, 0xff, 0x99, vr.randrange(256)])
                ops.append(f"dec {s['name']} {bytes(m).hex()}"); want.append(None); kinds.append("substitution")
    t1 = time.time()
    impl = C.run_lines(os.path.join(LAB, "target/debug/derive_lab"), ops, shards=C.NCPU)
    t2 = time.time()
    model = C.run_lines(os.path.join(C.LEAN, ".lake/build/bin/labdriver"), ops, shards=C.NCPU)
    out.notes.append(f"generated decoders: {t2 - t1:.0f} s, schema interpreter: {time.time() - t2:.0f} s for {len(ops)} inputs")
    out.compare("dec(lab)", ops, impl, model)
    out.evaluations = len(ops)
    for o, r, w, kd in zip(ops, impl, want, kinds):
        out.count(kd)
        if w is None:
            if r in ("panic", "died", "hang"):
                out.oracle_failures.append({"op": o, "observed": r, "expected": "ok … | err …", "key": o[:200], "what": "generated decoder panics / does not return"})
            continue
        out.nontrivial.add(o)
        if r != w:
            i = next((j for j in range(min(len(r), len(w))) if r[j] != w[j]), min(len(r), len(w)))
            name = o.split()[1]
            sdef = layout["by_name"][name]
            out.oracle_failures.append({"op": o, "observed": "…" + r[max(0, i - 60):i + 160], "expected": "…" + w[max(0, i - 60):i + 160], "key": o[:200],
                                        "what": f"generated struct {name} {json.dumps([(f['rust_ty'], f['tag'], f['length'], f['encoding']) for f in sdef['fields']])[:300]}: generated (de)serialiser does not implement the declared layout / is not an inverse pair"})
    out.rule = (f"{n_top} randomly generated top-level struct definitions (up to 8 fields, nesting depth 3; positional and tagged fields via zvt_bmp / zvt_tlv, control fields, Option / Vec, nested structs, "
                f"every length style and value encoding) compiled with the working-tree derive macro; {per} canonical values each, encoded by the reference encoder from the GENERATOR's description of the struct, "
                "decoded + re-encoded by the generated code and by the schema interpreter (model); truncations/substitutions implementation = model; translator self-check: extract(generated source) = generator's schema. "
                "non-trivial = distinct canonical packets")
    out.samples = [ops[0][:300], {"struct": structs[-1]}]


def prepare_replay(ctx):
    """regenerate and rebuild the lab of this seed; replayed ops go to the lab binary and the lab driver"""
    rng = random.Random(ctx.seed * 7919 + 12)
    structs, tops = L.generate(rng, 600 if ctx.tier == "thorough" else 150)
    build_lab(structs)
    shutil.copyfile(os.path.join(C.REPO, "Cargo.lock"), os.path.join(LAB, "Cargo.lock"))
    rc, _, _ = C.run(["cargo", "build", "--offline"], cwd=LAB)
    if rc != 0:
        rng = random.Random(ctx.seed * 7919 + 12)
        structs, tops = L.generate(rng, 600 if ctx.tier == "thorough" else 150, plain_names=True)
        build_lab(structs)
        C.run(["cargo", "build", "--offline"], cwd=LAB)
    C.run(["lake", "build", "labdriver"], cwd=C.LEAN)
    return lambda ops: (C.run_lines(os.path.join(LAB, "target/debug/derive_lab"), ops), C.run_lines(os.path.join(C.LEAN, ".lake/build/bin/labdriver"), ops))
